"""C16 — fractional time shifting is exact Lagrange interpolation (dsp.lagrange_taps / timeshift / df_timeshift)."""
from __future__ import annotations

import math
from fractions import Fraction
from functools import lru_cache
from typing import Any, Dict, List, Optional

import numpy as np

from .. import common as C

PROP = "C16"
GEN_REGIONS: List[str] = ["Dsp", "TimeShift", "DfWrappers", "GlobalState"]
THEOREMS = {
    "SpecKitV.Lemmas.Taps": ["tap_eq_lagrange", "taps_sum_one", "taps_reproduce_poly", "tap_at_zero"],
    # the taps as translated from dsp.lagrange_taps on every run ARE the model taps, hence the Lagrange weights
    "SpecKitV.Props.TapsGen": ["gen_taps_eq_model", "gen_taps_eq_lagrange", "gen_taps_sum_one", "gen_taps_reproduce_poly", "gen_tap_at_zero"],
    "SpecKitV.Lemmas.TimeShiftPaths": ["clampIdx_lt", "shiftConst_interior", "paths_agree_interior", "shiftConst_is_interpolant",
                                       "shiftConst_reproduces_poly", "shiftConst_integer", "shiftConst_zero", "shiftConst_const"],
    # dsp.timeshift as translated on every run (Gen.timeshift: order check, trivial cases, floor/fraction split, both paths with their NumPy
    # calls as stated contracts) IS Model.shiftConst / Model.shiftVar at every sample for every shift; hence the theorems above hold of the code
    "SpecKitV.Props.TimeShiftGen": ["gen_timeshift_even_order", "gen_timeshift_tiny", "gen_timeshift_zero", "gen_timeshift_size_mismatch", "gen_timeshift_negative_order",
                                    "gen_timeshift_const_eq_model", "gen_timeshift_var_eq_model",
                                    "gen_const_interior", "gen_const_is_interpolant", "gen_const_reproduces_poly", "gen_const_integer",
                                    "gen_zero_identity", "gen_const_constant", "gen_paths_agree_interior", "gen_var_is_interpolant",
                                    "gen_df_samples", "gen_df_order", "gen_df_numeric_kinds", "gen_df_column_noop", "gen_df_column_eq_model"],
    # region DfWrappers (vk/regions/df_wrappers.py -> Gen/DfWrappers.lean): dsp.df_timeshift translated WHOLE (validation, zero-shift identity,
    # df.copy(), column resolution, the column loop with pandas' update-or-append stores, truncate) on a value model of frames in a Python object
    # store, proved equal to the hand model Model/DfWrappers.lean for every input, and the specification theorems about it
    "SpecKitV.Props.DfWrappersGen": ["gen_df_timeshift_eq_model", "gen_df_timeshift_spec", "gen_df_timeshift_input_untouched", "gen_df_timeshift_zero",
                                     "gen_df_timeshift_truncate_false_eq_true", "gen_df_timeshift_rejects_iff", "gen_df_timeshift_column_interpolant",
                                     "gen_df_timeshift_defaults", "DfSpec.rows_trunc", "DfSpec.rows_empty", "DfAux.col?_setCol", "DfAux.names_setCol"],
    # no state outlives a call in the files this property is anchored in (no module/class-level containers, memoisers, mutable defaults) and the
    # decorators are exactly the audited ones (region GlobalState, re-scanned from the current source each run)
    "SpecKitV.Props.GlobalStateGen": ["GlobalStateGen.gen_globalState_dsp"],
}
CONTRACTS = [
    "np.pad(mode='edge') holds the end values; np.pad(default) pads zeros; np.correlate(a, v, 'valid')[n] = sum_k a[n+k] v[k]; "
    "sliding_window_view(x, w)[i] = x[i:i+w]; np.einsum('ij,ij->i') is the row-wise dot product; np.clip / np.floor as documented "
    "(Model.TimeShift models their composition; tied to the real code by the `tshift` correspondence)",
    "pandas: df.copy(), column assignment and Series.to_numpy() for the df_timeshift wrapper (not modelled in Lean; checked by the oracle only)",
    # region TimeShift (lean/SpecKitV/Np/TimeShift.lean): the NumPy calls of dsp.timeshift as Lean DEFINITIONS, executed against NumPy each run
    "NpTS.padEdge a l r = np.pad(a, (l, r), mode='edge'): first/last value held (NumPy raises on an empty a; the definition reads a[0])",
    "NpTS.padZero a l r = np.pad(a, (l, r)) / np.pad(a, w): zeros outside",
    "NpTS.slice a lo hi = a[lo:hi]: negative bounds count from the end, bounds clamped to 0..len, empty if hi <= lo",
    "NpTS.correlateValid a v = np.correlate(a, v, mode='valid'): c[n] = sum_k a[n+k] v[k], len(a)-len(v)+1 outputs (operands swapped and the "
    "result reversed if v is longer); NpTS.convolveValid = the same with v reversed; NpTS.reverse a = a[::-1]",
    "NpTS.clip x lo hi = np.clip on integers = minimum(maximum(x, lo), hi)",
    "NpTS.slidingWindow a w = np.lib.stride_tricks.sliding_window_view(a, w): row i is a[i:i+w], len(a)-w+1 rows",
    "NpTS.take rows idx = rows[idx] (integer fancy indexing along axis 0, negative index from the end; NumPy raises outside the range)",
    "NpTS.einsumRowDot A B = np.einsum('ij,ij->i', A, B): row-wise dot product",
    "where NumPy / Python raises, the translated statement is `none`: NpTS.indexRejects n i (a[i] outside -n..n-1), NpTS.takeRejects (fancy index "
    "out of range), NpTS.padRejects (negative width; mode='edge' extending an empty array), NpTS.einsumRejects (operand shapes differ), empty operand "
    "of np.correlate, window longer than the array / negative, negative np.repeat count, .item() of size != 1, elementwise operands of different "
    "lengths (size-1 broadcasting not modelled), lagrange_taps with halfp <= 0; exception type and message are not modelled",
    "NpTS.repeat x n = np.repeat(x, n); NpTS.all v = np.all(v); NpTS.item a = a.item() (size-1 array); NpTS.ofScalar x: a scalar result / a Python "
    "float seen through np.asarray is the array of size 1",
    "np.floor(x) = float of the integer floor, x.astype(int) = truncation toward zero (translated as RealLike.trunc (ofInt (floor x)); proved = floor); "
    "np.arange(n)[i] = i; elementwise NumPy arithmetic on equal-length arrays is the scalar operation per index; a raised exception is `none`",
    "lagrange_taps(shift_fracs, halfp) applied to a vector is Gen.lagrange_taps (Gen/Dsp.lean, one shift) per element: the function is elementwise "
    "along the shift axis (established by the Dsp region's scalarisation, exercised by the `gentaps` / `gentshift` runs)",
    # region DfWrappers (lean/SpecKitV/Np/DfWrappers.lean): pandas / Python operations as Lean DEFINITIONS on a value model of frames, executed
    # against the real pandas on every run (driver ops gdfts / gdfdefaults)
    "NpDf.Frame / Col / Heap: a DataFrame is an ordered list of columns (label, dtype.kind, one value per row; values of non-numeric columns are "
    "opaque tokens) + row count + row index (opaque labels), held as a MUTABLE object of a Python object store; `x = df` aliases, NpDf.copy = df.copy() "
    "allocates a new object with the same value; isinstance(df, pd.DataFrame) = NpDf.Heap.isFrame; frames with duplicate / non-string labels and "
    "complex columns are outside the model",
    "NpDf.Frame.empty = df.empty (no rows or no columns); Frame.names = df.columns.tolist(); Frame.hasCol = `c in df.columns`; NpDf.getitem = df[c] "
    "(KeyError = none), .kind = df[c].dtype.kind, .vals = df[c].to_numpy() / .values; NpDf.kindIn k [chars] = `k in \"chars\"`",
    "NpDf.setitem / Frame.setCol = `df[c] = ndarray`: pandas' order rule (an existing label keeps its position and takes the new values and dtype, a new "
    "label is appended at the end), positional (no index alignment), ValueError unless len(values) == len(df); the stored dtype kind is 'f' "
    "(NpDf.resultKind: timeshift's pass-through / early-return branches return the input's dtype instead — accepted by the differential run)",
    "NpDf.iloc / Frame.rows = df.iloc[lo:hi]: a NEW frame object with the rows lo'..hi'-1 under Python's slice rule on len(df) (NpTS.sliceBound), every "
    "column and the row index sliced alike, labels / dtypes / order kept",
    "NpDf.PyFloat = a Python float argument that may be nan / +-inf (np.isfinite); NpDf.PyTrunc = the dynamic type of `truncate` (None | bool | int incl. "
    "NumPy integers | other): isinstance(x, bool), isinstance(x, (int, np.integer)) (true for bools), int(x); int() of an infinite float (OverflowError) is not modelled",
    "NpDf.forEach = a Python for-loop over a list whose body may update the object store or raise; `timeshift(col, seconds*fs)` inside df_timeshift is a CALL "
    "of the translated Gen.timeshift (region TimeShift) with the default order read from timeshift's signature",
]
ASSUMPTIONS = [
    "theorems are over the reals for the hand model Model.TimeShift (tap, shiftConst, shiftVar); the model is tied to dsp.py structurally: "
    "lagrange_taps and timeshift are translated to Lean on every run and proved equal to the model (Props/TapsGen, Props/TimeShiftGen), and by "
    "correspondence; floating-point rounding is covered by the stated forward tolerances, not by theorem",
    "the interpolation/polynomial claims are demanded only where the 2h-point stencil lies inside the record (as the property states); "
    "outside, only the integer-shift end-hold of the constant path is demanded; the zero-padded/clipped edge behaviour of the time-varying "
    "path is pinned down (translated code = Model.shiftVar at every sample, Props/TimeShiftGen) but no property claim is made about it",
    "df_timeshift is covered by the oracle (real pandas) AND, since region DfWrappers, translated whole and proved equal to the frame-level hand model "
    "(Props/DfWrappersGen: per-column values, column order, untouched columns, input not modified, zero-shift identity, truncate incl. truncate=False, "
    "exactly which inputs raise); the pandas operations enter as the stated contracts of Np/DfWrappers.lean",
    "|shift| is kept below 2^53 (np.floor(...).astype(int) is not meaningful beyond)",
]
RULE = ("taps: every half-length h=1..56 (all odd orders <= 111) x fractional parts d (0, dyadic k/64, random, near 0/1); "
        "shift cases: (h in {1,2,3,16(default),random,56}, record class, size incl. 0/1/2/2h-1/2h/2h+1/odd/even, shift class in "
        "{frac, negfrac, half, int, int_near, int_boundary, edge, huge, eps, dyadic, zero}); distinct by (check, h, N, shift class, shift); "
        "non-trivial = at least one interior stencil compared with a fractional shift, or an integer shift with held ends visible, "
        "or a DataFrame with selected+unselected+non-numeric columns; wrapper shift classes (generated records of up to ~5200 rows incl. an exactly "
        "sampled polynomial column, 15 sampling rates, both signs): long_rel / long_abs / long_frac / long_int (100..5000 samples, distance to an integer "
        "1e-7..1e-5 relative, 1e-4..1e-2 absolute, generic, none), tiny (1e-9..1e-6), small (1e-6..1e-2), near_int (k +- 1e-10..1e-3), beyond the record; "
        "loader: 2-3 files with different rates and shifts, rows identified by an untouched index column; "
        "long records (size-threshold regions): lengths c-1, c, c+1, c+17, 2c+3 around every block/chunk constant c mined from the current source of "
        "dsp.py, and always 70 001 / 200 003 / one random length in 66 000..300 000 (intensive / thorough: up to 2^22+7), both paths, orders {1,3,5,31}, "
        "integer / fractional / negative / longer-than-a-block shifts, drifting / alternating-integer / independent shift vectors, noise / int64 / exact "
        "integer-polynomial records, every interior sample compared; df_timeshift on frames of 70 001 (and c+17, 200 003) rows")

U = 2.0 ** -53
HMAX = 56
DSHIFT = 16.0      # >= 3 x max_{h<=56, d in [0,1]} sum_k |d l_k / dd|  (measured 2.0 (h=1) ... 4.8 (h=56))


def tolc(h: int) -> float:
    """forward bound factor for one output sample: computed taps carry a relative error <= ~h(ln h+3)u (< 600u for h <= 56; measured 43u),
    a 2h-term dot product adds 2h*u, the NumPy reference dot product another 2h*u, data rounding u: all relative to sum|tap_k data_k|"""
    return (16.0 * h + 1000.0) * U


# ---------------------------------------------------------------------------------------------------------------- exact references
@lru_cache(maxsize=4096)
def _exact_taps(h: int, num: int, den: int) -> tuple:
    m = 2 * h
    f = [num - x * den for x in range(-(h - 1), h + 1)]
    pre = [1] * (m + 1)
    for i in range(m):
        pre[i + 1] = pre[i] * f[i]
    suf = [1] * (m + 1)
    for i in range(m - 1, -1, -1):
        suf[i] = suf[i + 1] * f[i]
    qp = den ** (m - 1)
    out = []
    for k in range(m):
        n_ = pre[k] * suf[k + 1]
        d_ = math.factorial(k) * math.factorial(m - 1 - k) * (-1) ** (m - 1 - k) * qp
        out.append(n_ / d_)            # int/int true division is correctly rounded
    return tuple(out)


def exact_taps(h: int, d) -> np.ndarray:
    """correctly rounded Lagrange basis weights l_k(d) = prod_{m != k} (d - x_m)/(x_k - x_m) on the nodes x = -(h-1)..h, d exact rational"""
    fd = Fraction(d)
    return np.array(_exact_taps(h, fd.numerator, fd.denominator), dtype=np.float64)


def neville(xs: List[int], ys: List[Fraction], t: Fraction) -> Fraction:
    """value at t of the unique polynomial through (xs, ys): Neville's scheme in exact arithmetic (no Lagrange weights)"""
    p = list(ys)
    n = len(xs)
    for lvl in range(1, n):
        for i in range(n - lvl):
            p[i] = ((t - xs[i + lvl]) * p[i] + (xs[i] - t) * p[i + 1]) / (xs[i] - xs[i + lvl])
    return p[0]


_SELF_CHECKED = False


def self_check():
    """the oracle's own reference is cross-checked once against Neville interpolation (raises = infrastructure error, never a violation)"""
    global _SELF_CHECKED
    if _SELF_CHECKED:
        return
    for h in (1, 2, 3, 5):
        for d in (Fraction(0), Fraction(1, 3), Fraction(37, 64), Fraction(2 ** 53 - 1, 2 ** 53)):
            xs = list(range(-(h - 1), h + 1))
            ys = [Fraction((7 * i * i + 3 * i + 1) % 11 - 5) for i in range(2 * h)]
            want = neville(xs, ys, d)
            fd = Fraction(d)
            m = 2 * h
            got = Fraction(0)
            for k in range(m):
                w = Fraction(1)
                for j in range(m):
                    if j != k:
                        w *= (fd - xs[j]) / (xs[k] - xs[j])
                got += w * ys[k]
                if abs(float(w) - exact_taps(h, d)[k]) > 4 * U * abs(float(w)):
                    raise RuntimeError("C16 oracle self-check: exact_taps wrong")
            if got != want:
                raise RuntimeError("C16 oracle self-check: Lagrange form != Neville")
    _SELF_CHECKED = True


def split(s) -> tuple:
    """exact floor and fractional part of a float shift"""
    fs = Fraction(float(s))
    si = math.floor(fs)
    return si, fs - si


def interior_range(N: int, h: int, si: int) -> range:
    """samples n whose stencil n+si-(h-1) .. n+si+h lies inside 0..N-1"""
    lo = max(0, (h - 1) - si)
    hi = min(N - 1, N - 1 - h - si)
    return range(lo, hi + 1) if hi >= lo else range(0)


def interior_ref(x: np.ndarray, h: int, si: int, d) -> tuple:
    """(range, reference values, scale S = sum|tap_k x_k|, sound tolerance) of the degree-(2h-1) interpolant at n+si+d for the interior samples.
    tolerance = tolc(h)*S (rounding of taps, products, sums, reference) + DSHIFT*u*max|stencil| (the code rounds the fractional part
    shift-floor(shift) to a double, an absolute error <= u/2 in d, amplified by sum_k|l_k'(d)| <= 4.8 for h <= 56) + 4u|ref|"""
    N = x.size
    r = interior_range(N, h, si)
    if len(r) == 0:
        return r, np.zeros(0), np.zeros(0), np.zeros(0)
    t = exact_taps(h, d)
    W = np.lib.stride_tricks.sliding_window_view(x, 2 * h)
    lo0 = r[0] + si - (h - 1)
    Wr = W[lo0:lo0 + len(r)]
    ref = Wr @ t
    S = np.abs(Wr) @ np.abs(t)
    tol = tolc(h) * S + DSHIFT * U * np.abs(Wr).max(axis=1) + 4 * U * np.abs(ref)
    return r, ref, S, tol


def impl():
    from speckit import dsp
    return dsp


# ---------------------------------------------------------------------------------------------------------------- generators
SHIFT_CLASSES = ["frac", "negfrac", "half", "int", "int_near", "int_boundary", "edge", "huge", "eps", "dyadic", "zero"]
DATA_CLASSES = ["normal", "trend", "int", "const", "zeros", "spike", "list"]


def gen_shift(rng, N: int, h: int, cls: str) -> float:
    sg = -1.0 if rng.integers(0, 2) else 1.0
    if cls == "frac":
        return float(rng.uniform(-4, 4))
    if cls == "negfrac":
        return float(-rng.uniform(0.001, 0.999) - int(rng.integers(0, 4)))
    if cls == "half":
        return float(int(rng.integers(-5, 6)) + 0.5)
    if cls == "int":
        v = int(rng.integers(-(N + h + 3), N + h + 4))
        return float(v if v != 0 else 1)
    if cls == "int_near":
        return float(sg * int(rng.integers(1, h + 3)))
    if cls == "int_boundary":
        # around the two early returns of the constant path: i_max-1 < 0 <=> floor(s) < -(N+h-1);  i_min > N-1 <=> floor(s) > N+h-2
        b = [-(N + h) - 1, -(N + h), -(N + h) + 1, -(N + h) + 2, N + h - 3, N + h - 2, N + h - 1, N + h][int(rng.integers(0, 8))]
        return float(b) + float(rng.choice([0.0, 0.0, 0.5, 0.015625]))
    if cls == "edge":
        return float(sg * (max(N - h, 1) + rng.uniform(-2.5, 2.5)))
    if cls == "huge":
        return float(sg * [N + h + rng.uniform(0, 50), 1e6 + 0.25, float(N + 2 * h + 7), 3.0e9 + 0.5][int(rng.integers(0, 4))])
    if cls == "eps":
        return float([-1e-20, 1e-20, 2.0 ** -40, -2.0 ** -40, 3 - 2.0 ** -40, -2 + 2.0 ** -45, 1 - 2.0 ** -53, -1e-300][int(rng.integers(0, 8))])
    if cls == "dyadic":
        return float(int(rng.integers(-3 * 64, 3 * 64 + 1)) / 64.0)
    return 0.0


def gen_data(rng, N: int, cls: str):
    if cls == "normal":
        return rng.standard_normal(N)
    if cls == "trend":
        return rng.standard_normal(N) + float(rng.choice([10.0, 1e3])) + 0.37 * np.arange(N)
    if cls == "int":
        return rng.integers(-50, 51, size=N).astype(np.int64)
    if cls == "const":
        return np.full(N, float(rng.choice([1.0, -3.25, 1e6])))
    if cls == "zeros":
        return np.zeros(N)
    if cls == "spike":
        x = rng.standard_normal(N)
        if N:
            x[int(rng.integers(0, N))] = 1e6
        return x
    return rng.standard_normal(N).tolist()


def gen_hN(rng, i: int, big: bool) -> tuple:
    h = [1, 2, 3, 16, 16, int(rng.integers(1, HMAX + 1)), int(rng.integers(4, 30)), HMAX][i % 8]
    nmax = 400 if big else 160
    choices = [2, 3, 4, 5, 2 * h - 1, 2 * h, 2 * h + 1, 2 * h + 2, 2 * h + 9, int(rng.integers(2 * h + 3, 2 * h + nmax)),
               int(rng.integers(2 * h + 3, 2 * h + nmax)), int(rng.integers(2 * h + 3, 2 * h + nmax)), int(rng.integers(2, 2 * h + 2))]
    N = int(choices[int(rng.integers(0, len(choices)))])
    return h, max(N, 2)


def gen_varshifts(rng, N: int, h: int, mode: int) -> np.ndarray:
    if mode == 0:      # smooth small drift (the intended use)
        return 1.7 * np.sin(np.arange(N) * 0.11 + float(rng.uniform(0, 6))) + float(rng.uniform(-2, 2))
    if mode == 1:      # independent fractional, both signs
        return rng.uniform(-5, 5, N)
    if mode == 2:      # mixture: integers, halves, tiny fractions, large
        pool = np.array([0.0, 1.0, -1.0, 2.0, -3.0, 0.5, -0.5, 2.0 ** -40, -2.0 ** -40, -1e-20, float(N + 3 * h), -float(N + 3 * h), 1e6 + 0.5, -1e6 - 0.5,
                         0.25, -0.75, float(h), -float(h)])
        return pool[rng.integers(0, pool.size, N)]
    if mode == 3:      # dyadic
        return rng.integers(-4 * 64, 4 * 64 + 1, N) / 64.0
    return np.full(N, gen_shift(rng, N, h, str(rng.choice(["frac", "negfrac", "half", "dyadic"]))))


# ---------------------------------------------------------------------------------------------------------------- oracle checks
def viol(P: C.Part, what: str, sig: Dict[str, Any], rep: Dict[str, Any]):
    P.violations.append(C.Violation(what=what, signature=sig, replay=rep))


def check_taps(P: C.Part, h: int, ds: List[float]):
    """(1) lagrange_taps(d, h) = exact Lagrange weights on the nodes -(h-1)..h, for a vector of d (as the time-varying path calls it); sums = 1"""
    dsp = impl()
    rep = {"kind": "taps", "h": h, "ds": [float(d) for d in ds]}
    P.cases += 1
    try:
        T = np.asarray(dsp.lagrange_taps(np.array(ds, dtype=np.float64), h))
    except Exception as ex:
        viol(P, f"lagrange_taps raised {ex!r} for halfp={h}", {"check": "taps", "raises": True}, rep)
        return
    if T.shape != (len(ds), 2 * h):
        viol(P, f"lagrange_taps(halfp={h}, {len(ds)} shifts) has shape {T.shape}, expected {(len(ds), 2 * h)}", {"check": "taps", "shape": True}, rep)
        return
    for r, d in enumerate(ds):
        ex = exact_taps(h, d)
        tol = 1e-12 * np.abs(ex) + 1e-290       # per-tap relative forward bound (~600u) with an underflow floor
        err = np.abs(T[r] - ex)
        bad = np.nonzero(~(err <= tol))[0]
        if bad.size:
            k = int(bad[np.argmax((err - tol)[bad])]) if np.all(np.isfinite(err[bad])) else int(bad[0])
            viol(P, f"lagrange_taps(d={d!r}, halfp={h})[{k}] = {float(T[r][k])!r} but the Lagrange weight of node {k - (h - 1)} is {float(ex[k])!r} "
                    f"(|diff| {err[k]:.3g} > tol {tol[k]:.3g}; max|tap| {np.abs(ex).max():.3g})",
                 {"check": "taps", "h_ge_17": h >= 17, "abs_visible": bool(err[k] > 1e-11 * np.abs(ex).max())}, dict(rep, d=float(d), k=k))
            return
        ssum = float(np.sum(T[r]))
        stol = 1e-12 * float(np.abs(ex).sum())
        if not abs(ssum - 1.0) <= stol:
            viol(P, f"taps for d={d!r}, halfp={h} sum to {ssum!r}, not 1 (tol {stol:.3g})", {"check": "taps_sum"}, dict(rep, d=float(d)))
            return
        if d != 0.0:
            P.nontrivial.add(("taps", h, float(d)))
    if len(ds) > 1:        # a single-shift call (constant path) must give the same row
        T1 = np.asarray(dsp.lagrange_taps(np.array([ds[-1]], dtype=np.float64), h))
        if T1.shape != (1, 2 * h) or not np.all(np.abs(T1[0] - T[-1]) <= 1e-12 * np.abs(T[-1]) + 1e-290):
            viol(P, f"lagrange_taps row for d={ds[-1]!r}, halfp={h} depends on the other shifts in the call", {"check": "taps_vector"}, rep)
    P.hit("taps")


def call_shift(dsp, data, s, h: int, use_default: bool):
    if use_default and h == 16:
        return dsp.timeshift(data, s)
    return dsp.timeshift(data, s, order=2 * h - 1)


def check_const(P: C.Part, data, s, h: int, cls: str = "?", use_default: bool = False, s_kind: str = "float"):
    """constant path: (6) interior outputs = interpolant through the 2h surrounding samples at n+s; (3) integer shift = displacement with held
    ends at every sample; (4) zero shift = identity; (5) agreement with the time-varying path on interior stencils"""
    dsp = impl()
    x = np.asarray(data, dtype=np.float64)
    N = x.size
    sf = float(s)
    sarg: Any = {"float": sf, "int": int(sf) if sf == int(sf) else sf, "np0d": np.float64(sf), "arr1": np.array([sf])}[s_kind]
    rep = {"kind": "const", "data": np.asarray(data).tolist(), "int_data": bool(np.asarray(data).dtype.kind in "iu"), "s": sf, "h": h, "cls": cls,
           "use_default": use_default, "s_kind": s_kind}
    P.cases += 1
    P.hit(f"shift_{cls}")
    try:
        out = call_shift(dsp, data, sarg, h, use_default)
    except Exception as ex:
        viol(P, f"timeshift(size {N}, shift {sf!r}, order {2 * h - 1}) raised {ex!r}", {"check": "const", "raises": True}, rep)
        return
    out = np.asarray(out)
    if N <= 1:
        # size <= 1: the record is returned as is (a held end for any shift)
        ok = out.size == N and (N == 0 or float(out.reshape(-1)[0]) == float(x[0]))
        if not ok:
            viol(P, f"timeshift of a size-{N} record with shift {sf!r} returned {out!r}", {"check": "tiny"}, rep)
        P.hit("size<=1")
        return
    if out.shape != (N,):
        viol(P, f"timeshift(size {N}, shift {sf!r}, order {2 * h - 1}) returned shape {out.shape}", {"check": "const", "shape": True}, rep)
        return
    out = out.astype(np.float64)
    si, d = split(sf)
    amax = float(np.abs(x).max())
    if sf == 0.0:
        if not np.array_equal(out, x):
            n = int(np.nonzero(out != x)[0][0])
            viol(P, f"zero shift is not the identity: out[{n}] = {float(out[n])!r}, data[{n}] = {float(x[n])!r} (size {N}, order {2 * h - 1})", {"check": "zero"}, rep)
        P.hit("zero")
        return
    if d == 0:
        # integer shift: pure displacement, end values held, at EVERY sample
        exp = x[np.clip(np.arange(N) + si, 0, N - 1)]
        tol = tolc(h) * amax
        bad = np.nonzero(~(np.abs(out - exp) <= tol))[0]
        if bad.size:
            n = int(bad[0])
            where = "interior" if 0 <= n + si <= N - 1 else "held end"
            viol(P, f"integer shift {si}: out[{n}] = {float(out[n])!r} but data[clamp({n}+{si})] = {float(exp[n])!r} ({where}; size {N}, order {2 * h - 1})",
                 {"check": "integer", "where": where}, dict(rep, n=n))
            return
        P.hit("integer")
        if amax > 0 and (np.any(np.arange(N) + si < 0) or np.any(np.arange(N) + si > N - 1)):
            P.nontrivial.add(("integer", h, N, si))
    # interior samples: the interpolant
    r, ref, S, tol = interior_ref(x, h, si, d)
    if len(r):
        o = out[r[0]:r[-1] + 1]
        bad = np.nonzero(~(np.abs(o - ref) <= tol))[0]
        if bad.size:
            j = int(bad[np.argmax(np.abs(o - ref)[bad] / (tol[bad] + 1e-300))]) if np.all(np.isfinite(o[bad])) else int(bad[0])
            n = r[0] + j
            viol(P, f"timeshift(shift {sf!r}, order {2 * h - 1}, size {N}): out[{n}] = {float(o[j])!r} but the degree-{2 * h - 1} interpolant through "
                    f"data[{n + si - (h - 1)}..{n + si + h}] at {n}+({sf!r}) is {float(ref[j])!r} (tol {tol[j]:.3g})",
                 {"check": "interpolant", "path": "const", "negative": sf < 0, "integer": d == 0}, dict(rep, n=n))
            return
        P.hit("interior_compared", len(r))
        if d != 0 and amax > 0:
            P.nontrivial.add(("const", h, N, cls, sf))
    else:
        P.hit("no_interior")
    # the time-varying path with the same shift at every sample agrees on interior stencils
    if len(r):
        P.cases += 1
        try:
            ov = np.asarray(dsp.timeshift(data, np.full(N, sf), order=2 * h - 1), dtype=np.float64)
        except Exception as ex:
            viol(P, f"timeshift with a per-sample shift vector (all {sf!r}, size {N}, order {2 * h - 1}) raised {ex!r}", {"check": "var", "raises": True}, rep)
            return
        if ov.shape != (N,):
            viol(P, f"time-varying path returned shape {ov.shape} for size {N}", {"check": "var", "shape": True}, rep)
            return
        tol = 2 * tolc(h) * S
        dv = np.abs(ov[r[0]:r[-1] + 1] - out[r[0]:r[-1] + 1])
        bad = np.nonzero(~(dv <= tol))[0]
        if bad.size:
            n = r[0] + int(bad[0])
            viol(P, f"constant-shift path and time-varying path disagree at interior sample {n}: {float(out[n])!r} vs {float(ov[n])!r} "
                    f"(shift {sf!r}, order {2 * h - 1}, size {N}, tol {tol[int(bad[0])]:.3g})", {"check": "paths_agree"}, dict(rep, n=n))
            return
        P.hit("paths_agree")


def check_var(P: C.Part, data, shifts, h: int, mode: int = -1):
    """time-varying path: every sample whose own stencil is interior equals the interpolant at n + shifts[n]; no exception for any shift vector"""
    dsp = impl()
    x = np.asarray(data, dtype=np.float64)
    sv = np.asarray(shifts, dtype=np.float64)
    N = x.size
    rep = {"kind": "var", "data": np.asarray(data).tolist(), "shifts": sv.tolist(), "h": h, "mode": mode}
    P.cases += 1
    P.hit(f"var_mode_{mode}")
    try:
        out = np.asarray(dsp.timeshift(data, sv, order=2 * h - 1))
    except Exception as ex:
        viol(P, f"timeshift with a shift vector (size {N}, order {2 * h - 1}, shifts in [{float(sv.min())!r}, {float(sv.max())!r}]) raised {ex!r}",
             {"check": "var", "raises": True}, rep)
        return
    if N <= 1:
        return
    if out.shape != (N,):
        viol(P, f"time-varying path returned shape {out.shape} for size {N}", {"check": "var", "shape": True}, rep)
        return
    out = out.astype(np.float64)
    if np.all(sv == 0):
        if not np.array_equal(out, x):
            viol(P, f"all-zero shift vector is not the identity (size {N}, order {2 * h - 1})", {"check": "zero", "path": "var"}, rep)
        P.hit("zero_vec")
        return
    ncmp = 0
    for n in range(N):
        si, d = split(sv[n])
        lo = n + si - (h - 1)
        if lo < 0 or lo + 2 * h - 1 > N - 1:
            continue
        t = exact_taps(h, d)
        seg = x[lo:lo + 2 * h]
        ref = float(seg @ t)
        S = float(np.abs(seg) @ np.abs(t))
        tol = tolc(h) * S + DSHIFT * U * float(np.abs(seg).max()) + 4 * U * abs(ref)
        ncmp += 1
        if not abs(out[n] - ref) <= tol:
            viol(P, f"time-varying timeshift: out[{n}] = {float(out[n])!r} but the degree-{2 * h - 1} interpolant through data[{lo}..{lo + 2 * h - 1}] at "
                    f"{n}+({float(sv[n])!r}) is {ref!r} (tol {tol:.3g}; size {N})",
                 {"check": "interpolant", "path": "var", "negative": bool(sv[n] < 0), "integer": d == 0}, dict(rep, n=n))
            return
    P.hit("var_interior_compared", ncmp)
    if ncmp and np.abs(x).max() > 0:
        P.nontrivial.add(("var", h, N, mode, float(sv[0]), float(sv[N // 2])))


def cheb_pair(deg: int, x: Fraction, c1: Fraction) -> Fraction:
    """T_deg(x) + c1*T_{deg-1}(x), exact"""
    a, b = Fraction(1), x
    if deg == 0:
        return a
    for _ in range(deg - 1):
        a, b = b, 2 * x * b - a
    return b + c1 * a


def check_poly(P: C.Part, N: int, h: int, deg: int, s: float, c1n: int = 1, maxpts: int = 48):
    """(2) a polynomial of degree <= 2h-1 sampled on 0..N-1 is reproduced at n+s on every interior sample (no Lagrange formula in the reference:
    the expected value is the polynomial itself, evaluated exactly)"""
    dsp = impl()
    c1 = Fraction(c1n, 2)
    xs = [Fraction(2 * n - (N - 1), N + 1) for n in range(N)]
    data = np.array([float(cheb_pair(deg, xv, c1)) for xv in xs])
    rep = {"kind": "poly", "N": N, "h": h, "deg": deg, "s": float(s), "c1n": c1n}
    P.cases += 1
    try:
        out = np.asarray(dsp.timeshift(data, float(s), order=2 * h - 1), dtype=np.float64)
    except Exception as ex:
        viol(P, f"timeshift raised {ex!r} on polynomial data (size {N}, order {2 * h - 1}, shift {s!r})", {"check": "poly", "raises": True}, rep)
        return
    if out.shape != (N,):
        viol(P, f"timeshift returned shape {out.shape} for size {N}", {"check": "const", "shape": True}, rep)
        return
    si, d = split(s)
    r, _, S, tolv = interior_ref(data, h, si, d)
    if len(r) == 0:
        P.hit("poly_no_interior")
        return
    idx = list(r)
    if len(idx) > maxpts:
        step = len(idx) / maxpts
        idx = sorted({idx[int(i * step)] for i in range(maxpts)} | {idx[0], idx[-1]})
    fs = Fraction(float(s))
    for n in idx:
        exp = float(cheb_pair(deg, Fraction(2 * (n + fs) - (N - 1), N + 1), c1))
        tol = float(tolv[n - r[0]]) + 4 * U * abs(exp)
        if not abs(out[n] - exp) <= tol:
            viol(P, f"degree-{deg} polynomial not reproduced by order-{2 * h - 1} timeshift: out[{n}] = {float(out[n])!r}, p({n}+{s!r}) = {exp!r} "
                    f"(tol {tol:.3g}; size {N})", {"check": "poly", "deg_le_1": deg <= 1, "negative": s < 0}, dict(rep, n=n))
            return
    P.hit("poly_points", len(idx))
    if s != int(s):
        P.nontrivial.add(("poly", h, N, deg, float(s)))


def poly_record(N: int, deg: int, c1n: int) -> np.ndarray:
    """T_deg(x_n) + (c1n/2) T_{deg-1}(x_n) on x_n = (2n-(N-1))/(N+1), n = 0..N-1, each value correctly rounded (integer recurrence
    P_k = b^k T_k(a/b): P_k = 2 a P_{k-1} - b^2 P_{k-2}; same polynomial as cheb_pair)"""
    if deg == 0:
        return np.ones(N)
    b = N + 1
    a = np.array([2 * n - (N - 1) for n in range(N)], dtype=object)
    p0 = np.array([1] * N, dtype=object)
    p1 = a.copy()
    for _ in range(deg - 1):
        p0, p1 = p1, 2 * a * p1 - (b * b) * p0
    num = 2 * p1 + (c1n * b) * p0
    den = 2 * b ** deg
    return np.array([int(v) / den for v in num], dtype=np.float64)


def long_cols(spec) -> list:
    """columns of a generated (possibly long) frame, reproducible from the spec: 'p' polynomial of degree <= 31, 'a' noise + offset, 'w' random walk,
    'k' integers, 'label' strings (never numeric)"""
    N = int(spec["N"])
    r = np.random.default_rng(int(spec["dseed"]))
    cols = [["p", "f", poly_record(N, int(spec["deg"]), int(spec["c1n"]))],
            ["a", "f", r.standard_normal(N) + 2.0],
            ["w", "f", np.cumsum(r.standard_normal(N))],
            ["k", "i", r.integers(-20, 21, N)],
            ["label", "s", [f"r{j % 7}" for j in range(N)]]]
    return [cols[j] for j in r.permutation(len(cols))]


def build_df(spec):
    import pandas as pd
    cols = {}
    if "dseed" in spec:
        spec = dict(spec, cols=long_cols(spec))
    for name, kind, vals in spec["cols"]:
        if kind == "f":
            cols[name] = np.array(vals, dtype=np.float64)
        elif kind == "i":
            cols[name] = np.array(vals, dtype=np.int64)
        elif kind == "s":
            cols[name] = np.array(vals, dtype=object)
        else:
            cols[name] = pd.to_datetime(np.array(vals, dtype="int64"), unit="s")
    df = pd.DataFrame(cols)
    if spec.get("index0"):
        df.index = df.index + int(spec["index0"])
    return df


def check_df(P: C.Part, spec: Dict[str, Any]):
    """(7) df_timeshift(df, fs, seconds, columns): selected numeric columns are timeshift(col, seconds*fs) (default order), everything else untouched"""
    import pandas as pd
    dsp = impl()
    df = build_df(spec)
    df0 = df.copy(deep=True)
    fs, seconds, columns, inplace, suffix = spec["fs"], spec["seconds"], spec["columns"], spec["inplace"], spec["suffix"]
    rep = dict(spec, kind="df")
    tight = "dseed" in spec
    cls = spec.get("cls", "?")
    if tight:
        P.hit(f"dfshift_{cls}")
    P.cases += 1
    kw = {}
    if suffix is not None:
        kw["suffix"] = suffix
    sfx = suffix if suffix is not None else "_shifted"
    import logging
    logging.disable(logging.WARNING)       # the wrapper warns about every skipped non-numeric column
    try:
        res = dsp.df_timeshift(df, fs, seconds, columns=columns, inplace=inplace, **kw)
    except Exception as ex:
        logging.disable(logging.NOTSET)
        viol(P, f"df_timeshift(fs={fs!r}, seconds={seconds!r}, columns={columns!r}, inplace={inplace}) raised {ex!r}", {"check": "df", "raises": True}, rep)
        return
    logging.disable(logging.NOTSET)
    if not isinstance(res, pd.DataFrame):
        viol(P, f"df_timeshift returned {type(res).__name__}", {"check": "df", "type": True}, rep)
        return
    names = list(df0.columns)
    if seconds == 0:
        if list(res.columns) != names or not res.equals(df0):
            viol(P, f"df_timeshift with seconds == 0 does not return the frame unchanged (columns {list(res.columns)})", {"check": "df_zero"}, rep)
        P.hit("df_zero")
        return
    sel = names if columns is None else list(columns)
    numeric = [c for c in sel if df0[c].dtype.kind in "iuf"]
    want_cols = names if inplace else names + [f"{c}{sfx}" for c in numeric]
    if list(res.columns) != want_cols:
        viol(P, f"df_timeshift(columns={columns!r}, inplace={inplace}, suffix={sfx!r}) returned columns {list(res.columns)}, expected {want_cols} "
                f"(numeric selected: {numeric})", {"check": "df_columns", "inplace": inplace}, rep)
        return
    if len(res) != len(df0) or not res.index.equals(df0.index):
        viol(P, "df_timeshift changed the index / length (truncate=None)", {"check": "df_index"}, rep)
        return
    shift = seconds * fs
    h = 16
    for c in names:
        shifted_here = c in numeric
        if not inplace or not shifted_here:
            if not res[c].equals(df0[c]):
                viol(P, f"df_timeshift modified column {c!r} which must stay untouched (selected={c in sel}, numeric={df0[c].dtype.kind in 'iuf'}, "
                        f"inplace={inplace})", {"check": "df_untouched", "selected": c in sel}, dict(rep, column=c))
                return
        if shifted_here:
            got = np.asarray(res[c if inplace else f"{c}{sfx}"], dtype=np.float64)
            col = df0[c].to_numpy()
            x = col.astype(np.float64)
            amax = float(np.abs(x).max())
            want = np.asarray(dsp.timeshift(col, shift), dtype=np.float64)
            tol = 1e-9 * amax
            if got.shape != want.shape or not np.all(np.abs(got - want) <= tol):
                n = int(np.argmax(np.abs(got - want))) if got.shape == want.shape else -1
                viol(P, f"df_timeshift(fs={fs!r}, seconds={seconds!r}) column {c!r}: row {n} = {float(got[n]) if n >= 0 else None!r} but "
                        f"timeshift(col, seconds*fs = {shift!r})[{n}] = {float(want[n]) if n >= 0 else None!r}", {"check": "df_values"}, dict(rep, column=c, n=n))
                return
            si, d = split(shift)
            # a correct wrapper may round seconds*fs differently (e.g. seconds/(1/fs)): a few ulp of the shift, in samples
            eps_s = 4 * U * max(1.0, abs(float(shift)))
            if tight:
                # same routine, same shift: only the rounding of the taps / dot products (twice) and of the product seconds*fs may differ;
                # |d out / d shift| <= sum_k|l_k'| max|data| <= (DSHIFT/3) max|data| at every sample (held ends included: the padded record is
                # bounded by max|data| and the output is continuous in the shift); sum_k|l_k(d)| max|data| bounds every S_n
                L = float(np.abs(exact_taps(h, d)).sum())
                tolT = (2 * tolc(h) * L + DSHIFT * eps_s) * amax
                if got.shape != want.shape or not np.all(np.abs(got - want) <= tolT):
                    n = int(np.argmax(np.abs(got - want))) if got.shape == want.shape else -1
                    viol(P, f"df_timeshift(fs={fs!r}, seconds={seconds!r}) column {c!r} (size {x.size}): row {n} = {float(got[n]) if n >= 0 else None!r} but "
                            f"timeshift(col, seconds*fs = {shift!r})[{n}] = {float(want[n]) if n >= 0 else None!r} (tol {tolT:.3g}): the wrapper did not "
                            f"apply seconds*fs samples", {"check": "df_values_tight", "cls": cls, "negative": bool(shift < 0)}, dict(rep, column=c, n=n))
                    return
                P.hit("df_tight_compared")
            r, ref, S, tol2 = interior_ref(x, h, si, d)
            if tight and len(r) > 2 and c == "p":
                # the polynomial column is reproduced at n + seconds*fs (exact rational evaluation; one sample trimmed at both ends of the
                # interior so that a product rounded across an integer does not move the stencil out of the record)
                fsh = Fraction(float(shift))
                deg, c1 = int(spec["deg"]), Fraction(int(spec["c1n"]), 2)
                idx = list(r)[1:-1]
                if len(idx) > 16:
                    step = len(idx) / 16
                    idx = sorted({idx[int(i * step)] for i in range(16)} | {idx[0], idx[-1]})
                Nn = x.size
                for n in idx:
                    exp = float(cheb_pair(deg, Fraction(2 * (n + fsh) - (Nn - 1), Nn + 1), c1))
                    j = n - r[0]
                    tolp = float(tol2[j]) + 4 * U * abs(exp) + DSHIFT * eps_s * float(np.abs(x[n + si - (h - 1):n + si + h + 1]).max())
                    if not abs(got[n] - exp) <= tolp:
                        viol(P, f"df_timeshift(fs={fs!r}, seconds={seconds!r}) column 'p' = degree-{deg} polynomial on {Nn} samples: row {n} = {float(got[n])!r} "
                                f"but p({n} + seconds*fs = {n}+({shift!r})) = {exp!r} (tol {tolp:.3g})",
                             {"check": "df_poly", "cls": cls, "negative": bool(shift < 0)}, dict(rep, column=c, n=n))
                        return
                P.hit("df_poly_points", len(idx))
            if len(r):
                tol2 = tol2 + 1e-9 * amax
                o = got[r[0]:r[-1] + 1]
                bad = np.nonzero(~(np.abs(o - ref) <= tol2))[0]
                if bad.size:
                    n = r[0] + int(bad[0])
                    viol(P, f"df_timeshift(fs={fs!r}, seconds={seconds!r}) column {c!r}: row {n} = {float(got[n])!r} but the order-31 interpolant at "
                            f"{n}+seconds*fs is {float(ref[int(bad[0])])!r}", {"check": "df_interpolant"}, dict(rep, column=c, n=n))
                    return
    P.hit("df")
    unsel = [c for c in names if c not in sel]
    if numeric and (unsel or len(numeric) < len(sel)):
        P.nontrivial.add(("df", fs, seconds, tuple(sel), inplace, sfx))
    if tight and numeric:
        P.nontrivial.add(("dflong", cls, fs, seconds))


def gen_df_spec(rng, i: int) -> Dict[str, Any]:
    N = int(rng.choice([40, 41, 64, 97]))
    cols = [["a", "f", (rng.standard_normal(N) + 2.0).tolist()],
            ["b", "f", (np.cumsum(rng.standard_normal(N))).tolist()],
            ["k", "i", rng.integers(-20, 21, N).tolist()],
            ["label", "s", [f"r{j % 7}" for j in range(N)]]]
    if i % 3 == 0:
        cols.append(["when", "t", (1_600_000_000 + np.arange(N) * 3).tolist()])
    order = rng.permutation(len(cols))
    cols = [cols[j] for j in order]
    names = [c[0] for c in cols]
    fs = float(rng.choice([2.0, 4.0, 16.0, 0.5, 10.0, 100.0]))
    samples = float(rng.choice([0.5, -0.5, 1.25, -2.75, 3.0, -4.0, 7.3, -6.1, float(rng.uniform(-6, 6))]))
    seconds = samples / fs
    pick = int(rng.integers(0, 6))
    if pick == 0:
        columns = None
    elif pick == 1:
        columns = ["a"]
    elif pick == 2:
        columns = ["b", "label"]
    elif pick == 3:
        columns = ["k", "a"]
    elif pick == 4:
        columns = [n for n in names if n != "b"]
    else:
        columns = ["b"]
    if i % 11 == 10:
        seconds = 0.0 if i % 2 else 0
    return {"cols": cols, "fs": fs, "seconds": seconds, "columns": columns, "inplace": bool(i % 2), "suffix": [None, "_ts", None][i % 3],
            "index0": int(rng.choice([0, 0, 5]))}


DF_FS = [0.1, 1.0 / 3.0, 0.5, 1.0, 2.0, 2.5, 4.0, 10.0, 16.0, 44.1, 100.0, 256.0, 1000.0, 1.0e4, 44100.0]
DF_SHIFT_CLASSES = ["long_rel", "long_abs", "long_frac", "long_int", "tiny", "small", "near_int", "beyond"]


def logu(rng, lo: float, hi: float) -> float:
    return float(10.0 ** rng.uniform(math.log10(lo), math.log10(hi)))


def gen_df_shift(rng, cls: str) -> float:
    """shift in samples of one wrapper case. long_*: delays of 100..5000 samples whose distance to an integer is relative 1e-7..1e-5 of the shift /
    absolute 1e-4..1e-2 / generic / zero; tiny: 1e-9..1e-6 samples; small: 1e-6..1e-2; near_int: a few samples +- 1e-10..1e-3; beyond: set by the caller"""
    sg = -1.0 if rng.integers(0, 2) else 1.0
    sg2 = -1.0 if rng.integers(0, 2) else 1.0
    K = float(int(round(logu(rng, 100.0, 5000.0))))
    if cls == "long_rel":
        return sg * (K + sg2 * K * logu(rng, 1e-7, 1e-5))
    if cls == "long_abs":
        return sg * (K + sg2 * logu(rng, 1e-4, 1e-2))
    if cls == "long_frac":
        return sg * (K + float(rng.uniform(0.02, 0.98)))
    if cls == "long_int":
        return sg * K
    if cls == "tiny":
        return sg * logu(rng, 1e-9, 1e-6)
    if cls == "small":
        return sg * logu(rng, 1e-6, 1e-2)
    return sg * (float(rng.integers(1, 13)) + sg2 * logu(rng, 1e-10, 1e-3))


def gen_dflong_spec(rng, i: int) -> Dict[str, Any]:
    """(7) for ALL shifts: the wrapper on generated records long enough to hold an interior for delays of thousands of samples, every sampling
    rate of DF_FS, both signs, selected + unselected + non-numeric columns"""
    cls = DF_SHIFT_CLASSES[i % len(DF_SHIFT_CLASSES)]
    fs = float(DF_FS[int(rng.integers(0, len(DF_FS)))])
    h = 16
    if cls == "beyond":
        N = int(rng.integers(40, 200))
        shift = (-1.0 if rng.integers(0, 2) else 1.0) * (N + float(rng.uniform(0.0, 50.0)) + float(rng.choice([0.0, 0.0025, 2 * h])))
    else:
        shift = gen_df_shift(rng, cls)
        N = int(abs(math.floor(shift))) + 2 * h + int(rng.integers(10, 90))
    seconds = shift / fs
    if seconds * fs == 0.0 or seconds == 0.0:
        seconds = 1.0 / fs
    deg = int([0, 1, 2, 3, 5, 31, 30, int(rng.integers(4, 32))][int(rng.integers(0, 8))])
    columns = [["p", "a"], ["w", "p", "label"], None, ["a", "p", "k"], ["k", "label", "a", "p"], ["p", "w"]][int(rng.integers(0, 6))]
    return {"N": N, "dseed": int(rng.integers(0, 2 ** 31)), "deg": deg, "c1n": int(rng.choice([1, -1, 3])), "cls": cls, "fs": fs, "seconds": float(seconds),
            "columns": columns, "inplace": bool(rng.integers(0, 2)), "suffix": [None, "_ts", None][i % 3], "index0": int(rng.choice([0, 0, 5]))}


def check_loader(P: C.Part, spec: Dict[str, Any]):
    """multi_file_timeseries_loader(timeshifts=...) goes through the wrapper: in every returned frame the rows (identified by the untouched 'idx'
    column) of '<c>_shifted' are timeshift(full column c as read, timeshifts[i]*fs_list[i]); files without a shift get no shifted column.
    Which rows are kept (overlap / truncation) is outside the property and not demanded."""
    import logging
    import os
    import shutil
    import tempfile
    import pandas as pd
    dsp = impl()
    rep = dict(spec, kind="loader")
    P.cases += 1
    tmp = tempfile.mkdtemp(prefix="vkC16_")
    logging.disable(logging.WARNING)
    try:
        r = np.random.default_rng(int(spec["dseed"]))
        files, fss, tss, full = [], [], [], []
        for j, f in enumerate(spec["files"]):
            N = int(f["N"])
            tab = pd.DataFrame({"idx": np.arange(N), "a": np.round(r.standard_normal(N) + 2.0, 6), "w": np.round(np.cumsum(r.standard_normal(N)), 6)})
            path = os.path.join(tmp, f"s{j}.txt")
            tab.to_csv(path, sep=" ", index=False)
            files.append(path)
            fss.append(float(f["fs"]))
            tss.append(None if f["ts"] is None else float(f["ts"]))
            full.append(pd.read_csv(path, delimiter=" ", header=0, engine="c"))      # the columns exactly as the loader reads them
        try:
            res = dsp.multi_file_timeseries_loader(files, fss, start_time=float(spec["start_time"]), timeshifts=tss)
        except Exception as ex:
            viol(P, f"multi_file_timeseries_loader(fs_list={fss}, timeshifts={tss}, start_time={spec['start_time']}) raised {ex!r}",
                 {"check": "loader", "raises": True}, rep)
            return
        if not isinstance(res, list) or len(res) != len(files):
            viol(P, f"multi_file_timeseries_loader returned {type(res).__name__} of length {len(res) if hasattr(res, '__len__') else None} for {len(files)} files",
                 {"check": "loader", "type": True}, rep)
            return
        h = 16
        for j, out in enumerate(res):
            ts, fs = tss[j], fss[j]
            if "idx" not in out.columns or len(out) == 0:
                P.hit("loader_empty")
                continue
            rows = out["idx"].to_numpy()
            if rows.dtype.kind not in "iu" or rows.min() < 0 or rows.max() >= len(full[j]):
                viol(P, f"multi_file_timeseries_loader changed the untouched column 'idx' of file {j}", {"check": "loader_untouched"}, dict(rep, file=j))
                return
            for c in ("a", "w"):
                if not np.array_equal(out[c].to_numpy(), full[j][c].to_numpy()[rows]):
                    viol(P, f"multi_file_timeseries_loader(timeshifts={tss}) modified the original column {c!r} of file {j} (the shifted copy goes to "
                            f"'{c}_shifted')", {"check": "loader_untouched"}, dict(rep, file=j, column=c))
                    return
            shifted_cols = [c for c in out.columns if str(c).endswith("_shifted")]
            if ts is None or ts == 0.0:
                if shifted_cols:
                    viol(P, f"multi_file_timeseries_loader(timeshifts={tss}): file {j} has no time shift but got columns {shifted_cols}",
                         {"check": "loader_columns"}, dict(rep, file=j))
                    return
                P.hit("loader_unshifted_file")
                continue
            shift = ts * fs
            si, d = split(shift)
            eps_s = 4 * U * max(1.0, abs(float(shift)))
            L = float(np.abs(exact_taps(h, d)).sum())
            for c in ("a", "w", "idx"):
                if f"{c}_shifted" not in out.columns:
                    viol(P, f"multi_file_timeseries_loader(timeshifts={tss}): file {j} lacks column '{c}_shifted' (columns {list(out.columns)})",
                         {"check": "loader_columns"}, dict(rep, file=j, column=c))
                    return
                col = full[j][c].to_numpy()
                want = np.asarray(dsp.timeshift(col, shift), dtype=np.float64)[rows]
                got = np.asarray(out[f"{c}_shifted"], dtype=np.float64)
                tolT = (2 * tolc(h) * L + DSHIFT * eps_s) * float(np.abs(col.astype(np.float64)).max())
                if not np.all(np.abs(got - want) <= tolT):
                    n = int(np.argmax(np.abs(got - want)))
                    viol(P, f"multi_file_timeseries_loader(fs_list={fss}, timeshifts={tss}): file {j} column '{c}_shifted' at original row {int(rows[n])} = "
                            f"{float(got[n])!r} but timeshift(col, timeshifts[{j}]*fs_list[{j}] = {shift!r})[{int(rows[n])}] = {float(want[n])!r} (tol {tolT:.3g})",
                         {"check": "loader_values", "negative": bool(shift < 0)}, dict(rep, file=j, column=c, n=int(rows[n])))
                    return
            P.hit("loader_shifted_file")
            P.hit("loader_rows_compared", len(rows))
            P.nontrivial.add(("loader", j, fs, ts, len(rows)))
    finally:
        logging.disable(logging.NOTSET)
        shutil.rmtree(tmp, ignore_errors=True)


def gen_loader_spec(rng, i: int) -> Dict[str, Any]:
    """2-3 files with DIFFERENT sampling rates and shifts (long with a small fractional part, tiny, near-integer, none; negative ones short, since the
    loader then restarts at 2|shift| SECONDS). All files span the same duration (<= ~8000 rows for the fastest); a file gets a long delay only if
    that leaves most of its rows after the loader's own truncation (2|shift| rows)."""
    nf = 2 + int(i % 2)
    fsl = [float(v) for v in rng.choice([1.0, 2.0, 4.0, 10.0, 100.0, 0.5], size=nf, replace=False)]
    dur = max(6000.0 / max(fsl), 80.0)
    files = []
    for j in range(nf):
        N = int(dur * fsl[j]) + int(rng.integers(0, 7))
        sh = None
        if not (j == nf - 1 and i % 3 == 2):
            long_ok = N >= 450
            cls = str(rng.choice(["long_rel", "long_abs", "long_frac", "long_rel", "long_abs", "tiny", "near_int"] if long_ok else ["tiny", "near_int", "small"]))
            sh = gen_df_shift(rng, cls)
            if abs(sh) >= 100:
                K = round(abs(sh))
                Kn = 100 + K % max(int(N / 3.5) - 100, 1)           # same distance to the integer, delay scaled into the file
                sh = abs(sh) - K + Kn                               # long delays positive
        files.append({"N": N, "fs": fsl[j], "ts": None if sh is None else float(sh / fsl[j])})
    return {"dseed": int(rng.integers(0, 2 ** 31)), "files": files, "start_time": float(rng.choice([0.0, 1.0, 3.0]))}


# ---------------------------------------------------------------------------------------------------------------- long records
# "for all records": a routine that works in blocks / chunks / buffers of c samples (or switches algorithm above c samples) can be right for
# every record of <= c samples and wrong beyond (wave-5 change C16e: the time-varying path gathers in blocks of 1 << 16 samples and loses the
# block offset from the second block on).  The constants are read from the CURRENT source (C.mined_sizes) and record lengths just below / at /
# above each are probed; independent of what the miner sees, a few long records are always run.  Cases are described by a small spec (sizes,
# seeds, shift parameters) from which record and shifts are rebuilt, so a replay does not store the samples.
LONG_FILES = ["speckit/dsp.py"]
LONG_NAMES = ["timeshift", "lagrange_taps", "df_timeshift"]
LONG_H = [1, 2, 3, 16]                      # orders 1, 3, 5, 31 (the default)
LONG_ALWAYS = [70_001, 200_003]             # every run; thresholds written in a form the miner does not see
LONG_MORE = [300_007, 2 ** 19 + 3, 2 ** 20 + 7, 2_100_001, 2 ** 22 + 7]      # intensive / thorough, as far as the size cap allows
LONG_POW2 = [2 ** k for k in range(12, 23)]


def mined_thresholds(nmax: int, keep: int) -> List[int]:
    """block / chunk / buffer constants of the current source: those inside timeshift / lagrange_taps / df_timeshift first, then the other
    constants of the file (a module-level BLOCK = ...); >= 48 (shorter records are covered densely by the other streams), c + 1 <= nmax"""
    try:
        a = C.mined_sizes(LONG_FILES, names=LONG_NAMES)
        b = [v for v in C.mined_sizes(LONG_FILES) if v not in a]
    except Exception:        # noqa: an unreadable source is the translator's business; the always-long records still run
        return []
    out = [v for v in sorted(a, reverse=True) if 48 <= v and v + 1 <= nmax][:keep]
    out += [v for v in sorted(b, reverse=True) if 48 <= v and v + 1 <= nmax][:max(keep - len(out), 1)]
    return out


def long_coef(r, N: int, h: int) -> List[int]:
    """integer coefficients c0..c_deg (deg <= min(2h-1, 3)) of p(m), m = n - N//2, such that every sample |p(m)| < 2^52: the record is exact"""
    M = N // 2 + 2
    for deg in range(min(2 * h - 1, 3), 0, -1):
        coef = [int(r.integers(-10 ** 6, 10 ** 6 + 1)), int(r.integers(-1000, 1001)), int(r.integers(-5, 6)), int(r.choice([-1, 1]))][:deg + 1]
        if coef[-1] == 0:
            coef[-1] = 1
        if sum(abs(cv) * M ** k for k, cv in enumerate(coef)) < 2 ** 52:
            return coef
    return [3, 1]


def long_data(spec: Dict[str, Any]):
    """record of a long case, rebuilt from the spec: 'noise' (normal + 0.5), 'int' (int64 in -50..50), 'ipoly' (integer polynomial in n - N//2, exact)"""
    N = int(spec["N"])
    r = np.random.default_rng(int(spec["dseed"]))
    kind = spec.get("data", "noise")
    if kind == "int":
        return r.integers(-50, 51, N).astype(np.int64)
    if kind == "ipoly":
        m = np.arange(N, dtype=np.int64) - N // 2
        v = np.zeros(N, dtype=np.int64)
        for cv in reversed([int(cv) for cv in spec["coef"]]):
            v = v * m + cv
        if int(np.abs(v).max()) >= 2 ** 53:
            raise RuntimeError("C16 oracle: integer polynomial record not exactly representable")
        return v.astype(np.float64)
    return r.standard_normal(N) + 0.5


def long_shifts(spec: Dict[str, Any]) -> np.ndarray:
    """per-sample shift vector of a long case. drift64: slow drift quantised to 1/64 (integers, fractions, both signs; every shift is exact, so is
    its fractional part); altint: alternating integers k1 / k2; uniform: independent reals in (-5, 5); full: the same shift s at every sample"""
    N = int(spec["N"])
    n = np.arange(N)
    vm = spec["vmode"]
    if vm == "drift64":
        return np.round(64.0 * (float(spec["amp"]) * np.sin(n * float(spec["rate"]) + float(spec["phase"])) + float(spec["off"]))) / 64.0
    if vm == "altint":
        return np.where(n % 2 == 0, float(spec["k1"]), float(spec["k2"]))
    if vm == "uniform":
        return np.random.default_rng(int(spec["dseed"]) + 1).uniform(-5.0, 5.0, N)
    return np.full(N, float(spec["s"]))


def long_positions(N: int, cands: List[int], extra=()) -> np.ndarray:
    """sample of output positions spread over the WHOLE record: both ends, 48 equally spaced, the last samples, and the neighbours of the first
    multiples and of the last multiple of every candidate block length (mined constants and powers of two)"""
    pos = {0, 1, 2, N - 1, N - 2, N - 3}
    pos.update((j * (N - 1)) // 47 for j in range(48))
    pos.update(N - 1 - 7 * j for j in range(10))
    for c in cands:
        if c < 2 or c >= N:
            continue
        last = (N - 1) // c
        for mlt in sorted({1, 2, 3, last}):
            for dl in (-2, -1, 0, 1, 2):
                pos.add(mlt * c + dl)
            pos.add(mlt * c + c // 2)
    pos.update(int(p) for p in extra)
    return np.array(sorted(p for p in pos if 0 <= p < N), dtype=np.int64)


def stencil_ref(x: np.ndarray, h: int, lo: np.ndarray, t: np.ndarray) -> tuple:
    """(reference, S, tolerance) of the interpolant for the stencils x[lo .. lo+2h-1] (all inside the record) sharing the exact taps t; same
    forward bound as interior_ref: tolc(h)*S + DSHIFT*u*max|stencil| + 4u|ref|.  Gathered in chunks of the oracle's own choosing (33 000 rows)."""
    ar = np.arange(2 * h)
    at = np.abs(t)
    ref = np.empty(lo.size)
    S = np.empty(lo.size)
    mx = np.empty(lo.size)
    step = 33_000
    for a in range(0, lo.size, step):
        W = x[lo[a:a + step, None] + ar]
        AW = np.abs(W)
        ref[a:a + step] = W @ t
        S[a:a + step] = AW @ at
        mx[a:a + step] = AW.max(axis=1)
    return ref, S, tolc(h) * S + DSHIFT * U * mx + 4 * U * np.abs(ref)


def long_reference(x: np.ndarray, h: int, sv: np.ndarray, cands: List[int], dseed: int) -> tuple:
    """positions n (stencil of n + sv[n] inside the record) with reference / S / tolerance of the interpolant.  Shifts that are multiples of 1/64
    (fractional part exact, <= 64 distinct tap sets): EVERY such position; otherwise a sample of positions spread over the whole record."""
    N = x.size
    n = np.arange(N, dtype=np.int64)
    sif = np.floor(sv)
    si = sif.astype(np.int64)
    lo = n + si - (h - 1)
    inside = (lo >= 0) & (lo + 2 * h - 1 <= N - 1)
    dyadic = bool(np.all(sv * 64.0 == np.round(sv * 64.0)) and np.all(np.abs(sv) < 2.0 ** 40))
    if dyadic:
        pos = n[inside]
        d = (sv - sif)[pos]              # exact: a multiple of 1/64 in [0, 1)
        ref = np.empty(pos.size)
        S = np.empty(pos.size)
        tol = np.empty(pos.size)
        for dv in np.unique(d):
            g = np.nonzero(d == dv)[0]
            ref[g], S[g], tol[g] = stencil_ref(x, h, lo[pos[g]], exact_taps(h, Fraction(float(dv))))
        return pos, ref, S, tol
    rr = np.random.default_rng(int(dseed) + 2)
    pos = long_positions(N, cands, extra=rr.integers(0, N, 160))
    pos = pos[inside[pos]]
    ref = np.empty(pos.size)
    S = np.empty(pos.size)
    tol = np.empty(pos.size)
    groups: Dict[Any, List[int]] = {}
    for j, p in enumerate(pos):
        groups.setdefault(split(sv[p])[1], []).append(j)
    for dq, js in groups.items():
        g = np.array(js)
        ref[g], S[g], tol[g] = stencil_ref(x, h, lo[pos[g]], exact_taps(h, dq))
    return pos, ref, S, tol


def check_long(P: C.Part, spec: Dict[str, Any]):
    """both paths on a LONG record (spec: N, h, path, data kind + seed, shift parameters, cands = candidate block lengths), the predicates of the
    short streams: interior outputs = the interpolant (exact taps) at every / sampled positions over the whole record, integer shift = displacement
    with held ends at every sample, zero shift = identity, exact polynomial reproduced at positions spread over the whole record (incl. the last
    block and both sides of every multiple of a candidate block length), constant path = time-varying path on interior stencils"""
    dsp = impl()
    N, h = int(spec["N"]), int(spec["h"])
    order = 2 * h - 1
    path = spec["path"]
    cands = sorted(set(int(c) for c in spec.get("cands", [])) | set(LONG_POW2))
    rep = dict(spec, kind="long")
    data = long_data(spec)
    x = data.astype(np.float64)
    amax = float(np.abs(x).max())
    coef = [int(cv) for cv in spec["coef"]] if spec.get("data") == "ipoly" else None
    P.cases += 1
    P.hit(f"long_{path}_{spec.get('vmode', spec.get('cls', ''))}")
    P.hit("long_N<2^16" if N < 2 ** 16 else "long_N<2^18" if N < 2 ** 18 else "long_N<2^20" if N < 2 ** 20 else "long_N>=2^20")
    where = f"size {N}, order {order}, {spec.get('data', 'noise')} record"

    def run(sh, what):
        try:
            o = np.asarray(dsp.timeshift(data, sh, order=order))
        except Exception as ex:
            viol(P, f"timeshift with {what} raised {ex!r} ({where})", {"check": "long", "path": path, "raises": True}, rep)
            return None
        if o.shape != (N,):
            viol(P, f"timeshift with {what} returned shape {o.shape} ({where})", {"check": "long", "path": path, "shape": True}, rep)
            return None
        return o.astype(np.float64)

    def compare(o, pos, ref, tol, pth, label, sv=None):
        """o[pos] against ref; one violation with the first wrong sample and the number of wrong samples"""
        err = np.abs(o[pos] - ref)
        bad = np.nonzero(~(err <= tol))[0]
        if bad.size == 0:
            P.hit(f"long_{label}_compared", int(pos.size))
            return True
        j = int(bad[0])
        nn = int(pos[j])
        sh = float(sv[nn]) if sv is not None else float(spec["s"])
        blk = "; ".join(f"n = {nn // c}*{c}+{nn % c}" for c in cands if c <= nn and (c in spec.get("cands", []) or c in (2 ** 16, 2 ** 20)))[:120]
        viol(P, f"long record ({where}), {pth} path: out[{nn}] = {float(o[nn])!r} but the degree-{order} interpolant through "
                f"data[{nn + math.floor(sh) - (h - 1)}..{nn + math.floor(sh) + h}] at {nn}+({sh!r}) is {float(ref[j])!r} (tol {float(tol[j]):.3g}); "
                f"{bad.size} of {pos.size} compared interior samples wrong, first at n = {nn}, last at n = {int(pos[bad[-1]])}" + (f" [{blk}]" if blk else ""),
             {"check": "interpolant", "path": pth, "long": True, "integer": bool(sh == math.floor(sh)), "negative": bool(sh < 0)}, dict(rep, n=nn))
        return False

    def poly_points(o, sv, pth):
        """the exact integer polynomial is reproduced at n + shift (no Lagrange formula in the reference), on positions spread over the record"""
        pos = long_positions(N, cands)
        cnt = 0
        for nn in pos:
            nn = int(nn)
            sh = float(sv[nn]) if sv is not None else float(spec["s"])
            si_, d_ = split(sh)
            lo_ = nn + si_ - (h - 1)
            if lo_ < 0 or lo_ + 2 * h - 1 > N - 1:
                continue
            seg = x[lo_:lo_ + 2 * h]
            t_ = exact_taps(h, d_)
            tl = tolc(h) * float(np.abs(seg) @ np.abs(t_)) + DSHIFT * U * float(np.abs(seg).max())
            tq = Fraction(nn - N // 2) + Fraction(sh)
            ev = Fraction(0)
            for cv in reversed(coef):
                ev = ev * tq + cv
            exp = float(ev)
            tl += 8 * U * abs(exp)
            cnt += 1
            if not abs(o[nn] - exp) <= tl:
                viol(P, f"long record ({where}), {pth} path: degree-{len(coef) - 1} polynomial not reproduced: out[{nn}] = {float(o[nn])!r}, "
                        f"p({nn}+({sh!r})) = {exp!r} (tol {tl:.3g})", {"check": "poly", "path": pth, "long": True, "negative": bool(sh < 0)}, dict(rep, n=nn))
                return False
        P.hit("long_poly_points", cnt)
        return True

    if path == "const":
        s = float(spec["s"])
        out = run(s, f"constant shift {s!r}")
        if out is None:
            return
        if s == 0.0:
            ov = run(np.zeros(N), "an all-zero shift vector")
            if not np.array_equal(out, x) or (ov is not None and not np.array_equal(ov, x)):
                viol(P, f"zero shift is not the identity on a long record ({where})", {"check": "zero", "long": True}, rep)
            P.hit("long_zero")
            return
        si, d = split(s)
        n = np.arange(N, dtype=np.int64)
        if d == 0:
            exp = x[np.clip(n + si, 0, N - 1)]
            tol = tolc(h) * amax
            bad = np.nonzero(~(np.abs(out - exp) <= tol))[0]
            if bad.size:
                nn = int(bad[0])
                wh = "interior" if 0 <= nn + si <= N - 1 else "held end"
                viol(P, f"long record ({where}): integer shift {si}: out[{nn}] = {float(out[nn])!r} but data[clamp({nn}+{si})] = {float(exp[nn])!r} "
                        f"({wh}; {bad.size} samples wrong)", {"check": "integer", "where": wh, "long": True}, dict(rep, n=nn))
                return
            P.hit("long_integer")
        r = interior_range(N, h, si)
        if len(r) == 0:
            P.hit("long_no_interior")
            return
        pos = np.arange(r[0], r[-1] + 1, dtype=np.int64)
        ref, S, tol = stencil_ref(x, h, pos + si - (h - 1), exact_taps(h, d))
        if not compare(out, pos, ref, tol, "constant", "const"):
            return
        if coef is not None and not poly_points(out, None, "constant"):
            return
        ov = run(np.full(N, s), f"a per-sample shift vector (all {s!r})")
        if ov is None:
            return
        P.cases += 1
        if not compare(ov, pos, ref, tol, "time-varying", "varfull", sv=np.full(N, s)):
            return
        dv = np.abs(ov[pos] - out[pos])
        bad = np.nonzero(~(dv <= 2 * tolc(h) * S))[0]
        if bad.size:
            nn = int(pos[bad[0]])
            viol(P, f"long record ({where}): constant-shift path and time-varying path disagree at interior sample {nn}: {float(out[nn])!r} vs "
                    f"{float(ov[nn])!r} (shift {s!r}; {bad.size} samples)", {"check": "paths_agree", "long": True}, dict(rep, n=nn))
            return
        P.hit("long_paths_agree")
        if amax > 0:
            P.nontrivial.add(("long", "const", h, N, s))
        return
    sv = long_shifts(spec)
    out = run(sv, f"a per-sample shift vector ({spec['vmode']}, in [{float(sv.min())!r}, {float(sv.max())!r}])")
    if out is None:
        return
    pos, ref, S, tol = long_reference(x, h, sv, cands, int(spec["dseed"]))
    if pos.size == 0:
        P.hit("long_no_interior")
        return
    if not compare(out, pos, ref, tol, "time-varying", "var", sv=sv):
        return
    if coef is not None and not poly_points(out, sv, "time-varying"):
        return
    if amax > 0:
        P.nontrivial.add(("long", "var", spec["vmode"], h, N, float(sv[N // 2])))


def long_specs(rng, level: int) -> List[Dict[str, Any]]:
    """cases on long records in priority order. level 0: quick tier, 1: quick tier after a broken obligation (intensive), 2: thorough tier.
    For every size: both paths, orders {1,3,5,31}, integer / fractional / negative constant shifts and genuinely varying shift vectors — the
    complete cross for the always-long records when intensive / thorough and for every mined constant; a rotating cover in the quick tier."""
    nmax = [300_010, 2_200_000, 4_200_000][level]
    nmax_h = {1: nmax, 2: nmax, 3: nmax, 16: [300_010, 1_100_000, 1_100_000][level]}        # memory of the time-varying path: ~3 x N x 2h x 8 bytes
    mined = mined_thresholds(nmax, keep=[3, 6, 8][level])
    specs: List[Dict[str, Any]] = []

    def base(N, h, dkind):
        sp = {"N": int(N), "h": int(h), "dseed": int(rng.integers(0, 2 ** 31)), "data": dkind, "cands": [int(c) for c in mined]}
        if dkind == "ipoly":
            sp["coef"] = long_coef(rng, int(N), int(h))
        return sp

    def shift_of(cls):
        k = int(rng.integers(0, 5))
        if cls == "int":
            return float((k + 1) * (-1 if rng.integers(0, 2) else 1))
        f = float(rng.uniform(0.05, 0.95))
        return k + f if cls == "frac" else -(k + f)

    def A(N, h, cls, dkind):          # constant shift + the same shift through the time-varying path + agreement
        if 4 <= N <= nmax_h[h]:
            specs.append(dict(base(N, h, dkind), path="const", cls=cls, s=shift_of(cls)))

    def B(N, h, vmode, dkind):        # genuinely varying shifts
        if 4 <= N <= nmax_h[h]:
            sp = dict(base(N, h, dkind), path="var", vmode=vmode)
            if vmode == "drift64":
                sp.update(amp=float(rng.uniform(1.2, 2.8)), rate=float(rng.uniform(0.005, 0.02)), phase=float(rng.uniform(0, 6.28)), off=float(rng.uniform(-1, 1)))
            elif vmode == "altint":
                sp.update(k1=int(rng.integers(1, 5)), k2=-int(rng.integers(1, 5)))
            specs.append(sp)

    DK = ["noise", "ipoly", "noise", "int", "ipoly"]
    CL = ["neg", "int", "frac"]

    def cover(N, j):                  # rotating cover: one constant-shift case and two varying cases per size
        A(N, LONG_H[j % 4], CL[j % 3], DK[j % 5])
        B(N, LONG_H[(j + 1) % 4], "drift64", DK[(j + 1) % 5])
        B(N, LONG_H[(j + 3) % 4], ["altint", "uniform"][j % 2], DK[(j + 2) % 5])

    def cross(N, j):                  # every order x {int, frac, neg, varying}
        for q, h in enumerate(LONG_H):
            for w, cls in enumerate(CL):
                A(N, h, cls, DK[(j + q + w) % 5])
            B(N, h, "drift64", DK[(j + q + 3) % 5])
        B(N, LONG_H[j % 4], "uniform", "noise")
        B(N, LONG_H[(j + 1) % 4], "altint", "ipoly")

    always = list(LONG_ALWAYS) + [int(rng.integers(66_000, 300_000))]
    # 1. the always-long records: rotating cover, plus the default order on both paths
    for j, N in enumerate(always):
        cover(N, j + 1)
    B(always[0], 16, "drift64", "noise")
    A(always[1], 16, "neg", "ipoly")
    A(always[1], 1, "int", "noise")
    # 2. record lengths around every mined constant
    for q, c in enumerate(mined):
        for j, N in enumerate((c - 1, c, c + 1, c + 17, 2 * c + 3)):
            (cross if (level >= 1 or c <= 4096) else cover)(N, q + j)
    # 3. longer records; shifts longer than a block; zero shift; then the complete cross on the always-long records
    if level >= 1:
        more = [v for v in LONG_MORE if v <= nmax]
        for j, N in enumerate(more):
            cover(N, j)
        always += more
    big = always[1]
    specs.append(dict(base(big, 3, "noise"), path="const", cls="longshift", s=float(2 ** 16 + 1) + 0.25))
    specs.append(dict(base(big, 2, "ipoly"), path="const", cls="longshift", s=-float(big // 3) - 0.625))
    specs.append(dict(base(always[0], 16, "noise"), path="const", cls="zero", s=0.0))
    if level >= 1:
        for j, N in enumerate(always):
            cross(N, j)
    return specs


def long_cost(sp: Dict[str, Any]) -> int:
    """deterministic work estimate (elements gathered by the time-varying path + by the reference)"""
    return int(sp["N"]) * (2 * int(sp["h"]) + 6) * (2 if sp["path"] == "const" else 1)


def gen_dfframe_spec(rng, N: int, i: int) -> Dict[str, Any]:
    """(7) on a LONG frame: df_timeshift of a frame of N rows (a wrapper or a constant path that works in chunks), fractional / negative / integer /
    long delays; the selected columns are compared at EVERY interior row with the order-31 interpolant by check_df"""
    fs = float(DF_FS[int(rng.integers(0, len(DF_FS)))])
    k = [int(rng.integers(0, 6)), int(rng.integers(1000, 5000)), int(min(N // 2, 2 ** 16 + 5))][i % 3]
    shift = [k + float(rng.uniform(0.05, 0.95)), -(k + float(rng.uniform(0.05, 0.95))), float(k + 1), -(k + 0.5)][int(rng.integers(0, 4))]
    columns = [["p", "a"], ["w", "p", "label"], ["a", "p", "k"], ["p", "w"]][int(rng.integers(0, 4))]
    return {"N": int(N), "dseed": int(rng.integers(0, 2 ** 31)), "deg": int(rng.integers(0, 4)), "c1n": int(rng.choice([1, -1, 3])), "cls": "long_frame", "fs": fs,
            "seconds": float(shift / fs), "columns": columns, "inplace": bool(rng.integers(0, 2)), "suffix": [None, "_ts", None][i % 3], "index0": int(rng.choice([0, 0, 5]))}


def run_long(P: C.Part, ctx, rng, intensive: bool, stop) -> None:
    """the long-record stream of the oracle (deterministic work budget; the cases left out are counted)"""
    level = 2 if ctx.thorough else 1 if intensive else 0
    budget = [100_000_000, 400_000_000, 1_000_000_000][level] * (2 if (ctx.thorough and intensive) else 1)
    specs = long_specs(rng, level)
    skipped = 0
    for sp in specs:
        if stop():
            return
        cst = long_cost(sp)
        if cst > budget:
            skipped += 1
            continue
        budget -= cst
        check_long(P, sp)
    if skipped:
        P.hit("long_cases_over_budget", skipped)
    mined = specs[0]["cands"] if specs else []
    P.sample({"check": "long", "mined_constants": mined, "cases": len(specs) - skipped, "largest_N": max([sp["N"] for sp in specs] or [0])})
    # (3) df_timeshift on long frames
    frames = [LONG_ALWAYS[0]] + [c + 17 for c in mined if 4096 <= c and c + 17 <= 300_000][:1]
    if level >= 1:
        frames += [LONG_ALWAYS[1]] + [2 * c + 3 for c in mined if 4096 <= c and 2 * c + 3 <= 600_000][:2]
    for i, N in enumerate(frames):
        if stop():
            return
        check_df(P, gen_dfframe_spec(rng, N, i))


def run_check(P: C.Part, c: Dict[str, Any]):
    k = c.get("kind")
    if k == "long":
        check_long(P, {kk: vv for kk, vv in c.items() if kk not in ("kind", "n")})
        return
    if k == "taps":
        check_taps(P, int(c["h"]), [float(d) for d in c["ds"]])
    elif k == "const":
        data = np.array(c["data"], dtype=np.int64 if c.get("int_data") else np.float64)
        check_const(P, data, float(c["s"]), int(c["h"]), c.get("cls", "?"), bool(c.get("use_default", False)), c.get("s_kind", "float"))
    elif k == "var":
        check_var(P, np.array(c["data"], dtype=np.float64), np.array(c["shifts"], dtype=np.float64), int(c["h"]), int(c.get("mode", -1)))
    elif k == "poly":
        check_poly(P, int(c["N"]), int(c["h"]), int(c["deg"]), float(c["s"]), int(c.get("c1n", 1)))
    elif k == "df":
        check_df(P, {kk: c[kk] for kk in ("cols", "fs", "seconds", "columns", "inplace", "suffix", "index0", "N", "dseed", "deg", "c1n", "cls") if kk in c})
    elif k == "loader":
        check_loader(P, {kk: c[kk] for kk in ("dseed", "files", "start_time")})


def corpus(rng) -> List[Dict[str, Any]]:
    """no C16 failure was found in the design phase; fixed anchors: linear interpolation (h=1) and the default order 31, both signs"""
    r = np.random.default_rng(16)
    x50 = (r.standard_normal(50) + 0.3 * np.arange(50)).tolist()
    x90 = (r.standard_normal(90) + 5.0).tolist()
    out = []
    for s in (0.25, -0.25, -1.75, 2.0, -2.0, 60.0, -60.0, 0.0):
        out.append({"kind": "const", "data": x50, "s": s, "h": 1, "cls": "corpus"})
        out.append({"kind": "const", "data": x90, "s": s * 1.5, "h": 16, "cls": "corpus", "use_default": True})
    out.append({"kind": "var", "data": x90, "shifts": (2.2 * np.sin(np.arange(90) * 0.2)).tolist(), "h": 16, "mode": 0})
    out.append({"kind": "var", "data": x50, "shifts": (np.arange(50) % 5 - 2.5).tolist(), "h": 1, "mode": 1})
    out.append({"kind": "taps", "h": 1, "ds": [0.0, 0.25, 0.999]})
    out.append({"kind": "taps", "h": 16, "ds": [0.0, 0.5, 1 / 3, 0.9]})
    out.append({"kind": "poly", "N": 80, "h": 16, "deg": 31, "s": -3.3})
    out.append({"kind": "poly", "N": 12, "h": 1, "deg": 1, "s": 0.4})
    return out


def oracle(ctx, intensive: bool = False, hints=()) -> C.Part:
    P = C.Part()
    self_check()
    rng = ctx.rng
    mult = 4 if intensive else 1

    def stop() -> bool:
        return len(P.violations) >= 5 or ctx.time_left() < 15

    # corpus anchors, then the cases on which model and implementation disagreed (if any)
    seeds = corpus(rng)
    for hnt in list(hints)[:40]:
        cs = hnt.get("case") if isinstance(hnt, dict) else None
        if isinstance(cs, dict) and cs.get("kind") in ("taps", "const", "var"):
            seeds.append(cs)
    for c in seeds:
        run_check(P, c)
        if stop():
            return P

    # long records: lengths around every block / chunk constant of the current source, and always a few long ones (both paths + the wrapper)
    run_long(P, ctx, rng, intensive, stop)
    if stop():
        return P

    # (1) taps: every odd order 1..111
    nd = ctx.scale(6, 72) * mult
    for h in range(1, HMAX + 1):
        ds = [0.0, 0.5, float(rng.integers(1, 64)) / 64.0, float(rng.uniform(0, 1)), float(rng.choice([2.0 ** -30, 1e-12, 1e-300, 2.0 ** -53])),
              float(rng.choice([1 - 2.0 ** -53, 1 - 2.0 ** -20, 0.999]))]
        ds += [float(k) / 64.0 for k in rng.choice(np.arange(1, 64), size=min(max(nd - 6, 0), 63), replace=False)]
        ds += [float(v) for v in rng.uniform(0, 1, max(nd - 6 - 63, 0))]
        check_taps(P, h, ds)
        if stop():
            return P
    P.sample({"check": "taps", "h": HMAX, "d": 0.5, "exact_outer_tap": float(exact_taps(HMAX, 0.5)[0]), "exact_center_tap": float(exact_taps(HMAX, 0.5)[HMAX - 1])})

    # malformed / edge stream: sizes 0, 1, 2, constant and zero records
    for N in (0, 1, 2, 3):
        for s in (0.0, 1.0, -1.0, 0.5, -0.5, 7.25, -7.25, 100.0):
            for h in (1, 2, 16):
                data = np.arange(1.0, N + 1.0) * 1.5
                check_const(P, data, s, h, "edge_sizes")
                if N >= 1:
                    check_var(P, data, np.full(N, s), h, mode=4)
    if stop():
        return P

    # (3)-(6) constant path + path agreement
    n = ctx.scale(260, 3000) * mult
    for i in range(n):
        if stop():
            P.notes.append("stopped early (time budget or violations)")
            break
        h, N = gen_hN(rng, i, ctx.thorough)
        cls = SHIFT_CLASSES[int(rng.integers(0, len(SHIFT_CLASSES)))] if i % 10 else "zero"
        dcls = DATA_CLASSES[int(rng.integers(0, len(DATA_CLASSES)))] if i % 3 else "normal"
        if rng.integers(0, 4) == 0 and cls in ("frac", "negfrac", "half", "dyadic", "eps", "int_near"):
            N = max(N, 2 * h + 12)          # make sure interior samples exist for a good share of the fractional cases
        data = gen_data(rng, N, dcls)
        s = gen_shift(rng, N, h, cls)
        s_kind = ["float", "float", "int", "np0d", "arr1"][int(rng.integers(0, 5))]
        check_const(P, data, s, h, cls, use_default=bool(i % 2), s_kind=s_kind)
        P.hit(f"data_{dcls}")
        P.hit("h=1" if h == 1 else "h=16" if h == 16 else "h<16" if h < 16 else "h>16")
        if i < 4:
            P.sample({"check": "const", "h": h, "N": N, "shift": s, "class": cls, "data": dcls})

    # time-varying path with genuinely varying shifts
    n = ctx.scale(70, 700) * mult
    for i in range(n):
        if stop():
            break
        h, N = gen_hN(rng, i + 3, False)
        if i % 2 == 0:
            N = max(N, 2 * h + 20)
        N = min(N, 2 * h + 200)
        mode = i % 5
        data = gen_data(rng, N, ["normal", "trend", "spike", "int"][int(rng.integers(0, 4))])
        sv = gen_varshifts(rng, N, h, mode)
        if i % 17 == 16:
            sv = np.zeros(N)
        check_var(P, data, sv, h, mode)

    # (2) polynomial reproduction
    n = ctx.scale(60, 500) * mult
    for i in range(n):
        if stop():
            break
        h = [1, 2, 3, 16, int(rng.integers(1, 25)), int(rng.integers(1, HMAX + 1))][i % 6]
        N = 2 * h + int(rng.integers(4, 60 if h < 30 else 25))
        p = 2 * h - 1
        deg = int([0, 1, min(2, p), min(3, p), p, max(p - 1, 0), int(rng.integers(0, p + 1))][int(rng.integers(0, 7))])
        s = gen_shift(rng, N, h, str(rng.choice(["frac", "negfrac", "half", "dyadic", "eps", "int_near"])))
        check_poly(P, N, h, deg, s, c1n=int(rng.choice([1, -1, 3])), maxpts=ctx.scale(16, 48))
        P.hit("poly_deg=p" if deg == p else "poly_deg<p")

    # (7) DataFrame wrapper
    n = ctx.scale(36, 300) * mult
    for i in range(n):
        if stop():
            break
        check_df(P, gen_df_spec(rng, i))

    # (7) for all shifts: long delays with small fractional parts, tiny and near-integer shifts, shifts beyond the record, many sampling rates
    n = ctx.scale(64, 480) * mult
    for i in range(n):
        if stop():
            break
        spec = gen_dflong_spec(rng, i)
        check_df(P, spec)
        if i < 2:
            P.sample({"check": "df_long", "class": spec["cls"], "N": spec["N"], "fs": spec["fs"], "seconds": spec["seconds"], "samples": spec["seconds"] * spec["fs"]})
    # the file loader applies its `timeshifts` through the wrapper
    n = ctx.scale(6, 30) * mult
    for i in range(n):
        if stop():
            break
        check_loader(P, gen_loader_spec(rng, i))
    return P


def replay(ctx, data) -> C.Part:
    P = C.Part()
    self_check()
    for v in data.get("violations", []):
        run_check(P, v["replay"])
    return P


# ---------------------------------------------------------------------------------------------------------------- generated code vs source
def gen_call(drv, op: str):
    """`NONE` (the translated routine raises) -> None, else the output samples"""
    r = drv.ask(op)
    if r.startswith("ERR"):
        raise RuntimeError(f"driver error {r} on {op[:200]}")
    if r == "NONE":
        return None
    t = r.split()
    out = np.array([C.h2f(v) for v in t[1:]], dtype=np.float64)
    if out.size != int(t[0]):
        raise RuntimeError("driver: malformed array reply")
    return out


def real_call(f):
    """(output as a flat float array, None) or (None, exception)"""
    try:
        return np.asarray(f(), dtype=np.float64).reshape(-1), None
    except Exception as ex:           # noqa: the translated code must raise (`none`) exactly where the source does
        return None, ex


def gen_compare(P: C.Part, drv, op: str, order: int, x, sv, imp, tol, info: Dict[str, Any]):
    """Gen.timeshift (translated from dsp.timeshift's current source) in Float vs the real routine, element by element"""
    gen = gen_call(drv, f"gentshift {int(order)} {C.arr(x)} {C.arr(sv)}")
    P.cases += 1
    P.hit(op.replace(" ", "_"))
    imp = None if imp is None else np.asarray(imp, dtype=np.float64).reshape(-1)
    if imp is not None and np.ndim(tol) and np.shape(tol) != imp.shape:
        tol = float(np.max(tol)) if np.size(tol) else 0.0          # an output of unexpected length: one bound for all samples
    if gen is None or imp is None:
        ok = gen is None and imp is None
    else:
        with np.errstate(invalid="ignore"):
            same = (np.abs(gen - imp) <= tol) | (np.isnan(gen) & np.isnan(imp)) | (np.isinf(gen) & (gen == imp)) if gen.shape == imp.shape else None
        ok = same is not None and bool(np.all(same))
    if not ok:
        nn = int(np.argmax(np.nan_to_num(np.abs(gen - imp) - tol, nan=np.inf))) if (gen is not None and imp is not None and gen.shape == imp.shape and gen.size) else -1
        P.disagreements.append(dict(info, op=op, order=int(order), n=nn, impl=None if imp is None else (imp.tolist() if nn < 0 else float(imp[nn])),
                                    generated=None if gen is None else (gen.tolist() if nn < 0 else float(gen[nn])),
                                    tol=None if nn < 0 else float(np.broadcast_to(tol, imp.shape)[nn])))
    return ok


def gen_extra(P: C.Part, ctx, crng):
    """the translated routine on the inputs the main streams do not reach: sizes 0/1, zero shifts (scalar and vector), even orders and size
    mismatches (the source raises <-> the translation is `none`), size-1 shift arrays, integer records; then the DataFrame wrapper:
    shift = seconds*fs, default order, which dtype kinds are shifted.  All random choices come from the child generator `crng`."""
    import inspect
    import logging
    import pandas as pd
    dsp = impl()
    drv = ctx.driver
    # -- trivial / rejected inputs
    for N in (0, 1, 2, 3, 7):
        x = np.arange(1.0, N + 1.0) * 1.5 - 2.0
        for order in (1, 3, 31, 2, 0, 4):
            for sv in ([0.0], [0.5], [-7.25], [3.0], [0.0] * N, [0.25] * N, [0.25] * (N + 2), [0.0, 0.5]):
                sv = np.array(sv, dtype=np.float64)
                arg = float(sv[0]) if sv.size == 1 and (N + order) % 2 else sv
                imp, ex = real_call(lambda: dsp.timeshift(x, arg, order=order))
                amax = float(np.abs(x).max()) if N else 0.0
                gen_compare(P, drv, "gentshift edge", order, x, sv, imp, tolc(max((order + 1) // 2, 1)) * 4 * amax,
                            {"N": N, "shifts": sv.tolist(), "raises": None if ex is None else repr(ex),
                             "case": {"kind": "const", "data": x.tolist(), "s": float(sv[0]) if sv.size else 0.0, "h": max((order + 1) // 2, 1), "cls": "edge_sizes"}})
                P.hit("gen_edge_raises" if ex is not None else "gen_edge_returns")
    # -- more scalar-shift cases around the early returns, integer records, all orders 1..31
    for i in range(ctx.scale(60, 400)):
        h = int(crng.integers(1, 17))
        N = int(crng.integers(2, 2 * h + 12))
        cls = ["int_boundary", "int", "huge", "edge", "negfrac", "int_near", "eps"][i % 7]
        s = gen_shift(crng, N, h, cls)
        x = np.asarray(gen_data(crng, N, ["normal", "int", "trend"][int(crng.integers(0, 3))]), dtype=np.float64)
        imp, ex = real_call(lambda: dsp.timeshift(x, s, order=2 * h - 1))
        gen_compare(P, drv, "gentshift boundary", 2 * h - 1, x, np.array([s]), imp, tolc(h) * 4 * float(np.abs(x).max()),
                    {"h": h, "N": N, "s": s, "cls": cls, "raises": None if ex is None else repr(ex),
                     "case": {"kind": "const", "data": x.tolist(), "s": s, "h": h, "cls": cls}})
        P.hit(f"gen_boundary_{cls}")
        if ex is None and s != 0:
            P.nontrivial.add(("genconst", h, N, cls, s))
    # -- the DataFrame wrapper
    meta = drv.ask("gendfmeta").split(" | ")
    P.cases += 1
    P.hit("gendfmeta")
    want_order = inspect.signature(dsp.timeshift).parameters["order"].default
    N = 12
    cols = {"b": np.arange(N) % 3 == 0, "i": np.arange(N, dtype=np.int64) - 4, "u": np.arange(N, dtype=np.uint64), "f": np.arange(N) * 1.5,
            "c": np.arange(N) * (1 + 2j), "O": np.array([f"r{j}" for j in range(N)], dtype=object), "M": pd.to_datetime(np.arange(N), unit="s"),
            "m": pd.to_timedelta(np.arange(N), unit="s")}
    logging.disable(logging.WARNING)
    try:
        shifted, tested = "", ""
        for k, v in cols.items():
            df = pd.DataFrame({"x": v})
            try:
                res = dsp.df_timeshift(df, 2.0, 0.3)
            except Exception:            # noqa: the wrapper rejects the column (e.g. a result of the wrong length): no information on its kind
                P.hit("gendfmeta_kind_raises")
                continue
            tested += df["x"].dtype.kind
            if "x_shifted" in res.columns:
                shifted += df["x"].dtype.kind
        if len(meta) != 2 or meta[0] != str(want_order) or set(meta[1]) & set(tested) != set(shifted):
            P.disagreements.append({"op": "gendfmeta", "generated": meta, "impl": {"default_order": want_order, "kinds_shifted": shifted},
                                    "case": {"kind": "df", "cols": [["a", "f", list(range(40))]], "fs": 2.0, "seconds": 0.3, "columns": None,
                                             "inplace": False, "suffix": None, "index0": 0}})
        for i in range(ctx.scale(24, 160)):
            cls = DF_SHIFT_CLASSES[i % len(DF_SHIFT_CLASSES)]
            fs = float(DF_FS[int(crng.integers(0, len(DF_FS)))])
            N = int(crng.integers(34, 90))
            shift = gen_df_shift(crng, cls) if cls in ("tiny", "small", "near_int") else float(crng.uniform(-1.5, 1.5) * N)
            seconds = 0.0 if i % 12 == 11 else shift / fs
            x = crng.standard_normal(N) + 2.0
            df = pd.DataFrame({"a": x})

            def run():
                r = dsp.df_timeshift(df, fs, seconds)
                return r["a_shifted"] if "a_shifted" in r.columns else r["a"]
            imp, ex = real_call(run)
            gen = gen_call(drv, f"gendfshift {C.arr(x)} {C.f2h(fs)} {C.f2h(seconds)}")
            P.cases += 1
            P.hit("gendfshift")
            tol = tolc(16) * 4 * float(np.abs(x).max())
            ok = (gen is None and imp is None) or (gen is not None and imp is not None and gen.shape == imp.shape and bool(np.all(np.abs(gen - imp) <= tol)))
            if imp is None and gen is not None and gen.size != N and "ength" in repr(ex):
                # the translated column has the wrong length, and pandas rejects the store of the real one for its length: consistent
                # (the store itself is outside the translated region)
                ok = True
                P.hit("gendfshift_store_rejected")
            if not ok:
                P.disagreements.append({"op": "gendfshift", "N": N, "fs": fs, "seconds": seconds, "raises": None if ex is None else repr(ex),
                                        "impl": None if imp is None else imp.tolist(), "generated": None if gen is None else gen.tolist(),
                                        "case": {"kind": "df", "cols": [["a", "f", x.tolist()]], "fs": fs, "seconds": seconds, "columns": None,
                                                 "inplace": False, "suffix": None, "index0": 0}})
            elif seconds != 0:
                P.nontrivial.add(("gendf", fs, seconds, N))
    finally:
        logging.disable(logging.NOTSET)


# ---------------------------------------------------------------------------------------------------------------- correspondence
def correspondence(ctx) -> C.Part:
    """Model.TimeShift executed in Float by the driver vs the real dsp.lagrange_taps / dsp.timeshift (both paths)"""
    P = C.Part()
    dsp = impl()
    rng = ctx.rng
    drv = ctx.driver

    # taps: all half-lengths
    nd = ctx.scale(6, 40)
    for h in range(1, HMAX + 1):
        ds = [0.0, 0.5, float(rng.integers(1, 64)) / 64.0, 1 - 2.0 ** -53, 1e-300, 1.0] + [float(v) for v in rng.uniform(0, 1, nd - 6)]
        T = np.asarray(dsp.lagrange_taps(np.array(ds), h))
        for r, d in enumerate(ds):
            mdl = np.array(drv.floats(f"taps {h} {C.f2h(d)}"))
            P.cases += 1
            P.hit("taps")
            tol = 1e-12 * np.maximum(np.abs(mdl), np.abs(T[r])) + 1e-290
            if mdl.shape != T[r].shape or not np.all(np.abs(mdl - T[r]) <= tol):
                k = int(np.argmax(np.abs(mdl - T[r]) - tol)) if mdl.shape == T[r].shape else -1
                P.disagreements.append({"op": "taps", "h": h, "d": d, "k": k, "impl": T[r].tolist(), "model": mdl.tolist(),
                                        "case": {"kind": "taps", "h": h, "ds": [d if 0 <= d < 1 else 0.5]}})
            elif d not in (0.0, 1.0):
                P.nontrivial.add(("taps", h, d))
            # the taps as translated from the source of dsp.lagrange_taps on this run (same operations in the same order: tight)
            gen = np.array(drv.floats(f"gentaps {h} {C.f2h(d)}"))
            P.cases += 1
            P.hit("gentaps")
            gtol = 8 * 2.0 ** -52 * np.maximum(np.abs(gen), np.abs(T[r])) + 1e-300 if gen.shape == T[r].shape else None
            if gen.shape != T[r].shape or not np.all(np.abs(gen - T[r]) <= gtol):
                P.disagreements.append({"op": "gentaps", "h": h, "d": d, "impl": T[r].tolist(), "generated": gen.tolist(),
                                        "case": {"kind": "taps", "h": h, "ds": [d if 0 <= d < 1 else 0.5]}})
    P.sample({"op": "taps", "h": 16, "d": 0.5, "model_center": drv.floats(f"taps 16 {C.f2h(0.5)}")[15]})

    # constant path
    n = ctx.scale(220, 2500)
    for i in range(n):
        if ctx.time_left() < 60 or len(P.disagreements) >= 10:
            P.notes.append("stopped early (time budget or disagreements)")
            break
        h, N = gen_hN(rng, i, False)
        N = min(N, 2 * h + 90)
        cls = SHIFT_CLASSES[int(rng.integers(0, len(SHIFT_CLASSES)))]
        x = np.asarray(gen_data(rng, N, ["normal", "trend", "spike", "const"][int(rng.integers(0, 4))]), dtype=np.float64)
        s = gen_shift(rng, N, h, cls)
        si = int(np.floor(s))
        d = float(s - si)
        imp, ex = real_call(lambda: dsp.timeshift(x, s, order=2 * h - 1))
        if ex is not None:
            # the routine raises on a valid input: a disagreement with the model (handed to the oracle), not an infrastructure error;
            # the translated routine must raise (`none`) on the same input
            P.cases += 1
            P.hit("const_raises")
            case = {"kind": "const", "data": x.tolist(), "s": s, "h": h, "cls": cls}
            P.disagreements.append({"op": "tshift const", "h": h, "N": N, "s": s, "raises": repr(ex), "case": case})
            gen_compare(P, drv, "gentshift const", 2 * h - 1, x, np.array([s]), None, 0.0, {"h": h, "N": N, "s": s, "raises": repr(ex), "case": case})
            continue
        mdl = np.array(drv.floats(f"tshift const {h} {C.arr(x)} {si} {C.f2h(d)}"))
        P.cases += 1
        P.hit(f"const_{cls}")
        i_min = si - (h - 1)
        i_max = si + h + N
        branch = "early_left" if i_max - 1 < 0 else "early_right" if i_min > N - 1 else "padded" if (i_min < 0 or i_max > N) else "inside"
        P.hit(f"branch_{branch}")
        t = np.abs(np.asarray(dsp.lagrange_taps(np.array([d]), h))[0])
        idx = np.clip(np.arange(N)[:, None] + i_min + np.arange(2 * h)[None, :], 0, N - 1)
        S = np.abs(x)[idx] @ t
        tol = tolc(h) * S
        if imp.shape != mdl.shape or not np.all(np.abs(imp - mdl) <= tol):
            nn = int(np.argmax(np.abs(imp - mdl) - tol)) if imp.shape == mdl.shape else -1
            P.disagreements.append({"op": "tshift const", "h": h, "N": N, "s": s, "sInt": si, "d": d, "n": nn, "branch": branch,
                                    "impl": None if nn < 0 else float(imp[nn]), "model": None if nn < 0 else float(mdl[nn]),
                                    "tol": None if nn < 0 else float(tol[nn]),
                                    "case": {"kind": "const", "data": x.tolist(), "s": s, "h": h, "cls": cls}})
        elif s != 0:
            P.nontrivial.add(("const", h, N, cls, s))
        # the routine as TRANSLATED from the source of dsp.timeshift on this run, same case, same tolerance
        gen_compare(P, drv, "gentshift const", 2 * h - 1, x, np.array([s]), imp, tol,
                    {"h": h, "N": N, "s": s, "branch": branch, "case": {"kind": "const", "data": x.tolist(), "s": s, "h": h, "cls": cls}})
        P.hit(f"gen_const_{branch}")
        if i < 3:
            P.sample({"op": "tshift const", "h": h, "N": N, "shift": s, "branch": branch, "impl0": float(imp[0]), "model0": float(mdl[0])})

    # time-varying path
    n = ctx.scale(90, 900)
    for i in range(n):
        if ctx.time_left() < 40 or len(P.disagreements) >= 10:
            break
        h, N = gen_hN(rng, i + 5, False)
        N = min(N, 2 * h + 70)
        mode = i % 5
        x = np.asarray(gen_data(rng, N, ["normal", "trend", "spike"][int(rng.integers(0, 3))]), dtype=np.float64)
        sv = np.asarray(gen_varshifts(rng, N, h, mode), dtype=np.float64)
        if N == 1 or np.all(sv == 0):
            continue
        sis = np.floor(sv).astype(int)
        dd = sv - sis
        imp, ex = real_call(lambda: dsp.timeshift(x, sv, order=2 * h - 1))
        if ex is not None:
            P.cases += 1
            P.hit("var_raises")
            case = {"kind": "var", "data": x.tolist(), "shifts": sv.tolist(), "h": h, "mode": mode}
            P.disagreements.append({"op": "tshift var", "h": h, "N": N, "mode": mode, "raises": repr(ex), "case": case})
            gen_compare(P, drv, "gentshift var", 2 * h - 1, x, sv, None, 0.0, {"h": h, "N": N, "mode": mode, "raises": repr(ex), "case": case})
            continue
        mdl = np.array(drv.floats(f"tshift var {h} {C.arr(x)} " + " ".join(f"{int(a)} {C.f2h(b)}" for a, b in zip(sis, dd))))
        P.cases += 1
        P.hit(f"var_mode_{mode}")
        T = np.abs(np.asarray(dsp.lagrange_taps(dd, h)))
        ic = np.clip(np.arange(N) + sis, -(h + 1), N + (h - 1))
        idx = ic[:, None] - (h - 1) + np.arange(2 * h)[None, :]
        ok = (idx >= 0) & (idx < N)
        G = np.where(ok, np.abs(x)[np.clip(idx, 0, N - 1)], 0.0)
        S = np.sum(G * T, axis=1)
        P.hit("var_clipped_samples", int(np.sum(ic != np.arange(N) + sis)))
        P.hit("var_partial_stencils", int(np.sum(~np.all(ok, axis=1))))
        tol = tolc(h) * S
        if imp.shape != mdl.shape or not np.all(np.abs(imp - mdl) <= tol):
            nn = int(np.argmax(np.abs(imp - mdl) - tol)) if imp.shape == mdl.shape else -1
            P.disagreements.append({"op": "tshift var", "h": h, "N": N, "n": nn, "mode": mode,
                                    "impl": None if nn < 0 else float(imp[nn]), "model": None if nn < 0 else float(mdl[nn]),
                                    "tol": None if nn < 0 else float(tol[nn]),
                                    "case": {"kind": "var", "data": x.tolist(), "shifts": sv.tolist(), "h": h, "mode": mode}})
        else:
            P.nontrivial.add(("var", h, N, mode, float(sv[0])))
        gen_compare(P, drv, "gentshift var", 2 * h - 1, x, sv, imp, tol,
                    {"h": h, "N": N, "mode": mode, "case": {"kind": "var", "data": x.tolist(), "shifts": sv.tolist(), "h": h, "mode": mode}})
        P.hit(f"gen_var_mode_{mode}")
    crng = np.random.default_rng(int(rng.integers(0, 2 ** 62)))
    gen_extra(P, ctx, crng)
    # region DfWrappers: the WHOLE df_timeshift as translated vs the real one on generated pandas frames (child generator of the child: the
    # streams above are unchanged)
    from ..regions import df_wrappers as DFW
    DFW.differential(P, ctx, np.random.default_rng(int(crng.integers(0, 2 ** 62))), "timeshift")
    return P
