"""C15 — optimal multi-input subtraction yields a physical, consistent residual."""
from __future__ import annotations

import hashlib
from typing import Any, Dict, List, Optional

import numpy as np

from .. import common as C

PROP = "C15"
# obligations of the properties this one is downstream of are obligations of this check too (vk.runner.collect_obligations)
UPSTREAM = ["C05"]
GEN_REGIONS = ["Attrs", "Miso", "GlobalState"]
THEOREMS = {
    # speckit/systems.py as TRANSLATED on every run (Gen/Miso.lean): the residual statements of both solvers equal the hand model
    # Model.misoResidual on the arrays the translated assembly builds; the assembly (which attribute of which ltf([a, b]) call is filed where,
    # conjugations, the np.any diagonal rule, the q == 1 case, the memoisation keys) yields the Gram quantities T, S, S00 of
    # Lemmas/MisoResidual in that index / conjugation convention; what is handed to the external solvers; transfer of the property theorems
    "SpecKitV.Props.MisoGen": [
        "gen_numeric_eq_model", "gen_analytic_eq_model", "MisoGen.numeric_assembly", "MisoGen.analytic_T", "MisoGen.analytic_S",
        "MisoGen.analytic_S00", "MisoGen.analytic_H", "MisoGen.numeric_H_solves", "MisoGen.analytic_H_solves",
        "gen_numeric_eq_resid", "gen_numeric_is_norm", "gen_numeric_normal_eq", "gen_numeric_le_output", "gen_numeric_minimises",
        "gen_numeric_exact_combination_zero", "gen_numeric_remix_invariant",
        "gen_analytic_eq_resid", "gen_analytic_normal_eq", "gen_analytic_le_output", "gen_analytic_exact_combination_zero",
        "gen_analytic_remix_invariant", "gen_solvers_agree", "gen_siso_eq_GyyRx", "gen_siso_eq_miso_q1", "MisoGen.abs_csqrt",
        # memoisation keys of the numeric solver (speckit a8eaa1b: f"T{i+1}_{j+1}") determine the pair for ALL indices, so every numeric theorem above
        # holds for every q >= 1; the concatenated-digit scheme (analytic dict keys; numeric keys before a8eaa1b, defect D14) is PROVED ambiguous
        "MisoGen.NTkey_inj", "MisoGen.Skey_inj'", "analytic_key_collision", "analytic_T_1_11_holds_conjugate", "old_numeric_key_collision"],
    "SpecKitV.Lemmas.MisoResidual": [
        "Miso.residual_is_norm", "Miso.residual_real_nonneg", "Miso.normal_eq_minimises", "Miso.residual_le_output",
        "Miso.solvers_agree", "Miso.exact_combination_zero", "Miso.remix_invariant", "Miso.siso_case", "model_misoResidual_toC"],
    "SpecKitV.Props.AttrsA": ["residual_identity", "residual_identity'", "residual_eq_GyyRx"],
    # no state outlives a call in the files this property is anchored in (no module/class-level containers, memoisers, mutable defaults) and the
    # decorators are exactly the audited ones (region GlobalState, re-scanned from the current source each run)
    "SpecKitV.Props.GlobalStateGen": ["GlobalStateGen.gen_globalState_systems"],
}
CONTRACTS = [
    "sympy.solve / np.linalg.solve / np.linalg.pinv return a solution H of the normal equations sum_j T_ij H_j = S_i "
    "(the theorems hold for ANY such H, no invertibility assumed)",
    "Np.Miso.Ltf (Np/Miso.lean): ltf(x, fs, **kwargs) = `auto x`, ltf([x, y], fs, **kwargs) = `cross x y` (channel order is an argument) return, per "
    "bin, the base estimates Gen.BinData from which the TRANSLATED SpectrumResult.__getattr__ (Gen/Attrs) computes Gxx/Gxy/Gyy/GyySx, and nf; "
    "MisoGen.GramLtf (Props/MisoGen.lean) states C01/C05 for them: XY of cross a b = mean_s Z_a conj Z_b, XX/YY = mean |Z_a|^2 / |Z_b|^2 over the "
    "same K segments, common S2 and fs (same plan in every call: the translator checks that every call passes exactly fs, **kwargs)",
    "Np.Miso.LinAlg: np.linalg.cond / pinv / solve as parameters (none = LinAlgError raised); MisoGen.LinAlgSound: on a solvable system what "
    "np.linalg.solve(T, S) returns and np.linalg.pinv(T) @ S solve T H = S; solvability of the normal equations of a Gram system is an explicit "
    "hypothesis (hcons) of the transferred theorems, not proved here",
    "MisoGen.AnalyticSolved: the values sp.solve(eqns, Hvec) + sp.lambdify(...)(*[result[str(s)]...]) store under the unknowns' names satisfy the "
    "TRANSLATED symbolic equations (Gen.MISO_analytic_optimal_spectral_analysis.eqns) at the arrays stored under the symbols' names",
    "Np.Miso.Key / Dict / Cache: a Python str is its list of characters, f\"{i + 1}\" its decimal digits; dict stores and lookups by string equality; "
    "Cache.memo = the helper get_ltf_result (if key not in result: result[key] = ltf(...)); numeric-solver theorems for EVERY q >= 1 (its keys "
    "S00 / T{i+1}_{j+1} / T11 / S{i+1}0 are proved injective and disjoint for all indices from the injectivity of decimal representation); "
    "analytic-solver theorems for q <= 9 (its keys T{i+1}{j+1} are proved ambiguous from q = 11: analytic_key_collision)",
    "Np.Miso.A3.setRow / A2.setRow / A2.setCol = NumPy slice assignment T[i, j, :] = v / S[i, :] = v / H[:, k] = v; anyNonzero = np.any; "
    "sumAxis0 = np.sum(axis=0) (rows added in order); pySum = builtin sum; matVec = M @ v; forRangeFrom = range(a, b); "
    "csqrt = np.sqrt of a complex number (principal root)",
    "every ltf(...) call inside one systems function uses the same kwargs on equal-length records, hence the same plan (same segmentation): "
    "T_ij, S_i, S00 are c*means over the same segments of products of per-segment DFTs (C01/C05), c = 2/(fs*S2) >= 0",
]
ASSUMPTIONS = [
    "rounding of the spectra, of the solve and of the residual formula is covered by the stated data-scaled tolerances, not by theorem",
    "bins whose Gram matrix T has cond > 1e8 (numerically rank deficient, including every bin with navg <= q) and bins whose output "
    "spectrum is pure rounding noise (segment length <= detrend order + 1) are counted unstable/degenerate, not checked",
    "the analytic solver evaluates SymPy's closed-form (cofactor-type) solution in floating point, which is not backward stable: its bins are "
    "checked only where rho = prod_i(sum_j|T_ij|)/|det T| <= 1e10 (relative determinant error ~u*rho; measured residual excess <= 1e-12*B up to "
    "rho = 1e12, growing like (u*rho)^2 beyond); bins with larger rho are counted unstable for that solver only",
    "backend independence (option sweep) is demanded within ETA*(B + B') + 4F, F the first-order propagation of the kernels' forward rounding budget "
    "(_an.bin_tol, the bound C01/C05 hold every backend to) through r = S00 - S^H T^-1 S; bins where that budget exceeds 1e-2 of the smallest "
    "singular value of the amplitude-scaled Gram matrix are counted unstable for this claim only",
]
RULE = ("cases = (record family: white/coloured/offset+trend/correlated inputs, q in 1..4, gains+delays/FIR couplings+independent noise, "
        "analysis options order/olap/Jdes/Kdes/scheduler/window) x sub-check (bound, least-squares reference, exact combination, permutation, "
        "invertible re-mix, analytic-vs-numeric, SISO identity, single-input MISO); every case regenerated from one 63-bit sub-seed drawn from "
        "VERIF_SEED; representation stream: q = 1..4 problems whose channels are handed over in different carriers (int8..uint64, bool, float16/32, "
        "long double, big-endian, Python lists/tuples/array.array, strided/reversed/column views, read-only, masked arrays, pandas Series with "
        "non-default / permuted / nullable index+dtype), mixed between channels, every carrier at least once per run as the input against an output "
        "of the opposite kind, checked against the claims for the record's VALUES and against the same values as float64 arrays; distinct by (sub-check, solver, q, family, order, scheduler, coupling kind); non-trivial = at least one bin with navg > q, "
        "resolved output spectrum and cond(T) <= 1e8 was actually compared; generated-code stream (gmiso): q = 1..4 problems from a side stream of "
        "VERIF_SEED, the three systems functions AS TRANSLATED (Gen/Miso.lean) executed by the driver on the base estimates of every ltf call the real "
        "function made (recorded with the channels it was called with) vs the real function's own Tmat/Svec/S00/Hvec or dict `result` (assembly: "
        "64 ulp of the bin's scale) and its returned ASD (the tolerance above), once with stand-in solvers (Gaussian elimination on what the generated "
        "code hands over / on the translated SymPy equations) and once with the real solver's output; analysis-option sweep (every run): one strong + "
        "weak inputs, output weakly coupled to the strong one, N 500..900, Jdes 5..10; every (backend in numba/numpy/auto[/cuda where installed], order in "
        "-1..2) pair for q = 1 (SISO, numeric, analytic) and q = 2 (numeric, analytic), scheduler in lpsd/ltf/vectorized_ltf/new_ltf rotating with "
        "VERIF_SEED (4 consecutive seeds = backend x order x scheduler), window (default/kaiser by name, psll 40..200, hann), olap (default, 0..0.75), "
        "band, bmin, Lmin, Kdes, num_patch_pts drawn per group; one group = the same records and options under every backend: all sub-claims per "
        "backend + backend independence of the residual within the kernels' rounding budget; distinct by (sub-check, solver, q, coupling, order, "
        "scheduler, backend); units stream (every run): q = 1 (SISO, numeric, analytic) and q = 2 (numeric, analytic) short record sets (N 500..900, "
        "Jdes 5..10, order / scheduler / window / olap / band drawn) analysed as they are and with ONE input / ALL inputs / the OUTPUT / ALL channels "
        "multiplied by 2^e, e = -40 and +40 always plus one exponent from +-3..39 or +-60..120 per kind (one input among q >= 2: 2^+-8, 2^+-(2..12)), "
        "amplitudes within [1e-60, 1e55]: all sub-claims on the scaled data (incl. Gyy*(1-coh) of an independent compute_spectrum, SISO = MISO, exact "
        "combination -> 0 relative to the output, at the scaled or at the original size) + residual(scaled) = s_out^2 residual(original); distinct by "
        "(solver, q, kind, direction, far, order, scheduler); q = 1 re-mix of the generated cases also through the SISO entry point; rank-deficient "
        "input sets (every run): q in {2, 3}, N 500..900, Jdes 5..8, live inputs coherent through a sample delay (complex Gram matrix) plus, at a drawn "
        "position, an all-zero / constant (order -1, 0, 1) / duplicated (x1, x2, x-1, x0.5) / linearly dependent channel, or one live channel scaled by "
        "2^-20..2^-26 (pseudo-inverse fallback of the numeric solver): 0 <= residual <= Gyy, residual = residual of the live (unscaled) channels alone, "
        "exact combination of the live channels -> 0, analytic = numeric on the scaled sets; distinct by (sub-check, solver, q, kind, parameter, order, scheduler)")

U = 2.0 ** -53
ETA = 1e-9          # power-like comparisons: |a - b| <= ETA * B, B = S00 + 2 sum|H_i||S_i| + sum|H_j||H_i||T_ji| (magnitude of the formula's terms)
ETA_EXACT = 1e-12   # exact combination: residual power <= ETA_EXACT * B  (asd <= 1e-6*sqrt(B); B ~ 4*Gyy for well-conditioned inputs)
COND_MAX = 1e8
RHO_MAX = 1e10      # analytic (SymPy cofactor-type closed form) solver only: rho = prod_i(sum_j|T_ij|)/|det T| bounds the relative rounding error of
                    # the evaluated determinants by ~u*rho; the residual is second order in the error of H, measured excess <= 1e-12*B for rho <= 1e12
RESOLVED = 1e-20    # a bin's output spectrum is "resolved" when Gyy >= RESOLVED * 2*L*max|y|^2/fs (its largest possible value)
SCHEDS = ["ltf", "vectorized_ltf", "lpsd"]
FAMILIES = ["white", "coloured", "offset_trend", "correlated", "scaled"]
COUPLINGS = ["static", "delay", "fir"]


# ------------------------------------------------------------------------------------------------ case generation
def _colour(rng, v):
    k = int(rng.integers(0, 3))
    if k == 0:
        return v + 0.05 * np.cumsum(v)
    if k == 1:
        h = rng.standard_normal(4) * np.array([1.0, 0.6, 0.3, 0.1])
        return np.convolve(v, h, mode="full")[: len(v)]
    out = np.empty_like(v)
    a = float(rng.uniform(-0.9, 0.9))
    acc = 0.0
    for i, e in enumerate(v):
        acc = a * acc + e
        out[i] = acc
    return out


def build_case(sub_seed: int, q: int, thorough: bool = False, family: Optional[str] = None, coupling: Optional[str] = None) -> Dict[str, Any]:
    """everything derived from `sub_seed` (replayable alone)"""
    rng = np.random.default_rng(int(sub_seed))
    N = int(rng.integers(1500, 6001 if thorough else 4001))
    fam_d, cpl_d = str(rng.choice(FAMILIES)), str(rng.choice(COUPLINGS))     # always drawn, so overriding does not shift the stream
    fam = family or fam_d
    cpl = coupling or cpl_d
    fs = float(rng.choice([1.0, 1.0, 2.0, 100.0, float(rng.uniform(0.5, 50.0))]))
    xs = [rng.standard_normal(N) for _ in range(q)]
    if fam == "coloured":
        xs = [_colour(rng, v) for v in xs]
    elif fam == "offset_trend":
        t = np.arange(N)
        xs = [v + float(rng.normal(0, 300.0)) + float(rng.normal(0, 0.05)) * t for v in xs]
    elif fam == "correlated":
        base = rng.standard_normal(N)
        xs = [v + float(rng.uniform(0.3, 1.5)) * base for v in xs]
    elif fam == "scaled":
        xs = [v * float(10.0 ** rng.uniform(-3, 3)) for v in xs]
    gains = [float(rng.choice([-1.0, 1.0]) * 10.0 ** rng.uniform(-1, 0.7)) for _ in range(q)]
    parts = []
    for g, v in zip(gains, xs):
        if cpl == "static":
            parts.append(g * v)
        elif cpl == "delay":
            parts.append(g * np.roll(v, int(rng.integers(1, 6))))
        else:
            h = rng.standard_normal(3)
            parts.append(g * np.convolve(v, h, mode="full")[:N])
    sig = sum(parts)
    noise_rel = float(rng.choice([0.05, 0.3, 1.0, 3.0]))
    noise = rng.standard_normal(N)
    if fam == "coloured" and rng.random() < 0.5:
        noise = _colour(rng, noise)
    y = sig + noise_rel * float(np.std(sig)) / max(float(np.std(noise)), 1e-300) * noise
    if fam == "offset_trend":
        y = y + float(rng.normal(0, 50.0))
    kw: Dict[str, Any] = {"Jdes": int(rng.integers(10, 26)), "Kdes": int(rng.integers(2, 41)),
                          "order": int(rng.choice([-1, 0, 1, 2])), "scheduler": str(rng.choice(SCHEDS))}
    ol = rng.choice(["default", "0.0", "0.3", "0.5", "0.75"])
    if ol != "default":
        kw["olap"] = float(ol)
    wk = int(rng.integers(0, 4))
    if wk == 1:
        kw["win"] = "hann"
    elif wk == 2:
        kw["psll"] = float(rng.choice([60.0, 120.0]))
    if rng.random() < 0.3:
        kw["bmin"] = float(rng.choice([1.5, 3.0]))
    if rng.random() < 0.3:
        kw["Lmin"] = int(rng.choice([8, 32, 100]))
    coeffs = [float(rng.choice([-1.0, 1.0]) * 10.0 ** rng.uniform(-1, 1)) for _ in range(q)]
    # well-conditioned random mixing matrix (cond <= 50)
    A = np.eye(q)
    for _ in range(50):
        A = rng.standard_normal((q, q))
        if q == 1:
            A = np.array([[float(rng.choice([-1.0, 1.0]) * 10.0 ** rng.uniform(-1, 1))]])
        if np.linalg.cond(A) <= 50:
            break
    else:
        A = np.eye(q) + 0.1 * rng.standard_normal((q, q))
    # the re-mix claim holds for ANY invertible matrix: half of the cases rescale the whole matrix by a factor 1e-10 … 1e10 (inputs recorded in
    # other units); drawn from a side stream so that the generated records stay what they were
    sc_rng = np.random.default_rng([int(sub_seed) & 0xFFFFFFFF, 0xA5C])
    if sc_rng.random() < 0.5:
        A = A * float(10.0 ** sc_rng.uniform(-10, 10))
    perm = [int(p) for p in rng.permutation(q)]
    if q >= 2 and perm == list(range(q)):
        perm = perm[1:] + perm[:1]
    return {"sub_seed": int(sub_seed), "q": q, "N": N, "fs": fs, "family": fam, "coupling": cpl, "xs": xs, "y": y, "kw": kw,
            "coeffs": coeffs, "A": A, "perm": perm, "noise_rel": noise_rel, "big": bool(thorough)}


def d2_witness() -> Dict[str, Any]:
    """design-phase defect D2: y = 0.7*roll(x,3) + 0.3*noise (XY has a phase); old GyySx was wrong by a factor > 10"""
    rng = np.random.default_rng(0)
    N = 4000
    x = rng.standard_normal(N)
    y = 0.7 * np.roll(x, 3) + 0.3 * rng.standard_normal(N)
    return {"sub_seed": -2, "q": 1, "N": N, "fs": 1.0, "family": "corpus_D2", "coupling": "delay", "xs": [x], "y": y,
            "kw": {"Jdes": 20, "Kdes": 20}, "coeffs": [0.7], "A": np.array([[2.0]]), "perm": [0], "noise_rel": 0.3, "big": False}


def case_digest(c) -> str:
    h = hashlib.sha256()
    for v in c["xs"] + [c["y"]]:
        h.update(np.ascontiguousarray(v, dtype=np.float64).tobytes())
    return h.hexdigest()[:16]


def case_desc(c) -> Dict[str, Any]:
    d = {"sub_seed": c["sub_seed"], "q": c["q"], "N": c["N"], "fs": c["fs"], "family": c["family"], "coupling": c["coupling"],
         "kw": dict(c["kw"]), "noise_rel": c["noise_rel"], "big": c.get("big", False), "digest": case_digest(c)}
    if c.get("stream") == "repr":
        d.update({"stream": "repr", "reps_in": list(c["reps_in"]), "rep_out": c["rep_out"], "as_tuple": bool(c["as_tuple"])})
    if c.get("stream") == "sweep":
        d.update({"stream": "sweep", "group_backends": list(c.get("group_backends", []))})
        if "band" in d["kw"]:
            d["kw"]["band"] = [float(t) for t in d["kw"]["band"]]
    if c.get("stream") == "units":
        d.update({"stream": "units", "units_t": (dict(c["units_t"]) if c.get("units_t") else None)})
        if "band" in d["kw"]:
            d["kw"]["band"] = [float(t) for t in d["kw"]["band"]]
    if c.get("stream") == "rankdef":
        d.update({"stream": "rankdef", "rd": dict(c["rd"]), "pos": int(c["pos"])})
        if "band" in d["kw"]:
            d["kw"]["band"] = [float(t) for t in d["kw"]["band"]]
    return d


# ------------------------------------------------------------------------------------------------ ingredients (real library)
class Ingredients:
    """the spectra the systems functions are documented to use, computed with the real library and the same kwargs"""

    def __init__(self, xs: List[np.ndarray], y: np.ndarray, fs: float, kw: Dict[str, Any]):
        from speckit import compute_spectrum
        q = len(xs)
        r0 = compute_spectrum(np.asarray(y), fs, **kw)
        self.f = np.asarray(r0.f, dtype=float)
        self.nf = len(self.f)
        self.navg = np.asarray(r0.navg)
        self.L = np.asarray(r0.L)
        self.D = r0.D                                   # segment starts per bin and window sums: only the SCALE of the kernels' rounding budget
        self.S2 = np.asarray(r0.S2, dtype=float)        # (backend-independence claim of the option sweep) is derived from them
        self.fs = float(fs)
        self.S00 = np.asarray(r0.Gxx, dtype=float)
        self.q = q
        self.T = np.zeros((q, q, self.nf), dtype=complex)
        self.S = np.zeros((q, self.nf), dtype=complex)
        for i in range(q):
            self.T[i, i] = compute_spectrum(np.asarray(xs[i]), fs, **kw).Gxx
            self.S[i] = compute_spectrum([np.asarray(xs[i]), np.asarray(y)], fs, **kw).Gxy
            for j in range(i + 1, q):
                g = compute_spectrum([np.asarray(xs[i]), np.asarray(xs[j])], fs, **kw).Gxy
                self.T[i, j] = g
                self.T[j, i] = np.conj(g)
        ymax = float(np.max(np.abs(y))) if len(y) else 0.0
        self.resolved = self.S00 >= RESOLVED * 2.0 * self.L.astype(float) * ymax * ymax / fs
        self.resolved &= self.S00 > 0
        self.solve()

    def solve(self):
        q, nf = self.q, self.nf
        self.cond = np.full(nf, np.inf)
        self.H = np.zeros((q, nf), dtype=complex)
        self.B = np.full(nf, np.inf)
        self.rref = np.full(nf, np.nan)
        self.rho = np.full(nf, np.inf)
        for k in range(nf):
            Tk = self.T[:, :, k]
            Sk = self.S[:, k]
            if not (np.all(np.isfinite(Tk)) and np.all(np.isfinite(Sk))):
                continue
            try:
                cd = float(np.linalg.cond(Tk))
            except np.linalg.LinAlgError:
                continue
            self.cond[k] = cd if np.isfinite(cd) else np.inf
            if not (cd <= 1e14):
                continue
            try:
                Hk = np.linalg.solve(Tk, Sk)
            except np.linalg.LinAlgError:
                continue
            self.H[:, k] = Hk
            aH = np.abs(Hk)
            self.B[k] = self.S00[k] + 2.0 * float(aH @ np.abs(Sk)) + float(aH @ np.abs(Tk) @ aH)
            self.rref[k] = self.S00[k] - float(np.real(np.vdot(Hk, Sk)))
            dt = abs(np.linalg.det(Tk))
            self.rho[k] = float(np.prod(np.abs(Tk).sum(axis=1))) / dt if dt > 0 else np.inf
        self.good = (self.navg > q) & self.resolved & (self.cond <= COND_MAX) & np.isfinite(self.B)
        self.good_ana = self.good & (self.rho <= RHO_MAX)

    def mask(self, solver: str) -> np.ndarray:
        return self.good_ana if "analytic" in solver else self.good

    def for_output(self, xs: List[np.ndarray], y: np.ndarray, fs: float, kw: Dict[str, Any]) -> "Ingredients":
        """ingredients of the same inputs (T taken over: the same compute_spectrum calls on the same records) with another output record"""
        from speckit import compute_spectrum
        o = object.__new__(Ingredients)
        o.__dict__.update(self.__dict__)
        r0 = compute_spectrum(np.asarray(y), fs, **kw)
        o.S00 = np.asarray(r0.Gxx, dtype=float)
        o.S = np.zeros((self.q, self.nf), dtype=complex)
        for i in range(self.q):
            o.S[i] = compute_spectrum([np.asarray(xs[i]), np.asarray(y)], fs, **kw).Gxy
        ymax = float(np.max(np.abs(y))) if len(y) else 0.0
        o.resolved = (o.S00 >= RESOLVED * 2.0 * self.L.astype(float) * ymax * ymax / fs) & (o.S00 > 0)
        o.solve()
        return o

    def remixed(self, A: np.ndarray) -> "Ingredients":
        """ingredients of x' = A x obtained algebraically (T' = A T A^H, S' = A S): only used for the SCALE B' of the tolerance"""
        o = object.__new__(Ingredients)
        o.__dict__.update({k: v for k, v in self.__dict__.items()})
        Ac = A.astype(complex)
        o.T = np.einsum("ia,abk,jb->ijk", Ac, self.T, Ac.conj())
        o.S = np.einsum("ia,ak->ik", Ac, self.S)
        o.solve()
        return o


def call(fn_name: str, xs, y, fs, kw):
    from speckit import systems
    if fn_name == "siso":
        return systems.SISO_optimal_spectral_analysis(xs[0], y, fs, **kw)
    fn = systems.MISO_numeric_optimal_spectral_analysis if fn_name == "numeric" else systems.MISO_analytic_optimal_spectral_analysis
    return fn(xs if isinstance(xs, tuple) else list(xs), y, fs, **kw)


# ------------------------------------------------------------------------------------------------ correspondence
def cx(zs) -> str:
    zs = np.asarray(zs, dtype=complex).reshape(-1)
    return str(len(zs)) + "".join(" " + C.f2h(z.real) + " " + C.f2h(z.imag) for z in zs)


def model_residual(drv, q, S00, S, T, H) -> complex:
    v = drv.floats(f"miso {q} {C.f2h(S00)} {cx(S)} {cx(T)} {cx(H)}")
    return complex(v[0], v[1])



# ------------------------------------------------------------------------------------------------ generated code (Gen/Miso.lean) vs the real functions
SYS_FN = {"siso": "SISO_optimal_spectral_analysis", "numeric": "MISO_numeric_optimal_spectral_analysis",
          "analytic": "MISO_analytic_optimal_spectral_analysis"}


class LtfRecorder:
    """records every `ltf(...)` call one systems function makes (data argument + returned SpectrumResult) and keeps the function's frame,
    whose locals (Tmat, Svec, Hvec, S00 / the dict `result`) are read after it returned; the library is not modified"""

    def __init__(self):
        self.calls: List[Any] = []
        self.frame = None

    def __enter__(self):
        import sys
        from speckit import systems
        self.systems = systems
        self.real = systems.ltf

        def wrap(data, *a, **k):
            fr = sys._getframe(1)
            for _ in range(4):
                if fr is None:
                    break
                if fr.f_code.co_name in SYS_FN.values():
                    self.frame = fr
                    break
                fr = fr.f_back
            r = self.real(data, *a, **k)
            self.calls.append((data, r))
            return r
        systems.ltf = wrap
        return self

    def __exit__(self, *a):
        self.systems.ltf = self.real

    def chan(self, arr, loc) -> Optional[str]:
        for i, v in enumerate(loc.get("input_arrays", []) or []):
            if v is arr:
                return f"i{i}"
        if loc.get("input_arr") is arr:
            return "i0"
        if loc.get("output_arr") is arr:
            return "o"
        return None

    def encode(self) -> str:
        """the table of recorded calls for the driver: channel(s), nf, then per bin XX YY Re(XY) Im(XY) S12 S2 M2 navg fs"""
        loc = self.frame.f_locals
        parts = [str(len(self.calls))]
        for data, r in self.calls:
            if isinstance(data, (list, tuple)) and len(data) == 2:
                a, b = self.chan(data[0], loc), self.chan(data[1], loc)
            else:
                a, b = self.chan(data, loc), "-"
            if a is None or b is None:
                raise ValueError("an ltf call of the real function used an array that is not one of its recorded channels")
            nf = int(r.nf)
            YY = r.YY if r.YY is not None else r.XX
            parts += [a, b, str(nf)]
            for k in range(nf):
                z = complex(r.XY[k])
                parts += [C.f2h(r.XX[k]), C.f2h(YY[k]), C.f2h(z.real), C.f2h(z.imag), C.f2h(r.S12[k]), C.f2h(r.S2[k]), C.f2h(r.M2[k]),
                          C.f2h(float(r.navg[k])), C.f2h(float(r.fs))]
        return " ".join(parts)


class _Take:
    def __init__(self, vals):
        self.o = np.asarray(vals, dtype=float)
        self.pos = 0

    def real(self, n):
        v = self.o[self.pos:self.pos + n]
        self.pos += n
        return v

    def cplx(self, n):
        v = self.o[self.pos:self.pos + 2 * n].reshape(-1, 2)
        self.pos += 2 * n
        return v[:, 0] + 1j * v[:, 1]


def _asd_tol(ing, q, k, m):
    pb = 64.0 * (q + 1) ** 2 * U * ing.B[k]
    return 1e-8 * np.sqrt(ing.S00[k]) + min(np.sqrt(pb), pb / max(m, 1e-300))


def gen_one(P: C.Part, drv, c, ing, sv: str) -> None:
    """one systems function: the generated code (driver, Float) on the ltf results the real function obtained, vs the real function's
    internal arrays and its returned ASD"""
    q = c["q"]
    base = {"op": "gmiso", "solver": sv, "case": case_desc(c)}
    with LtfRecorder() as rec:
        try:
            f, asd = call(sv, c["xs"], c["y"], c["fs"], c["kw"])
        except Exception as ex:
            P.disagreements.append(dict(base, error=repr(ex)))
            return
    if rec.frame is None or not rec.calls:
        P.disagreements.append(dict(base, what="the real function made no ltf call that could be recorded"))
        return
    loc = rec.frame.f_locals
    nf = len(f)
    asd = np.asarray(asd, dtype=float)
    try:
        table = rec.encode()
    except ValueError as ex:
        P.disagreements.append(dict(base, what=str(ex)))
        return
    P.cases += 1
    P.hit(f"gen_{sv}_q{q}")
    ok_bin = np.array([(ing.navg[k] > q and ing.resolved[k] and ing.mask(sv)[k]) for k in range(nf)]) if nf == ing.nf else np.zeros(nf, dtype=bool)

    def cmp_arr(name, got, want, scale):
        """assembly rule: same formula on the same numbers -> agreement to a few ulps of the bin's scale"""
        got, want = np.asarray(got), np.asarray(want)
        if got.shape != want.shape:
            P.disagreements.append(dict(base, what=f"{name}: shape {got.shape} vs {want.shape}"))
            return False
        d = np.abs(got - want)
        tol = 64.0 * U * scale
        bad = ~(d <= tol)
        if bad.any():
            idx = tuple(int(t) for t in np.argwhere(bad)[0])
            P.disagreements.append(dict(base, what=f"assembly rule {name}{list(idx)}: generated {complex(got[idx])!r} vs real {complex(want[idx])!r}",
                                        tol=float(np.broadcast_to(tol, d.shape)[idx])))
            return False
        P.hit("gen_assembly_arrays_equal")
        return True

    def cmp_asd(tag, ret):
        n_cmp = 0
        for k in range(nf):
            if not ok_bin[k]:
                continue
            m = float(ret[k])
            tol = _asd_tol(ing, q, k, m)
            n_cmp += 1
            if not (abs(m - float(asd[k])) <= tol):
                P.disagreements.append(dict(base, what=f"{tag}: bin {k} generated asd {m!r} vs real {float(asd[k])!r}", tol=float(tol),
                                            cond=float(ing.cond[k]), navg=int(ing.navg[k])))
                return
        P.hit(f"gen_bins_compared_{tag}", n_cmp)
        if n_cmp:
            P.nontrivial.add(("gen", tag, sv, q, c["family"], c["coupling"], c["kw"].get("order", 0), c["kw"].get("scheduler", "vectorized_ltf")))

    if sv == "siso":
        ret = np.array(drv.floats(f"gmiso siso {nf} {table}"))
        cmp_asd("siso", ret)
        return
    if sv == "numeric":
        need = ("Tmat", "Svec", "Hvec", "S00")
        if any(n not in loc for n in need):
            P.disagreements.append(dict(base, what=f"the real function has no local arrays {need}"))
            return
        Tm, Sv, Hv, S0 = (np.asarray(loc[n]) for n in need)
        for mode in ("standin", "realH"):
            extra = "" if mode == "standin" else " H " + cx(Hv).split(" ", 1)[1]
            t = _Take(drv.floats(f"gmiso numeric {q} {nf} {table}{extra}"))
            nf_g = t.real(1)[0]
            S00g = t.real(nf)
            Tg = t.cplx(q * q * nf).reshape(q, q, nf)
            Sg = t.cplx(q * nf).reshape(q, nf)
            Hg = t.cplx(q * nf).reshape(q, nf)
            ret = t.real(nf)
            if mode == "standin":
                if int(nf_g) != nf:
                    P.disagreements.append(dict(base, what=f"nf: generated {nf_g} vs real {nf}"))
                    return
                sc = np.maximum(np.max(np.abs(Tm), axis=(0, 1)), np.abs(S0))
                if not (cmp_arr("S00", S00g, S0, sc) and cmp_arr("Tmat", Tg, Tm, sc[None, None, :])
                        and cmp_arr("Svec", Sg, Sv, np.maximum(np.max(np.abs(Sv), axis=0), sc)[None, :])):
                    return
                # the stand-in solver (Gaussian elimination on what the generated code hands over) vs np.linalg.solve: both backward stable
                for k in range(nf):
                    if ok_bin[k]:
                        hm = float(np.max(np.abs(Hv[:, k])))
                        tolh = 256.0 * q * q * U * ing.cond[k] * hm
                        if not (np.max(np.abs(Hg[:, k] - Hv[:, k])) <= tolh):
                            P.disagreements.append(dict(base, what=f"solve: bin {k} generated H {Hg[:, k]!r} vs real {Hv[:, k]!r}", tol=float(tolh),
                                                        cond=float(ing.cond[k])))
                            return
                P.hit("gen_solver_input_agrees")
            cmp_asd(f"numeric_{mode}", ret)
        return
    # analytic
    res = loc.get("result")
    if not isinstance(res, dict):
        P.disagreements.append(dict(base, what="the real function has no local dict `result`"))
        return
    keys = [k for k, v in res.items() if isinstance(v, np.ndarray) and k != "f" and " " not in k]
    hkeys = [f"H{i + 1}" for i in range(q)]
    if any(h not in res for h in hkeys):
        P.disagreements.append(dict(base, what=f"the real `result` has no entries {hkeys}"))
        return
    Hreal = np.array([np.asarray(res[h], dtype=complex) * np.ones(nf) for h in hkeys])
    spect = [k for k in keys if k[0] in "TS"]
    sc = np.max(np.abs(np.array([np.asarray(res[k], dtype=complex) * np.ones(nf) for k in spect])), axis=0) if spect else np.zeros(nf)
    for mode in ("standin", "realH"):
        extra = "" if mode == "standin" else " H " + cx(Hreal).split(" ", 1)[1]
        t = _Take(drv.floats(f"gmiso analytic {q} {nf} {table} {len(keys)} {' '.join(keys)}{extra}"))
        vals = {k: t.cplx(nf) for k in keys}
        eq = t.cplx(q * nf).reshape(q, nf)
        ret = t.real(nf)
        if mode == "standin":
            for k in spect:
                if not cmp_arr(f"result[{k!r}]", vals[k], np.asarray(res[k], dtype=complex) * np.ones(nf), sc):
                    return
        else:
            # with the REAL solution stored: every entry of the generated dict equals the real one, and the real solution satisfies the
            # TRANSLATED equations (the SymPy contract, exercised) up to the rounding of the closed form (rho-scaled, good bins only)
            for k in keys:
                if k == "optimal_asd":
                    continue
                if not cmp_arr(f"result[{k!r}]", vals[k], np.asarray(res[k], dtype=complex) * np.ones(nf), np.maximum(sc, np.max(np.abs(Hreal), axis=0))):
                    return
            for k in range(nf):
                if ok_bin[k]:
                    mag = float(np.max(np.abs(ing.S[:, k])) + np.max(np.abs(ing.T[:, :, k])) * np.max(np.abs(Hreal[:, k])))
                    tole = 256.0 * (q + 1) ** 2 * U * max(ing.rho[k], ing.cond[k]) * mag
                    if not (np.max(np.abs(eq[:, k])) <= tole):
                        P.disagreements.append(dict(base, what=f"sympy contract: bin {k}: the stored solution leaves the translated equations at {eq[:, k]!r}",
                                                    tol=float(tole), rho=float(ing.rho[k])))
                        return
            P.hit("gen_sympy_contract_holds")
        cmp_asd(f"analytic_{mode}", ret)


def gen_differential(ctx, P: C.Part) -> None:
    """Gen/Miso.lean (the three systems functions as translated from the current source) executed by the driver, against the real functions.
    Random choices come from a side stream derived from VERIF_SEED, so that the existing case streams are what they were."""
    import time as _t
    g = np.random.default_rng([int(ctx.seed), 0x6D150])
    t0 = _t.time()
    cap = 15.0 if not ctx.thorough else 120.0
    plan = [1, 2, 3, 2, 1, 3, 2, 4] * (1 if not ctx.thorough else 4)
    for i, q in enumerate(plan):
        if _t.time() - t0 > cap or ctx.time_left() < 60:
            P.notes.append(f"generated-code run: time cap reached after {i} cases")
            break
        c = build_case(int(g.integers(0, 2 ** 62)), q, False)
        c["kw"]["Jdes"] = min(int(c["kw"]["Jdes"]), 14)
        try:
            ing = Ingredients(c["xs"], c["y"], c["fs"], c["kw"])
        except Exception:
            P.hit("skipped_compute_spectrum_error")
            continue
        for sv in ["numeric", "analytic"] + (["siso"] if q == 1 else []):
            if sv == "analytic" and q == 4 and not ctx.thorough:
                continue          # SymPy's 4x4 solve takes seconds
            try:
                gen_one(P, ctx.driver, c, ing, sv)
            except RuntimeError as ex:
                P.disagreements.append({"op": "gmiso", "solver": sv, "error": str(ex)[:300], "case": case_desc(c)})
        if i < 2:
            P.sample({"op": "gmiso", **case_desc(c), "bins": int(ing.nf), "good_bins": int(ing.good.sum())})
    P.notes.append(f"generated-code run (Gen/Miso vs real systems.py): {_t.time() - t0:.1f}s")


def correspondence(ctx) -> C.Part:
    """Model.misoResidual (driver, Float) evaluated on the spectra the real library computes (same kwargs) and on a numpy solution of the
    normal equations, vs the ASD returned by the real MISO/SISO functions: | |sqrt(model)| - asd | <= 1e-8*sqrt(S00) per bin."""
    P = C.Part()
    n = ctx.scale(32, 240)
    cap_s = ctx.scale(70, 330)
    worst = 0.0
    for i in range(n):
        if ctx.time_left() < 90 or ctx.budget_s - ctx.time_left() > cap_s:
            P.notes.append(f"time budget reached after {i} cases")
            break
        q = [1, 2, 3, 2, 3, 1, 2, 4][i % 8]
        c = build_case(int(ctx.rng.integers(0, 2 ** 62)), q, ctx.thorough)
        if i == 0:
            c = d2_witness()
            q = 1
        try:
            ing = Ingredients(c["xs"], c["y"], c["fs"], c["kw"])
        except Exception as ex:
            P.hit("skipped_compute_spectrum_error")
            P.notes.append(f"compute_spectrum raised {ex!r} for {c['kw']}"[:200])
            continue
        solvers = ["numeric", "analytic"] + (["siso"] if q == 1 else [])
        compared = 0
        for sv in solvers:
            try:
                f, asd = call(sv, c["xs"], c["y"], c["fs"], c["kw"])
            except Exception as ex:
                P.disagreements.append({"op": "miso", "solver": sv, "error": repr(ex), "case": case_desc(c)})
                continue
            P.cases += 1
            P.hit(f"{sv}_q{q}")
            if len(f) != ing.nf or not np.array_equal(np.asarray(f, dtype=float), ing.f):
                P.disagreements.append({"op": "miso", "solver": sv, "what": "frequency grid differs from the single-channel analysis",
                                        "case": case_desc(c)})
                continue
            for k in range(ing.nf):
                if not (ing.navg[k] > q and ing.resolved[k]):
                    P.hit("bin_skipped_navg<=q_or_degenerate")
                    continue
                if not ing.mask(sv)[k]:
                    P.unstable += 1
                    continue
                z = model_residual(ctx.driver, q, ing.S00[k], ing.S[:, k], ing.T[:, :, k], ing.H[:, k])
                m = abs(np.sqrt(z))
                # spec tolerance 1e-8*sqrt(S00), plus the rounding of the formula's own terms (64(q+1)^2 u B in power, B >> S00 only when T is
                # ill-conditioned), converted to amplitude with |sqrt(a)-sqrt(b)| <= min(sqrt|a-b|, |a-b|/sqrt(a))
                pb = 64.0 * (q + 1) ** 2 * U * ing.B[k]
                tol = 1e-8 * np.sqrt(ing.S00[k]) + min(np.sqrt(pb), pb / max(m, 1e-300))
                P.hit("bins_compared")
                compared += 1
                d = abs(m - float(asd[k]))
                worst = max(worst, d / tol if np.isfinite(d) else np.inf)
                if not (d <= tol):
                    P.disagreements.append({"op": "miso", "solver": sv, "bin": k, "model_asd": float(m), "impl_asd": float(asd[k]), "tol": float(tol),
                                            "S00": float(ing.S00[k]), "cond": float(ing.cond[k]), "navg": int(ing.navg[k]),
                                            "S": ing.S[:, k], "T": ing.T[:, :, k].reshape(-1), "H": ing.H[:, k], "case": case_desc(c)})
                    break
        if compared:
            P.nontrivial.add(("corr", q, c["family"], c["coupling"], c["kw"].get("order", 0), c["kw"].get("scheduler", "vectorized_ltf")))
        P.sample({"op": "miso", **case_desc(c), "bins": int(ing.nf), "good_bins": int(ing.good.sum())})
    P.notes.append(f"worst |model-impl|/tol = {worst:.3g}")
    gen_differential(ctx, P)
    return P


# ------------------------------------------------------------------------------------------------ oracle
class Checker:
    def __init__(self, P: C.Part, with_analytic_q4: bool):
        self.P = P
        self.q4 = with_analytic_q4
        self.worst: Dict[str, float] = {}

    def ratio(self, key, r):
        if np.isfinite(r):
            self.worst[key] = max(self.worst.get(key, 0.0), float(r))

    def viol(self, c, sub, solver, what, extra=None):
        sig = {"subclaim": sub, "solver": solver, "q": c["q"]}
        rp = {"case": case_desc(c), "subclaim": sub, "solver": solver}
        rp.update(extra or {})
        self.P.violations.append(C.Violation(what=f"{sub} [{solver}, q={c['q']}, {c['family']}/{c['coupling']}, {c['kw']}]: {what}",
                                             signature=sig, replay=rp))

    def solvers_for(self, q):
        s = ["numeric"]
        if q <= 3 or self.q4:
            s.append("analytic")
        return s

    def run_fn(self, c, sub, sv, xs, y, ing) -> Optional[np.ndarray]:
        """call the real function; length / grid / finiteness glue checks"""
        try:
            f, asd = call(sv, xs, y, c["fs"], c["kw"])
        except Exception as ex:
            self.viol(c, sub, sv, f"raised {ex!r} although every underlying compute_spectrum call succeeds", {"error": repr(ex)})
            return None
        f = np.asarray(f)
        asd = np.asarray(asd)
        self.P.cases += 1
        if f.shape != ing.f.shape or asd.shape != ing.f.shape or not np.array_equal(f.astype(float), ing.f):
            self.viol(c, "grid", sv, f"returned frequency/ASD arrays of shapes {f.shape},{asd.shape} do not match the output's own analysis ({ing.f.shape})")
            return None
        if np.iscomplexobj(asd):
            self.viol(c, "grid", sv, "returned ASD is complex")
            return None
        g = ing.mask(sv)
        bad = g & ~(np.isfinite(asd) & (asd >= 0))
        if bad.any():
            k = int(np.where(bad)[0][0])
            self.viol(c, "bound", sv, f"ASD[{k}] = {float(asd[k])!r} is not a finite non-negative number (navg={int(ing.navg[k])}, cond(T)={ing.cond[k]:.3g})", {"bin": k})
            return None
        return asd.astype(float)

    def tally(self, ing, q):
        P = self.P
        nq = ing.navg > q
        P.hit("bins_navg<=q", int((~nq).sum()))
        P.hit("bins_degenerate_output", int((nq & ~ing.resolved).sum()))
        un = int((nq & ing.resolved & ~ing.good).sum())
        P.unstable += un
        P.hit("bins_checked", int(ing.good.sum()))
        P.hit("bins_unstable_for_analytic_only", int((ing.good & ~ing.good_ana).sum()))

    def cmp_power(self, c, sub, sv, a, b, B, good, what_b, key=None):
        """a, b power-like arrays; |a-b| <= ETA*B on good bins"""
        if not good.any():
            return False
        d = np.abs(a - b)
        tol = ETA * B
        r = np.where(good, d / np.where(good, tol, 1.0), 0.0)
        self.ratio(key or sub, float(np.max(r)))
        badm = good & ~(d <= tol)
        if badm.any():
            k = int(np.argmax(np.where(badm, r, 0)))
            self.viol(c, sub, sv, f"bin {k}: residual power {float(a[k])!r} but {what_b} {float(b[k])!r} (|diff| {d[k]:.3g} > tol {tol[k]:.3g}; Gyy={c['_S00'][k]:.6g})",
                      {"bin": k, "observed": float(a[k]), "expected": float(b[k]), "tol": float(tol[k])})
        return True

    def check_case(self, c, subs=("all",), solvers=None, exact_solvers=None, variant_solvers=None):
        """all sub-claims on one case (subs = ("all",)), or the selected groups: "main" (bound, least-squares optimum, analytic = numeric,
        q = 1 identities) is always evaluated, "exact" (exact static combination) and "variants" (permutation, invertible re-mix) on request;
        `solvers` / `exact_solvers` / `variant_solvers` restrict the entry points (default: every solver of solvers_for(q), plus SISO for q = 1).
        Returns (ingredients, {solver: residual power}) or None when the underlying analysis itself raised."""
        P = self.P
        q = c["q"]
        xs, y, fs, kw = c["xs"], c["y"], c["fs"], c["kw"]
        try:
            ing = Ingredients(xs, y, fs, kw)
        except Exception as ex:
            P.hit("skipped_compute_spectrum_error")
            P.notes.append(f"compute_spectrum raised {ex!r} for {kw}"[:160])
            return None
        c["_S00"] = ing.S00
        self.tally(ing, q)
        keyb = (q, c["family"], c["coupling"], kw.get("order", 0), kw.get("scheduler", "vectorized_ltf")) + ((kw["backend"],) if "backend" in kw else ())
        res: Dict[str, np.ndarray] = {}
        all_solvers = self.solvers_for(q) + (["siso"] if q == 1 else [])
        for sv in (all_solvers if solvers is None else [s_ for s_ in all_solvers if s_ in solvers]):
            asd = self.run_fn(c, "bound", sv, xs, y, ing)
            if asd is None:
                continue
            res[sv] = asd ** 2
            P.hit(f"{sv}_q{q}")
            g = ing.mask(sv)
            if g.any():
                P.nontrivial.add(("bound", sv) + keyb)
            # (1) 0 <= residual <= Gyy  (forward rounding of the formula: ETA*B, B >= Gyy)
            over = res[sv] - ing.S00
            r = np.where(g, over / np.where(g, ETA * ing.B, 1.0), 0.0)
            self.ratio("bound", float(np.max(r)) if g.any() else 0.0)
            badm = g & ~(over <= ETA * ing.B)
            if badm.any():
                k = int(np.argmax(np.where(badm, r, 0)))
                self.viol(c, "bound", sv, f"bin {k} (navg={int(ing.navg[k])}): residual power {float(res[sv][k])!r} exceeds the output's own spectrum Gyy={float(ing.S00[k])!r} "
                          f"(ratio {res[sv][k] / ing.S00[k]:.6g}, cond(T)={ing.cond[k]:.3g})", {"bin": k, "observed": float(res[sv][k]), "Gyy": float(ing.S00[k])})
            # (0) equals the least-squares minimum S00 - S^H T^-1 S of the same spectra (what "optimal" means; Miso.normal_eq_minimises)
            if self.cmp_power(c, "optimal", sv, res[sv], ing.rref, ing.B, g,
                              "least-squares minimum from the same spectra is"):
                P.nontrivial.add(("optimal", sv) + keyb)
        # (4) analytic vs numeric
        if "numeric" in res and "analytic" in res:
            P.cases += 1
            if self.cmp_power(c, "solvers_agree", "analytic-vs-numeric", res["analytic"], res["numeric"], 2 * ing.B, ing.good_ana, "numeric solver gives"):
                P.nontrivial.add(("solvers_agree",) + keyb)
        # (5) q = 1
        if q == 1:
            from speckit import compute_spectrum
            r2 = compute_spectrum([np.asarray(xs[0]), np.asarray(y)], fs, **kw)
            ref = np.asarray(r2.Gyy, dtype=float) * (1.0 - np.asarray(r2.coh, dtype=float))
            for sv in res:
                P.cases += 1
                if self.cmp_power(c, "siso_identity", sv, res[sv], ref, ing.B, ing.mask(sv), "Gyy*(1-coh) from the two-channel analysis is"):
                    P.nontrivial.add(("siso_identity", sv) + keyb)
            if "siso" in res:
                for sv in ("numeric", "analytic"):
                    if sv in res:
                        P.cases += 1
                        if self.cmp_power(c, "siso_vs_miso", sv, res[sv], res["siso"], 2 * ing.B, ing.mask(sv), "SISO function gives"):
                            P.nontrivial.add(("siso_vs_miso", sv) + keyb)
        # (2) exact static combination
        inge = None
        if "all" in subs or "exact" in subs:
            ye = sum(cj * xj for cj, xj in zip(c["coeffs"], xs))
            try:
                inge = ing.for_output(xs, ye, fs, kw) if c.get("stream") == "sweep" else Ingredients(xs, ye, fs, kw)
            except Exception:
                inge = None
        if inge is not None:
            c["_S00"] = inge.S00
            for sv in (all_solvers if exact_solvers is None else [s_ for s_ in all_solvers if s_ in exact_solvers]):
                asd = self.run_fn(c, "exact_combination", sv, xs, ye, inge)
                if asd is None:
                    continue
                g = inge.mask(sv)
                if g.any():
                    P.nontrivial.add(("exact", sv) + keyb)
                pw = asd ** 2
                tol = ETA_EXACT * inge.B
                r = np.where(g, pw / np.where(g, tol, 1.0), 0.0)
                self.ratio("exact_combination", float(np.max(r)) if g.any() else 0.0)
                badm = g & ~(pw <= tol)
                if badm.any():
                    k = int(np.argmax(np.where(badm, r, 0)))
                    self.viol(c, "exact_combination", sv, f"bin {k}: y = sum c_j x_j exactly but residual ASD {float(asd[k])!r} = {asd[k] / np.sqrt(inge.S00[k]):.3g}*sqrt(Gyy) "
                              f"(allowed {np.sqrt(tol[k] / inge.S00[k]):.3g}*sqrt(Gyy), cond(T)={inge.cond[k]:.3g})",
                              {"bin": k, "coeffs": c["coeffs"], "observed": float(asd[k]), "Gyy": float(inge.S00[k])})
            c["_S00"] = ing.S00
        # (3) permutation and invertible re-mix of the inputs
        if "numeric" in res and ("all" in subs or "variants" in subs):
            variants = []
            if q >= 2:
                Pm = np.eye(q)[c["perm"]]
                variants.append(("permutation", [xs[p] for p in c["perm"]], Pm))
            A = c["A"]
            variants.append(("remix", [sum(A[i, j] * xs[j] for j in range(q)) for i in range(q)], A))
            for name, xv, M in variants:
                ingv = ing.remixed(M)
                P.unstable += int((ing.good & ~ingv.good).sum())
                # q = 1: the single-input entry point is re-mixed too (A = [[a]]: the input recorded in other units; wave-8 miss C15h)
                for sv in self.solvers_for(q) + (["siso"] if (q == 1 and name == "remix") else []):
                    if sv not in res or (variant_solvers is not None and sv not in variant_solvers):
                        continue
                    g = ing.mask(sv) & ingv.mask(sv)
                    asd = self.run_fn(c, name, sv, xv, y, _with_good(ingv, g))
                    if asd is None:
                        continue
                    if self.cmp_power(c, name, sv, asd ** 2, res[sv], ing.B + ingv.B, g, "original inputs give"):
                        P.nontrivial.add((name, sv) + keyb)
        c.pop("_S00", None)
        return ing, res


def _with_good(ing: Ingredients, g: np.ndarray) -> Ingredients:
    o = object.__new__(Ingredients)
    o.__dict__.update(ing.__dict__)
    o.good = g
    o.good_ana = g
    return o


def validation_smoke(P: C.Part) -> None:
    """documented input validation (smoke tests only)"""
    from speckit import systems
    x = np.linspace(0.0, 1.0, 64)
    y = np.cos(np.arange(64.0))
    bad = x.copy()
    bad[3] = np.nan
    inf = x.copy()
    inf[5] = np.inf
    tests = [
        ("siso length mismatch", lambda: systems.SISO_optimal_spectral_analysis(x, y[:-1], 1.0), ValueError),
        ("siso non-finite input", lambda: systems.SISO_optimal_spectral_analysis(bad, y, 1.0), ValueError),
        ("siso non-finite output", lambda: systems.SISO_optimal_spectral_analysis(x, inf, 1.0), ValueError),
        ("siso empty", lambda: systems.SISO_optimal_spectral_analysis([], [], 1.0), ValueError),
        ("siso 2-D input", lambda: systems.SISO_optimal_spectral_analysis(np.zeros((2, 8)), np.zeros(8), 1.0), ValueError),
        ("siso fs<=0", lambda: systems.SISO_optimal_spectral_analysis(x, y, 0.0), ValueError),
        ("siso fs nan", lambda: systems.SISO_optimal_spectral_analysis(x, y, float("nan")), ValueError),
    ]
    for nm, fn in (("numeric", systems.MISO_numeric_optimal_spectral_analysis), ("analytic", systems.MISO_analytic_optimal_spectral_analysis)):
        tests += [
            (f"{nm} length mismatch among inputs", lambda fn=fn: fn([x, x[:-1]], y, 1.0), ValueError),
            (f"{nm} output length mismatch", lambda fn=fn: fn([x, x], y[:-2], 1.0), ValueError),
            (f"{nm} non-finite input", lambda fn=fn: fn([x, bad], y, 1.0), ValueError),
            (f"{nm} non-finite output", lambda fn=fn: fn([x], inf, 1.0), ValueError),
            (f"{nm} empty input list", lambda fn=fn: fn([], y, 1.0), ValueError),
            (f"{nm} inputs not a sequence", lambda fn=fn: fn(x, y, 1.0), TypeError),
            (f"{nm} empty record", lambda fn=fn: fn([np.array([])], np.array([]), 1.0), ValueError),
            (f"{nm} 2-D input", lambda fn=fn: fn([np.zeros((2, 8))], np.zeros(8), 1.0), ValueError),
            (f"{nm} fs inf", lambda fn=fn: fn([x], y, float("inf")), ValueError),
        ]
    for name, thunk, exc in tests:
        P.cases += 1
        P.hit("validation")
        try:
            thunk()
            got = "no exception"
        except exc:
            continue
        except Exception as ex:  # noqa
            got = repr(ex)
        P.violations.append(C.Violation(what=f"input validation: {name} should raise {exc.__name__} as documented, got {got}",
                                        signature={"subclaim": "validation", "test": name}, replay={"validation": name}))


def edge_stream(ck: Checker, rng) -> None:
    """malformed / edge records: must not crash on in-contract inputs; where the claim is still well-defined it is checked"""
    P = ck.P
    N = 1500
    x = rng.standard_normal(N)
    n = rng.standard_normal(N)
    base = {"sub_seed": -3, "q": 1, "N": N, "fs": 1.0, "family": "edge", "coupling": "static", "kw": {"Jdes": 12, "Kdes": 8},
            "coeffs": [1.0], "A": np.array([[1.5]]), "perm": [0], "noise_rel": 0.0, "big": False}
    # zero output: residual must be exactly representable 0 <= Gyy = 0  -> degenerate (Gyy vanishes), only "no crash / finite-or-zero"
    for nm, xs, y in (("zero_output", [x], np.zeros(N)), ("constant_output_order0", [x], np.full(N, 3.0)),
                      ("zero_input_numeric", [np.zeros(N)], 0.5 * x + n), ("duplicate_inputs", [x, x.copy()], 0.5 * x + 0.1 * n)):
        c = dict(base, family="edge_" + nm, xs=xs, y=y, q=len(xs), coeffs=[1.0] * len(xs), A=np.eye(len(xs)), perm=list(range(len(xs)))[::-1])
        P.hit("edge_" + nm)
        try:
            f, a = call("numeric", xs, y, 1.0, c["kw"])
            P.cases += 1
        except Exception as ex:
            ck.viol(c, "edge", "numeric", f"{nm}: raised {ex!r} on finite equal-length records", {"edge": nm})
            continue
        # singular T (zero / duplicated channel): the pinv path still solves the normal equations, so bound and value stay checkable
        from speckit import compute_spectrum
        r0 = compute_spectrum(y, 1.0, **c["kw"])
        Gyy = np.asarray(r0.Gxx, dtype=float)
        ok = (np.asarray(r0.navg) > len(xs)) & (Gyy > 0)
        if nm in ("zero_input_numeric",):
            # nothing can be subtracted: residual = Gyy
            d = np.abs(a ** 2 - Gyy)
            badm = ok & ~(d <= 4 * ETA * Gyy)
            if ok.any():
                P.nontrivial.add(("edge", nm))
            if badm.any():
                k = int(np.where(badm)[0][0])
                ck.viol(c, "edge", "numeric", f"{nm}: all-zero input must leave the output spectrum unchanged, bin {k}: {float(a[k] ** 2)!r} vs Gyy {float(Gyy[k])!r}", {"edge": nm, "bin": k})
        if nm == "duplicate_inputs":
            f1, a1 = call("numeric", [x], y, 1.0, c["kw"])
            # same span as the single input: Miso.solvers_agree / remix_invariant need no invertibility; pinv solves to ~1e-12 relative (cond threshold),
            # the residual is second order in that error but the formula's terms cancel at the level eps_pinv * B
            B = 16.0 * Gyy
            d = np.abs(a ** 2 - a1 ** 2)
            badm = ok & ~(d <= 1e-6 * B)
            if ok.any():
                P.nontrivial.add(("edge", nm))
            ck.ratio("edge_duplicate", float(np.max(np.where(ok, d / np.where(ok, 1e-6 * B, 1.0), 0.0))) if ok.any() else 0.0)
            if badm.any():
                k = int(np.where(badm)[0][0])
                ck.viol(c, "edge", "numeric", f"{nm}: duplicated input channel changes the residual, bin {k}: {float(a[k] ** 2)!r} vs single-input {float(a1[k] ** 2)!r} (Gyy {float(Gyy[k])!r})",
                        {"edge": nm, "bin": k})
    # tiny records (sizes 1, 2, 3): no claim (navg <= q or degenerate); only that any exception is a documented ValueError
    for n_small in (1, 2, 3):
        xs_, y_ = [np.arange(n_small, dtype=float) + 1.0], np.ones(n_small) * 2.0
        for sv in ("siso", "numeric"):
            P.cases += 1
            P.hit("edge_tiny")
            try:
                call(sv, xs_, y_, 1.0, {})
            except (ValueError, ZeroDivisionError, IndexError, FloatingPointError, np.linalg.LinAlgError):
                P.hit("edge_tiny_raises")
            except Exception:
                P.hit("edge_tiny_raises_other")


def glue_checks(ck: Checker, rng) -> None:
    """array-likes (tuple of lists, int / float32 records) and repeated calls go through the same code path: results must be identical;
    the caller's records are not modified"""
    P = ck.P
    N = 1600
    xs = [rng.standard_normal(N), rng.standard_normal(N)]
    y = 0.8 * np.roll(xs[0], 2) - 0.4 * xs[1] + 0.5 * rng.standard_normal(N)
    kw = {"Jdes": 12, "Kdes": 10, "order": 1}
    c = {"sub_seed": -4, "q": 2, "N": N, "fs": 2.0, "family": "glue", "coupling": "delay", "xs": xs, "y": y, "kw": kw, "noise_rel": 0.5, "big": False}
    keep = [v.copy() for v in xs] + [y.copy()]
    for sv in ("numeric", "analytic"):
        f0, a0 = call(sv, xs, y, 2.0, kw)
        f1, a1 = call(sv, xs, y, 2.0, kw)
        from speckit import systems
        fn = systems.MISO_numeric_optimal_spectral_analysis if sv == "numeric" else systems.MISO_analytic_optimal_spectral_analysis
        f2, a2 = fn(tuple(v.tolist() for v in xs), y.tolist(), 2.0, **kw)
        P.cases += 3
        P.hit("glue")
        P.nontrivial.add(("glue", sv))
        if not (np.array_equal(a0, a1, equal_nan=True) and np.array_equal(f0, f1)):
            ck.viol(c, "glue", sv, "two identical calls return different results (state carried between calls)")
        if not (np.array_equal(a0, a2, equal_nan=True) and np.array_equal(f0, f2)):
            ck.viol(c, "glue", sv, "tuple-of-lists inputs give a different result from the same data as arrays")
    f3, a3 = call("siso", [xs[0].tolist()], y.tolist(), 2.0, kw)
    f4, a4 = call("siso", [xs[0]], y, 2.0, kw)
    P.cases += 2
    if not np.array_equal(a3, a4, equal_nan=True):
        ck.viol(c, "glue", "siso", "list inputs give a different result from the same data as arrays")
    if any(not np.array_equal(k, v) for k, v in zip(keep, xs + [y])):
        ck.viol(c, "glue", "all", "the caller's records were modified")
    # integer-valued records: exact static combination with integer coefficients stays exact in int64 and float64
    xi = [rng.integers(-50, 51, size=N), rng.integers(-50, 51, size=N)]
    yi = 3 * xi[0] - 2 * xi[1]
    for sv in ("numeric", "analytic"):
        fa, aa = call(sv, xi, yi, 1.0, {"Jdes": 10, "Kdes": 8})
        fb, ab = call(sv, [v.astype(float) for v in xi], yi.astype(float), 1.0, {"Jdes": 10, "Kdes": 8})
        P.cases += 2
        if not np.array_equal(aa, ab, equal_nan=True):
            ck.viol(c, "glue", sv, "int64 records give a different result from the same values as float64")


# ------------------------------------------------------------------------------------------------ representation stream
# The property quantifies over all RECORDS: a record is its sample values, whatever container / dtype / memory layout carries them
# (the docstrings accept any 1-D array-like with finite values).  Every case below fixes the VALUES of q inputs and one output as float64
# numbers that are exactly representable in the chosen carrier, hands the carriers to the three entry points, and demands the property's
# claims (bound, least-squares optimum of the record's own spectra, Gyy*(1-coh) for q = 1, SISO = MISO(q=1), analytic = numeric) of THOSE
# values, plus "same values as contiguous float64 arrays give the same result".  Carriers of different channels are deliberately mixed
# (integer counts with a fractional float output, float input with an integer output, narrow with wide integers, float32 with float64 ...).
INT_CLASSES = {"i8": (-2.0 ** 7, 2.0 ** 7 - 1), "u8": (0.0, 2.0 ** 8 - 1), "i16": (-2.0 ** 15, 2.0 ** 15 - 1), "u16": (0.0, 2.0 ** 16 - 1),
               "i32": (-2.0 ** 31, 2.0 ** 31 - 1), "u32": (0.0, 2.0 ** 32 - 1), "i64": (-2.0 ** 52, 2.0 ** 52), "u64": (0.0, 2.0 ** 52)}
# carrier name -> value class (the set of float64 values the carrier holds exactly)
REPS: Dict[str, str] = {
    "f64": "f64",
    "int64": "i64", "int32": "i32", "int16": "i16", "int8": "i8", "uint8": "u8", "uint16": "u16", "uint32": "u32", "uint64": "u64", "bool": "bool",
    "list_int": "i64", "list_bool": "bool", "list_float": "f64", "tuple_float": "f64", "pyarray_d": "f64", "pyarray_i": "i32",
    "float32": "f32", "float16": "f16", "longdouble": "f64",
    "be_f8": "f64", "be_f4": "f32", "be_i4": "i32", "be_i2": "i16",
    "strided_f64": "f64", "reversed_f64": "f64", "column_f64": "f64", "readonly_f64": "f64", "strided_i32": "i32", "column_i16": "i16", "reversed_f32": "f32",
    "series_f64": "f64", "series_perm_f64": "f64", "series_i64": "i64", "series_f32": "f32", "series_bool": "bool", "series_Int64": "i32",
    "masked_f64": "f64", "masked_i16": "i16",
}
REP_NAMES = list(REPS)
WIDE = [r for r in REP_NAMES if REPS[r] == "f64"]          # carriers of arbitrary float64 values (fractional part matters)
NARROW = [r for r in REP_NAMES if REPS[r] != "f64"]        # carriers that cannot hold an arbitrary float64 value


def quantise(rng, v: np.ndarray, cls: str, offset: bool) -> np.ndarray:
    """float64 values of class `cls` following the zero-mean unit-scale signal v"""
    sd = max(float(np.std(v)), 1e-300)
    v = v / sd
    if cls == "bool":
        return (v > float(np.quantile(v, rng.uniform(0.2, 0.8)))).astype(np.float64)
    if cls in INT_CLASSES:
        lo, hi = INT_CLASSES[cls]
        scale = 10.0 ** rng.uniform(0.5, min(np.log10((hi - lo) / 16.0), 12.0))
        off = 0.0
        u1, u2, u3 = float(rng.uniform(6, 50)), float(rng.uniform(-30, 30)), float(rng.random())
        if lo == 0.0:
            off = min(scale * u1, hi - 8.0 * scale)
        elif u3 < 0.3 or offset:
            off = float(np.clip(scale * u2, lo + 8.0 * scale, hi - 8.0 * scale))
        return np.clip(np.round(off + scale * v), lo, hi).astype(np.float64)
    amp = 10.0 ** rng.uniform(-2.0, 0.5)                   # |value| of order 1 or smaller: truncation toward an integer destroys it
    u1, u2, u3 = float(rng.uniform(2.0, 4.5)), float(rng.choice([-1.0, 1.0])), float(rng.random())
    if cls == "f16":
        return (amp * v + (amp * float(rng.uniform(-2, 2)))).astype(np.float16).astype(np.float64)
    w = amp * v + (u2 * amp * 10.0 ** u1 if (offset or u3 < 0.3) else 0.0)   # large offset: rounding to single precision matters
    if cls == "f32":
        return w.astype(np.float32).astype(np.float64)
    return w


def make_rep(rng, name: str, v: np.ndarray):
    """the carrier `name` holding exactly the float64 values v"""
    import array as _array
    N = len(v)
    ints = {"int64": np.int64, "int32": np.int32, "int16": np.int16, "int8": np.int8, "uint8": np.uint8, "uint16": np.uint16,
            "uint32": np.uint32, "uint64": np.uint64, "bool": np.bool_, "float32": np.float32, "float16": np.float16, "longdouble": np.longdouble,
            "be_f8": ">f8", "be_f4": ">f4", "be_i4": ">i4", "be_i2": ">i2"}
    if name == "f64":
        return np.array(v, dtype=np.float64)
    if name in ints:
        return v.astype(ints[name])
    if name == "list_int":
        return [int(t) for t in v]
    if name == "list_bool":
        return [bool(t) for t in v]
    if name == "list_float":
        return [float(t) for t in v]
    if name == "tuple_float":
        return tuple(float(t) for t in v)
    if name == "pyarray_d":
        return _array.array("d", [float(t) for t in v])
    if name == "pyarray_i":
        return _array.array("i", [int(t) for t in v])
    if name.startswith("strided_"):
        dt = np.float64 if name.endswith("f64") else np.int32
        base = (rng.standard_normal(2 * N) * 1000.0).astype(dt)      # the skipped samples are unrelated numbers
        base[::2] = v.astype(dt)
        return base[::2]
    if name.startswith("reversed_"):
        dt = np.float64 if name.endswith("f64") else np.float32
        return np.ascontiguousarray(v[::-1].astype(dt))[::-1]
    if name.startswith("column_"):
        dt = np.float64 if name.endswith("f64") else np.int16
        M = (rng.standard_normal((N, 3)) * 1000.0).astype(dt)
        M[:, 1] = v.astype(dt)
        return M[:, 1]
    if name == "readonly_f64":
        a = np.array(v, dtype=np.float64)
        a.flags.writeable = False
        return a
    if name.startswith("masked_"):
        return np.ma.MaskedArray(v.astype(np.float64 if name.endswith("f64") else np.int16))
    if name.startswith("series_"):
        import pandas as pd
        if name == "series_perm_f64":
            return pd.Series(np.array(v, dtype=np.float64), index=rng.permutation(N))          # labels must not matter, only positions
        if name == "series_Int64":
            return pd.Series(v.astype(np.int64), dtype="Int64", index=np.arange(N) + 7)
        dt = {"series_f64": np.float64, "series_i64": np.int64, "series_f32": np.float32, "series_bool": np.bool_}[name]
        return pd.Series(v.astype(dt), index=np.arange(N) + int(rng.integers(1, 1000)))
    raise KeyError(name)


def rep_values(r) -> np.ndarray:
    return np.asarray(np.ma.getdata(r) if isinstance(r, np.ma.MaskedArray) else r, dtype=np.float64).reshape(-1)


def rep_dtype(r) -> str:
    return str(getattr(r, "dtype", type(r).__name__))


def _draw_kw(rng) -> Dict[str, Any]:
    kw: Dict[str, Any] = {"Jdes": int(rng.integers(10, 21)), "Kdes": int(rng.integers(2, 31)),
                          "order": int(rng.choice([-1, 0, 1, 2])), "scheduler": str(rng.choice(SCHEDS))}
    ol = rng.choice(["default", "0.0", "0.5", "0.75"])
    if ol != "default":
        kw["olap"] = float(ol)
    wk = int(rng.integers(0, 3))
    if wk == 1:
        kw["win"] = "hann"
    elif wk == 2:
        kw["psll"] = float(rng.choice([60.0, 120.0]))
    if rng.random() < 0.3:
        kw["Lmin"] = int(rng.choice([8, 32, 100]))
    return kw


def build_repr_case(sub_seed: int, q: int, slots_in: List[str], slot_out: str, thorough: bool = False, as_tuple: Optional[bool] = None) -> Dict[str, Any]:
    """slots: a carrier name, or "narrow" / "wide" / "any" (resolved from sub_seed).  Everything derived from sub_seed + the slots."""
    rng = np.random.default_rng(int(sub_seed))
    N = int(rng.integers(1000, 4001 if thorough else 2201))
    fs = float(rng.choice([1.0, 2.0, 100.0, float(rng.uniform(0.5, 50.0))]))
    kw = _draw_kw(rng)

    def resolve(slot):
        picks = {"narrow": NARROW[int(rng.integers(len(NARROW)))], "wide": WIDE[int(rng.integers(len(WIDE)))],
                 "any": REP_NAMES[int(rng.integers(len(REP_NAMES)))]}          # always drawn: the stream does not depend on the slot
        return picks.get(slot, slot)

    reps_in = [resolve(s) for s in slots_in]
    rep_out = resolve(slot_out)
    tup = bool(rng.random() < 0.4)
    if as_tuple is not None:
        tup = bool(as_tuple)
    xs = []
    for r in reps_in:
        v = rng.standard_normal(N)
        if rng.random() < 0.35:
            v = _colour(rng, v)
        v = v - float(np.mean(v))
        if len(xs) and rng.random() < 0.4:
            v = v + float(rng.uniform(0.3, 1.0)) * (xs[0] - np.mean(xs[0])) / max(float(np.std(xs[0])), 1e-300) * float(np.std(v))   # correlated inputs
        xs.append(quantise(rng, v, REPS[r], offset=False))
    sig = np.zeros(N)
    for v in xs:
        g = float(rng.choice([-1.0, 1.0]) * 10.0 ** rng.uniform(-0.5, 0.5))
        sig = sig + g * np.roll(v - np.mean(v), int(rng.integers(0, 5))) / max(float(np.std(v)), 1e-300)
    noise_rel = float(rng.choice([0.05, 0.3, 1.0]))
    sig = sig + noise_rel * float(np.std(sig)) * rng.standard_normal(N)
    narrow_float_in = any(REPS[r] in ("f32", "f16") for r in reps_in)
    y = quantise(rng, sig - float(np.mean(sig)), REPS[rep_out], offset=narrow_float_in)
    rx = [make_rep(rng, r, v) for r, v in zip(reps_in, xs)]
    ry = make_rep(rng, rep_out, y)
    return {"stream": "repr", "sub_seed": int(sub_seed), "q": q, "N": N, "fs": fs, "family": "repr", "coupling": ",".join(reps_in) + "->" + rep_out,
            "xs": xs, "y": y, "rx": rx, "ry": ry, "reps_in": reps_in, "rep_out": rep_out, "as_tuple": tup, "kw": kw, "noise_rel": noise_rel,
            "big": bool(thorough)}


def check_repr(ck: "Checker", c: Dict[str, Any], solvers: List[str], full: bool = True) -> None:
    """claims of the property for the record VALUES, evaluated through the carriers; reference = the same values as contiguous float64 arrays"""
    P = ck.P
    q, xs, y, fs, kw = c["q"], c["xs"], c["y"], c["fs"], c["kw"]
    rx, ry = c["rx"], c["ry"]
    # the carriers hold exactly the values (otherwise the generator, not the library, is wrong)
    if not (all(np.array_equal(rep_values(r), v) for r, v in zip(rx, xs)) and np.array_equal(rep_values(ry), y)):
        P.notes.append(f"representation generator produced a carrier that does not hold its values exactly ({c['coupling']}); case skipped")
        P.hit("repr_generator_inexact")
        return
    try:
        ing = Ingredients(xs, y, fs, kw)
    except Exception as ex:
        P.hit("skipped_compute_spectrum_error")
        P.notes.append(f"compute_spectrum raised {ex!r} for {kw}"[:160])
        return
    c["_S00"] = ing.S00
    ck.tally(ing, q)
    for r in c["reps_in"]:
        P.hit("repr_in_" + r)
    P.hit("repr_out_" + c["rep_out"])
    keyb = (q, tuple(c["reps_in"]), c["rep_out"], kw.get("order", 0))
    kinds = "inputs " + ", ".join(f"{n}[{rep_dtype(r)}]" for n, r in zip(c["reps_in"], rx)) + f"; output {c['rep_out']}[{rep_dtype(ry)}]"
    cont = tuple(rx) if c["as_tuple"] else list(rx)
    ref2 = None
    if q == 1:
        from speckit import compute_spectrum
        r2 = compute_spectrum(np.vstack([xs[0], y]), fs, **kw)
        ref2 = np.asarray(r2.Gyy, dtype=float) * (1.0 - np.asarray(r2.coh, dtype=float))
    res: Dict[str, np.ndarray] = {}
    for sv in solvers:
        if sv == "siso" and q != 1:
            continue
        n_before = len(P.violations)
        asd = ck.run_fn(c, "bound", sv, cont, ry, ing)
        if asd is None:
            continue
        pw = asd ** 2
        res[sv] = pw
        g = ing.mask(sv)
        P.hit(f"repr_{sv}_q{q}")
        # 0 <= residual <= Gyy of the actual record
        over = pw - ing.S00
        badm = g & ~(over <= ETA * ing.B)
        if g.any():
            ck.ratio("repr_bound", float(np.max(np.where(g, over / np.where(g, ETA * ing.B, 1.0), 0.0))))
        if badm.any():
            k = int(np.where(badm)[0][0])
            ck.viol(c, "bound", sv, f"{kinds}: bin {k} (navg={int(ing.navg[k])}): residual power {float(pw[k])!r} exceeds the record's own output spectrum "
                    f"Gyy={float(ing.S00[k])!r}", {"bin": k, "observed": float(pw[k]), "Gyy": float(ing.S00[k])})
        # least-squares optimum of the record's own spectra
        if ck.cmp_power(c, "optimal", sv, pw, ing.rref, ing.B, g, f"({kinds}) least-squares minimum from the spectra of the same values is", key="repr_optimal"):
            P.nontrivial.add(("repr_optimal", sv) + keyb)
        # q = 1: sqrt(Gyy*(1-coh)) of the actual record
        if ref2 is not None:
            P.cases += 1
            if ck.cmp_power(c, "siso_identity", sv, pw, ref2, ing.B, g, f"({kinds}) Gyy*(1-coh) of the same values is", key="repr_siso_identity"):
                P.nontrivial.add(("repr_siso_identity", sv) + keyb)
        # same values stored as contiguous float64 arrays (the MISO solvers, ~3x dearer than SISO, are re-run on float64 only when `full` or when
        # a claim above failed: "optimal" already pins their result to the float64 spectra of the values within ETA*B)
        if not (full or sv == "siso" or len(P.violations) > n_before):
            continue
        a64 = ck.run_fn(c, "representation", sv, [np.array(v, dtype=np.float64) for v in xs], np.array(y, dtype=np.float64), ing)
        if a64 is not None:
            if ck.cmp_power(c, "representation", sv, pw, a64 ** 2, 2 * ing.B, g, f"({kinds}) the same values as float64 arrays give", key="representation"):
                P.nontrivial.add(("representation", sv) + keyb)
    if "siso" in res:
        for sv in ("numeric", "analytic"):
            if sv in res:
                P.cases += 1
                if ck.cmp_power(c, "siso_vs_miso", sv, res[sv], res["siso"], 2 * ing.B, ing.mask(sv), f"({kinds}) SISO function gives", key="repr_siso_vs_miso"):
                    P.nontrivial.add(("repr_siso_vs_miso", sv) + keyb)
    if "numeric" in res and "analytic" in res:
        P.cases += 1
        if ck.cmp_power(c, "solvers_agree", "analytic-vs-numeric", res["analytic"], res["numeric"], 2 * ing.B, ing.good_ana, f"({kinds}) numeric solver gives",
                        key="repr_solvers_agree"):
            P.nontrivial.add(("repr_solvers_agree",) + keyb)
    # the caller's carriers are left alone (values and dtype)
    P.cases += 1
    for n, r, v in list(zip(c["reps_in"], rx, xs)) + [(c["rep_out"], ry, y)]:
        if not np.array_equal(rep_values(r), v):
            ck.viol(c, "glue", "all", f"the caller's {n} record was modified by the call")
    c.pop("_S00", None)


def repr_plan(rng, thorough: bool, intensive: bool) -> List[Dict[str, Any]]:
    """every carrier at least once as the input of a q = 1 problem against an output of the opposite kind (narrow input with a fractional
    float64-valued output, float64-valued input with a narrow output), carriers as OUTPUT (all of them when thorough/intensive, a random quarter
    otherwise), random pairs, and q = 2..4 problems whose inputs mix carriers"""
    full = thorough or intensive
    plan: List[Dict[str, Any]] = []
    names = [r for r in REP_NAMES if r != "f64"]
    for i, r in enumerate(names):
        other = "wide" if r in NARROW else "narrow"
        sol = ["siso", "numeric", "analytic"] if full else ["siso", ("numeric", "analytic")[i % 2]]
        plan.append({"q": 1, "in": [r], "out": other, "solvers": sol})
    outs = names if full else [names[int(j)] for j in rng.choice(len(names), size=len(names) // 4, replace=False)]
    for i, r in enumerate(outs):
        other = "wide" if r in NARROW else "narrow"
        sol = ["siso", "numeric", "analytic"] if full else ["siso", ("analytic", "numeric")[i % 2]]
        plan.append({"q": 1, "in": [other], "out": r, "solvers": sol})
    for i in range(24 if full else 4):
        plan.append({"q": 1, "in": ["any"], "out": "any", "solvers": ["siso", "numeric", "analytic"] if full else ["siso", ("numeric", "analytic")[i % 2]]})
    qs = [2, 3, 2, 4] if full else [2, 3, 2, 2]
    for i in range(32 if full else 6):
        q = qs[i % 4]
        first, out = (("narrow", "wide"), ("wide", "narrow"), ("any", "any"), ("narrow", "any"))[i % 4]
        ins = [first] + [("any", "wide", "narrow")[(i + j) % 3] for j in range(1, q)]
        if i % 2:
            ins = ins[::-1]                       # the narrow / wide carrier is not always the first channel
        sol = ["numeric", "analytic"] if (full or q == 2) else [("numeric", "analytic")[(i // 2) % 2]]
        plan.append({"q": q, "in": ins, "out": out, "solvers": sol})
    return plan


def repr_stream(ck: "Checker", ctx, seed: int, intensive: bool) -> None:
    rng = np.random.default_rng(int(seed))
    t_start = ctx.budget_s - ctx.time_left()
    cap = ctx.scale(20, 150) * (2 if intensive else 1)
    plan = repr_plan(rng, ctx.thorough, intensive)
    for i, it in enumerate(plan):
        if ctx.time_left() < 40 or (ctx.budget_s - ctx.time_left()) - t_start > cap:
            ck.P.notes.append(f"representation stream: time budget reached after {i} of {len(plan)} cases")
            break
        c = build_repr_case(int(rng.integers(0, 2 ** 62)), it["q"], it["in"], it["out"], ctx.thorough)
        check_repr(ck, c, it["solvers"], full=bool(ctx.thorough or intensive))
        if i in (0, 9, len(plan) - 1):
            ck.P.sample({"op": "oracle-representation", **case_desc(c)})
        if len(ck.P.violations) >= 8:
            break



# ------------------------------------------------------------------------------------------------ analysis-option sweep
# The property quantifies over ALL analysis options: every keyword the three functions forward to ltf / SpectrumAnalyzer.  The generated-case
# stream above draws order / scheduler / olap / window / Jdes / Kdes / bmin / Lmin but leaves `backend` (and `band`, `new_ltf`, explicit
# win="kaiser") at their defaults, so that every kernel-dispatch branch other than the Numba one was never executed by this oracle (wave-5 miss
# C15e: channels handed over swapped in the branch order = -1 / two-channel / NumPy backend).  This stream is SYSTEMATIC: on every run each
# (backend, order) pair is executed for q = 1 (SISO, numeric, analytic) and q = 2 (numeric, analytic); the scheduler of a pair rotates with
# VERIF_SEED so that four consecutive seeds cover backend x order x scheduler; window / psll / olap / band / bmin / Lmin / Jdes / Kdes /
# num_patch_pts are drawn per group.  One GROUP = one record set + one option set evaluated under every backend: all sub-claims of the property
# per backend, plus "the result does not depend on the backend" (the property's residual is a function of the records and the plan; which kernel
# family evaluates the per-segment DFTs is not an input of it) within the kernels' forward rounding budget (_an.bin_tol, the model C01/C05 hold
# every backend to).  Records: one STRONG input, the other inputs 10..100x weaker in amplitude, an output weakly coupled (gain 0.03..0.2) to the
# strong input — Gyy << Gxx, so that exchanged channels / exchanged auto-spectra / a spectrum of the wrong record cannot hide.  Short records
# (N <= 900 quick) keep K*L of every bin below the size from which BLAS goes multi-threaded (the NumPy kernels are 20x slower on a busy machine).
ORDERS = [-1, 0, 1, 2]
SCHEDS_ALL = ["lpsd", "ltf", "vectorized_ltf", "new_ltf"]
THETA_MAX = 1e-2    # backend independence: bins where the kernels' budget, relative to the smallest singular value of the scaled Gram matrix,
                    # exceeds this are counted unstable (first-order propagation of the budget through the solve would not be a bound)


def sweep_backends() -> List[str]:
    """reference backend first; `numba` / `cuda` only where the installation provides them (requesting them otherwise raises by contract)"""
    from speckit import core
    b = (["numba"] if getattr(core, "_NUMBA_ENABLED", False) else []) + ["numpy", "auto"]
    if getattr(core, "_CUDA_ENABLED", False):
        b.append("cuda")
    return b


def _draw_sweep_kw(rng, fs: float) -> Dict[str, Any]:
    kw: Dict[str, Any] = {"Jdes": int(rng.integers(5, 11)), "Kdes": int(rng.choice([2, 3, 5, 8, 12, 20]))}
    ol = str(rng.choice(["default", "default", "0.0", "0.25", "0.5", "0.66", "0.75"]))
    wk = int(rng.integers(0, 6))
    ps = float(rng.choice([40.0, 60.0, 100.0, 150.0, 200.0]))
    u = rng.random(4)
    bm, lm, npp = float(rng.choice([1.5, 2.0, 3.0])), int(rng.choice([4, 16, 50])), int(rng.choice([5, 20]))
    b_lo, b_hi = float(rng.uniform(0.004, 0.05)), float(rng.uniform(0.15, 0.5))
    if ol != "default":
        kw["olap"] = float(ol)
    if wk == 1:
        kw["win"] = "hann"
    elif wk == 2:
        kw["psll"] = ps                      # default window (np.kaiser) with another side-lobe level
    elif wk == 3:
        kw["win"], kw["psll"] = "kaiser", ps
    elif wk == 4:
        kw["win"] = "kaiser"                 # by name, default psll
    if u[0] < 0.3:
        kw["bmin"] = bm
    if u[1] < 0.3:
        kw["Lmin"] = lm
    if u[2] < 0.35:
        kw["band"] = (fs * b_lo, fs * b_hi)
    if u[3] < 0.2:
        kw["num_patch_pts"] = npp
    return kw


def build_sweep_case(sub_seed: int, q: int, thorough: bool = False) -> Dict[str, Any]:
    """records, couplings, exact-combination coefficients, mixing matrix and the option set WITHOUT order / scheduler / backend (the sweep sets
    them), all from sub_seed"""
    rng = np.random.default_rng(int(sub_seed))
    N = int(rng.integers(500, 901))          # both tiers: the thorough tier spends its time on more groups, not on longer records
    fs = float(rng.choice([1.0, 2.0, 100.0, float(rng.uniform(0.5, 50.0))]))
    scale = float(10.0 ** rng.uniform(-2, 2))
    cpl = str(rng.choice(COUPLINGS))
    strong = int(rng.integers(0, q))                               # the strong input is not always the first channel
    xs = []
    for i in range(q):
        v = rng.standard_normal(N)
        if rng.random() < 0.4:
            v = _colour(rng, v)
        v = v / max(float(np.std(v)), 1e-300)
        amp = 1.0 if i == strong else float(10.0 ** rng.uniform(-2, -1))
        xs.append(scale * amp * v)
    if rng.random() < 0.25:                                        # offsets: with order = -1 they leak through the window (still the same claims)
        xs = [v + scale * float(rng.uniform(-3, 3)) for v in xs]

    def couple(v):
        if cpl == "static":
            return v
        if cpl == "delay":
            return np.roll(v, int(rng.integers(1, 6)))
        return np.convolve(v, rng.standard_normal(3), mode="full")[:N]
    sig = np.zeros(N)
    gains = []
    for i, v in enumerate(xs):
        g = float(rng.choice([-1.0, 1.0])) * (float(10.0 ** rng.uniform(-1.5, -0.7)) if i == strong else float(rng.uniform(0.5, 3.0)))
        gains.append(g)
        sig = sig + g * couple(v)
    noise_rel = float(10.0 ** rng.uniform(-2.3, -1.3))
    y = sig + scale * noise_rel * rng.standard_normal(N)
    kw = _draw_sweep_kw(rng, fs)
    coeffs = [float(rng.choice([-1.0, 1.0]) * 10.0 ** rng.uniform(-1, 1)) for _ in range(q)]
    A = np.eye(q)
    for _ in range(50):
        A = rng.standard_normal((q, q))
        if q == 1:
            A = np.array([[float(rng.choice([-1.0, 1.0]) * 10.0 ** rng.uniform(-1, 1))]])
        if np.linalg.cond(A) <= 50:
            break
    else:
        A = np.eye(q) + 0.1 * rng.standard_normal((q, q))
    perm = [int(p) for p in rng.permutation(q)]
    if q >= 2 and perm == list(range(q)):
        perm = perm[1:] + perm[:1]
    return {"stream": "sweep", "sub_seed": int(sub_seed), "q": q, "N": N, "fs": fs, "family": "sweep", "coupling": cpl, "xs": xs, "y": y, "kw": kw,
            "coeffs": coeffs, "A": A, "perm": perm, "noise_rel": noise_rel, "big": bool(thorough), "strong": strong, "gains": gains}


def sweep_fit_plan(c: Dict[str, Any]) -> None:
    """keep the group cheap: an option set whose plan has more than 40 bins (new_ltf with bmin > 1 returns ~100) or cannot be planned at all
    loses its optional plan-shaping keys one by one (deterministic: depends on the case only)"""
    from speckit.analysis import SpectrumAnalyzer
    for drop in (None, "bmin", "Lmin", "band", "num_patch_pts"):
        if drop is not None:
            if drop not in c["kw"]:
                continue
            c["kw"].pop(drop)
        try:
            nf = len(SpectrumAnalyzer(np.asarray(c["y"]), c["fs"], **c["kw"]).plan()["f"])
        except Exception:
            continue
        if 1 <= nf <= 40:
            return


def kernel_budget(c: Dict[str, Any], ing: Ingredients):
    """per bin: F = first-order propagation of the kernels' forward rounding budget to the residual power, theta = that budget relative to the
    smallest singular value of the scaled Gram matrix.
    _an.bin_tol: a backend's XX / YY / XY of one bin are within g*a*a, g*b*b, g*a*b of the exact windowed-DFT means (a, b = max over the bin's
    segments of sum|x w|; g = 64u(L+4)min(L+1, 1/|sin w|), x8 for polynomial detrending) — two backends differ by at most twice that; in PSD
    units (x c = 2/(fs*S2)): dS00 <= 2gc a_y^2, dS_i <= 2gc a_i a_y, dT_ij <= 2gc a_i a_j.  r = S00 - S^H T^-1 S has
    dr = dS00 - 2Re(H^H dS) + H^H dT H + (second order), so |dr| <= 2gc (a_y + sum_i |H_i| a_i)^2 =: F to first order; with
    theta = ||T~^-1|| * ||dT~|| <= 2gc*q / sigma_min(T~), T~_ij = T_ij/(a_i a_j), at most 1e-2 the solution moves by <= 1.02% in the scaled norm and
    the exact difference is <= 1.03 F; the predicate allows 4 F."""
    from . import _an as A
    kw = c["kw"]
    order = int(kw.get("order", 0))
    win = kw.get("win", "kaiser")
    psll = kw.get("psll", 200)
    chans = [np.abs(np.asarray(v, dtype=float)) for v in c["xs"]] + [np.abs(np.asarray(c["y"], dtype=float))]
    q, nf = ing.q, ing.nf
    F = np.full(nf, np.inf)
    theta = np.full(nf, np.inf)
    for k in range(nf):
        L = int(ing.L[k])
        D = np.asarray(ing.D[k], dtype=np.int64)
        if L < 1 or len(D) == 0 or not np.isfinite(ing.B[k]) or not (ing.S2[k] > 0):
            continue
        w = np.abs(np.asarray(A.window(win if isinstance(win, str) else "kaiser", L, psll), dtype=float))
        w = np.maximum(w, 0.0) if np.all(np.isfinite(w)) else np.ones(L)
        a = np.array([float(np.max(np.lib.stride_tricks.sliding_window_view(ch, L)[D] @ w)) for ch in chans]) + 1e-300
        omega = 2.0 * np.pi * float(ing.f[k]) / ing.fs
        g = A.bin_tol(L, omega, 1.0, 1.0, order)[0]
        cf = 2.0 / (ing.fs * float(ing.S2[k]))
        F[k] = 2.0 * g * cf * (a[q] + float(np.abs(ing.H[:, k]) @ a[:q])) ** 2
        Ts = ing.T[:, :, k] / np.outer(a[:q], a[:q])
        try:
            smin = float(np.linalg.svd(Ts, compute_uv=False)[-1])
        except np.linalg.LinAlgError:
            continue
        theta[k] = 2.0 * g * cf * q / smin if smin > 0 else np.inf
    return F, theta


def sweep_group(ck: "Checker", c0: Dict[str, Any], backends: List[str], full: bool, rot: int = 0):
    """one record set + option set under every backend of `backends` (the first is the reference of the backend-independence claim)"""
    P = ck.P
    q = c0["q"]
    nb = len(backends)
    ref = None
    for bi, be in enumerate(backends):
        c = dict(c0)
        c["kw"] = dict(c0["kw"], backend=be)
        c["group_backends"] = list(backends)
        kw = c["kw"]
        P.hit(f"sweep_q{q}_{be}_order{kw.get('order', 0)}")
        P.hit(f"sweep_sched_{kw.get('scheduler', 'default')}")
        for name in ("olap", "win", "psll", "bmin", "Lmin", "band", "num_patch_pts"):
            if name in kw:
                P.hit(f"sweep_opt_{name}")
        if full:
            out = ck.check_case(c)
        else:
            # quick tier: bound / optimum / solver agreement / q = 1 identities and the exact combination (numeric, SISO) under EVERY backend;
            # the analytic solver on the exact combination and the permutation / re-mix re-runs under one backend per group (rotating)
            subs = ("main", "exact") + (("variants",) if bi == (rot + 1) % nb else ())
            out = ck.check_case(c, subs=subs, exact_solvers=["numeric", "siso"] + (["analytic"] if bi == rot % nb else []),
                                variant_solvers=["numeric"])
        if out is None:
            continue
        ing, res = out
        if ref is None:
            F, theta = kernel_budget(c, ing)
            ref = (be, ing, res, F, theta)
            continue
        rbe, ring, rres, F, theta = ref
        P.cases += 1
        if ing.nf != ring.nf or not np.array_equal(ing.f, ring.f) or not np.array_equal(ing.navg, ring.navg) or not np.array_equal(ing.L, ring.L):
            ck.viol(c, "backend_independence", "plan", f"backend={be!r} and backend={rbe!r} analyse the same record on different plans "
                    f"({ing.nf} vs {ring.nf} bins; the backend is not an input of the scheduler)", {"backend_ref": rbe})
            continue
        c["_S00"] = ing.S00
        for sv in res:
            if sv not in rres:
                continue
            g = ing.mask(sv) & ring.mask(sv)
            st = g & (theta <= THETA_MAX)
            P.unstable += int((g & ~st).sum())
            if not st.any():
                continue
            d = np.abs(res[sv] - rres[sv])
            tol = ETA * (ing.B + ring.B) + 4.0 * F
            r = np.where(st, d / np.where(st, tol, 1.0), 0.0)
            ck.ratio("backend_independence", float(np.max(r)))
            P.nontrivial.add(("backend_independence", sv, q, be, rbe, kw.get("order", 0), kw.get("scheduler", "vectorized_ltf"), c["coupling"]))
            badm = st & ~(d <= tol)
            if badm.any():
                k = int(np.argmax(np.where(badm, r, 0)))
                ck.viol(c, "backend_independence", sv, f"bin {k} (navg={int(ing.navg[k])}): residual power {float(res[sv][k])!r} with backend={be!r} but "
                        f"{float(rres[sv][k])!r} with backend={rbe!r}, all other options equal (|diff| {d[k]:.3g} > kernels' rounding budget {tol[k]:.3g}; "
                        f"Gyy={float(ing.S00[k]):.6g})", {"bin": k, "backend_ref": rbe, "observed": float(res[sv][k]), "expected": float(rres[sv][k]),
                                                         "tol": float(tol[k])})
        c.pop("_S00", None)


def sweep_stream(ck: "Checker", ctx, seed: int, intensive: bool) -> None:
    """every (backend, order) pair on every run, for q = 1 (SISO / numeric / analytic) and q = 2 (numeric / analytic); the scheduler of a pair
    rotates with VERIF_SEED (four consecutive seeds: backend x order x scheduler complete); thorough / intensive: more rounds, q = 3, every
    sub-claim under every backend"""
    import time as _t
    P = ck.P
    rng = np.random.default_rng(int(seed))
    backends = sweep_backends()
    rounds = 6 if ctx.thorough else (2 if intensive else 1)
    cap = 90.0 if ctx.thorough else (60.0 if intensive else 45.0)
    t0 = _t.time()
    done = 0
    for rnd in range(rounds):
        rot = int(ctx.seed) + rnd
        # quick tier: round 0 is the same whether or not an obligation is broken; the extra round of the failing-input search and every thorough
        # round evaluate all sub-claims with all solvers under every backend
        full = bool(ctx.thorough or rnd > 0)
        qs = [1, 3] if (ctx.thorough and rnd % 2 == 1) else [1, 2]
        for oi, order in enumerate(ORDERS):
            for qi, q in enumerate(qs):
                if ctx.time_left() < 40 or _t.time() - t0 > cap:
                    P.notes.append(f"option sweep: time budget reached after {done} groups")
                    return
                c0 = build_sweep_case(int(rng.integers(0, 2 ** 62)), q, ctx.thorough)
                c0["kw"]["order"] = order
                c0["kw"]["scheduler"] = SCHEDS_ALL[(oi + rot + 2 * qi) % 4]
                sweep_fit_plan(c0)
                sweep_group(ck, c0, backends, full, rot=rot + oi)
                done += 1
                if done <= 2:
                    P.sample({"op": "oracle-option-sweep", **case_desc(dict(c0, group_backends=backends))})
                if len(P.violations) >= 8:
                    return
    P.notes.append(f"option sweep: {done} groups x backends {backends} in {_t.time() - t0:.1f}s")



# ------------------------------------------------------------------------------------------------ units stream (pure rescaling of channels)
# "Unchanged by invertibly re-mixing the inputs" includes the simplest re-mixing of all: ONE input recorded in other units (A = diag(1, .., s, .., 1)),
# and the property quantifies over all RECORDS, whatever their physical scale (nanometres expressed in metres, strain, counts of a 24-bit ADC).
# The generated cases above use unit-scale records (family "scaled": 1e-3 .. 1e3) and re-mix the MISO solvers only, so that an ABSOLUTE threshold /
# regulariser / clip anywhere in the chain (wave-8 miss C15h: GyySx = Gyy - |Gxy|^2/Gxx with the guard where=(Gxx > eps): nothing subtracted once
# the input's PSD is below 2.2e-16) was never reached.  This stream is SYSTEMATIC: on every run, for q = 1 (SISO, numeric, analytic) and q = 2
# (numeric, analytic) one short record set is analysed as it is and again with ONE input / ALL inputs / the OUTPUT / ALL channels multiplied by
# 2^e — a power of two, so that the scaled record holds exactly s times the values and every spectrum of the chain is s^2 (s) times the original
# one to the last bit as long as nothing under/overflows: e = -40 and +40 (9.1e-13, 1.1e12) always, one more exponent per kind drawn from
# +-3..39 or +-60..120 (1e+-18 .. 1e+-36); one input among q >= 2 by 2^+-8 and 2^+-(2..12) only (cond(T) grows like s^-2: bins with cond > 1e8 are
# outside the claim, see ASSUMPTIONS).  Amplitudes stay within [1e-60, 1e55] (known finding D11: coherence NaN below 1e-85 / above 1e78, C13's).
# Demanded of every scaled set: ALL sub-claims of check_case on the scaled data themselves (bound, least-squares optimum of independently computed
# spectra of the scaled records, analytic = numeric, and for q = 1 Gyy*(1-coh) of an independent compute_spectrum and SISO = MISO), the exact static
# combination of the scaled inputs -> 0 relative to that OUTPUT's own spectrum (output at the inputs' scale or, `comp`, at the original scale),
# and residual(scaled) = s_out^2 * residual(original) within ETA*(B' + s_out^2 B)  (B is invariant under diagonal rescaling of the inputs).
UNIT_E_MAIN = 40            # 2^40 = 1.1e12
UNIT_E_FAR = (60, 120)      # 2^60 = 1.2e18 .. 2^120 = 1.3e36
UNIT_E_ONE = 8              # one input among q >= 2: 2^8 = 256 (cond(T) x 6.6e4)
AMP_MIN, AMP_MAX = 1e-60, 1e55


def build_units_case(sub_seed: int, q: int, thorough: bool = False) -> Dict[str, Any]:
    """short records of ordinary scale (amplitudes 1e-2 .. 1e2, different per channel), couplings with gain + delay / FIR, independent noise of
    0.03 .. 3x the coupled part, an option set including order / scheduler; everything from sub_seed"""
    rng = np.random.default_rng(int(sub_seed))
    N = int(rng.integers(500, 901))
    fs = float(rng.choice([1.0, 2.0, 100.0, float(rng.uniform(0.5, 50.0))]))
    cpl = str(rng.choice(COUPLINGS))
    us = []
    for i in range(q):
        v = rng.standard_normal(N)
        if rng.random() < 0.4:
            v = _colour(rng, v)
        v = v / max(float(np.std(v)), 1e-300)
        if i and rng.random() < 0.5:
            v = v + float(rng.uniform(0.3, 0.8)) * us[0]              # correlated inputs
        us.append(v)
    a0 = float(10.0 ** rng.uniform(-2, 2))
    amps = [a0 * float(10.0 ** rng.uniform(-0.5, 0.5)) for _ in range(q)]           # comparable sizes: cond(T) of the original set stays moderate
    offs = [float(rng.uniform(-3, 3)) if rng.random() < 0.25 else 0.0 for _ in range(q)]
    xs = [a * (v + o) for a, v, o in zip(amps, us, offs)]
    sig = np.zeros(N)
    for v in us:
        g = float(rng.choice([-1.0, 1.0]) * 10.0 ** rng.uniform(-0.7, 0.5))
        if cpl == "static":
            w = v
        elif cpl == "delay":
            w = np.roll(v, int(rng.integers(1, 6)))
        else:
            w = np.convolve(v, rng.standard_normal(3), mode="full")[:N]
        sig = sig + g * w
    noise_rel = float(rng.choice([0.03, 0.3, 1.0, 3.0]))
    y = float(10.0 ** rng.uniform(-2, 2)) * (sig + noise_rel * float(np.std(sig)) * rng.standard_normal(N))
    kw = _draw_sweep_kw(rng, fs)
    kw["order"] = int(rng.choice(ORDERS))
    kw["scheduler"] = str(rng.choice(SCHEDS_ALL))
    coeffs = [float(rng.choice([-1.0, 1.0]) * 10.0 ** rng.uniform(-1, 1)) for _ in range(q)]
    A = np.eye(q)
    perm = [int(p) for p in rng.permutation(q)]
    return {"stream": "units", "sub_seed": int(sub_seed), "q": q, "N": N, "fs": fs, "family": "units", "coupling": cpl, "xs": xs, "y": y, "kw": kw,
            "coeffs": coeffs, "A": A, "perm": perm, "noise_rel": noise_rel, "big": bool(thorough), "units_t": None}


def units_fit_plan(c: Dict[str, Any]) -> None:
    """at most 40 bins (new_ltf returns > 100 for some N / fs whatever the optional keys): sweep_fit_plan, then the other schedulers in turn
    (deterministic: depends on the case only; the kw actually used are stored in the replay)"""
    from speckit.analysis import SpectrumAnalyzer
    first = c["kw"].get("scheduler")
    for sch in [first] + [s_ for s_ in ("ltf", "vectorized_ltf", "lpsd") if s_ != first]:
        c["kw"]["scheduler"] = sch
        sweep_fit_plan(c)
        try:
            nf = len(SpectrumAnalyzer(np.asarray(c["y"]), c["fs"], **c["kw"]).plan()["f"])
        except Exception:
            continue
        if 1 <= nf <= 40:
            return


def units_tag(t: Dict[str, Any]) -> str:
    return f"{t['kind']}" + (f"[{t['j']}]" if t["kind"] == "one_input" else "") + f"*2^{t['e']}" + ("c" if t.get("comp") else "")


def units_transform(c0: Dict[str, Any], t: Dict[str, Any]) -> Optional[Dict[str, Any]]:
    """the case with the channels of t["kind"] multiplied by 2^t["e"] (exact); None when an amplitude would leave [AMP_MIN, AMP_MAX]"""
    f = float(2.0 ** int(t["e"]))
    q = c0["q"]
    kind = t["kind"]
    fin = [1.0] * q
    if kind == "one_input":
        fin[int(t["j"])] = f
    elif kind in ("all_inputs", "all_channels"):
        fin = [f] * q
    fout = f if kind in ("output", "all_channels") else 1.0
    xs = [np.asarray(v, dtype=float) * fi for v, fi in zip(c0["xs"], fin)]
    y = np.asarray(c0["y"], dtype=float) * fout
    coeffs = list(c0["coeffs"])
    if t.get("comp"):
        # the exact combination at another scale than the scaled channels: inputs scaled -> output of the ORIGINAL size; output kind -> an exact
        # combination of the size of the SCALED output built from the unscaled inputs  (power-of-two factors: the coefficients stay exact)
        coeffs = [cj / fi for cj, fi in zip(coeffs, fin)] if kind in ("one_input", "all_inputs") else [cj * fout for cj in coeffs]
    ye = sum(cj * xj for cj, xj in zip(coeffs, xs))
    for v in xs + [y, ye]:
        m = float(np.max(np.abs(v))) if len(v) else 0.0
        if not (m <= AMP_MAX and (m >= AMP_MIN or m == 0.0)):
            return None
    c = dict(c0)
    c.update({"xs": xs, "y": y, "coeffs": coeffs, "units_t": dict(t), "coupling": c0["coupling"] + "|" + units_tag(t), "_fout": fout})
    return c


def units_plan(rng, q: int, full: bool) -> List[Dict[str, Any]]:
    """transforms of one group: both ends of the 1e-12 .. 1e12 range for every kind, one more exponent per kind (in between, or far outside)"""
    def extra():
        lo, hi = (3, UNIT_E_MAIN - 1) if rng.random() < 0.5 else UNIT_E_FAR
        return int(rng.choice([-1, 1])) * int(rng.integers(lo, hi + 1))
    plan: List[Dict[str, Any]] = []
    kinds = (["one_input"] if q >= 2 else []) + ["all_inputs", "output", "all_channels"]
    for kind in kinds:
        if kind == "one_input":
            j = int(rng.integers(0, q))
            es = [(-UNIT_E_ONE, j), (UNIT_E_ONE, (j + 1) % q), (int(rng.choice([-1, 1])) * int(rng.integers(2, 13)), int(rng.integers(0, q)))]
        else:
            es = [(-UNIT_E_MAIN, 0), (UNIT_E_MAIN, 0), (extra(), 0)]
        if kind in ("all_channels", "one_input") and not full:
            es = es[:2]                           # (every exponent / comp flag is drawn above whatever the tier)
        for i, (e, j) in enumerate(es):
            comp = bool(rng.random() < 0.5)
            # quick tier: the exact combination at both ends of the range for the kinds that rescale one side only; the analytic solver (SymPy
            # solve per call) on the exact combination at the lower end only
            plan.append({"kind": kind, "j": j, "e": int(e), "comp": comp, "exact": bool(full or (i < 2 and kind != "all_channels")),
                         "exact_analytic": bool(full or i == 0)})
    return plan


def units_group(ck: "Checker", c0: Dict[str, Any], plan: List[Dict[str, Any]], deadline: Optional[float] = None) -> None:
    import time as _t
    P = ck.P
    q = c0["q"]
    out0 = ck.check_case(c0, subs=("main",))
    if out0 is None:
        return
    ing0, res0 = out0
    for ti, t in enumerate(plan):
        if deadline is not None and _t.time() > deadline:
            P.notes.append(f"units stream: time budget reached after {ti} of {len(plan)} transforms of the q = {q} group")
            return
        cs = units_transform(c0, t)
        if cs is None:
            P.hit("units_skipped_amplitude_range")
            continue
        P.hit(f"units_q{q}_{t['kind']}_{'down' if t['e'] < 0 else 'up'}" + ("_far" if abs(t["e"]) > UNIT_E_MAIN else ""))
        out = ck.check_case(cs, subs=("main", "exact") if t.get("exact", True) else ("main",),
                            exact_solvers=None if t.get("exact_analytic", True) else ["numeric", "siso"])
        if out is None:
            continue
        ings, ress = out
        P.cases += 1
        f2 = float(cs["_fout"]) ** 2
        if ings.nf != ing0.nf or not np.array_equal(ings.f, ing0.f) or not np.array_equal(ings.navg, ing0.navg):
            ck.viol(cs, "rescale", "plan", f"{units_tag(t)}: the rescaled records are analysed on another frequency plan ({ings.nf} vs {ing0.nf} bins; "
                    "the plan depends on N, fs and the options only)")
            continue
        cs["_S00"] = ings.S00
        P.unstable += int((ing0.good & ~ings.good).sum())
        for sv in ress:
            if sv not in res0:
                continue
            g = ing0.mask(sv) & ings.mask(sv)
            if ck.cmp_power(cs, "rescale", sv, ress[sv], f2 * res0[sv], ings.B + f2 * ing0.B, g,
                            f"({units_tag(t)}) the original records give, times {f2:.6g},"):
                P.nontrivial.add(("rescale", sv, q, t["kind"], int(np.sign(t["e"])), abs(t["e"]) > UNIT_E_MAIN, c0["kw"].get("order", 0),
                                  c0["kw"].get("scheduler", "vectorized_ltf")))
        cs.pop("_S00", None)
        if len(P.violations) >= 8:
            return


def units_stream(ck: "Checker", ctx, seed: int, intensive: bool) -> None:
    import time as _t
    P = ck.P
    rng = np.random.default_rng(int(seed))
    full = bool(ctx.thorough or intensive)
    rounds = 5 if ctx.thorough else (3 if intensive else 1)
    cap = 60.0 if ctx.thorough else (36.0 if intensive else 14.0)
    t0 = _t.time()
    done = 0
    for rnd in range(rounds):
        for q in ([1, 2, 3] if (full and rnd % 2 == 1) else [1, 2]):
            if ctx.time_left() < 40 or _t.time() - t0 > cap:
                P.notes.append(f"units stream: time budget reached after {done} groups")
                return
            c0 = build_units_case(int(rng.integers(0, 2 ** 62)), q, ctx.thorough)
            units_fit_plan(c0)
            plan = units_plan(rng, q, full)
            units_group(ck, c0, plan, deadline=t0 + cap)
            done += 1
            if done <= 2:
                P.sample({"op": "oracle-units", **case_desc(c0), "transforms": [units_tag(t) for t in plan]})
            if len(P.violations) >= 8:
                return
    P.notes.append(f"units stream: {done} groups in {_t.time() - t0:.1f}s")


# ------------------------------------------------------------------------------------------------ rank-deficient input sets (every run)
# Wave-9 miss C15i: the pseudo-inverse fallback of the numeric solver (cond(T) > 1e12 or LinAlgError) multiplied from the wrong side, i.e. solved
# against conj(T): nothing happens while T is real, and every other stream discards the bins with cond(T) > 1e8, so the fallback was never looked at.
# Miso.normal_eq_minimises assumes no invertibility: the residual at ANY solution of the normal equations is the minimum over the span of the inputs
# and <= S00.  This stream hands over input sets whose Gram matrix is singular / nearly singular at EVERY bin while its off-diagonals are complex
# (the live inputs are coherent through a sample delay):
#   zero     one all-zero channel                                     const    one constant channel (stuck sensor), order -1 / 0 / 1
#   dup      one channel = m * another one (m = 1, 2, -1, 0.5)         lincomb  one channel = a*x_i + b*x_j of two others (q = 2: a*x_i, a not 2^k)
#   ratio    one of q live channels multiplied by 2^-e, e = 20..26 (cond(T) x 4^e: the same records in other units)
# at a drawn position of the list, q in {2, 3}, N 500..900, Jdes 5..8.  Predicates on the bins with navg > q, resolved output spectrum and a
# well-conditioned (cond <= 1e8) REFERENCE set (the live channels alone; ratio: the unscaled channels):
#   rankdef_bound      0 <= residual <= Gyy + tol                 rankdef_same_span  residual(with the useless channel) = residual(reference set)
#   rankdef_exact      y = exact static combination of the live channels (ratio: of the scaled ones) -> residual <= tolE
#   rankdef_solvers    ratio only, where rho(T) <= RHO_MAX: analytic = reference, numeric = analytic.  On singular sets the analytic solver divides
#                      by det T = 0 (NaN / garbage): recorded in the histogram, not judged.
# Tolerances.  Singular kinds: the numeric answer is r(H) = r(H*) + d^H T d, H* the minimum-norm solution, d the error of H; the reference solution
# padded with a zero solves the same normal equations, so |H*| <= |H0| (lincomb: (1+|a|+|b|) |H0|), and the part of d along a direction whose singular
# value survives pinv's cut (>= 1e-15 s_max = 4.5 u s_max) is rounding noise of S over rounding noise of T, a small multiple of |S|/s_max <= |H0|:
# the formula's terms are bounded by Bd = Gyy + 2 Hn |S| + Hn^2 |T|_F with Hn = 16 |H0|_2, and tol = ETA * (Bd + B0) keeps the factor ~1e6 over the
# unit roundoff that ETA has everywhere else.  const: the window leaks a constant into every bin when order = -1: only bins where the smallest singular
# value is <= 1e-18 s_max (three decades under pinv's cut: certainly dropped) or, any order, exactly 0 are judged, the others counted unstable.
# ratio: a backward-stable solve of T H = S (LU or SVD: (T+E) H = S, |E| <= c u |T|) leaves d^H T d <= c^2 u^2 cond(T)^2 B, B invariant under
# the diagonal rescaling: tol = (2 ETA + 64 (u cond)^2) * B0 with cond <= cond(T0) 4^e; bins with u cond > 0.1 are counted unstable (beyond ~2^-25 the
# unchanged library drops the small channel altogether).  rankdef_exact uses 1e-10 instead of ETA (amplitude 1e-5 sqrt(B)).
RD_KINDS = ["zero", "const", "dup", "lincomb", "ratio"]
RD_TRUNC = 1e-18
RD_UK_MAX = 0.1
ETA_EXACT_RD = 1e-10
RD_E = (20, 26)


def rd_tag(spec: Dict[str, Any]) -> str:
    k = spec["kind"]
    ex = {"const": f"(order {spec.get('order')})", "dup": f"(x{spec.get('mult')})", "ratio": f"(2^-{spec.get('e')})"}.get(k, "")
    return f"rankdef:{k}{ex}"


def build_rankdef_case(sub_seed: int, spec: Dict[str, Any]) -> Dict[str, Any]:
    """spec = {"kind", "q", and "order" (const) / "mult" (dup) / "e" (ratio)}; records, position of the degenerate channel, options from sub_seed"""
    rng = np.random.default_rng(int(sub_seed))
    kind, q = str(spec["kind"]), int(spec["q"])
    N = int(rng.integers(500, 901))
    fs = float(rng.choice([1.0, 2.0, 100.0, float(rng.uniform(0.5, 50.0))]))
    nlive = q if kind == "ratio" else q - 1
    a0 = float(10.0 ** rng.uniform(-2, 2))
    v0 = rng.standard_normal(N)
    if rng.random() < 0.4:
        v0 = _colour(rng, v0)
    v0 = v0 / max(float(np.std(v0)), 1e-300)
    us = [v0]
    for _ in range(1, nlive):                         # coherent with the first one through a sample delay: complex off-diagonals of T
        d = int(rng.integers(1, 6))
        us.append(float(rng.uniform(0.5, 0.9)) * np.roll(v0, d) + float(rng.uniform(0.3, 0.8)) * rng.standard_normal(N))
    offs = [float(rng.uniform(-3, 3)) if rng.random() < 0.25 else 0.0 for _ in range(nlive)]
    live = [a0 * float(10.0 ** rng.uniform(-0.5, 0.5)) * (v + o) for v, o in zip(us, offs)]
    sig = np.zeros(N)
    for v in us:
        sig = sig + float(rng.choice([-1.0, 1.0]) * 10.0 ** rng.uniform(-0.7, 0.5)) * np.roll(v, int(rng.integers(0, 5)))
    noise_rel = float(rng.choice([0.03, 0.3, 1.0]))
    y = float(10.0 ** rng.uniform(-2, 2)) * (sig + noise_rel * float(np.std(sig)) * rng.standard_normal(N))
    kw = _draw_sweep_kw(rng, fs)
    kw["Jdes"] = int(rng.integers(5, 9))
    kw["order"] = int(spec["order"]) if kind == "const" else int(rng.choice(ORDERS))
    kw["scheduler"] = str(rng.choice(SCHEDS_ALL))
    coeffs = [float(rng.choice([-1.0, 1.0]) * 10.0 ** rng.uniform(-1, 1)) for _ in range(nlive)]
    pos = int(rng.integers(0, q))
    j = int(rng.integers(0, nlive))
    ab = [float(rng.choice([-1.0, 1.0]) * rng.uniform(0.3, 2.0)) for _ in range(2)]
    cval = float(rng.choice([-1.0, 1.0]) * rng.uniform(0.5, 5.0)) * a0
    if kind == "ratio":
        xs = [np.asarray(v) * (2.0 ** -int(spec["e"]) if i == pos else 1.0) for i, v in enumerate(live)]
    else:
        if kind == "zero":
            z = np.zeros(N)
        elif kind == "const":
            z = np.full(N, cval)
        elif kind == "dup":
            z = float(spec["mult"]) * live[j]
        elif nlive >= 2:
            z = ab[0] * live[0] + ab[1] * live[1]
        else:
            z = ab[0] * live[0]
        xs = list(live[:pos]) + [z] + list(live[pos:])
    return {"stream": "rankdef", "sub_seed": int(sub_seed), "q": q, "N": N, "fs": fs, "family": "rankdef", "coupling": rd_tag(spec), "xs": xs, "y": y,
            "kw": kw, "coeffs": coeffs, "A": np.eye(q), "perm": list(range(q)), "noise_rel": noise_rel, "big": False, "live": live,
            "rd": dict(spec), "pos": pos}


def _rd_rho(T: np.ndarray) -> np.ndarray:
    nf = T.shape[2]
    out = np.full(nf, np.inf)
    for k in range(nf):
        Tk = T[:, :, k]
        if np.all(np.isfinite(Tk)):
            dt = abs(np.linalg.det(Tk))
            if dt > 0:
                out[k] = float(np.prod(np.abs(Tk).sum(axis=1))) / dt
    return out


def rankdef_check(ck: "Checker", c: Dict[str, Any], analytic: bool = False) -> None:
    P = ck.P
    q, spec = c["q"], c["rd"]
    kind = spec["kind"]
    xs, live, y, fs, kw = c["xs"], c["live"], c["y"], c["fs"], c["kw"]
    try:
        ing0 = Ingredients(live, y, fs, kw)
        ingf = Ingredients(xs, y, fs, kw)
    except Exception as ex:
        P.hit("skipped_compute_spectrum_error")
        P.notes.append(f"rank-deficient stream: compute_spectrum raised {ex!r} for {kw}"[:160])
        return
    P.hit(f"rankdef_q{q}_{kind}")
    nf = ing0.nf
    keyb = (q, kind, str(spec.get("order", spec.get("mult", spec.get("e")))), kw.get("order", 0), kw.get("scheduler", "vectorized_ltf"))

    def budget(i0: Ingredients, iF: Ingredients):
        """(mask, tol_bound, tol_equal, tol_exact) for the output record the two ingredient sets were computed for"""
        base = i0.resolved & (i0.navg > q) & (i0.cond <= COND_MAX) & np.isfinite(i0.B)
        fin = np.array([bool(np.all(np.isfinite(iF.T[:, :, k])) and np.all(np.isfinite(iF.S[:, k]))) for k in range(nf)])
        base &= fin
        B0 = np.where(np.isfinite(i0.B), i0.B, 0.0)
        if kind == "ratio":
            uk = U * i0.cond * 4.0 ** int(spec["e"])
            ok = base & (uk <= RD_UK_MAX)
            P.unstable += int((base & ~ok).sum())
            ex = 64.0 * np.where(ok, uk, 0.0) ** 2
            return ok, (ETA + ex) * B0, (2 * ETA + ex) * B0, (ETA_EXACT_RD + ex) * B0
        ok = base.copy()
        if kind == "const":
            for k in np.where(base)[0]:
                sv_ = np.linalg.svd(iF.T[:, :, k], compute_uv=False)
                if not (sv_[0] > 0 and sv_[-1] <= RD_TRUNC * sv_[0]):
                    ok[k] = False
            P.unstable += int((base & ~ok).sum())
        Hn = 16.0 * np.sqrt(np.sum(np.abs(i0.H) ** 2, axis=0))
        Sn = np.sqrt(np.sum(np.abs(iF.S) ** 2, axis=0))
        Tn = np.sqrt(np.sum(np.abs(iF.T) ** 2, axis=(0, 1)))
        with np.errstate(all="ignore"):
            Bd = np.where(ok, i0.S00 + 2.0 * Hn * Sn + Hn * Hn * Tn, 0.0)
        ok &= np.isfinite(Bd)
        return ok, ETA * Bd, ETA * (Bd + B0), ETA_EXACT_RD * (Bd + B0)

    ok, tol_b, tol_e, _ = budget(ing0, ingf)
    P.hit("rankdef_bins_checked", int(ok.sum()))
    c["_S00"] = ing0.S00
    res: Dict[str, np.ndarray] = {}
    # const, bins where the leaked constant is NOT certainly dropped (T of full rank, cond up to 1e15: solve or untruncated pinv): the span is truly
    # larger, so only  residual <= Gyy  and  residual <= minimum over the live channels  (a minimum over a larger span) are demanded, within the
    # backward-stable-solve budget of the ratio kind with the measured cond(T) and the scale B of the full set's own solution
    ok2 = np.zeros(nf, dtype=bool)
    if kind == "const":
        uk2 = U * ingf.cond
        ok2 = (ing0.resolved & (ing0.navg > q) & (ing0.cond <= COND_MAX) & np.isfinite(ing0.B) & ~ok & np.isfinite(ingf.B) & (uk2 <= RD_UK_MAX)
               & (ingf.cond > COND_MAX))
        P.unstable -= int(ok2.sum())
        P.hit("rankdef_bins_checked_one_sided", int(ok2.sum()))
    asd = ck.run_fn(c, "rankdef_bound", "numeric", xs, y, _with_good(ingf, ok | ok2))
    if asd is not None and ok2.any():
        P.cases += 1
        P.nontrivial.add(("rankdef_not_worse", "numeric") + keyb)
        tol2 = np.where(ok2, (2 * ETA + 64.0 * np.where(ok2, uk2, 0.0) ** 2) * np.where(ok2, ingf.B + ing0.B, 0.0), 0.0)
        for nm, refv, what in (("rankdef_bound", ing0.S00, "exceeds the output's own spectrum Gyy"),
                               ("rankdef_not_worse", ing0.rref, "exceeds the least-squares minimum over the live channels alone")):
            over = asd ** 2 - refv
            r = np.where(ok2, over / np.where(ok2, tol2, 1.0), 0.0)
            ck.ratio(nm + "_one_sided", float(np.max(r)))
            badm = ok2 & ~(over <= tol2)
            if badm.any():
                k = int(np.argmax(np.where(badm, r, 0)))
                ck.viol(c, nm, "numeric", f"bin {k} (navg={int(ing0.navg[k])}, cond(T)={ingf.cond[k]:.3g}): residual power {float(asd[k] ** 2)!r} {what} "
                        f"{float(refv[k])!r} by more than {tol2[k]:.3g} ({c['coupling']} at position {c['pos']})",
                        {"bin": k, "observed": float(asd[k] ** 2), "expected_at_most": float(refv[k]), "tol": float(tol2[k])})
    if asd is not None:
        res["numeric"] = rf = asd ** 2
        if ok.any():
            P.nontrivial.add(("rankdef_bound", "numeric") + keyb)
        over = rf - ing0.S00
        r = np.where(ok, over / np.where(ok & (tol_b > 0), tol_b, 1.0), 0.0)
        ck.ratio("rankdef_bound", float(np.max(r)) if ok.any() else 0.0)
        badm = ok & ~(over <= tol_b)
        if badm.any():
            k = int(np.argmax(np.where(badm, r, 0)))
            ck.viol(c, "rankdef_bound", "numeric", f"bin {k} (navg={int(ing0.navg[k])}): residual power {float(rf[k])!r} exceeds the output's own spectrum "
                    f"Gyy={float(ing0.S00[k])!r} (ratio {rf[k] / ing0.S00[k]:.6g}; input {c['pos']} of {q} is degenerate: {c['coupling']})",
                    {"bin": k, "observed": float(rf[k]), "Gyy": float(ing0.S00[k])})
        # the same span: least-squares minimum over the reference set, and the numeric solver's own answer for the reference set
        P.cases += 1
        if ck.cmp_power(c, "rankdef_same_span", "numeric", rf, ing0.rref, tol_e / ETA, ok,
                        f"({c['coupling']} at position {c['pos']}) the least-squares minimum over the reference channels is", key="rankdef_same_span"):
            P.nontrivial.add(("rankdef_same_span", "numeric") + keyb)
        a0_ = ck.run_fn(c, "rankdef_same_span", "numeric", live, y, _with_good(ing0, ok))
        if a0_ is not None:
            ck.cmp_power(c, "rankdef_same_span", "numeric", rf, a0_ ** 2, tol_e / ETA, ok,
                         f"({c['coupling']} at position {c['pos']}) the numeric solver on the reference channels alone gives", key="rankdef_same_span")
    # analytic solver: judged on the ratio kind only (non-singular T, closed form accurate where rho <= RHO_MAX); singular sets are recorded
    if analytic:
        try:
            fa, aa = call("analytic", xs, y, fs, kw)
            aa = np.asarray(aa, dtype=float)
        except Exception as ex:
            P.hit(f"rankdef_analytic_raised_{kind}")
            aa = None
        if aa is not None and aa.shape == ing0.f.shape:
            P.cases += 1
            if kind != "ratio":
                P.hit(f"rankdef_analytic_{kind}_bins_nonfinite", int((ok & ~np.isfinite(aa)).sum()))
                P.hit(f"rankdef_analytic_{kind}_bins_finite", int((ok & np.isfinite(aa)).sum()))
            else:
                ga = ok & (ing0.rho <= RHO_MAX) & (_rd_rho(ingf.T) <= RHO_MAX)
                B0 = np.where(np.isfinite(ing0.B), ing0.B, 0.0)
                bad = ga & ~(np.isfinite(aa) & (aa >= 0))
                if bad.any():
                    k = int(np.where(bad)[0][0])
                    ck.viol(c, "rankdef_bound", "analytic", f"ASD[{k}] = {float(aa[k])!r} is not a finite non-negative number ({c['coupling']})", {"bin": k})
                else:
                    if ck.cmp_power(c, "rankdef_same_span", "analytic", aa ** 2, ing0.rref, 2 * B0, ga,
                                    f"({c['coupling']}) the least-squares minimum for the unscaled channels is", key="rankdef_same_span_analytic"):
                        P.nontrivial.add(("rankdef_same_span", "analytic") + keyb)
                    if "numeric" in res:
                        if ck.cmp_power(c, "rankdef_solvers", "analytic-vs-numeric", aa ** 2, res["numeric"], (tol_e + ETA * B0) / ETA, ga,
                                        f"({c['coupling']}) numeric solver gives", key="rankdef_solvers"):
                            P.nontrivial.add(("rankdef_solvers",) + keyb)
    # exact static combination of the live channels (ratio: of the channels as handed over)
    src = xs if kind == "ratio" else live
    ye = sum(cj * xj for cj, xj in zip(c["coeffs"], src))
    try:
        inge0 = ing0.for_output(live, ye, fs, kw)
        ingef = ingf.for_output(xs, ye, fs, kw)
    except Exception:
        inge0 = None
    if inge0 is not None:
        oke, _, _, tol_x = budget(inge0, ingef)
        c["_S00"] = inge0.S00
        asd = ck.run_fn(c, "rankdef_exact", "numeric", xs, ye, _with_good(ingef, oke))
        if asd is not None:
            pw = asd ** 2
            if oke.any():
                P.nontrivial.add(("rankdef_exact", "numeric") + keyb)
            r = np.where(oke, pw / np.where(oke & (tol_x > 0), tol_x, 1.0), 0.0)
            ck.ratio("rankdef_exact", float(np.max(r)) if oke.any() else 0.0)
            badm = oke & ~(pw <= tol_x)
            if badm.any():
                k = int(np.argmax(np.where(badm, r, 0)))
                ck.viol(c, "rankdef_exact", "numeric", f"bin {k} (navg={int(inge0.navg[k])}): y = sum c_j x_j exactly (live channels) but residual ASD {float(asd[k])!r} = "
                        f"{asd[k] / np.sqrt(inge0.S00[k]):.3g}*sqrt(Gyy) (allowed {np.sqrt(tol_x[k] / inge0.S00[k]):.3g}*sqrt(Gyy); {c['coupling']} at position {c['pos']})",
                        {"bin": k, "coeffs": c["coeffs"], "observed": float(asd[k]), "Gyy": float(inge0.S00[k])})
    c.pop("_S00", None)


def rankdef_plan(rng, full: bool) -> List[Dict[str, Any]]:
    """one round: every kind with q = 3 (const with order -1 AND 0), the amplitude ratio with q = 2 at both ends of the range that is judged and q = 3,
    one q = 2 singular set; full: more exponents / multipliers / orders"""
    mult = float(rng.choice([1.0, 2.0, -1.0, 0.5]))
    e_mid = int(rng.integers(RD_E[0] + 1, 24))
    plan = [{"kind": "zero", "q": 3}, {"kind": "const", "q": 3, "order": -1}, {"kind": "const", "q": 3, "order": 0},
            {"kind": "dup", "q": 3, "mult": 1.0 if mult != 1.0 and rng.random() < 0.5 else mult}, {"kind": "lincomb", "q": 3},
            {"kind": "ratio", "q": 2, "e": RD_E[0]}, {"kind": "ratio", "q": 2, "e": e_mid}, {"kind": "ratio", "q": 3, "e": int(rng.integers(RD_E[0], 23))}]
    k2 = str(rng.choice(["zero", "const", "dup", "lincomb"]))
    o2 = int(rng.choice([-1, 0, 1]))
    m2 = float(rng.choice([1.0, 2.0, -1.0, 0.5]))
    plan.append({"kind": k2, "q": 2, **({"order": o2} if k2 == "const" else {}), **({"mult": m2} if k2 == "dup" else {})})
    if full:
        plan += [{"kind": "dup", "q": 3, "mult": 2.0}, {"kind": "const", "q": 3, "order": 1}, {"kind": "ratio", "q": 2, "e": int(rng.integers(24, RD_E[1] + 1))},
                 {"kind": "ratio", "q": 3, "e": RD_E[0]}]
    return plan


def rankdef_stream(ck: "Checker", ctx, seed: int, intensive: bool) -> None:
    import time as _t
    P = ck.P
    rng = np.random.default_rng(int(seed))
    full = bool(ctx.thorough or intensive)
    rounds = 4 if ctx.thorough else (3 if intensive else 1)
    cap = 45.0 if ctx.thorough else (30.0 if intensive else 10.0)
    t0 = _t.time()
    done = 0
    for rnd in range(rounds):
        plan = rankdef_plan(rng, full)
        rec = int(rng.integers(0, 5))                    # which singular set of the round has the analytic solver's behaviour recorded
        for i, spec in enumerate(plan):
            if ctx.time_left() < 40 or _t.time() - t0 > cap:
                P.notes.append(f"rank-deficient stream: time budget reached after {done} cases")
                return
            c = build_rankdef_case(int(rng.integers(0, 2 ** 62)), spec)
            units_fit_plan(c)
            rankdef_check(ck, c, analytic=bool(spec["kind"] == "ratio" or i == rec))
            done += 1
            if done <= 2:
                P.sample({"op": "oracle-rankdef", **case_desc(c)})
            if len(P.violations) >= 8:
                return
    P.notes.append(f"rank-deficient stream: {done} cases in {_t.time() - t0:.1f}s")


# ------------------------------------------------------------------------------------------------ corpus: defect D14 (thorough tier)
# D14 (fixed by /repo commit a8eaa1b "MISO_numeric caches the pairwise input spectra under unambiguous keys"): before the fix the helper get_ltf_result
# memoised the pair (i, j) under f"T{i+1}{j+1}"; from 112 inputs on two pairs share a key ("T1112" = (1,112) = (11,12)), Tmat received the cross-spectrum
# of another pair and an exact static combination y = sum c_j x_j left a residual of ~1e-2*ASD(y) in every bin with navg > q (5e-8 with q = 111 or with
# the fix).  Witness: q = 112 white inputs of 2500 samples, y their exact combination, Jdes=4, Kdes=300, olap=0.5, win="hann", order=0, Lmin=8 (four bins
# with navg in 160..624 > 112); ~6300 ltf calls, about one minute.  In the quick tier the all-q theorems MisoGen.NTkey_inj / numeric_assembly stand for it.
D14_KW = {"Jdes": 4, "Kdes": 300, "olap": 0.5, "win": "hann", "order": 0, "Lmin": 8}


def d14_witness() -> Dict[str, Any]:
    rng = np.random.default_rng(0xD14)
    q, N = 112, 2500
    xs = [rng.standard_normal(N) for _ in range(q)]
    coeffs = [float(rng.choice([-1.0, 1.0]) * 10.0 ** rng.uniform(-0.5, 0.5)) for _ in range(q)]
    y = sum(cj * xj for cj, xj in zip(coeffs, xs))
    return {"sub_seed": -14, "q": q, "N": N, "fs": 1.0, "family": "corpus_D14", "coupling": "static", "xs": xs, "y": y, "kw": dict(D14_KW),
            "coeffs": coeffs, "A": np.eye(q), "perm": list(range(q)), "noise_rel": 0.0, "big": True}


def check_d14(ck: "Checker") -> None:
    """the REAL numeric solver with 112 inputs on an exact static combination: residual power <= ETA_EXACT * B at every bin with navg > q
    (B from the function's own arrays, the module's scale of the formula's terms)"""
    P = ck.P
    c = d14_witness()
    q = c["q"]
    P.hit("corpus_D14")
    with LtfRecorder() as rec:
        try:
            f, asd = call("numeric", c["xs"], c["y"], c["fs"], c["kw"])
        except Exception as ex:
            ck.viol(c, "exact_combination", "numeric", f"D14 witness: raised {ex!r}", {"error": repr(ex)})
            return
    P.cases += 1
    loc = rec.frame.f_locals if rec.frame is not None else {}
    navg = None
    for data, r in rec.calls:
        if not isinstance(data, (list, tuple)):
            navg = np.asarray(r.navg)
            Gyy = np.asarray(r.Gxx, dtype=float)       # the one single-channel call is ltf(output)
    if navg is None or any(n not in loc for n in ("Tmat", "Svec", "Hvec")):
        ck.viol(c, "exact_combination", "numeric", "D14 witness: the function's arrays could not be read")
        return
    Tm, Sv, Hv = (np.asarray(loc[n]) for n in ("Tmat", "Svec", "Hvec"))
    asd = np.asarray(asd, dtype=float)
    n_chk = 0
    for k in range(len(asd)):
        if not (navg[k] > q and Gyy[k] > 0):
            continue
        cd = float(np.linalg.cond(Tm[:, :, k]))
        if not (cd <= COND_MAX):
            P.unstable += 1
            continue
        aH = np.abs(Hv[:, k])
        B = Gyy[k] + 2.0 * float(aH @ np.abs(Sv[:, k])) + float(aH @ np.abs(Tm[:, :, k]) @ aH)
        tol = ETA_EXACT * B
        n_chk += 1
        ck.ratio("exact_combination_D14", float(asd[k] ** 2 / tol))
        if not (asd[k] ** 2 <= tol):
            ck.viol(c, "exact_combination", "numeric",
                    f"D14 witness (q = 112): bin {k} (navg={int(navg[k])}): y = sum c_j x_j exactly but residual ASD {float(asd[k])!r} = "
                    f"{asd[k] / np.sqrt(Gyy[k]):.3g}*sqrt(Gyy) (allowed {np.sqrt(tol / Gyy[k]):.3g}*sqrt(Gyy), cond(T)={cd:.3g})",
                    {"bin": k, "observed": float(asd[k]), "Gyy": float(Gyy[k])})
            return
    P.hit("corpus_D14_bins_checked", n_chk)
    if n_chk:
        P.nontrivial.add(("corpus_D14", q))


def oracle(ctx, intensive: bool = False, hints: List[Dict[str, Any]] = ()) -> C.Part:
    """the property's sub-claims on the real implementation only"""
    P = C.Part()
    ck = Checker(P, with_analytic_q4=True)
    n = ctx.scale(48, 420) * (4 if intensive else 1)
    cap_s = ctx.scale(75, 540) * (2.2 if intensive else 1)
    validation_smoke(P)
    # corpus first: D2 witness (coupling with a delay)
    ck.check_case(d2_witness())
    P.sample({"op": "oracle-corpus", **case_desc(d2_witness())})
    # analysis-option sweep (every backend x order pair on every run, a few seconds): before everything that is long; seeded from VERIF_SEED without
    # consuming ctx.rng, and its run time is added to the cap of the generated-case stream below, which therefore keeps the budget it had
    import time as _t
    t_sw = _t.time()
    try:
        sweep_stream(ck, ctx, int(np.random.default_rng([int(ctx.seed), 0x5EE9]).integers(0, 2 ** 62)), intensive)
    except Exception as ex:
        P.notes.append(f"option sweep aborted: {ex!r}"[:200])
    # units stream (every channel kind rescaled by 2^-40 / 2^40 / one more exponent on every run, a few seconds): same bookkeeping as the sweep
    try:
        if len(P.violations) < 8:
            units_stream(ck, ctx, int(np.random.default_rng([int(ctx.seed), 0x0C15B]).integers(0, 2 ** 62)), intensive)
    except Exception as ex:
        P.notes.append(f"units stream aborted: {ex!r}"[:200])
    # rank-deficient input sets (pseudo-inverse fallback of the numeric solver; a few seconds): same bookkeeping
    try:
        if len(P.violations) < 8:
            rankdef_stream(ck, ctx, int(np.random.default_rng([int(ctx.seed), 0x0C15D]).integers(0, 2 ** 62)), intensive)
    except Exception as ex:
        P.notes.append(f"rank-deficient stream aborted: {ex!r}"[:200])
    if not ctx.thorough:
        cap_s += _t.time() - t_sw          # (thorough tier: the sweep's <= 90 s come out of the 540 s of the generated-case stream)

    def run_d14():
        # corpus D14 (q = 112, one minute on an idle machine, several on a busy one): thorough tier, and whenever an obligation is broken
        # (failing-input search); in a green quick run the all-q key-injectivity theorems stand for it
        try:
            check_d14(ck)
        except Exception as ex:
            P.notes.append(f"corpus D14 aborted: {ex!r}"[:200])
    if ctx.thorough:
        run_d14()
    try:
        edge_stream(ck, np.random.default_rng(int(ctx.rng.integers(0, 2 ** 62))))
    except Exception as ex:
        P.notes.append(f"edge stream aborted: {ex!r}"[:200])
    try:
        glue_checks(ck, np.random.default_rng(int(ctx.rng.integers(0, 2 ** 62))))
    except Exception as ex:
        P.notes.append(f"glue checks aborted: {ex!r}"[:200])
    # seed derived from VERIF_SEED without consuming ctx.rng (the generated-case stream below stays what it was)
    repr_seed = int(np.random.default_rng([int(ctx.seed), 0xC15C]).integers(0, 2 ** 62))
    if len(P.violations) < 8:
        repr_stream(ck, ctx, repr_seed, intensive)
    # cases on which the model and the implementation disagreed are searched first
    for h in list(hints)[:6]:
        cd = h.get("case") if isinstance(h, dict) else None
        if isinstance(cd, dict) and cd.get("sub_seed", -1) >= 0:
            try:
                hc = build_case(cd["sub_seed"], cd["q"], bool(cd.get("big", False)), cd["family"], cd["coupling"])
                hc["kw"] = dict(cd["kw"])
                ck.check_case(hc)
                P.hit("hinted_case")
            except Exception as ex:
                P.notes.append(f"hinted case failed to run: {ex!r}"[:200])
    qs = [1, 2, 3, 2, 1, 3, 2, 4]
    for i in range(n):
        if ctx.time_left() < 25 or ctx.budget_s - ctx.time_left() > cap_s:
            P.notes.append(f"time budget reached after {i} generated cases")
            break
        q = qs[i % len(qs)]
        fam = FAMILIES[i % len(FAMILIES)]
        cpl = COUPLINGS[(i // 2) % len(COUPLINGS)]
        c = build_case(int(ctx.rng.integers(0, 2 ** 62)), q, ctx.thorough, fam, cpl)
        ck.check_case(c)
        if i < 4:
            P.sample({"op": "oracle", **case_desc(c)})
        if len(P.violations) >= 8:
            break
    if intensive and not ctx.thorough and not P.violations:
        # quick tier with a broken obligation: the D14 witness runs LAST (at the start it used up the whole 240 s budget of the failing-input search
        # on a busy machine: option sweep, representation stream and generated cases did not run at all) and only if the generated streams found nothing
        if ctx.time_left() >= 60:
            run_d14()
        else:
            P.notes.append("corpus D14 (q = 112) not run: less than 60 s of the budget left after the generated streams")
    P.notes.append("worst observed/tolerance per sub-claim: " + ", ".join(f"{k}={v:.3g}" for k, v in sorted(ck.worst.items())))
    return P


def replay(ctx, data) -> C.Part:
    P = C.Part()
    ck = Checker(P, with_analytic_q4=True)
    seen = set()
    for v in data.get("violations", []):
        rp = v.get("replay", {})
        if "validation" in rp:
            validation_smoke(P)
            continue
        cd = rp.get("case")
        if not cd:
            continue
        key = (cd["sub_seed"], cd["q"], cd["family"], cd["coupling"])
        if key in seen:
            continue
        seen.add(key)
        if cd.get("stream") == "repr":
            c = build_repr_case(cd["sub_seed"], cd["q"], list(cd["reps_in"]), cd["rep_out"], bool(cd.get("big", False)), bool(cd.get("as_tuple", False)))
            if case_digest(c) != cd.get("digest"):
                P.notes.append(f"replay: regenerated records differ from the stored digest for representation case {cd['sub_seed']}")
            check_repr(ck, c, ["siso", "numeric", "analytic"])
            continue
        if cd.get("stream") == "sweep":
            c0 = build_sweep_case(cd["sub_seed"], cd["q"], bool(cd.get("big", False)))
            if case_digest(c0) != cd.get("digest"):
                P.notes.append(f"replay: regenerated records differ from the stored digest for option-sweep case {cd['sub_seed']}")
            kw = dict(cd["kw"])
            be = kw.pop("backend", None)
            if "band" in kw:
                kw["band"] = tuple(float(t) for t in kw["band"])
            c0["kw"] = kw
            sweep_group(ck, c0, list(cd.get("group_backends") or ([be] if be else sweep_backends())), full=True)
            continue
        if cd.get("stream") == "units":
            c0 = build_units_case(cd["sub_seed"], cd["q"], bool(cd.get("big", False)))
            kw = dict(cd["kw"])
            if "band" in kw:
                kw["band"] = tuple(float(t) for t in kw["band"])
            c0["kw"] = kw
            t = cd.get("units_t")
            cs = units_transform(c0, t) if t else c0
            if cs is None or case_digest(cs) != cd.get("digest"):
                P.notes.append(f"replay: regenerated records differ from the stored digest for units case {cd['sub_seed']}")
            units_group(ck, c0, [dict(t, exact=True, exact_analytic=True)] if t else [])
            continue
        if cd.get("stream") == "rankdef":
            c = build_rankdef_case(cd["sub_seed"], dict(cd["rd"]))
            kw = dict(cd["kw"])
            if "band" in kw:
                kw["band"] = tuple(float(t) for t in kw["band"])
            c["kw"] = kw
            if case_digest(c) != cd.get("digest"):
                P.notes.append(f"replay: regenerated records differ from the stored digest for rank-deficient case {cd['sub_seed']}")
            rankdef_check(ck, c, analytic=True)
            continue
        if cd["sub_seed"] == -14:
            check_d14(ck)
            continue
        if cd["sub_seed"] == -2:
            c = d2_witness()
        elif cd["sub_seed"] == -3:
            edge_stream(ck, np.random.default_rng(0))
            continue
        elif cd["sub_seed"] == -4:
            glue_checks(ck, np.random.default_rng(0))
            continue
        else:
            c = build_case(cd["sub_seed"], cd["q"], bool(cd.get("big", False)), cd["family"], cd["coupling"])
            c["kw"] = dict(cd["kw"])
        if case_digest(c) != cd.get("digest"):
            P.notes.append(f"replay: regenerated records differ from the stored digest for sub_seed {cd['sub_seed']}")
        ck.check_case(c)
    return P
