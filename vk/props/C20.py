"""C20 — derived result quantities and exports are consistent views of one estimate.

Sub-claims (DESIGN §4 C20):
  a  every derived attribute is the documented function of the base estimates at the same bin
     (asd^2 = psd, ps = psd*ENBW, cs = csd*ENBW, cf = |Hxy|, cf_db = 20 log10 cf, cf_deg = cf_rad*180/pi, cf_rad = arg Hxy,
     Gyx = conj Gxy, Hyx = conj Hxy, tf = Hxy, psd = G = Gxx, csd = Gxy, unwrapped phases), and the quantities that do not
     apply to the analysis type are None (exact None tables for auto and cross results); unknown name -> AttributeError.
  b  get_measurement: tabulated value at a grid frequency, linear in between (real and imaginary parts separately),
     clamped outside, scalar in -> scalar out, array in -> array of the same shape, non-finite query -> ValueError.
  c  to_dataframe: exactly the per-bin arrays, indexed by f, for every result kind (single-bin and equal-K plans included);
     a result survives copy / deepcopy / pickle in any order interleaved with reads, bit-identically.
  d  "views of ONE estimate": no read-only operation of a result — attribute read, get_measurement, get_rms (any band), to_dataframe,
     plot() (every `which`, with / without error band, every sigma / deg / dB / unwrap / ax), len, repr, dir, copy, deepcopy, pickle — changes what
     any name of dir(result) reports: after EVERY operation of a sequence every public name equals, bit for bit, the snapshot of a pristine twin
     built from the same input and never operated on, and the identities of (a) hold (seeded defect C10g: plot(which="bode", errors=True, sigma=k)
     scaled the cached Hxy_mag_error / Hxy_deg_error / Hxy_rad_error in place).
  e  what a query hands out is the caller's to modify: the frame of to_dataframe() and the array of get_measurement() (and the list of __dir__()) are
     built anew by every call of the unchanged library (np.shares_memory of every block / column / index of an exported frame and of every
     get_measurement output against every array the result holds, the query array and the outputs of other calls: none), so after the CALLER edits
     them in place - scales / drops / renames / swaps columns, overwrites rows, replaces or renames the index, appends / drops rows, cleans non-finite
     cells, writes through writable public buffers; overwrites the returned array and its own query array - the next export / query of the result, of a
     copy.copy, a deepcopy and a pickle clone is still exactly the per-bin arrays (predicate of (c)) / the interpolant of the pristine table (predicate
     of (b)), and every attribute of every one of them still equals the pristine twin (predicate of (d)).  The attribute arrays themselves ARE the
     cached objects by design and are never written to by the oracle (seeded defect C20h: to_dataframe() memoised the frame in the lazy cache and
     returned the same mutable object to every later call, also through copy.copy - shared cache dictionary - and deepcopy / pickle).
(c), (d), (e) are Python object protocol: they are decided by the oracle on the real objects only.
"""
from __future__ import annotations

import contextlib
import copy
import logging
import math
import pickle
import warnings
from typing import Any, Dict, List, Optional, Tuple

import numpy as np

from .. import common as C
from .. import translate as T
from . import _an

PROP = "C20"
GEN_REGIONS = ["Attrs", "ResultQueries", "EntryPoints", "GlobalState", "ResultPurity"]
THEOREMS = {
    "SpecKitV.Props.AttrsA": ["psd_alias", "asd_sq", "ps_def", "csd_alias", "cs_def", "tf_alias", "cf_def", "cf_db_def", "deg_rad",
                              "cf_rad_def", "Gyx_conj", "Hyx_conj", "none_table_cross", "none_table_auto"],
    "SpecKitV.Lemmas.Rms": ["interp_at_grid", "interp_clamp_left", "interp_clamp_right", "interp_between"],
    # the translated result-side glue (Gen/ResultQueries, regenerated each run) IS the hand model
    "SpecKitV.Props.ResultQueriesGen": [
        "gen_compute_assemble_eq_model", "gen_compute_field_of_row", "gen_compute_assemble_perm", "gen_compute_no_junk", "gen_compute_sanitised",
        "gen_getattr_eq_model", "gen_getattr_private", "gen_getattr_unknown", "gen_getattr_run_eq_model", "gen_lazy_cache_sound",
        "gen_lazy_run_empty", "gen_lazy_order_independent", "gen_getattr_formula_first", "gen_touched_are_formulas", "gen_lazy_run_dynamic",
        "gen_get_measurement_eq_model", "gen_get_measurement_at_grid_real", "gen_get_measurement_at_grid_cplx",
        "gen_get_measurement_between_real", "gen_get_measurement_between_cplx", "gen_get_measurement_clamp_real",
        "gen_get_measurement_clamp_cplx", "gen_get_measurement_array",
        "gen_to_dataframe_eq_model", "gen_to_dataframe_columns", "gen_result_dir_spec", "gen_dir_served", "gen_dir_public",
        "RQ.mem_sortedSetDiff", "RQ.nodup_sortedSetDiff"],
    # the translated constructor of SpectrumResult, the module-level entry points, _select_backend, _check_starts_bounds (Gen/EntryPoints,
    # regenerated each run) ARE the specification Model/EntryPoints
    "SpecKitV.Props.EntryPointsGen": [
        "EPG.gen_result_init_eq_model", "EPG.gen_result_entry", "EPG.gen_result_D_rows", "EPG.gen_result_D_uniform", "EPG.gen_result_nf",
        "EPG.emptyObjectFill_eq", "EPG.objectArrayOfList_uniform", "EPG.normEntry_D_rows", "EPG.normEntry_float_key", "EPG.normEntry_int_key",
        "EPG.normEntry_int_key_integral", "EPG.normEntry_XY", "EPG.normEntry_unknown_key",
        "EPG.gen_result_float_preserved", "EPG.gen_result_int_preserved", "EPG.gen_result_XY_preserved", "EPG.gen_result_unknown_passthrough",
        "EPG.gen_result_D_column", "EPG.objectArrayOfList_uniform_shape",
        "EPG.gen_entry_points_forward", "EPG.gen_entry_points_sigs", "EPG.gen_select_backend_eq_model", "EPG.gen_select_backend_table",
        "EPG.gen_check_starts_bounds_iff"],
    # no state outlives a call in the files this property is anchored in (no module/class-level containers, memoisers, mutable defaults) and the
    # decorators are exactly the audited ones (region GlobalState, re-scanned from the current source each run)
    "SpecKitV.Props.GlobalStateGen": ["GlobalStateGen.gen_globalState_analysis"],
    # the buffer effects of EVERY method of SpectrumResult (Gen/ResultPurity, regenerated each run; reasoned about, never executed): no method
    # writes in place an array a `_data` / `_cache` slot holds (or a caller argument), none but the constructor binds a foreign slot
    "SpecKitV.Props.ResultPurityGen": [
        "RPSim.rel_step", "RPSim.rel_foldl", "cRun_clean_of_clean", "gen_result_methods_write_no_cached_array", "gen_result_ctor_clean",
        "gen_result_methods_pure", "gen_result_ctor_pure", "session_pure", "gen_session_pure", "gen_result_methods_nontrivial",
        "c10g_plot_rejected", "c10g_plot_witness", "c09g_arm_rejected", "c20c_get_measurement_rejected", "c20d_arm_rejected",
        "write_before_store_ok", "write_after_store_rejected", "masked_copy_write_ok", "slice_view_write_rejected"],
}
CONTRACTS = ["np.interp(x, xp, fp) for strictly increasing xp is the clamped piecewise-linear interpolant Model.interp (tied by correspondence "
             "on real results: grid points, interior points, both clamps)",
             "control.mag2db(x) = 20*log10(x); np.angle(z) = atan2(im z, re z) and np.angle(z, deg=True) = that times 180/pi; np.abs = modulus",
             "np.unwrap / np.rad2deg (cf_rad_unwrapped, cf_deg_unwrapped couple the bins of one result) are not modelled: real-code oracle only",
             # contracts of the translated region ResultQueries (definitions in lean/SpecKitV/Np/ResultQueries.lean; each exercised by the
             # generated-vs-real differential runs of corr_result_queries)
             "Np.isfinite x := (x - x == 0) stands for np.isfinite; Np.nanToNum x a b c stands for np.nan_to_num(x, nan=a, posinf=b, neginf=c) "
             "(identity over the reals; copy=False = in place)",
             "Np.interp x xp fp := x.map (Model.interp xp fp) stands for np.interp(x, xp, fp) (elementwise over x, any shape)",
             "Np.Row8 = the 8-tuple rows of SpectrumAnalyzer._lpsd_core [i, XY, MXX, MYY, S1*S1, S2, M2, elapsed] by position (the kinds int / complex / "
             "float x6 are re-checked against the source of _lpsd_core each run); np.empty = arbitrary contents; a[i] = v with a Python index = "
             "Arr.set a (Np.pyIndex a.n i) v",
             "Np.startswith / Np.endswith / Np.lower stand for str.startswith / str.endswith / str.lower; Np.dictGet / dictHas / cacheStore = "
             "dict lookup / `in` / item assignment on a lookup dictionary (association list, newest binding first); Np.odictSet = item assignment "
             "on an insertion-ordered dict; Np.formulaReads = the cache entries left by the nested self.<attr> reads of a formula "
             "(the read sets Gen.touchedAuto / Gen.touchedCross are extracted from the AST by partial evaluation and compared with the real cache)",
             "Np.sortedSetDiff xs S stands for sorted(set(xs) - S) on str (code-point order); Np.sortedSet xs for sorted(set(xs))",
             "Np.Query / Np.asarrayQ / Np.isscalarQ / Np.item stand for the freq argument (Python or NumPy scalar vs anything else), "
             "np.asarray(freq, dtype=float), np.isscalar(freq), ndarray.item() of a size-1 array",
             "Np.frameSetIndex d k stands for pd.DataFrame(d).set_index(k): index = column k, remaining columns in dictionary order; callable / "
             "isinstance(., np.ndarray) / .shape of an attribute value are abstract descriptions (callable, isNdarray, shape) of the attribute table",
             # contracts of the translated region EntryPoints (definitions in lean/SpecKitV/Np/EntryPoints.lean; each exercised by the
             # generated-vs-real differential run corr_entry_points)
             "EP.Val / EP.Item / EP.Num = the value model of a results dictionary (1-D bool/int64/float64/complex128 ndarrays, Python lists and tuples "
             "of numbers or of start vectors, 1-D and 2-D object ndarrays, Python scalars, `opaque` = an object every numeric conversion rejects); "
             "EP.modelled = the inputs inside the model (outside it — 2-D numeric arrays, nested non-numeric lists under a key other than D, ints "
             "beyond int64, non-finite floats cast to int64, None / numeric strings as values — the differential run only counts the case)",
             "EP.dictCopy = dict(d) (new dictionary, same bindings: identity on association lists; the translator REJECTS `self._data = results_dict` "
             "without the copy); EP.dictGet / dictHas / dictGetD / dictSet / dictItems = d[k] / k in d / d.get(k, v) / d[k] = v (existing key keeps its "
             "position) / list(d.items()); EP.foldlOpt / EP.optMap / EP.enumerate = a for loop / list comprehension whose body may raise / enumerate",
             "EP.emptyObject n = np.empty(n, dtype=object) (1-D, n cells holding None); EP.objSet arr i d = `arr[i] = d` on a 1-D OBJECT array with an "
             "integer index: the object itself becomes the cell, no shape inspection (so the element-wise fill Np.emptyObjectFill is ALWAYS 1-D: "
             "theorem EPG.emptyObjectFill_eq)",
             "Np.objectArrayOfList items = np.array(items, dtype=object) / np.asarray(items, dtype=object): non-empty list whose elements are ALL "
             "sequences of ONE common length m -> 2-D len(items) x m object array of the individual numbers (also for a single element, also m = 0); "
             "otherwise the 1-D object array of the elements (only reachable through a changed source: the shipped constructor does not call it)",
             "EP.asarray = np.asarray(list of numbers): complex128 if any complex, else float64 if any float, else int64 if any int, else bool, "
             "empty -> float64; ragged / mixed nesting raises; EP.ascontiguousarray dt v = np.ascontiguousarray(v, dtype=dt): 1-D, same numbers, "
             "scalar -> length 1, int64 <- float TRUNCATES toward zero, float64/int64 <- complex128 ndarray keeps the real part (ComplexWarning) "
             "but a Python complex raises TypeError; EP.asarrayItemInt64 = np.asarray(d, dtype=np.int64) of one start vector (number -> 0-d array; "
             "None / complex / str raise); EP.iter / EP.len / EP.shape0 / EP.dtypeIsObject = iteration (rows of a 2-D object array) / len / "
             ".shape[0] / `.dtype == object` (AttributeError for lists, tuples, Python scalars)",
             "EP.CallArgs = positional values in order + keyword arguments (explicit ones, then the forwarded **kwargs); SpectrumAnalyzer and the "
             "analyzer's methods are PARAMETERS of the translated wrappers; EP.Sig = parameter names / keyword-only names with default None / **kwargs",
             "EP.amin / EP.amax = int(starts.min()) / int(starts.max()) (ValueError on an empty array); EP.size = starts.size; the module flags "
             "_CUDA_ENABLED / _NUMBA_ENABLED are parameters of Gen._select_backend; only the CLASS of a raised exception is modelled",
             # contracts of the region ResultPurity (aliasing rules of vk/regions/result_purity.py; semantics in lean/SpecKitV/Model/ResultPurity.lean;
             # reasoning only, no driver operations and no differential run)
             "NumPy aliasing rules assumed by Model.RPurity: arithmetic / comparison operators, the ufuncs and functions of FRESH_FUNCS (np.sqrt, np.abs, "
             "np.conj, np.divide, np.angle, np.unwrap, np.rad2deg, np.arcsin, np.maximum, np.isfinite, np.interp, np.zeros_like, np.ones_like, ...) "
             "WITHOUT out= and the methods of FRESH_METHODS (.copy, .astype, ...) return a newly allocated array and write none of their arguments; "
             "with out=o they write o and return it; v[index array / boolean mask] copies; v[slice / int], v.T, v.real, v.imag, np.real, np.imag are "
             "views; np.asarray / asanyarray / ascontiguousarray / ravel / reshape / squeeze return their argument's buffer OR a fresh one; "
             "np.nan_to_num(v, copy=False) works in place, copy=True (the default) allocates; v op= e, v[...] = e, v.sort / fill / resize / put / "
             "itemset / partition / setflags / byteswap, np.copyto / put / place / putmask write v's buffer",
             "read-only external consumers (they never write an ndarray handed to them): control.mag2db / db2mag (return a new array), "
             "scipy.integrate.cumulative_trapezoid (new array), every function of matplotlib.pyplot and every method of a Matplotlib Figure / Axes "
             "(loglog, semilogx, fill_between, set_ylabel, legend, tight_layout, get_figure, ...), pandas.DataFrame(dict) and DataFrame.set_index",
             "Python object protocol assumed by Model.RPurity: `self.X` for a public X not set by the constructor returns the object held by (or just "
             "stored into) the cache slot X; dict / list / set / tuple displays and list() / sorted() / set() / dict() / enumerate() build NEW "
             "containers whose elements are the given objects (item assignment on such a container binds an element, it writes no array); a loop is "
             "represented by the passes needed until the set of loop-carried names is stable (later iterations are renamings of the last pass)"]
ASSUMPTIONS = ["translated each run and proved equal to the specification (Props/EntryPointsGen): SpectrumResult.__init__ (hypothesis: the keys of the "
               "results dictionary are distinct — true of every dict; `none` = raises for inputs inside EP.modelled), __len__, lpsd / compute_spectrum / "
               "compute_single_bin as call forwarding over abstract callables, core._select_backend, core._check_starts_bounds",
               "translated each run and proved equal to the hand model (Props/ResultQueriesGen): compute()'s assembly of the _lpsd_core rows "
               "(hypotheses: distinct non-negative bin indices, i.e. the contract of _lpsd_core(np.arange(nf))), the cache protocol of "
               "SpectrumResult.__getattr__ (hypothesis: the name is public and is a formula name or a key of the result dictionary; otherwise "
               "AttributeError, also proved), get_measurement (all real inputs), to_dataframe's column selection and __dir__'s name list "
               "(over an abstract attribute table); get_rms, copy / deepcopy / pickle, len, repr remain real-code oracle only",
               "theorems are over the reals for the Lean translation of SpectrumResult.__getattr__ (one bin at a time); floating-point rounding is "
               "covered by the stated tolerances (forward bounds scaled by the data), not by theorem",
               "asd_sq assumes XX >= 0, S2 >= 0, fs > 0 (true of every computed result)",
               "interp_* theorems assume a strictly increasing frequency grid (C03); get_measurement's scalar/array shape handling and its "
               "ValueError on non-finite queries are checked on the real code only",
               "to_dataframe, copy.copy, copy.deepcopy, pickle, len, repr, dir, get_rms, plot are Python object protocol (plot: matplotlib on the Agg "
               "backend): no Lean model; that none of them changes what the result reports is decided by the oracle on real SpectrumResult objects "
               "only (all result kinds x random operation sequences, every name of dir(result) compared with a pristine twin after every operation); "
               "whether plot / get_rms raise for a given result is not demanded, nor what they draw / return",
               "'unknown attribute -> AttributeError' is demanded for plain unknown names only (names ending in _dev/_error currently fall "
               "through to None; the property text does not list them, so they are not demanded)"]
RULE = ("result = (kind in full/banded/equal-K via Lmin=N/equal-K via band/single-bin/edge(zero, constant, tiny record)/constructed-from-bins/"
        "dead (full, banded, single-bin or constructed result whose first, second or both channels are all-zero or constant, so that the documented "
        "formulas give cf = 0, cf_db = -inf, *_error = inf, *_dev = NaN), "
        "auto or cross, 2xN or Nx2 layout, scheduler, detrend order, window, record kind); per result: every identity of (a) on every bin "
        "(non-finite values of the formulas included), "
        "the None table over every dynamic name + G, get_measurement queries (each grid point, interior, below, above, scalar, 1-D, 2-D, empty, "
        "non-finite; at grid points and in the clamps the tabulated value is demanded also where it is -inf/inf/NaN; the queried names always include "
        "one whose table has non-finite entries when the result has any), to_dataframe columns/values, and a random sequence over {read, copy, "
        "deepcopy, pickle, to_dataframe, get_measurement (checked values), get_measurement of ANY name incl. aliases / data fields / non-finite "
        "tables, get_rms, len, repr, dir} compared bit-for-bit (NaN positions included) with an independently built twin that was never queried: "
        "after each query the queried name and its aliases, at the end every attribute of the final object, of the original, and of the "
        "fully queried twin against its own pre-query snapshot; AFTER EVERY OPERATION of a sequence every public non-callable name of dir(result) "
        "(dynamic names, G, data fields, iscsd, fs, nf) against the pristine twin's snapshot + the identities of (a) [read on the object itself in a random "
        "order, or - so that the lazy-cache state stays as the operations made it - only the names it already holds on the object and everything on a "
        "deep copy]; the operations include get_rms(None / inside / reversed / wider than the grid / degenerate / grid-aligned / list / array / NaN band) and "
        "plot(): `which` values and options read from the source of SpectrumResult.plot; calls that draw nothing (other result kind, unknown name) in any "
        "sequence, figure-making calls from a budget (~40 per quick run, figures closed at once): a plot stream over auto / cross x multi-bin / single-bin / "
        "uniform-K / dead-channel-or-other results, each with one call per applicable `which` WITH an error band of sigma in {0.5, 2, 3} (bode: all eight "
        "(deg, unwrap, dB) settings over the stream) + calls from the whole option space (errors, sigma in {0.5, 1, 2, 3}, dB, deg, unwrap, own Axes, ylabel, "
        "color), mixed into random sequences of the other operations; the CALLER-EDIT operations dfmut (export, in-place edit(s) of the returned frame out of "
        "FRAME_EDITS = scale / drop / del / pop / rename / swap or permute names / overwrite rows / loc, iloc column / replace or rename index / reset_index / "
        "reverse / add column, row / drop row / truncate / fillna / all-zero / writable public buffers, export again from the result [second frame edited too], "
        "copy.copy, deepcopy, pickle clone; first frame asked of the result or of a shallow copy), qmut (array get_measurement, returned array and query array "
        "overwritten, same query again on the result and its three clones) and dirmut (list of __dir__() emptied) in every random sequence's alphabet, plus a "
        "caller-edit stream per run over auto / cross x multi-bin / single-bin / uniform-K / dead channel / other kinds that goes through all of FRAME_EDITS; "
        "distinct by (kind, mode, check, attribute / query class / op tuple / plot options); "
        "non-trivial = the quantity compared is non-zero on at least one bin (identities), nf >= 2 (interpolation), a sequence with >= 1 "
        "copy/pickle step, a query on a table with a non-finite entry, a plot() call that returned a figure, a frame edit that changed the frame")

U = 2.0 ** -53
LIBERR = (Exception, SystemExit)     # some schedulers call sys.exit() on an empty plan: an error outcome like any other here
MAX_VIOL = 12
SEQ = set(T.ATTR_SEQUENCE_LEVEL)

# the dynamic attribute list of the class (used only if the source of __dir__ can no longer be parsed)
FALLBACK_DYN = ["Gxx", "Gyy", "Gxy", "ENBW", "psd", "asd", "ps", "csd", "Gyx", "Hxy", "Hyx", "coh", "ccoh", "cs", "tf", "cf", "cf_db",
                "cf_rad", "cf_deg", "cf_rad_unwrapped", "cf_deg_unwrapped", "GyyCx", "GyyRx", "GyySx", "Gxx_dev", "Gyy_dev", "Gxy_dev",
                "Hxy_dev", "coh_dev", "Gxx_error", "Gyy_error", "Gxy_error", "Hxy_mag_error", "Hxy_rad_error", "Hxy_deg_error", "coh_error",
                "XX_mean", "YY_mean", "XY_M2", "XY_emp_var", "XY_emp_dev", "Gxx_emp_dev", "Gxy_emp_dev"]
# None tables from the property text: auto-only quantities are None for cross results; cross / conditioned / cross-error ones for auto
CROSS_NONE = {"psd", "G", "asd", "ps", "Gxx_emp_dev"}
AUTO_NONE = {"csd", "Gyx", "Hxy", "Hyx", "coh", "ccoh", "cs", "tf", "cf", "cf_db", "cf_rad", "cf_deg", "cf_rad_unwrapped", "cf_deg_unwrapped",
             "GyyCx", "GyyRx", "GyySx", "Gxy_dev", "Hxy_dev", "coh_dev", "Gxy_error", "Hxy_mag_error", "Hxy_rad_error", "Hxy_deg_error",
             "coh_error", "Gxy_emp_dev"}
KNOWN = set(FALLBACK_DYN) | {"G"}
DATA_FIELDS = ["f", "r", "b", "m", "L", "K", "navg", "D", "O", "XX", "YY", "XY", "S12", "S2", "M2", "compute_t", "i", "nf"]
UNKNOWN_NAMES = ["nonexistent", "psd2", "Gzz", "coherence", "PSD", "cf_", "asd ", "tf2"]
KINDS = ["full", "full", "band", "equalK-Lmin", "equalK-band", "single", "single", "edge", "fake", "dead", "dead"]
# `query` = get_measurement(random query form, ANY attribute name: derived, alias, pass-through data field, None-valued, non-finite table);
# `rms` = get_rms(None / random band); both are followed by a bit-for-bit comparison with the never-queried twin.
# Forced sequences may pin the argument: "query:<name>", "read:<name>", "pickle:<protocol>".
# `plotx` = plot() with a `which` that draws nothing for this result kind (or an unknown one): it still evaluates the method's dispatch table;
# figure-making plot() calls ("plot:<which=..,errors=..,sigma=..,...>") are inserted per case from a budget (run_case(..., plots=k)).
# `dfmut` / `qmut` / `dirmut` = the caller EDITS what to_dataframe() / get_measurement() / __dir__() handed out, then asks again - of the result and of
# a shallow copy, a deep copy and a pickle clone (op_dfmut, op_qmut, op_dirmut); forced form "dfmut:<edit>+<edit>[@copy]", "qmut:<name>:<edit>:<edit>"
OPS = ["read", "read", "read", "copy", "deepcopy", "pickle", "df", "meas", "len", "repr", "dir", "query", "query", "query", "rms", "rms", "plotx",
       "dfmut", "qmut", "dirmut"]
# aliases that may share one array in the lazy cache: a write through one name shows up under the others
ALIASES = [("Gxx", "psd", "G", "Gyy", "Gxy"), ("Gxy", "csd"), ("Hxy", "tf"), ("Gxx_dev", "Gyy_dev"), ("Gxx_error", "Gyy_error"),
           ("XX", "XX_mean", "YY_mean"), ("YY", "YY_mean"), ("M2", "XY_M2")]
# plot(): `which` values and keyword options as shipped (used when the source of SpectrumResult.plot can no longer be inspected; otherwise the
# dispatch table / the comparisons with `which` / the signature are read from the source, so a new branch or option is exercised as well)
PLOT_WHICH = ["psd", "asd", "coh", "csd", "cf", "bode"]
PLOT_OPTS = {"ax": None, "ylabel": None, "dB": False, "deg": True, "unwrap": True, "errors": False, "sigma": 1}
PLOT_KIND = {"psd": "auto", "asd": "auto", "coh": "cross", "csd": "cross", "cf": "cross", "bode": "cross"}   # which draws a figure for which result kind
SIGMAS = [0.5, 1, 2, 3]
# the dedicated plot stream of the oracle: (kind, cross) -> every result class the property quantifies over gets figure-making plot() calls
PLOT_STREAM = [("full", False), ("full", True), ("single", False), ("single", True), ("equalK-Lmin", False), ("equalK-Lmin", True), (None, False), (None, True)]
EDIT_STREAM = [("full", False), ("full", True), ("single", False), ("single", True), ("equalK-Lmin", False), ("equalK-Lmin", True), ("dead", True), (None, False),
               (None, True)]
PLOTS_CROSS, PLOTS_AUTO = 6, 2          # figure-making calls per result of the stream (cross: bode deg / bode rad / coh / csd / cf + 1 random)
RMS_FORMS = ["none", "inside", "inside", "reversed", "wide", "degenerate", "grid", "list", "array", "nan"]


# ---------------------------------------------------------------- small helpers
@contextlib.contextmanager
def quiet():
    with warnings.catch_warnings(), np.errstate(all="ignore"):
        warnings.simplefilter("ignore")
        yield


def _quiet_logs() -> None:
    for name in ("speckit", "speckit.analysis", "speckit.schedulers", "speckit.core", "speckit.dsp"):
        logging.getLogger(name).setLevel(logging.CRITICAL + 10)
    logging.getLogger().setLevel(logging.CRITICAL + 10)


def dyn_names() -> List[str]:
    try:
        return list(T.attr_names(C.REPO))
    except Exception:  # noqa  (the oracle must keep working when the source can no longer be parsed)
        return list(FALLBACK_DYN)


def read(res, name: str):
    with quiet():
        return getattr(res, name)


def _cx(v: Any) -> complex:
    if isinstance(v, dict):
        return complex(float(v["re"]), float(v["im"]))
    return complex(v)


def copy_val(v: Any) -> Any:
    if isinstance(v, np.ndarray):
        if v.dtype == object:
            out = np.empty(v.shape, dtype=object)
            for idx in np.ndindex(v.shape):
                e = v[idx]
                out[idx] = np.array(e, copy=True) if isinstance(e, np.ndarray) else copy.deepcopy(e)
            return out
        return np.array(v, copy=True)
    return copy.deepcopy(v)


def bits_equal(a: Any, b: Any) -> bool:
    """same None-ness / type of container, same dtype and shape, same bit patterns (object arrays: element by element)"""
    if a is None or b is None:
        return a is None and b is None
    if isinstance(a, np.ndarray) != isinstance(b, np.ndarray):
        return False
    if not isinstance(a, np.ndarray):
        try:
            return bool(a == b) or (a != a and b != b)
        except Exception:  # noqa
            return False
    if a.shape != b.shape:
        return False
    if a.dtype == object or b.dtype == object:
        if a.dtype != b.dtype:
            return False
        return all(bits_equal(x if isinstance(x, np.ndarray) else np.asarray(x), y if isinstance(y, np.ndarray) else np.asarray(y))
                   for x, y in zip(a.ravel(), b.ravel()))
    if a.dtype != b.dtype:
        return False
    return np.ascontiguousarray(a).tobytes() == np.ascontiguousarray(b).tobytes()


def same_values(a: np.ndarray, b: np.ndarray) -> bool:
    """numerically equal entry by entry (NaN matches NaN, -0.0 matches 0.0); dtype changes that keep the values are accepted"""
    a = np.asarray(a)
    b = np.asarray(b)
    if a.shape != b.shape:
        return False
    if a.dtype == object or b.dtype == object:
        return a.dtype == b.dtype and all(same_values(x, y) for x, y in zip(a.ravel(), b.ravel()))
    try:
        return bool(np.array_equal(a, b, equal_nan=True))
    except TypeError:
        return bool(np.array_equal(a, b))


def desc(v: Any) -> str:
    if v is None:
        return "None"
    if isinstance(v, np.ndarray):
        return f"ndarray{v.shape}:{v.dtype}"
    return type(v).__name__ + ":" + repr(v)[:40]


def snap_same(a: Any, b: Any) -> bool:
    """snapshot entries: markers ('<AttributeError>', '<raised ...>') only match themselves; values must be bit-identical"""
    if isinstance(a, str) or isinstance(b, str):
        return isinstance(a, str) and isinstance(b, str) and a == b
    return bits_equal(a, b)


def maxdiff(a: Any, b: Any) -> str:
    try:
        if isinstance(a, np.ndarray) and isinstance(b, np.ndarray) and a.shape == b.shape and a.dtype != object and a.size:
            return f" (max |diff| = {float(np.max(np.abs(a.astype(complex) - b.astype(complex)))):.3g})"
    except Exception:  # noqa
        pass
    return ""


def add_violation(P: C.Part, what: str, signature: Dict[str, Any], case: Dict[str, Any], extra: Optional[Dict[str, Any]] = None) -> None:
    if len(P.violations) >= MAX_VIOL or any(v.signature == signature for v in P.violations):
        return
    rep = {"recipe": case["recipe"], "case_seed": case["case_seed"], "forced_ops": case.get("forced_ops"), "plots": int(case.get("plots") or 0),
           "plot_phase": case.get("plot_phase")}
    if extra:
        rep["detail"] = extra
    P.violations.append(C.Violation(what=what, signature=signature, replay=rep))


# ---------------------------------------------------------------- building real results
def build(recipe: Dict[str, Any]):
    """a real SpectrumResult from a JSON-able recipe (public entry points; `fake` = the real class fed with chosen per-bin estimates)"""
    import speckit
    fn = recipe["fn"]
    with quiet():
        if fn == "fake":
            bins = [dict(b, XY=_cx(b["XY"])) for b in recipe["bins"]]
            return _an.fake_result(bins, bool(recipe["iscsd"]), float(recipe["fs"]))
        data = np.asarray(recipe["data"], dtype=float)
        kw = dict(recipe.get("kw", {}))
        if kw.get("band") is not None:
            kw["band"] = (float(kw["band"][0]), float(kw["band"][1]))
        if fn == "compute_spectrum":
            return speckit.compute_spectrum(data, float(recipe["fs"]), **kw)
        if fn == "compute_single_bin":
            return speckit.compute_single_bin(data, float(recipe["fs"]), float(recipe["freq"]), **recipe["sb"], **kw)
    raise ValueError(fn)


def gen_data(rng: np.random.Generator, N: int, cross: bool, rk: str, dead: Optional[Dict[str, str]] = None) -> np.ndarray:
    x1 = _an.record(rng, N, rk)
    if not cross:
        return _an.record(rng, N, dead["how"]) if dead else x1
    if rk in ("zero", "const"):
        x2 = _an.record(rng, N, str(rng.choice([rk, "noise"])))
    else:
        x2 = float(rng.uniform(0.2, 3.0)) * np.roll(x1, int(rng.integers(0, 6))) + float(rng.uniform(0.05, 1.0)) * _an.record(rng, N, "noise")
    if dead:                                              # a dead (all-zero) or stuck (constant) channel: first, second or both
        if dead["which"] in ("first", "both"):
            x1 = _an.record(rng, N, dead["how"])
        if dead["which"] in ("second", "both"):
            x2 = _an.record(rng, N, dead["how"])
    d = np.stack([x1, x2])
    return d.T.copy() if rng.random() < 0.4 else d


def gen_recipe(rng: np.random.Generator, kind: str, cross: Optional[bool] = None, dead: Optional[Dict[str, str]] = None) -> Dict[str, Any]:
    if kind == "dead":
        # results that legitimately carry zeros / non-finite IEEE values of the documented formulas (cf = 0, cf_db = -inf, errors inf, devs NaN)
        sub = str(rng.choice(["full", "full", "band", "single", "single", "fake", "equalK-Lmin"]))
        spec = {"which": str(rng.choice(["first", "second", "second", "both"])), "how": str(rng.choice(["zero", "zero", "const"]))}
        rec = gen_recipe(rng, sub, bool(rng.random() < 0.85) if cross is None else cross, dead=spec)
        rec["kind"] = "dead-" + sub
        rec["dead"] = spec
        return rec
    cross = bool(rng.integers(0, 2)) if cross is None else bool(cross)
    fs = float(rng.choice([1.0, 2.0, 1000.0, float(rng.uniform(0.1, 1e4))]))
    if kind == "fake":
        n = int(rng.choice([1, 2, 3, 7, 12]))
        bins = [_an.gen_bin(rng, cross, edge=bool(dead is not None and rng.random() < 0.8) or bool(rng.random() < 0.35)) for _ in range(n)]
        return {"fn": "fake", "kind": kind, "iscsd": cross, "fs": fs, "bins": bins}
    N = int(rng.choice([int(rng.integers(16, 64)), int(rng.integers(64, 400)), int(rng.integers(400, 1500))]))
    rk = str(rng.choice(["noise", "offset", "drift", "red", "tone"]))
    if kind == "edge":
        rk = str(rng.choice(["zero", "const", "noise"]))
        N = int(rng.choice([4, 5, 8, 16, int(rng.integers(17, 200))]))
    if kind == "equalK-Lmin":
        N = min(N, int(rng.integers(16, 260)))
    data = gen_data(rng, N, cross, rk, dead)
    o = _an.options(rng, N)
    rec: Dict[str, Any] = {"fn": "compute_spectrum", "kind": kind, "iscsd": cross, "fs": fs, "data": data, "kw": o, "record": rk, "N": N}
    if kind == "equalK-Lmin":
        o["Lmin"] = N                                     # design-phase witness D5: every bin uses the whole record once
        if o["scheduler"] == "lpsd":
            o["scheduler"] = "ltf"                        # lpsd ignores Lmin
    elif kind in ("band", "equalK-band"):
        with quiet():
            p = _an.analyzer(data, fs, **o).plan()
        f = np.asarray(p["f"], dtype=float)
        K = np.asarray(p["K"])
        if kind == "band":
            i0 = int(rng.integers(0, len(f)))
            i1 = int(rng.integers(i0, len(f)))
        else:
            runs, s = [], 0
            for j in range(1, len(K) + 1):
                if j == len(K) or K[j] != K[s]:
                    runs.append((s, j - 1))
                    s = j
            good = [r for r in runs if r[1] > r[0]] or runs
            best = [r for r in good if K[r[0]] >= 2] or good
            i0, i1 = best[int(rng.integers(0, len(best)))]
        o["band"] = (float(f[i0]), float(f[i1]))
    elif kind == "single":
        rec["fn"] = "compute_single_bin"
        L = int(rng.choice([N, 1, 2, int(rng.integers(1, N + 1)), int(rng.integers(max(1, N // 8), N + 1))]))
        rec["freq"] = float(rng.choice([0.0, fs / 2, float(rng.uniform(0, fs / 2)), fs / L * int(rng.integers(0, L // 2 + 1))]))
        rec["sb"] = {"L": L} if rng.random() < 0.6 else {"fres": fs / L}
        for k in ("Jdes", "Kdes", "bmin", "Lmin", "scheduler"):
            o.pop(k, None)
    return rec


def recipe_summary(rec: Dict[str, Any]) -> Dict[str, Any]:
    s = {k: rec[k] for k in ("fn", "kind", "iscsd", "fs", "record", "N", "freq", "sb", "dead") if k in rec}
    if "kw" in rec:
        s["kw"] = rec["kw"]
    if "bins" in rec:
        s["n_bins"] = len(rec["bins"])
    return s


# ---------------------------------------------------------------- (a) identities and None tables
def _cmp(obs: np.ndarray, exp: np.ndarray, rel: float, floor: Any = 1e-300) -> Tuple[List[int], np.ndarray]:
    """indices where |obs - exp| > rel*|exp| + floor (non-finite expected entries must be reproduced as such)"""
    obs = np.asarray(obs)
    exp = np.asarray(exp)
    tol = rel * np.abs(exp) + floor
    fin = np.isfinite(exp)
    bad = np.zeros(exp.shape, dtype=bool)
    with np.errstate(all="ignore"):
        bad[fin] = ~(np.abs(obs[fin] - exp[fin]) <= np.where(np.isfinite(tol[fin]), tol[fin], np.inf))
        nf_ = ~fin
        if nf_.any():
            bad[nf_] = ~((obs[nf_] == exp[nf_]) | (np.isnan(obs[nf_]) & np.isnan(exp[nf_])))
    return [int(i) for i in np.nonzero(bad)[0]], tol


def check_identities(P: C.Part, res, case: Dict[str, Any], tag: str) -> None:
    rec = case["recipe"]
    kind, mode = rec["kind"], ("cross" if res.iscsd else "auto")
    nf = int(res.nf)

    def one(name: str, formula: str, obs, exp, rel: float, floor: Any = 1e-300, nz=None):
        P.cases += 1
        P.hit(f"ident.{name}")
        if obs is None or not isinstance(obs, np.ndarray) or obs.shape != (nf,):
            add_violation(P, f"{tag}: {name} is {desc(obs)}, expected an array of {nf} bins equal to {formula}",
                          {"check": "identity", "name": name, "mode": mode, "problem": "shape"}, case)
            return
        bad, tol = _cmp(obs, exp, rel, floor)
        if np.any(np.asarray(exp if nz is None else nz) != 0):
            P.nontrivial.add((kind, mode, "ident", name))
        if bad:
            j = bad[0]
            add_violation(P, f"{tag}: {name}[{j}] = {obs[j]!r} but {formula} = {np.asarray(exp)[j]!r} (tol {float(np.asarray(tol)[j]):.3g}; "
                             f"{len(bad)} of {nf} bins off), f = {float(res.f[j])!r}",
                          {"check": "identity", "name": name, "mode": mode}, case, {"bin": j, "observed": obs[j], "expected": np.asarray(exp)[j]})

    with quiet():
        Gxx, ENBW = read(res, "Gxx"), read(res, "ENBW")
        if not res.iscsd:
            psd, G, asd, ps = read(res, "psd"), read(res, "G"), read(res, "asd"), read(res, "ps")
            if psd is None or asd is None or ps is None or G is None:
                return                                     # reported by the None-table check
            one("psd", "Gxx", psd, Gxx, 1e-14)
            one("G", "Gxx", G, Gxx, 1e-14)
            one("asd", "psd (shown: asd squared)", np.asarray(asd) ** 2 if isinstance(asd, np.ndarray) else asd, psd, 1e-14)
            # asd itself must be the non-negative root
            P.cases += 1
            if isinstance(asd, np.ndarray) and np.any(asd < 0):
                j = int(np.nonzero(asd < 0)[0][0])
                add_violation(P, f"{tag}: asd[{j}] = {asd[j]!r} is negative", {"check": "identity", "name": "asd", "mode": mode, "problem": "sign"}, case)
            one("ps", "psd*ENBW", ps, psd * ENBW, 1e-14)
        else:
            names = ["Gxy", "csd", "cs", "Gyx", "Hxy", "Hyx", "tf", "cf", "cf_db", "cf_rad", "cf_deg", "cf_rad_unwrapped", "cf_deg_unwrapped"]
            v = {n: read(res, n) for n in names}
            if any(v[n] is None for n in names):
                return
            Gxy, Hxy, cf, cf_rad = v["Gxy"], v["Hxy"], v["cf"], v["cf_rad"]
            one("csd", "Gxy", v["csd"], Gxy, 1e-14)
            one("cs", "csd*ENBW", v["cs"], v["csd"] * ENBW, 1e-14)
            one("Gyx", "conj(Gxy)", v["Gyx"], np.conj(Gxy), 1e-14)
            one("Hyx", "conj(Hxy)", v["Hyx"], np.conj(Hxy), 1e-14)
            one("tf", "Hxy", v["tf"], Hxy, 1e-14)
            one("cf", "|Hxy|", cf, np.abs(Hxy), 1e-14)
            if isinstance(cf, np.ndarray) and cf.shape == (nf,):
                with np.errstate(all="ignore"):
                    exp_db = 20.0 * np.log10(cf)               # -inf exactly where cf == 0 (required by the property)
                # absolute 1e-13 dB covers any equivalent formulation (10*log10(cf^2), ln/ln10); a wrong factor is off by >= 3 dB
                one("cf_db", "20*log10(cf)", v["cf_db"], exp_db, 1e-13, 1e-13, nz=cf)
                if np.any(cf == 0):
                    P.hit("ident.cf_db.at_cf=0")
            one("cf_rad", "angle(Hxy)", cf_rad, np.angle(Hxy), 1e-14, 1e-14)
            if isinstance(cf_rad, np.ndarray):
                one("cf_deg", "cf_rad*180/pi", v["cf_deg"], cf_rad * (180.0 / math.pi), 1e-14)
                # unwrap decides on |delta| > pi: a jump within 1e-9 of pi is a rounding-boundary decision
                d = np.abs(np.diff(cf_rad))
                if d.size and np.any(np.abs(d - math.pi) < 1e-9):
                    P.unstable += 1
                else:
                    unw = np.unwrap(cf_rad)
                    scale = 1.0 + (float(np.max(np.abs(unw))) if unw.size else 0.0)
                    one("cf_rad_unwrapped", "unwrap(cf_rad)", v["cf_rad_unwrapped"], unw, 0.0, 64 * U * max(nf, 1) * scale, nz=cf_rad)
                if isinstance(v["cf_rad_unwrapped"], np.ndarray):
                    one("cf_deg_unwrapped", "rad2deg(cf_rad_unwrapped)", v["cf_deg_unwrapped"], np.rad2deg(v["cf_rad_unwrapped"]), 1e-14)


def check_none_table(P: C.Part, res, case: Dict[str, Any], tag: str, names: List[str]) -> None:
    rec = case["recipe"]
    kind, mode = rec["kind"], ("cross" if res.iscsd else "auto")
    nf = int(res.nf)
    expect_none = CROSS_NONE if res.iscsd else AUTO_NONE
    for name in names:
        P.cases += 1
        try:
            v = read(res, name)
        except Exception as ex:  # noqa
            add_violation(P, f"{tag}: reading attribute {name!r} raised {ex!r}", {"check": "none-table", "name": name, "mode": mode, "problem": "raises"}, case)
            continue
        if name not in KNOWN:
            P.hit("none-table.unclassified-name")
            continue
        P.nontrivial.add((kind, mode, "none", name))
        if name in expect_none:
            if v is not None:
                add_violation(P, f"{tag}: {name} must be None for {mode} results but is {desc(v)}",
                              {"check": "none-table", "name": name, "mode": mode, "problem": "not-none"}, case)
        else:
            if not (isinstance(v, np.ndarray) and v.shape == (nf,)):
                add_violation(P, f"{tag}: {name} must be an array of {nf} bins for {mode} results but is {desc(v)}",
                              {"check": "none-table", "name": name, "mode": mode, "problem": "not-array"}, case)
    for name in UNKNOWN_NAMES:
        P.cases += 1
        try:
            v = read(res, name)
            add_violation(P, f"{tag}: unknown attribute {name!r} returned {desc(v)} instead of raising AttributeError",
                          {"check": "unknown-attr", "mode": mode}, case, {"name": name})
        except AttributeError:
            pass
        except Exception as ex:  # noqa
            add_violation(P, f"{tag}: unknown attribute {name!r} raised {ex!r} instead of AttributeError", {"check": "unknown-attr", "mode": mode}, case, {"name": name})


# ---------------------------------------------------------------- (b) get_measurement
def ref_interp(f: np.ndarray, y: np.ndarray, x: float) -> Tuple[Optional[float], float, str]:
    """(expected, tolerance, class) of the clamped piecewise-linear interpolant of the REAL table y at x; None = not decidable (non-finite knots)"""
    n = len(f)
    if x <= f[0]:
        return float(y[0]), 0.0, ("grid" if x == f[0] else "below")
    if x >= f[-1]:
        return float(y[-1]), 0.0, ("grid" if x == f[-1] else "above")
    j = int(np.searchsorted(f, x, side="right")) - 1
    j = min(max(j, 0), n - 2)
    if x == f[j]:
        return float(y[j]), 0.0, "grid"
    ya, yb = float(y[j]), float(y[j + 1])
    if not (math.isfinite(ya) and math.isfinite(yb)):
        return None, 0.0, "between"
    ld = np.longdouble
    e = ld(ya) + (ld(yb) - ld(ya)) * (ld(x) - ld(f[j])) / (ld(f[j + 1]) - ld(f[j]))
    return float(e), 64 * U * max(abs(ya), abs(yb)) + 1e-300, "between"


def queries(rng: np.random.Generator, f: np.ndarray) -> List[float]:
    nf = len(f)
    xs: List[float] = [float(v) for v in f[: min(nf, 40)]]
    if nf > 40:
        xs += [float(f[int(i)]) for i in rng.integers(0, nf, size=10)] + [float(f[-1])]
    for _ in range(min(12, 3 * max(nf - 1, 0))):
        i = int(rng.integers(0, nf - 1))
        t = float(rng.choice([0.5, float(rng.uniform(0, 1)), 1e-9, 1 - 1e-9]))
        x = float(f[i] + t * (f[i + 1] - f[i]))
        xs.append(x)
    lo, hi = float(f[0]), float(f[-1])
    xs += [lo * 0.5, lo - 1.0, -abs(lo) - 3.0, 0.0, float(np.nextafter(lo, -np.inf)), hi * 2 + 1.0, hi + 1e-9 * (abs(hi) + 1), 1e300, float(np.nextafter(hi, np.inf))]
    return xs


def _same_float(a: float, b: float) -> bool:
    return (math.isnan(a) and math.isnan(b)) or a == b


def _try_read(res, name: str) -> Any:
    try:
        return read(res, name)
    except Exception:  # noqa
        return None


def check_value(P: C.Part, case, tag: str, which: str, f, yr, yi, x: float, out: Any, mode: str, how: str, kind: str) -> None:
    """out (scalar) vs the separately interpolated real and imaginary tables"""
    P.cases += 1
    er, tr, cls = ref_interp(f, yr, x)
    ei, ti = (0.0, 0.0) if yi is None else ref_interp(f, yi, x)[:2]
    P.hit(f"meas.{cls}")
    if er is None or ei is None:
        P.hit("meas.skipped-nonfinite-table")             # between two knots of which one is non-finite: "linear" decides nothing
        return
    if not (math.isfinite(er) and math.isfinite(ei)):
        # grid point / clamp: the tabulated value itself, also where the documented formula gives -inf / inf / NaN.
        # (a complex table with a non-finite IMAGINARY part is left out: re + 1j*im is not component-wise there; no computed result has one)
        if not math.isfinite(ei):
            P.hit("meas.skipped-nonfinite-table")
            return
        P.hit("meas.nonfinite-table-value")
        try:
            z = complex(out)
        except Exception:  # noqa
            add_violation(P, f"{tag}: get_measurement({x!r}, {which!r}) returned {desc(out)}", {"check": "measurement", "class": cls, "problem": "type", "mode": mode}, case)
            return
        P.nontrivial.add((kind, mode, "meas-nonfinite", which, cls, how))
        if not (_same_float(z.real, er) and z.imag == ei):
            add_violation(P, f"{tag}: get_measurement({x!r}, {which!r}) [{how}] = {z!r} but the {cls} value of the table is {complex(er, ei)!r} "
                             f"(the tabulated value of the documented formula; it must be returned as it is); grid [{float(f[0])!r} .. {float(f[-1])!r}], nf={len(f)}",
                          {"check": "measurement", "class": cls, "mode": mode, "complex": yi is not None, "nonfinite": True}, case, {"which": which, "x": x, "how": how})
        return
    try:
        z = complex(out)
    except Exception:  # noqa
        add_violation(P, f"{tag}: get_measurement({x!r}, {which!r}) returned {desc(out)}", {"check": "measurement", "class": cls, "problem": "type", "mode": mode}, case)
        return
    if len(f) >= 2:
        P.nontrivial.add((kind, mode, "meas", which, cls, how))
    ok = abs(z.real - er) <= tr and abs(z.imag - ei) <= ti
    if not ok:
        add_violation(P, f"{tag}: get_measurement({x!r}, {which!r}) [{how}] = {z!r} but the {cls} value of the table is {complex(er, ei)!r} "
                         f"(tol {max(tr, ti):.3g}); grid [{float(f[0])!r} .. {float(f[-1])!r}], nf={len(f)}",
                      {"check": "measurement", "class": cls, "mode": mode, "complex": yi is not None}, case, {"which": which, "x": x, "how": how})


def numeric_table(y: Any, nf: int) -> bool:
    return isinstance(y, np.ndarray) and y.shape == (nf,) and y.dtype.kind in "fciu"


def has_nonfinite(y: np.ndarray) -> bool:
    return bool(y.dtype.kind in "fc" and not np.all(np.isfinite(y)))


def check_measurement(P: C.Part, res, case: Dict[str, Any], tag: str, rng: np.random.Generator, ref: Optional[Dict[str, Any]] = None, light: bool = False,
                      names: Optional[List[str]] = None, pick: Optional[List[str]] = None) -> None:
    rec = case["recipe"]
    kind, mode = rec["kind"], ("cross" if res.iscsd else "auto")
    f = np.asarray(read(res, "f"), dtype=float)
    if len(f) == 0 or (len(f) > 1 and not np.all(np.diff(f) > 0)):
        P.hit("meas.grid-not-increasing")
        return
    cand = (["Gxy", "Hxy", "ccoh", "cs", "Gyx", "coh", "Gxx", "Gyy", "cf_deg", "GyyRx", "Gxy_dev"] if res.iscsd else ["asd", "psd", "ps", "Gxx", "Gxx_dev", "ENBW", "XX"])
    if pick is None:
        pick = [str(n) for n in rng.choice(cand, size=2 if light else 4, replace=False)]
        if names:
            # every other attribute name is a legal `which` too: one more of them, and - when the result has attributes whose table contains
            # -inf/inf/NaN (dead channel, zero coherence, ...) - one of those
            others = [n for n in names if n not in pick and n != "compute_t"]
            tabs = {n: (ref[n] if ref is not None and n in ref else _try_read(res, n)) for n in others}
            others = [n for n in others if numeric_table(tabs[n], len(f))]
            nonfin = [n for n in others if has_nonfinite(tabs[n])]
            if others:
                pick.append(str(rng.choice(others)))
            if nonfin:
                pick.append(str(rng.choice(nonfin)))
                P.hit("meas.pick-nonfinite-table")
    for which in pick:
        y = ref[which] if ref is not None and isinstance(ref.get(which), np.ndarray) else read(res, which)
        if not numeric_table(y, len(f)):
            continue
        cplx = np.iscomplexobj(y)
        # private copies: the table must not alias the array held in the result's cache (an in-place edit by the query would go unseen)
        yr = np.array(np.real(y), dtype=float, copy=True)
        yi = np.array(np.imag(y), dtype=float, copy=True) if cplx else None
        xs = queries(rng, f)
        if light:
            xs = [xs[int(i)] for i in rng.integers(0, len(xs), size=6)]
        # array query
        try:
            with quiet():
                out = res.get_measurement(np.array(xs, dtype=float), which)
        except Exception as ex:  # noqa
            add_violation(P, f"{tag}: get_measurement(array of {len(xs)}, {which!r}) raised {ex!r}", {"check": "measurement", "problem": "raises", "mode": mode}, case)
            continue
        if not (isinstance(out, np.ndarray) and out.shape == (len(xs),)):
            add_violation(P, f"{tag}: get_measurement(array of shape ({len(xs)},), {which!r}) returned {desc(out)}",
                          {"check": "measurement", "problem": "shape", "mode": mode}, case)
            continue
        for x, o in zip(xs, out):
            check_value(P, case, tag, which, f, yr, yi, x, o, mode, "array", kind)
        # scalar queries: Python scalar out
        for x in [xs[int(i)] for i in rng.integers(0, len(xs), size=3 if light else 8)] + [float(f[0]), float(f[-1])]:
            xin = x if rng.random() < 0.7 else np.float64(x)
            try:
                with quiet():
                    o = res.get_measurement(xin, which)
            except Exception as ex:  # noqa
                add_violation(P, f"{tag}: get_measurement({x!r}, {which!r}) raised {ex!r}", {"check": "measurement", "problem": "raises", "mode": mode}, case)
                continue
            P.cases += 1
            if not np.isscalar(o):
                add_violation(P, f"{tag}: get_measurement(scalar {x!r}, {which!r}) returned {desc(o)}, not a scalar",
                              {"check": "measurement", "problem": "scalar-out", "mode": mode}, case)
                continue
            check_value(P, case, tag, which, f, yr, yi, x, o, mode, "scalar", kind)
        if light:
            continue
        # shapes: 2-D, empty, list, integer scalar
        q2 = np.array([xs[int(i)] for i in rng.integers(0, len(xs), size=6)], dtype=float).reshape(2, 3)
        for q, shp, how in ((q2, (2, 3), "2-D"), (np.array([], dtype=float), (0,), "empty"), ([float(v) for v in q2[0]], (3,), "list")):
            P.cases += 1
            P.hit(f"meas.shape.{how}")
            try:
                with quiet():
                    o = res.get_measurement(q, which)
            except Exception as ex:  # noqa
                add_violation(P, f"{tag}: get_measurement({how} query, {which!r}) raised {ex!r}", {"check": "measurement", "problem": "raises", "mode": mode, "how": how}, case)
                continue
            if not (isinstance(o, np.ndarray) and o.shape == shp):
                add_violation(P, f"{tag}: get_measurement({how} query of shape {shp}, {which!r}) returned {desc(o)}",
                              {"check": "measurement", "problem": "shape", "mode": mode, "how": how}, case)
                continue
            for x, ov in zip(np.asarray(q, dtype=float).ravel(), np.asarray(o).ravel()):
                check_value(P, case, tag, which, f, yr, yi, float(x), ov, mode, how, kind)
        try:
            with quiet():
                o = res.get_measurement(1, which)
            P.cases += 1
            if not np.isscalar(o):
                add_violation(P, f"{tag}: get_measurement(1, {which!r}) returned {desc(o)}, not a scalar", {"check": "measurement", "problem": "scalar-out", "mode": mode}, case)
            else:
                check_value(P, case, tag, which, f, yr, yi, 1.0, o, mode, "int", kind)
        except Exception as ex:  # noqa
            add_violation(P, f"{tag}: get_measurement(1, {which!r}) raised {ex!r}", {"check": "measurement", "problem": "raises", "mode": mode}, case)
        # non-finite queries must raise ValueError
        for q, how in ((float("nan"), "nan"), (float("inf"), "inf"), (float("-inf"), "-inf"), (np.array([float(f[0]), float("nan")]), "array-with-nan"),
                       (np.array([float("inf"), float(f[0])]), "array-with-inf")):
            P.cases += 1
            P.hit("meas.nonfinite")
            try:
                with quiet():
                    o = res.get_measurement(q, which)
                add_violation(P, f"{tag}: get_measurement({how}, {which!r}) returned {desc(o)} instead of raising ValueError",
                              {"check": "measurement", "problem": "nonfinite-accepted", "mode": mode}, case, {"how": how})
            except ValueError:
                pass
            except Exception as ex:  # noqa
                add_violation(P, f"{tag}: get_measurement({how}, {which!r}) raised {ex!r} instead of ValueError",
                              {"check": "measurement", "problem": "nonfinite-wrong-exception", "mode": mode}, case, {"how": how})


# ---------------------------------------------------------------- (c) export / copy / pickle
def data_keys(res) -> List[str]:
    d = vars(res).get("_data")
    return list(d.keys()) if isinstance(d, dict) else []


def check_dataframe(P: C.Part, res, case: Dict[str, Any], tag: str, names: List[str], ref: Optional[Dict[str, Any]] = None) -> Any:
    """the export predicate; returns the frame to_dataframe() handed out (None if it raised) so that a caller can go on and edit it"""
    rec = case["recipe"]
    kind, mode = rec["kind"], ("cross" if res.iscsd else "auto")
    sig = {"check": "to_dataframe", "mode": mode}
    P.cases += 1
    try:
        with quiet():
            df = res.to_dataframe()
    except Exception as ex:  # noqa
        add_violation(P, f"{tag}: to_dataframe() raised {ex!r} (nf={res.nf}, kind={kind})", dict(sig, problem="raises"), case)
        return None
    f = np.asarray(read(res, "f"))
    nf = len(f)
    P.nontrivial.add((kind, mode, "df", min(nf, 3)))
    P.hit(f"df.{kind}")
    try:
        index_ok = df.index.name == "f" and len(df) == nf and bits_equal(np.asarray(df.index.to_numpy(), dtype=float), np.asarray(f, dtype=float))
    except Exception:  # noqa  (an index that is not even numeric)
        index_ok = False
    if not index_ok:
        add_violation(P, f"{tag}: to_dataframe() index is {df.index.name!r} with {len(df)} rows; expected the {nf} frequencies `f`", dict(sig, problem="index"), case)
        return df
    expected = {}
    for n in sorted((set(names) - {"G"}) | set(DATA_FIELDS) | set(data_keys(res))):      # G is an alias of psd outside the listed names: optional
        if n == "f":
            continue
        try:
            v = read(res, n)
        except AttributeError:
            continue
        if isinstance(v, np.ndarray) and v.shape[:1] == (nf,):
            expected[n] = v
    cols = [str(c) for c in df.columns]
    missing = sorted(set(expected) - set(cols))
    # a column outside the enumerated candidates is legitimate iff it is itself a per-bin array attribute (e.g. a new data field)
    extra = []
    for c in sorted(set(cols) - set(expected)):
        try:
            v = read(res, c)
        except Exception:  # noqa
            v = None
        if isinstance(v, np.ndarray) and v.shape[:1] == (nf,):
            expected[c] = v
        else:
            extra.append(c)
    if missing or extra or len(cols) != len(set(cols)):
        add_violation(P, f"{tag}: to_dataframe() columns differ from the per-bin arrays: missing {missing}, not a per-bin array attribute {extra} (nf={nf})",
                      dict(sig, problem="columns", missing=missing[:3], extra=extra[:3]), case)
        return df
    for c in cols:
        P.cases += 1
        col = df[c].to_numpy()
        v = expected[c]
        ok = same_values(col, v) if v.ndim == 1 else False
        if ok and ref is not None and c != "compute_t" and isinstance(ref.get(c), np.ndarray):
            ok = same_values(col, ref[c])
        if not ok:
            add_violation(P, f"{tag}: to_dataframe() column {c!r} ({desc(col)}) does not carry the values of attribute {c} ({desc(v)})",
                          dict(sig, problem="values", dtype=str(v.dtype)), case, {"column": c})
    return df


# ---------------------------------------------------------------- what a query hands out is the caller's to modify
# The frame of to_dataframe() and the array of get_measurement() are built anew by every call of the unchanged library (measured: over every result
# kind, no block / column / index of an exported frame and no get_measurement output shares memory - np.shares_memory - with an array the result
# holds in `_data` / `_cache`, with the query array, or with the frame / output of another call).  They are the caller's objects: whatever the caller
# does to them, a later export / query of the result - or of a copy / deep copy / pickle clone of it - is still the per-bin arrays, and every
# attribute still equals the pristine twin's.  (The attribute arrays themselves ARE the cached objects by design: they are never written to here.)
FRAME_EDITS = ["scale", "scale-inplace", "drop", "del", "pop", "rename", "swap-names", "permute-names", "row0", "rows-nan", "loc-col", "iloc-col",
               "index", "index-name", "reset-index", "reverse", "add-col", "insert-col", "add-row", "drop-row", "truncate", "fillna", "all-zero",
               "values"]
OUT_EDITS = ["nan", "scale", "zero", "negate", "reverse", "sort"]
QUERY_EDITS = ["nan", "scale", "reverse", "zero", "keep"]


def frame_state(df) -> Tuple[Any, ...]:
    """a comparable summary of a frame (labels, index, values as bytes) - only used to MEASURE whether an edit changed anything"""
    try:
        parts = [tuple(str(c) for c in df.columns), str(df.index.name), tuple(repr(v) for v in df.index.tolist())]
        for blk in getattr(getattr(df, "_mgr", None), "blocks", ()) or ():
            a = np.asarray(blk.values)
            parts.append(repr(a.tolist()) if a.dtype == object else (str(a.dtype), a.shape, a.tobytes()))
        return tuple(parts)
    except Exception:  # noqa
        return (id(df), "unknown")


def edit_frame(df, rng: np.random.Generator, how: str) -> str:
    """ONE in-place edit of a frame the caller owns, as analysis code does them (unit conversion, dropping / renaming columns, overwriting rows,
    re-indexing, cleaning non-finite cells, writing into the buffers).  Returns a description; an edit that pandas refuses is described as such
    (what pandas lets a caller do with the caller's own frame is not this property)"""
    cols = list(df.columns)

    def kind_of(c) -> str:
        try:
            return df[c].dtype.kind
        except Exception:  # noqa
            return "?"

    num = [c for c in cols if kind_of(c) in "fc"]
    live = []
    for c in num:
        try:
            a = df[c].to_numpy()
            if np.any(np.isfinite(a) & (a != 0)):
                live.append(c)
        except Exception:  # noqa
            pass
    pick = lambda xs: xs[int(rng.integers(0, len(xs)))]
    n = len(df)
    try:
        with quiet():
            if how in ("scale", "scale-inplace"):
                c = pick(live or num or cols)
                k = [1e9, -1.0, 2.0, 1e-3, 0.0][int(rng.integers(0, 5))]
                if how == "scale":
                    df[c] = df[c] * k
                else:
                    df[c] *= k
                return f"{how}({c} x {k:g})"
            if how in ("drop", "del", "pop"):
                c = pick(cols)
                if how == "drop":
                    df.drop(columns=[c], inplace=True)
                elif how == "del":
                    del df[c]
                else:
                    df.pop(c)
                return f"{how}({c})"
            if how == "rename":
                c = pick(cols)
                df.rename(columns={c: f"{c}_mine"}, inplace=True)
                return f"rename({c}->{c}_mine)"
            if how == "swap-names":
                a = pick(live or num or cols)
                same = [c for c in cols if c != a and kind_of(c) == kind_of(a)] or [c for c in cols if c != a]
                b = pick(same)
                df.rename(columns={a: b, b: a}, inplace=True)
                return f"swap-names({a}<->{b})"
            if how == "permute-names":
                df.columns = [cols[int(j)] for j in rng.permutation(len(cols))]
                return "permute-names"
            if how == "row0":
                df.iloc[0] = 0
                return "row0(iloc[0]=0)"
            if how == "rows-nan":
                i = int(rng.integers(0, n))
                df.loc[df.index[i], num] = np.nan
                return f"rows-nan(row {i} of the float/complex columns)"
            if how == "loc-col":
                c = pick(live or num or cols)
                df.loc[:, c] = 0.5
                return f"loc-col({c}=0.5)"
            if how == "iloc-col":
                j = int(rng.integers(0, len(cols)))
                df.iloc[:, j] = 0
                return f"iloc-col({cols[j]}=0)"
            if how == "index":
                df.index = np.arange(n, dtype=float) + 1e6
                return "index(replaced)"
            if how == "index-name":
                if rng.random() < 0.5:
                    df.index.name = "freq"
                else:
                    df.rename_axis("freq", inplace=True)
                return "index-name(freq)"
            if how == "reset-index":
                df.reset_index(inplace=True)
                return "reset-index"
            if how == "reverse":
                df.sort_index(ascending=False, inplace=True)
                return "reverse(sort_index descending)"
            if how == "add-col":
                df["extra_mine"] = 1.0
                return "add-col(extra_mine)"
            if how == "insert-col":
                df.insert(0, "aaa_mine", np.arange(n))
                return "insert-col(aaa_mine)"
            if how == "add-row":
                df.loc[float(np.max(df.index.to_numpy())) + 1.0] = 0
                return "add-row"
            if how == "drop-row":
                df.drop(index=df.index[int(rng.integers(0, n))], inplace=True)
                return "drop-row"
            if how == "truncate":
                df.drop(index=df.index[1:], inplace=True)
                return "truncate(first row kept)"
            if how == "fillna":
                df.fillna(0.0, inplace=True)
                for c in num:                               # (not frame-wide: DataFrame.replace chokes on the object column of start vectors)
                    df[c] = df[c].replace([np.inf, -np.inf], 0.0)
                return "fillna/replace(non-finite -> 0)"
            if how == "all-zero":
                df.iloc[:, :] = 0
                return "all-zero(iloc[:, :]=0)"
            if how == "values":
                hit = 0
                # only through the PUBLIC handles and only where pandas hands out a writable buffer (without copy-on-write: views of the frame's
                # blocks; with copy-on-write, pandas >= 3: read-only views or private copies, so that nothing of the frame changes) - the block
                # buffers behind pandas' back (`_mgr`) are not touched: a library may rely on pandas' copy-on-write protection
                handles = [df.values, df.index.values] + [df[c].values for c in cols] + [df[c].to_numpy() for c in cols]
                for a in handles:
                    if isinstance(a, np.ndarray) and a.flags.writeable and a.dtype.kind in "fciu" and a.size:
                        a[...] = np.nan if a.dtype.kind in "fc" else -7
                        hit += 1
                return f"values({hit} writable public buffers overwritten)"
    except Exception as ex:  # noqa
        return f"{how}(refused by pandas: {type(ex).__name__})"
    return f"{how}(unknown edit)"


def clones(obj, rng: np.random.Generator) -> List[Tuple[str, Any]]:
    """the object itself, a shallow copy, a deep copy and a pickle round trip of it"""
    with quiet():
        return [("the result", obj), ("copy.copy(result)", copy.copy(obj)), ("copy.deepcopy(result)", copy.deepcopy(obj)),
                ("a pickle round trip of the result", pickle.loads(pickle.dumps(obj, protocol=int(rng.integers(2, pickle.HIGHEST_PROTOCOL + 1)))))]


def op_dfmut(P: C.Part, cur, case, tag: str, rng: np.random.Generator, names: List[str], ref: Dict[str, Any], done: List[str], arg: str) -> None:
    """export, let the CALLER edit the frame it got, export again - from the result, a shallow copy, a deep copy and a pickle clone, with a second
    edit of the second frame in between: every export is exactly the per-bin arrays, every attribute of every clone equals the pristine twin's.
    arg = "<edit>+<edit>...[@copy]" (forced sequences); "@copy" = the first frame is asked of a shallow copy of the result"""
    rec = case["recipe"]
    kind, mode = rec["kind"], ("cross" if cur.iscsd else "auto")
    body, _, where = str(arg or "").partition("@")
    hows = [h for h in body.split("+") if h] or [str(h) for h in rng.choice(FRAME_EDITS, size=int(rng.integers(1, 4)), replace=False)]
    where = where or ("copy" if rng.random() < 0.25 else "self")
    done.append("dfmut:" + "+".join(hows) + ("@copy" if where == "copy" else ""))
    hist = f" after [{' '.join(done)}]"
    with quiet():
        giver = copy.copy(cur) if where == "copy" else cur
    df1 = check_dataframe(P, giver, case, tag + hist + " first export", names, ref)
    if df1 is None:
        return
    told: List[str] = []

    def edit(df, how: str) -> None:
        before = frame_state(df)
        d = edit_frame(df, rng, how)
        told.append(d)
        P.hit(f"dfmut.{how}" + (".refused" if "refused by pandas" in d else ""))
        if frame_state(df) != before:
            P.nontrivial.add((kind, mode, "df-edit", how, min(len(ref.get("f")) if isinstance(ref.get("f"), np.ndarray) else 0, 3)))
        else:
            P.hit("dfmut.edit-changed-nothing")

    for h in hows:
        edit(df1, h)
    frames = [df1]
    for label, obj in clones(cur, rng):
        P.hit("dfmut.export")
        t = (f"{tag}{hist} to_dataframe() of {label}, after the caller edited the frame(s) earlier to_dataframe() calls had returned "
             f"[{'; '.join(told)}] (an exported frame is the caller's: editing it must not change a later export)")
        df2 = check_dataframe(P, obj, case, t, names, ref)
        if df2 is not None and any(df2 is d for d in frames):
            P.hit("dfmut.same-frame-object-returned-again")
        if obj is cur and df2 is not None and not any(df2 is d for d in frames):
            edit(df2, str(rng.choice(FRAME_EDITS)))        # second generation: the later exports follow an edit of THIS frame as well
            frames.append(df2)
        if obj is not cur:
            check_all(P, obj, case, tag, ref, [str(n) for n in rng.permutation(list(ref))], done, label)
        if len(P.violations) >= MAX_VIOL:
            return


def op_qmut(P: C.Part, cur, case, tag: str, rng: np.random.Generator, ref: Dict[str, Any], done: List[str], arg: str, fgrid: np.ndarray,
            allnames: List[str]) -> None:
    """array query, the CALLER overwrites the array it got (and its own query array), the same query again - on the result, a shallow copy, a deep
    copy and a pickle clone: every answer is the interpolant of the pristine table.  arg = "<name>[:<output edit>[:<query edit>]]" """
    rec = case["recipe"]
    kind, mode = rec["kind"], ("cross" if cur.iscsd else "auto")
    nfg = len(fgrid)
    parts = str(arg or "").split(":")
    cand = [n for n in allnames if n != "compute_t" and numeric_table(ref.get(n), nfg) and ref[n].dtype.kind in "fc"]
    n = parts[0] if parts[0] else (str(rng.choice(cand)) if cand else "")
    oe = parts[1] if len(parts) > 1 and parts[1] else str(rng.choice(OUT_EDITS))
    qe = parts[2] if len(parts) > 2 and parts[2] else str(rng.choice(QUERY_EDITS))
    done.append(f"qmut:{n}:{oe}:{qe}")
    y = ref.get(n)
    if not (numeric_table(y, nfg) and y.dtype.kind in "fc"):
        P.hit("qmut.no-table")
        return
    hist = f" after [{' '.join(done)}]"
    mid = 0.5 * (fgrid[:-1] + fgrid[1:]) if nfg > 1 else np.array([float(fgrid[0]) * 1.01 + 1e-3])
    pts = np.concatenate([fgrid, mid, [0.5 * float(fgrid[0]), 2.0 * float(fgrid[-1]) + 1.0]])
    pts = np.array(rng.permutation(pts)[: 24], dtype=float)
    yr = np.array(np.real(y), dtype=float, copy=True)
    yi = np.array(np.imag(y), dtype=float, copy=True) if np.iscomplexobj(y) else None

    def ask(obj, label: str, q: Any) -> Any:
        P.cases += 1
        try:
            with quiet():
                out = obj.get_measurement(q, n)
        except Exception as ex:  # noqa
            add_violation(P, f"{tag}{hist} get_measurement(array of {len(pts)}, {n!r}) of {label} raised {ex!r}",
                          {"check": "measurement", "problem": "raises", "mode": mode, "history": "caller-edit"}, case, {"ops": list(done)})
            return None
        if not (isinstance(out, np.ndarray) and out.shape == pts.shape):
            add_violation(P, f"{tag}{hist} get_measurement(array of shape {pts.shape}, {n!r}) of {label} returned {desc(out)}",
                          {"check": "measurement", "problem": "shape", "mode": mode, "history": "caller-edit"}, case, {"ops": list(done)})
            return None
        for x, ov in zip(pts, out):
            check_value(P, case, f"{tag}{hist} {label}", n, fgrid, yr, yi, float(x), ov, mode, "caller-edit", kind)
        return out

    q = np.array(pts, copy=True)
    out = ask(cur, "the result", q if rng.random() < 0.7 else [float(v) for v in pts])
    if out is None:
        return
    P.hit(f"qmut.out.{oe}")
    P.hit(f"qmut.query.{qe}")
    if has_nonfinite(y):
        P.nontrivial.add((kind, mode, "qmut-nonfinite", n))
    P.nontrivial.add((kind, mode, "qmut", oe, qe, min(nfg, 3)))
    with quiet():
        if out.flags.writeable:
            if oe == "nan":
                out[...] = np.nan
            elif oe == "scale":
                out *= -3.0
            elif oe == "zero":
                out.fill(0)
            elif oe == "negate":
                np.negative(out, out=out)
            elif oe == "reverse":
                out[...] = out[::-1].copy()
            elif oe == "sort":
                out.sort()
        else:
            P.hit("qmut.output-not-writable")
        if qe == "nan":
            q[...] = np.nan
        elif qe == "scale":
            q *= 7.0
        elif qe == "reverse":
            q[...] = q[::-1].copy()
        elif qe == "zero":
            q.fill(0.0)
    for label, obj in clones(cur, rng):
        o2 = ask(obj, label + " (the caller had overwritten the array an earlier get_measurement returned, and its own query array)", np.array(pts, copy=True))
        if o2 is not None and o2 is out:
            P.hit("qmut.same-array-object-returned-again")
        if obj is not cur:
            check_all(P, obj, case, tag, ref, [str(m) for m in rng.permutation(list(ref))], done, label)
        if len(P.violations) >= MAX_VIOL:
            return


def op_dirmut(P: C.Part, cur, rng: np.random.Generator, done: List[str]) -> None:
    """the caller empties / scrambles the list __dir__() handed out (dir(result), which to_dataframe enumerates, is checked by the step check)"""
    done.append("dirmut")
    try:
        lst = type(cur).__dir__(cur)
    except Exception:  # noqa
        P.hit("dirmut.raised")
        return
    if isinstance(lst, list):
        if rng.random() < 0.5:
            lst.clear()
        else:
            lst[:] = [x for x in lst if str(x).startswith("_")] + ["mine"]
        P.hit("dirmut.list-edited")
    else:
        P.hit("dirmut.not-a-list")


def snapshot(res, names: List[str]) -> Dict[str, Any]:
    out: Dict[str, Any] = {}
    for n in names:
        try:
            out[n] = copy_val(read(res, n))
        except AttributeError:
            out[n] = "<AttributeError>"
        except Exception as ex:  # noqa
            out[n] = f"<raised {type(ex).__name__}: {ex}>"
    return out


def compare_snap(P: C.Part, case, tag: str, got: Dict[str, Any], ref: Dict[str, Any], what: str, ops: List[str], skip=("compute_t",)) -> bool:
    mode = "cross" if case["recipe"]["iscsd"] else "auto"
    for n in ref:
        if n in skip:
            continue
        P.cases += 1
        a, b = got.get(n, "<absent>"), ref[n]
        if not snap_same(a, b):
            sa, sb = (a if isinstance(a, str) else desc(a)), (b if isinstance(b, str) else desc(b))
            add_violation(P, f"{tag}: after [{' '.join(ops)}] {what}: attribute {n} is {sa}, the untouched twin has {sb}{maxdiff(a, b)}",
                          {"check": "sequence", "mode": mode, "what": what, "none_flip": (a is None) != (b is None)}, case, {"ops": ops, "name": n})
            return False
    return True


def query_forms(rng: np.random.Generator, f: np.ndarray) -> Tuple[str, Any]:
    """one query argument for get_measurement: the whole grid, interior points, outside points, a mixture, or a scalar"""
    nf = len(f)
    lo, hi = float(f[0]), float(f[-1])
    mid = 0.5 * (f[:-1] + f[1:]) if nf > 1 else np.array([lo * 1.01 + 1e-3])
    outside = np.array([0.5 * lo, lo - 1.0, 2.0 * hi + 1.0])
    form = str(rng.choice(["grid", "grid", "mid", "outside", "mixed", "scalar-grid", "scalar-mid", "scalar-outside", "list"]))
    if form == "grid":
        return form, np.array(f, dtype=float, copy=True)
    if form == "mid":
        return form, np.array(mid, dtype=float)
    if form == "outside":
        return form, outside
    if form == "mixed":
        return form, rng.permutation(np.concatenate([f, mid, outside]))
    if form == "scalar-grid":
        return form, float(f[int(rng.integers(0, nf))])
    if form == "scalar-mid":
        return form, float(mid[int(rng.integers(0, len(mid)))])
    if form == "scalar-outside":
        return form, float(outside[int(rng.integers(0, 3))])
    return form, [float(v) for v in f[: min(nf, 5)]]


def check_untouched(P: C.Part, cur, case, tag: str, ref: Dict[str, Any], group: List[str], done: List[str], what: str) -> bool:
    """attributes `group` of `cur` still equal, bit for bit (NaN positions included), what the never-queried twin reported"""
    mode = "cross" if case["recipe"]["iscsd"] else "auto"
    for n in group:
        if n == "compute_t" or n not in ref:
            continue
        P.cases += 1
        try:
            v = read(cur, n)
        except AttributeError:
            v = "<AttributeError>"
        b = ref[n]
        if not snap_same(v, b):
            sv, sb = (v if isinstance(v, str) else desc(v)), (b if isinstance(b, str) else desc(b))
            detail = ""
            if isinstance(v, np.ndarray) and isinstance(b, np.ndarray) and v.shape == b.shape and v.dtype == b.dtype and v.dtype != object and v.size:
                j = int(np.nonzero(~((v == b) | ((v != v) & (b != b))))[0][0]) if np.any(~((v == b) | ((v != v) & (b != b)))) else 0
                detail = f"; e.g. bin {j}: {v[j]!r} vs {b[j]!r}"
            add_violation(P, f"{tag}: after [{' '.join(done)}] attribute {n} is {sv}, the never-queried twin has {sb}{detail} "
                             f"(a query must not change the result)", {"check": "history", "mode": mode, "what": what, "alias": n != group[0]}, case,
                          {"ops": list(done), "name": n})
            return False
    return True


def alias_group(name: str) -> List[str]:
    g = [name]
    for grp in ALIASES:
        if name in grp:
            g += [n for n in grp if n not in g]
    return g


# ---------------------------------------------------------------- plot(): a read-only operation like any other
_PLOT_SPEC: Optional[Tuple[List[str], Dict[str, Any]]] = None


def plot_spec() -> Tuple[List[str], Dict[str, Any]]:
    """(the `which` values SpectrumResult.plot dispatches on, its keyword options with their defaults), read from the source of the method"""
    global _PLOT_SPEC
    if _PLOT_SPEC is None:
        whiches, opts = list(PLOT_WHICH), dict(PLOT_OPTS)
        try:
            import ast
            import inspect
            import textwrap
            from speckit.analysis import SpectrumResult
            fn = SpectrumResult.plot
            sig = inspect.signature(fn)
            got = {n: p.default for n, p in sig.parameters.items()
                   if n not in ("self", "which") and p.kind in (p.KEYWORD_ONLY, p.POSITIONAL_OR_KEYWORD) and p.default is not p.empty}
            if got:
                opts = got
            found: List[str] = []
            for node in ast.walk(ast.parse(textwrap.dedent(inspect.getsource(fn)))):
                if isinstance(node, ast.Dict) and node.keys and all(isinstance(k, ast.Constant) and isinstance(k.value, str) for k in node.keys):
                    found += [k.value for k in node.keys]                      # the dispatch table (and the per-quantity error table)
                if isinstance(node, ast.Compare) and isinstance(node.left, ast.Name) and node.left.id == "which":
                    for c in node.comparators:
                        for e in ([c] if isinstance(c, ast.Constant) else list(getattr(c, "elts", []))):
                            if isinstance(e, ast.Constant) and isinstance(e.value, str):
                                found.append(e.value)
            for w in found:
                if w not in whiches and w.isidentifier():
                    whiches.append(w)
        except Exception:  # noqa  (the oracle keeps working with the shipped lists)
            pass
        _PLOT_SPEC = (whiches, opts)
    return _PLOT_SPEC


def enc_plot(spec: Dict[str, Any]) -> str:
    return ",".join(f"{k}={spec[k]}" for k in spec)


def dec_plot(arg: str) -> Dict[str, Any]:
    import ast
    spec: Dict[str, Any] = {}
    for part in [p for p in str(arg).split(",") if p]:
        k, _, v = part.partition("=")
        if k in ("which", "ylabel", "color", "label"):
            spec[k] = None if v == "None" else v
        else:
            try:
                spec[k] = ast.literal_eval(v)
            except Exception:  # noqa
                spec[k] = v
    return spec


def plot_fill(rng: np.random.Generator, spec: Dict[str, Any], opts: Dict[str, Any]) -> Dict[str, Any]:
    """`spec` completed with a random value of every remaining option of the signature"""
    out: Dict[str, Any] = {"which": spec.get("which")}
    for n, dflt in opts.items():
        if n in spec:
            out[n] = spec[n]
        elif n == "sigma":
            out[n] = [0.5, 1, 2, 3][int(rng.integers(0, 4))]
        elif n == "ax":
            out[n] = bool(rng.random() < 0.2)               # True = an Axes of our own is passed in
        elif n == "ylabel":
            if rng.random() < 0.2:
                out[n] = "level"
        elif isinstance(dflt, bool):
            out[n] = bool(rng.integers(0, 2))
    if "color" in spec or rng.random() < 0.3:
        out["color"] = spec.get("color") or str(rng.choice(["C1", "k"]))      # forwarded through **kwargs; the error band reuses it
    return out


def plot_plan(rng: np.random.Generator, iscsd: bool, k: int, phase: Optional[int] = None) -> List[Dict[str, Any]]:
    """k figure-making plot() calls for a result: first one call per applicable `which` WITH an error band of sigma != 1 (bode: two calls with
    complementary (deg, unwrap, dB) settings chosen by the three bits of `phase`, so that cases with phases 0..3 go through all eight of them),
    then calls drawn from the whole option space"""
    whiches, opts = plot_spec()
    ph = int(rng.integers(0, 8)) if phase is None else int(phase)
    bits = [bool(ph & 1), bool(ph & 2), bool(ph & 4)]
    mode = "cross" if iscsd else "auto"
    figw = [w for w in whiches if PLOT_KIND.get(w, mode) == mode]
    default = "bode" if iscsd else "asd"
    nz = lambda: [0.5, 2, 3][int(rng.integers(0, 3))]
    must: List[Dict[str, Any]] = []
    for w in figw:
        ww = None if (w == default and rng.random() < 0.5) else w
        if w == "bode":
            must.append({"which": ww, "errors": True, "sigma": nz(), "deg": bits[0], "unwrap": bits[1], "dB": bits[2]})
            must.append({"which": None if rng.random() < 0.5 else w, "errors": True, "sigma": nz(), "deg": not bits[0], "unwrap": not bits[1], "dB": not bits[2]})
        else:
            must.append({"which": ww, "errors": True, "sigma": nz()})
    must = [must[int(j)] for j in rng.permutation(len(must))]
    specs = must[:k]
    while len(specs) < k:
        specs.append({"which": ([None] + figw)[int(rng.integers(0, len(figw) + 1))], "errors": bool(rng.random() < 0.6)})
    return [plot_fill(rng, s, opts) for s in specs]


def plot_inapplicable(rng: np.random.Generator, iscsd: bool) -> Dict[str, Any]:
    """a plot() call that draws nothing: a `which` of the other result kind, or an unknown one (the method still evaluates its dispatch table)"""
    whiches, opts = plot_spec()
    mode = "cross" if iscsd else "auto"
    other = [w for w in whiches if PLOT_KIND.get(w, mode) != mode] + ["nonsense", "PSD"]
    return plot_fill(rng, {"which": other[int(rng.integers(0, len(other)))], "errors": bool(rng.random() < 0.7)}, opts)


def run_plot(obj, spec: Dict[str, Any]) -> Tuple[bool, Optional[str]]:
    """obj.plot(**spec) on the Agg backend, every figure closed afterwards; (a figure came back, class of the exception if it raised)"""
    import matplotlib
    try:
        if "agg" not in str(matplotlib.get_backend()).lower():
            matplotlib.use("Agg")
    except Exception:  # noqa
        pass
    import matplotlib.pyplot as plt
    kw = {k: v for k, v in spec.items() if k != "ax"}
    try:
        if spec.get("ax"):
            kw["ax"] = plt.subplots()[1]
        out = obj.plot(**kw)
        return bool(isinstance(out, tuple) and len(out) == 2), None
    except Exception as ex:  # noqa  (whether a quantity can be drawn at all is not this property)
        return False, type(ex).__name__
    finally:
        if plt.get_fignums():
            plt.close("all")


def rms_band(rng: np.random.Generator, fgrid: Optional[np.ndarray], form: str) -> Any:
    if form == "none" or fgrid is None or len(fgrid) == 0:
        return None
    lo, hi = float(fgrid[0]), float(fgrid[-1])
    a, b = sorted(float(v) for v in rng.uniform(lo, hi if hi > lo else lo + 1.0, size=2))
    if form == "reversed":
        return (b, a)
    if form == "wide":
        return (0.5 * lo - 1.0, 2.0 * hi + 1.0)
    if form == "degenerate":
        return (a, a)
    if form == "grid":
        i, j = sorted(int(v) for v in rng.integers(0, len(fgrid), size=2))
        return (float(fgrid[i]), float(fgrid[j]))
    if form == "list":
        return [a, b]
    if form == "array":
        return np.array([a, b])
    if form == "nan":
        return (a, float("nan"))
    if form == "outside":
        return (2.0 * hi + 1.0, 3.0 * hi + 2.0)
    return (a, b)


def held_names(obj, ref: Dict[str, Any]) -> List[str]:
    """names of the snapshot that the object currently HOLDS (instance attribute, entry of the result dictionary or of the lazy cache):
    reading them computes nothing new, so the lazy state of the object is left as the operations under test made it"""
    d = vars(obj)
    held = set(d)
    for part in ("_cache", "_data"):
        if isinstance(d.get(part), dict):
            held |= set(d[part])
    return [n for n in ref if n in held]


def check_all(P: C.Part, obj, case, tag: str, ref: Dict[str, Any], names: List[str], done: List[str], via: str) -> bool:
    """every name of `names` read on `obj` is, bit for bit (NaN positions included), what the pristine twin reported before the sequence"""
    mode = "cross" if case["recipe"]["iscsd"] else "auto"
    op = done[-1].split(":")[0] if done else "start"
    with quiet():
        for n in names:
            if n == "compute_t" or n not in ref:
                continue
            P.cases += 1
            try:
                v = getattr(obj, n)
            except AttributeError:
                v = "<AttributeError>"
            except Exception as ex:  # noqa
                v = f"<raised {type(ex).__name__}: {ex}>"
            b = ref[n]
            if snap_same(v, b):
                continue
            sv, sb = (v if isinstance(v, str) else desc(v)), (b if isinstance(b, str) else desc(b))
            detail = ""
            if isinstance(v, np.ndarray) and isinstance(b, np.ndarray) and v.shape == b.shape and v.dtype == b.dtype and v.dtype != object and v.size:
                off = ~((v == b) | ((v != v) & (b != b)))
                if np.any(off):
                    j = int(np.nonzero(off.ravel())[0][0])
                    detail = f"; {int(off.sum())} of {v.size} entries differ, e.g. bin {j}: {v.ravel()[j]!r} vs {b.ravel()[j]!r}"
            where = {"self": "the result", "held": "the result (names it already holds)", "probe": "a deep copy of the result"}.get(via, via)
            add_violation(P, f"{tag}: after [{' '.join(done)}] attribute {n} of {where} is {sv}, the pristine twin has {sb}{detail} "
                             f"(a read-only operation must leave every name of dir(result) as it was)",
                          {"check": "step", "mode": mode, "op": op, "via": via, "none_flip": (v is None) != (b is None)}, case, {"ops": list(done), "name": n})
            return False
    return True


def check_step(P: C.Part, cur, case, tag: str, ref: Dict[str, Any], done: List[str], via: str, rng: np.random.Generator, ct0: Any, pub: Optional[List[str]]) -> bool:
    """after ONE operation of a sequence: every public data name of dir(result) equals the pristine twin's, dir() lists the same public names,
    compute_t is the object's own, and the identities of (a) hold.  via = "self": everything is read on the object itself (in a random order);
    via = "probe": only the names the object already holds are read on it (its lazy state stays as the operations made it) and the full read and the
    identities run on a deep copy, which carries that state along"""
    mode = "cross" if case["recipe"]["iscsd"] else "auto"
    after = f" after [{' '.join(done)}]"
    target = cur
    if via == "probe":
        if not check_all(P, cur, case, tag, ref, held_names(cur, ref), done, "held"):
            return False
        with quiet():
            target = copy.deepcopy(cur)
    order = [str(n) for n in rng.permutation(list(ref))]
    if not check_all(P, target, case, tag, ref, order, done, via):
        return False
    if ct0 is not None:
        P.cases += 1
        if not bits_equal(_try_read(target, "compute_t"), ct0):
            add_violation(P, f"{tag}:{after} compute_t differs from the original's", {"check": "step", "mode": mode, "what": "compute_t", "via": via}, case, {"ops": list(done)})
            return False
    if pub is not None:
        P.cases += 1
        now = [n for n in dir(cur) if not n.startswith("_")]
        gone = [n for n in pub if n not in now]
        if gone:
            add_violation(P, f"{tag}:{after} dir(result) no longer lists {gone[:6]}", {"check": "step", "mode": mode, "what": "dir", "via": via}, case, {"ops": list(done)})
            return False
        if len(now) != len(pub):
            P.hit("step.dir-gained-a-public-name")
    check_identities(P, target, case, tag + after)
    return True


def check_sequence(P: C.Part, res, twin, case: Dict[str, Any], tag: str, rng: np.random.Generator, names: List[str], box: Optional[Dict[str, Any]] = None) -> Any:
    """random operations on `res` (fresh cache); after EVERY operation, and at the end for the final object and the original, every name must agree
    bit-for-bit with the untouched twin"""
    rec = case["recipe"]
    kind, mode = rec["kind"], ("cross" if res.iscsd else "auto")
    allnames = list(names) + [d for d in DATA_FIELDS if d not in names]
    # every further public non-callable name that dir(result) lists (iscsd, fs, extra keys of the result dictionary)
    pub: Optional[List[str]] = None
    try:
        pub = [n for n in dir(twin) if not n.startswith("_")]
        for n in pub:
            if n not in allnames and not callable(_try_read(twin, n)):
                allnames.append(n)
    except Exception:  # noqa
        pub = None
    ct0 = None
    try:
        ct0 = copy_val(read(res, "compute_t"))
    except Exception:  # noqa
        pass
    ref = snapshot(twin, [str(n) for n in rng.permutation(allnames)])
    ref_sorted = {n: ref[n] for n in allnames}
    if box is not None:
        box["ref"] = ref_sorted
    fgrid = ref_sorted.get("f")
    nfg = len(fgrid) if isinstance(fgrid, np.ndarray) else 0
    grid_ok = nfg >= 1 and bool(np.all(np.isfinite(fgrid))) and (nfg == 1 or bool(np.all(np.diff(fgrid) > 0)))
    nonfin_names = [n for n in allnames if numeric_table(ref_sorted[n], nfg) and has_nonfinite(ref_sorted[n])] if grid_ok else []
    if nonfin_names:
        P.hit("seq.result-with-nonfinite-tables")
    Kq = ref_sorted.get("K")
    shape_cls = "single-bin" if nfg == 1 else ("uniform-K" if isinstance(Kq, np.ndarray) and Kq.ndim == 1 and len(set(int(k) for k in Kq)) == 1 else "multi-bin")
    if case.get("forced_ops"):
        ops = list(case["forced_ops"])
    else:
        ops = [str(o) for o in rng.choice(OPS, size=int(rng.integers(3, 13)))]
        # "plotx" = a plot() call that draws nothing (wrong result kind / unknown `which`): free; the figure-making calls are a per-case budget
        ops = [("plot:" + enc_plot(plot_inapplicable(rng, bool(res.iscsd)))) if o == "plotx" else o for o in ops]
        for spec in plot_plan(rng, bool(res.iscsd), int(case.get("plots") or 0), case.get("plot_phase")):
            ops.insert(int(rng.integers(0, len(ops) + 1)), "plot:" + enc_plot(spec))
    # how the per-step comparison reads the object (see check_step)
    via = "self" if rng.random() < 0.5 else "probe"
    P.hit(f"seq.step-check.{via}")
    cur = res
    done: List[str] = []
    for op in ops:
        op, _, arg = str(op).partition(":")
        P.cases += 1
        P.hit(f"seq.{op}")
        try:
            with quiet():
                if op in ("plot", "plotx"):
                    spec = dec_plot(arg) if arg else (plot_inapplicable(rng, bool(res.iscsd)) if op == "plotx" else plot_plan(rng, bool(res.iscsd), 1)[0])
                    done.append("plot:" + enc_plot(spec))
                    made, exc = run_plot(cur, spec)
                    w = spec.get("which")
                    P.hit(f"seq.plot.{w}.{'band' if spec.get('errors') else 'plain'}.{'drawn' if made else 'raised-' + str(exc)}")
                    if made:
                        P.hit(f"seq.plot.drawn.{mode}.{shape_cls}")
                        P.nontrivial.add((shape_cls, mode, "plot", w, bool(spec.get("errors")), spec.get("sigma", 1) != 1, bool(spec.get("deg", True)),
                                          bool(spec.get("dB", False)), bool(spec.get("unwrap", True)), bool(spec.get("ax"))))
                elif op == "query":
                    if not grid_ok:
                        P.hit("seq.query.no-grid")
                        continue
                    # ANY attribute name: derived, alias, data field, None-valued, ragged; half of the time one whose table holds -inf/inf/NaN
                    n = arg or (str(rng.choice(nonfin_names)) if nonfin_names and rng.random() < 0.5 else str(rng.choice(allnames)))
                    form, q = query_forms(rng, fgrid)
                    done.append(f"query:{n}:{form}")
                    y = ref_sorted.get(n)
                    numeric = numeric_table(y, nfg) and n != "compute_t"
                    try:
                        out = cur.get_measurement(q, n)
                    except Exception as ex:  # noqa
                        if numeric and y.dtype.kind in "fc":
                            add_violation(P, f"{tag}: after [{' '.join(done)}] get_measurement({form} query, {n!r}) raised {ex!r}",
                                          {"check": "measurement", "problem": "raises", "mode": mode}, case, {"ops": list(done)})
                            return cur
                        P.hit("seq.query.raised-on-non-table")   # None-valued / ragged / scalar attribute: whether it raises is not this property
                        out = None
                    if numeric and out is not None:
                        if has_nonfinite(y):
                            P.nontrivial.add((kind, mode, "query-nonfinite", n, form))
                        qa = np.asarray(q, dtype=float)
                        oa = np.asarray(out)
                        P.cases += 1
                        if (np.isscalar(q) and not np.isscalar(out)) or oa.shape != qa.shape:
                            add_violation(P, f"{tag}: after [{' '.join(done)}] get_measurement({form} query of shape {qa.shape}, {n!r}) returned {desc(out)}",
                                          {"check": "measurement", "problem": "shape", "mode": mode, "how": form}, case, {"ops": list(done)})
                        else:
                            yr = np.array(np.real(y), dtype=float, copy=True)
                            yi = np.array(np.imag(y), dtype=float, copy=True) if np.iscomplexobj(y) else None
                            for x, ov in zip(qa.ravel(), oa.ravel()):
                                check_value(P, case, tag + f" after [{' '.join(done)}]", n, fgrid, yr, yi, float(x), ov, mode, "query-" + form, kind)
                    if not check_untouched(P, cur, case, tag, ref_sorted, alias_group(n), done, "query"):
                        return cur
                elif op == "rms":
                    band = None
                    form = arg if arg in RMS_FORMS + ["outside"] else "none"
                    if grid_ok and (arg == "band" or (not arg and rng.random() < 0.6)):
                        a, b = sorted(float(v) for v in rng.uniform(0.5 * float(fgrid[0]), 1.5 * float(fgrid[-1]) + 1e-3, size=2))
                        band = (a, b) if rng.random() < 0.8 else (b, a)
                        form = "band"
                    elif not arg and grid_ok and rng.random() < 0.75:
                        form = str(rng.choice(RMS_FORMS))
                    if form not in ("none", "band"):
                        band = rms_band(rng, fgrid if grid_ok else None, form)
                    done.append("rms" if form == "none" else f"rms:{form}")
                    try:
                        cur.get_rms(band)
                        P.hit(f"seq.rms.{form}.answered")
                    except Exception:  # noqa  (cross results, one-bin tables, empty bands: whether get_rms answers is not this property)
                        P.hit("seq.rms.raised")
                    if not check_untouched(P, cur, case, tag, ref_sorted, ["f", "asd", "psd", "Gxx", "G", "ENBW", "ps"], done, "rms"):
                        return cur
                elif op == "read":
                    n = arg or str(rng.choice(allnames))
                    done.append(f"read:{n}")
                    try:
                        v = getattr(cur, n)
                    except AttributeError:
                        v = "<AttributeError>"
                    b = ref_sorted[n]
                    if n != "compute_t" and not snap_same(v, b):
                        add_violation(P, f"{tag}: after [{' '.join(done)}] attribute {n} is {desc(v) if not isinstance(v, str) else v}, the untouched twin has "
                                         f"{desc(b) if not isinstance(b, str) else b}", {"check": "sequence", "mode": mode, "what": "read"}, case, {"ops": done, "name": n})
                        return cur
                elif op == "copy":
                    done.append(op)
                    cur = copy.copy(cur)
                elif op == "deepcopy":
                    done.append(op)
                    cur = copy.deepcopy(cur)
                elif op == "pickle":
                    proto = int(arg) if arg else int(rng.integers(2, pickle.HIGHEST_PROTOCOL + 1))
                    done.append(f"pickle:{proto}")
                    cur = pickle.loads(pickle.dumps(cur, protocol=proto))
                elif op == "df":
                    done.append(op)
                    check_dataframe(P, cur, case, tag + f" after [{' '.join(done)}]", names, ref_sorted)
                elif op == "dfmut":
                    op_dfmut(P, cur, case, tag, rng, names, ref_sorted, done, arg)
                elif op == "qmut":
                    if not grid_ok:
                        P.hit("seq.qmut.no-grid")
                        continue
                    op_qmut(P, cur, case, tag, rng, ref_sorted, done, arg, fgrid, allnames)
                elif op == "dirmut":
                    op_dirmut(P, cur, rng, done)
                elif op == "meas":
                    done.append(op)
                    check_measurement(P, cur, case, tag + f" after [{' '.join(done)}]", rng, ref_sorted, light=True, names=allnames)
                elif op == "len":
                    done.append(op)
                    if len(cur) != len(ref_sorted["f"]):
                        add_violation(P, f"{tag}: after [{' '.join(done)}] len(result) = {len(cur)} but there are {len(ref_sorted['f'])} bins",
                                      {"check": "sequence", "mode": mode, "what": "len"}, case, {"ops": done})
                elif op == "repr":
                    done.append(op)
                    if not isinstance(repr(cur), str):
                        raise TypeError("repr did not return a string")
                elif op == "dir":
                    done.append(op)
                    dir(cur)
        except Exception as ex:  # noqa
            add_violation(P, f"{tag}: operation sequence [{' '.join(done)}] raised {type(ex).__name__}: {str(ex)[:120]}",
                          {"check": "sequence", "mode": mode, "what": "raises", "op": op.split(":")[0], "exc": type(ex).__name__}, case, {"ops": done})
            return cur
        if type(cur) is not type(res):
            add_violation(P, f"{tag}: after [{' '.join(done)}] the object is a {type(cur).__name__}", {"check": "sequence", "mode": mode, "what": "type"}, case, {"ops": done})
            return cur
        # after EVERY operation: all of dir(result) against the pristine twin, and the identities
        try:
            if not check_step(P, cur, case, tag, ref_sorted, done, via, rng, ct0, pub):
                return cur
        except Exception as ex:  # noqa  (reading / deep-copying a result that went through read-only operations raised: a failure of the property)
            add_violation(P, f"{tag}: after [{' '.join(done)}] re-reading the result ({via}) raised {type(ex).__name__}: {str(ex)[:120]}",
                          {"check": "step", "mode": mode, "what": "raises", "via": via, "exc": type(ex).__name__}, case, {"ops": list(done)})
            return cur
    if any(o.split(":")[0] in ("copy", "deepcopy", "pickle") for o in done):
        P.nontrivial.add((kind, mode, "seq", tuple(o.split(":")[0] for o in done)))
    # final object: first read (random order), then a second read of everything (a read must not disturb what was read before)
    order = [str(n) for n in rng.permutation(allnames)]
    first = snapshot(cur, order)
    if not compare_snap(P, case, tag, first, ref_sorted, "final object", done):
        return cur
    second = snapshot(cur, allnames)
    if not compare_snap(P, case, tag, second, ref_sorted, "final object (second read)", done):
        return cur
    if ct0 is not None and cur is not res:
        P.cases += 1
        if not bits_equal(first.get("compute_t"), ct0):
            add_violation(P, f"{tag}: after [{' '.join(done)}] compute_t differs from the original's", {"check": "sequence", "mode": mode, "what": "compute_t"}, case, {"ops": done})
    # the original must be unaffected by whatever happened to its copies
    orig = snapshot(res, allnames)
    compare_snap(P, case, tag, orig, ref_sorted, "original object", done)
    for o in (res, cur):
        P.cases += 1
        try:
            if len(o) != len(ref_sorted["f"]) or not isinstance(repr(o), str):
                add_violation(P, f"{tag}: len/repr inconsistent after [{' '.join(done)}]", {"check": "sequence", "mode": mode, "what": "len"}, case, {"ops": done})
        except Exception as ex:  # noqa
            add_violation(P, f"{tag}: len/repr raised {ex!r} after [{' '.join(done)}]", {"check": "sequence", "mode": mode, "what": "raises", "op": "len/repr"}, case, {"ops": done})
    return cur


# ---------------------------------------------------------------- one case
def run_case(P: C.Part, recipe: Dict[str, Any], case_seed: int, names: List[str], forced_ops: Optional[List[str]] = None, plots: int = 0,
             phase: Optional[int] = None) -> None:
    """plots = number of figure-making plot() calls mixed into the random operation sequence of this case, phase = the (deg, unwrap, dB) setting of
    its bode plots (both part of the replay)"""
    rng = np.random.default_rng(int(case_seed))
    case = {"recipe": recipe, "case_seed": int(case_seed), "forced_ops": forced_ops, "plots": int(plots), "plot_phase": None if phase is None else int(phase)}
    kind = recipe["kind"]
    try:
        res = build(recipe)
        twin = build(recipe)
    except LIBERR as ex:  # noqa  (whether a result can be computed at all is not this property)
        P.hit(f"build-failed.{kind}.{type(ex).__name__}")
        return
    mode = "cross" if res.iscsd else "auto"
    tag = f"{kind}/{mode} nf={res.nf}"
    P.hit(f"kind.{kind}.{mode}")
    P.hit("nf=1" if res.nf == 1 else ("nf=2" if res.nf == 2 else "nf>2"))
    if recipe["fn"] != "fake":
        P.hit(f"sched.{recipe.get('kw', {}).get('scheduler', 'single-bin')}")
        Kq = read(twin, "K")
        P.hit("plan.equal-K" if len(set(int(k) for k in Kq)) == 1 else "plan.ragged-K")
    allnames = list(names) + ["G"]
    # twin must carry the same base estimates (it does unless the computation is not reproducible: then compare with itself)
    base = ["f", "XX", "YY", "XY", "S12", "S2", "M2", "navg", "L", "K"]
    if not all(bits_equal(read(res, b), read(twin, b)) for b in base):
        P.hit("twin-not-bit-identical")
        twin = res
    mode_sig = {"check": "crash", "mode": mode}
    box: Dict[str, Any] = {}
    try:
        final = check_sequence(P, res, twin, case, tag, rng, allnames, box)
    except Exception as ex:  # noqa  (an attribute read / export that raises on a real result is a failure of the property, not of the check)
        add_violation(P, f"{tag}: the operation sequence raised {type(ex).__name__}: {str(ex)[:160]}", dict(mode_sig, stage="sequence", exc=type(ex).__name__), case)
        final = twin
    for obj, t in ((twin, tag), (final, tag + " (after the operation sequence)")):
        if len(P.violations) >= MAX_VIOL:
            return
        for stage, fn in (("none-table", lambda: check_none_table(P, obj, case, t, allnames)),
                          ("identities", lambda: check_identities(P, obj, case, t)),
                          ("measurement", lambda: check_measurement(P, obj, case, t, rng, light=obj is not twin, names=allnames + ["XX", "YY", "XY", "navg", "f"])
                           if (obj is twin or rng.random() < 0.5) else None),
                          ("to_dataframe", lambda: check_dataframe(P, obj, case, t, allnames))):
            try:
                fn()
            except Exception as ex:  # noqa
                add_violation(P, f"{t}: {stage} check: the result raised {type(ex).__name__}: {str(ex)[:160]}", dict(mode_sig, stage=stage, exc=type(ex).__name__), case)
        if obj is final and final is twin:
            break
    # HISTORY on the twin: it has now answered the full set of get_measurement queries (all shapes, rejected non-finite queries included),
    # to_dataframe and every attribute read; it must still report what it reported before any query (snapshot taken by check_sequence)
    if box.get("ref") is not None and twin is not res and len(P.violations) < MAX_VIOL:
        try:
            check_untouched(P, twin, case, tag, box["ref"], list(box["ref"].keys()), ["full get_measurement / to_dataframe / identity checks"], "twin-after-queries")
        except Exception as ex:  # noqa
            add_violation(P, f"{tag}: re-reading the attributes after the queries raised {type(ex).__name__}: {str(ex)[:160]}", dict(mode_sig, stage="history", exc=type(ex).__name__), case)


def corpus() -> List[Tuple[Dict[str, Any], int, List[str]]]:
    """design-phase witnesses: D4 (copy/deepcopy/pickle -> RecursionError for any result), D5 (to_dataframe raised for single-bin
    results and for plans whose bins share one segment count)"""
    r0 = np.random.default_rng(0)
    x = r0.standard_normal(256)
    y = 0.7 * np.roll(x, 3) + 0.3 * r0.standard_normal(256)
    xy = np.stack([x, y])
    out = []
    out.append(({"fn": "compute_spectrum", "kind": "corpus-D4", "iscsd": True, "fs": 2.0, "data": xy, "kw": {"Jdes": 20, "Kdes": 5, "order": 0, "win": "hann"}},
                1, ["copy", "read", "deepcopy", "pickle", "read", "df", "copy", "pickle", "meas"]))
    out.append(({"fn": "compute_spectrum", "kind": "corpus-D4", "iscsd": False, "fs": 1.0, "data": x, "kw": {"Jdes": 15, "Kdes": 3}},
                2, ["pickle", "copy", "deepcopy", "read", "len", "repr"]))
    out.append(({"fn": "compute_single_bin", "kind": "corpus-D5", "iscsd": False, "fs": 2.0, "data": x, "freq": 0.3, "sb": {"L": 64}, "kw": {}},
                3, ["df", "copy", "df", "pickle", "df", "deepcopy", "df"]))
    out.append(({"fn": "compute_single_bin", "kind": "corpus-D5", "iscsd": True, "fs": 2.0, "data": xy.T.copy(), "freq": 0.25, "sb": {"fres": 2.0 / 32}, "kw": {"order": 1}},
                4, ["df", "deepcopy", "df", "meas"]))
    out.append(({"fn": "compute_spectrum", "kind": "corpus-D5", "iscsd": False, "fs": 1.0, "data": x[:120], "kw": {"Lmin": 120, "Jdes": 20, "Kdes": 5, "scheduler": "ltf"}},
                5, ["df", "copy", "df", "pickle", "df"]))
    out.append(({"fn": "compute_spectrum", "kind": "corpus-D5", "iscsd": True, "fs": 1.0, "data": xy[:, :90], "kw": {"Lmin": 90, "Jdes": 10, "Kdes": 2}},
                6, ["df", "deepcopy", "df", "read", "pickle", "df"]))
    # seeded defect C20c (get_measurement rewrote the cached table in place, -inf/inf/NaN -> 0): dead second channel, full plan and single bin;
    # a query on every quantity whose documented value is non-finite, then reads / copies / exports
    z = np.zeros(256)
    out.append(({"fn": "compute_spectrum", "kind": "corpus-C20c", "iscsd": True, "fs": 2.0, "data": np.stack([x, z]), "kw": {"Jdes": 20, "Kdes": 5, "order": 0, "win": "hann"}},
                7, ["query:cf_db", "read:cf_db", "query:coh_error", "copy", "query:Hxy_dev", "query:tf", "pickle", "query:Gxy_error", "df", "rms"]))
    out.append(({"fn": "compute_single_bin", "kind": "corpus-C20c", "iscsd": True, "fs": 2.0, "data": np.stack([x, z]).T.copy(), "freq": 0.25, "sb": {"L": 64}, "kw": {}},
                8, ["query:cf_db", "query:Gxy_dev", "deepcopy", "read:cf_db", "query:Hxy_mag_error", "df"]))
    out.append(({"fn": "compute_spectrum", "kind": "corpus-C20c", "iscsd": True, "fs": 1.0, "data": np.stack([z, x]), "kw": {"Jdes": 12, "Kdes": 2}},
                9, ["meas", "query:cf_db", "query:Hxy_rad_error", "query:XX", "pickle", "meas"]))
    out.append(({"fn": "compute_spectrum", "kind": "corpus-C20c", "iscsd": False, "fs": 1.0, "data": z, "kw": {"Jdes": 12, "Kdes": 2}},
                10, ["rms", "query:asd", "query:psd", "rms", "df", "query:Gxx_dev"]))
    # seeded defect C10g (plot(which="bode", errors=True, sigma=k) scaled the cached Hxy_mag_error / Hxy_deg_error / Hxy_rad_error IN PLACE): plots with
    # an error band of sigma != 1 (degree band, radian band, a single-axis quantity), each followed by reads / exports / further plots; and the
    # auto-spectrum example of the README (3-sigma band on the asd) followed by the remaining read-only operations
    out.append(({"fn": "compute_spectrum", "kind": "corpus-C10g", "iscsd": True, "fs": 2.0, "data": xy, "kw": {"Jdes": 20, "Kdes": 5, "order": 0, "win": "hann"}},
                11, ["plot:which=bode,errors=True,sigma=3", "read:Hxy_mag_error", "plot:which=None,errors=True,sigma=2,deg=False,dB=True,unwrap=False", "df",
                     "copy", "plot:which=coh,errors=True,sigma=0.5", "query:Hxy_rad_error", "pickle:4", "read:Hxy_deg_error"]))
    out.append(({"fn": "compute_spectrum", "kind": "corpus-C10g", "iscsd": False, "fs": 1.0, "data": x, "kw": {"Jdes": 15, "Kdes": 3}},
                12, ["plot:which=asd,errors=True,sigma=3", "rms:inside", "read:asd", "plot:which=bode,errors=True,sigma=2", "repr", "len", "dir", "rms:grid", "df"]))
    # seeded defect C20h (to_dataframe() memoised the frame in the lazy cache and handed THE SAME mutable object to every later call; copy.copy shares
    # the cache dictionary, deepcopy / pickle carry the frame along): export, the caller converts units / drops a column / overwrites a row / re-indexes
    # its frame, export again - of the result and of its copies; auto and cross, full and single-bin; get_measurement outputs likewise
    out.append(({"fn": "compute_spectrum", "kind": "corpus-C20h", "iscsd": False, "fs": 1.0, "data": x, "kw": {"Jdes": 15, "Kdes": 3}},
                13, ["df", "dfmut:scale+drop", "copy", "df", "pickle:4", "df", "qmut:asd:scale:nan"]))
    out.append(({"fn": "compute_spectrum", "kind": "corpus-C20h", "iscsd": True, "fs": 2.0, "data": xy, "kw": {"Jdes": 20, "Kdes": 5, "order": 0, "win": "hann"}},
                14, ["dfmut:scale-inplace+rename@copy", "df", "deepcopy", "dfmut:row0+index", "qmut:Hxy:nan:reverse", "df"]))
    out.append(({"fn": "compute_single_bin", "kind": "corpus-C20h", "iscsd": False, "fs": 2.0, "data": x, "freq": 0.3, "sb": {"L": 64}, "kw": {}},
                15, ["dfmut:scale+drop", "pickle:2", "dfmut:values+iloc-col", "df"]))
    out.append(({"fn": "compute_single_bin", "kind": "corpus-C20h", "iscsd": True, "fs": 2.0, "data": xy.T.copy(), "freq": 0.25, "sb": {"fres": 2.0 / 32}, "kw": {"order": 1}},
                16, ["read:cf", "dfmut:swap-names+del", "copy", "dfmut:all-zero@copy", "qmut:cf:zero:keep", "df"]))
    return out


# ---------------------------------------------------------------- correspondence
def bin_of(res, j: int) -> Dict[str, Any]:
    return {"XX": float(res.XX[j]), "YY": float(res.YY[j]), "XY": complex(res.XY[j]), "S12": float(res.S12[j]), "S2": float(res.S2[j]),
            "M2": float(res.M2[j]), "navg": int(res.navg[j])}


def corr_none_tables(ctx, P: C.Part, names: List[str]) -> None:
    """(b) the set of names whose value is None on real auto / cross results == the generated Gen.Auto.noneNames / Gen.Cross.noneNames"""
    for kind in ("full", "single", "equalK-Lmin", "fake"):
        for cross in (False, True):
            try:
                rec = gen_recipe(ctx.rng, kind, cross)
                res = build(rec)
            except LIBERR as ex:  # noqa
                P.notes.append(f"none-table: could not build {kind}: {ex!r}"[:160])
                continue
            mode = "cross" if cross else "auto"
            b = bin_of(res, int(ctx.rng.integers(0, res.nf)))
            impl_none, model_none = set(), set()
            for name in names + ["G"]:
                try:
                    v = read(res, name)
                except Exception as ex:  # noqa
                    P.disagreements.append({"op": "none-table", "mode": mode, "name": name, "impl_raised": repr(ex)})
                    continue
                if name in SEQ:
                    P.hit("none-table.sequence-level-name-not-modelled")
                    continue
                P.cases += 1
                try:
                    m = _an.driver_attr(ctx.driver, mode, name, b, float(res.fs))
                except RuntimeError as ex:
                    P.disagreements.append({"op": "none-table", "mode": mode, "name": name, "model_error": str(ex)[:120], "case": recipe_summary(rec)})
                    continue
                P.nontrivial.add(("none-table", kind, mode, name))
                if v is None:
                    impl_none.add(name)
                if m is None:
                    model_none.add(name)
            P.hit(f"none-table.{kind}.{mode}")
            if impl_none != model_none:
                P.disagreements.append({"op": "none-table", "mode": mode, "kind": kind, "impl_only_none": sorted(impl_none - model_none),
                                        "model_only_none": sorted(model_none - impl_none), "case": recipe_summary(rec)})


def corr_interp(ctx, P: C.Part) -> None:
    """(c) real get_measurement vs Model.interp (driver) on (f, real part) and (f, imaginary part)"""
    n_res = ctx.scale(18, 180)
    for i in range(n_res):
        if ctx.time_left() < 60:
            P.notes.append("interp correspondence: time budget reached")
            break
        kind = ["full", "band", "fake", "single", "full", "equalK-band"][i % 6]
        try:
            rec = gen_recipe(ctx.rng, kind)
            if rec["fn"] == "compute_spectrum":
                rec["kw"]["Jdes"] = min(int(rec["kw"].get("Jdes", 10)), 25)
            res = build(rec)
        except LIBERR as ex:  # noqa
            P.notes.append(f"interp: could not build {kind}: {ex!r}"[:160])
            continue
        f = np.asarray(res.f, dtype=float)
        if len(f) > 120 or (len(f) > 1 and not np.all(np.diff(f) > 0)):
            continue
        mode = "cross" if res.iscsd else "auto"
        for which in (["Hxy", "Gxy", "coh", "ccoh"] if res.iscsd else ["asd", "psd"]):
            y = read(res, which)
            if y is None or not np.all(np.isfinite(y)):
                P.hit("interp.skipped-nonfinite-table")
                continue
            xs = queries(ctx.rng, f)
            cplx = np.iscomplexobj(y)
            scale = float(np.max(np.abs(y))) if len(y) else 0.0
            model_re = ctx.driver.floats("interp " + C.arr(f) + " " + C.arr(np.real(y)) + " " + C.arr(xs))
            model_im = ctx.driver.floats("interp " + C.arr(f) + " " + C.arr(np.imag(y)) + " " + C.arr(xs)) if cplx else [0.0] * len(xs)
            try:
                with quiet():
                    impl_arr = res.get_measurement(np.array(xs), which)
            except LIBERR as ex:  # noqa  (the real method raises on a finite query of a finite table: a disagreement, not an infrastructure error)
                P.disagreements.append({"op": "interp", "which": which, "mode": mode, "impl_raised": repr(ex)[:160], "x": xs, "case": recipe_summary(rec)})
                continue
            for k, x in enumerate(xs):
                P.cases += 1
                cls = ref_interp(f, np.real(y).astype(float), x)[2]
                P.hit(f"interp.{cls}")
                P.nontrivial.add(("interp", mode, which, cls, min(len(f), 3)))
                try:
                    with quiet():
                        impl = complex(impl_arr[k]) if (k % 3) else complex(res.get_measurement(float(x), which))
                except LIBERR as ex:  # noqa
                    P.disagreements.append({"op": "interp", "which": which, "mode": mode, "impl_raised": repr(ex)[:160], "x": x, "case": recipe_summary(rec)})
                    continue
                m = complex(model_re[k], model_im[k])
                tol = 0.0 if cls in ("grid", "below", "above") else 1e-12 * scale
                if not (abs(impl.real - m.real) <= tol and abs(impl.imag - m.imag) <= tol):
                    P.disagreements.append({"op": "interp", "which": which, "mode": mode, "x": x, "class": cls, "impl": impl, "model": m, "tol": tol,
                                            "f": f.tolist(), "y_re": np.real(y).tolist(), "y_im": np.imag(y).tolist(), "case": recipe_summary(rec)})
            if i < 2:
                P.sample({"op": "interp", "which": which, "mode": mode, "nf": len(f), "x": xs[-3], "impl": complex(impl_arr[-3]), "model": complex(model_re[-3], model_im[-3])})


# ---------------------------------------------------------------- generated region ResultQueries vs the real code
def _eqnan(a: float, b: float) -> bool:
    return (a == b) or (a != a and b != b)


def _rq_results(rng: np.random.Generator, P: C.Part, what: str, kinds: List[Tuple[str, bool]]):
    for kind, cross in kinds:
        try:
            rec = gen_recipe(rng, kind, cross)
            if rec["fn"] == "compute_spectrum":
                rec["kw"]["Jdes"] = min(int(rec["kw"].get("Jdes", 10)), 25)
            yield rec, build(rec)
        except LIBERR as ex:  # noqa
            P.notes.append(f"{what}: could not build {kind}: {ex!r}"[:160])


def rq_assemble(ctx, P: C.Part, rng: np.random.Generator) -> None:
    """Gen.compute_assemble (driver, Float) fed with the rows of the REAL _lpsd_core — shuffled, optionally with non-finite components
    injected — vs the `_data` arrays of the result the REAL compute() builds from exactly those rows"""
    n_cases = ctx.scale(80, 400)
    for ci in range(n_cases):
        kind = ["full", "band", "equalK-Lmin", "full"][ci % 4]
        cross = bool(ci % 2)
        inject = ci % 3 == 2
        try:
            rec = gen_recipe(rng, kind, cross)
            rec["kw"]["Jdes"] = min(int(rec["kw"].get("Jdes", 10)), 30)
            kw = dict(rec["kw"])
            if kw.get("band") is not None:
                kw["band"] = (float(kw["band"][0]), float(kw["band"][1]))
            with quiet():
                an = _an.analyzer(np.asarray(rec["data"], dtype=float), float(rec["fs"]), **kw)
            orig = an._lpsd_core
            box: Dict[str, Any] = {}

            def patched(f_indices, _orig=orig, _box=box):
                rows = [list(r) for r in _orig(f_indices)]
                rows = [rows[j] for j in rng.permutation(len(rows))]
                if inject and rows:
                    for _ in range(int(rng.integers(1, 6))):
                        r = rows[int(rng.integers(0, len(rows)))]
                        bad = float(rng.choice([np.nan, np.inf, -np.inf]))
                        pos = int(rng.integers(1, 8))
                        if pos == 1:
                            r[1] = complex(bad, r[1].imag) if rng.random() < 0.5 else complex(r[1].real, bad)
                        else:
                            r[pos] = bad
                _box["rows"] = rows
                return rows
            an._lpsd_core = patched
            with quiet():
                res = an.compute()
        except LIBERR as ex:  # noqa
            P.notes.append(f"rq-assemble: could not compute {kind}: {ex!r}"[:160])
            continue
        rows = box.get("rows")
        if rows is None:
            P.disagreements.append({"op": "rq_assemble", "problem": "compute() did not call _lpsd_core", "case": recipe_summary(rec)})
            continue
        nf = int(res.nf)
        line = f"rq_assemble {nf} {len(rows)}"
        for r in rows:
            z = complex(r[1])
            line += f" {int(r[0])} {C.f2h(z.real)} {C.f2h(z.imag)} " + " ".join(C.f2h(float(v)) for v in r[2:8])
        reply = ctx.driver.ask(line)
        P.cases += 1
        P.hit(f"rq.assemble.{'cross' if cross else 'auto'}.{'injected-nonfinite' if inject else 'shuffled'}")
        P.nontrivial.add(("rq-assemble", kind, cross, inject, min(nf, 4)))
        if reply.startswith("ERR"):
            P.disagreements.append({"op": "rq_assemble", "model_error": reply[:160], "case": recipe_summary(rec)})
            continue
        got = [[C.h2f(t) for t in part.split()] for part in reply.split("|")]
        d = vars(res)["_data"]
        want = [d["XX"], d["YY"], np.real(d["XY"]), np.imag(d["XY"]), d["S12"], d["S2"], d["M2"], d["compute_t"]]
        labels = ["XX", "YY", "Re XY", "Im XY", "S12", "S2", "M2", "compute_t"]
        for lab, g, w in zip(labels, got, want):
            w = [float(x) for x in np.asarray(w).ravel()]
            if len(g) != len(w) or not all(_eqnan(a, b) for a, b in zip(g, w)):
                bad = [k for k, (a, b) in enumerate(zip(g, w)) if not _eqnan(a, b)][:5]
                P.disagreements.append({"op": "rq_assemble", "field": lab, "first_bad_bins": bad, "model": [g[k] for k in bad], "impl": [w[k] for k in bad],
                                        "nf": nf, "len_model": len(g), "rows": [[int(r[0])] + [complex(r[1])] + [float(v) for v in r[2:8]] for r in rows][:40],
                                        "case": recipe_summary(rec)})
                break
        if ci < 1:
            P.sample({"op": "rq_assemble", "nf": nf, "row_order": [int(r[0]) for r in rows][:12], "XX_model": got[0][:3], "XX_impl": [float(x) for x in d["XX"][:3]]})


def rq_getattr(ctx, P: C.Part, rng: np.random.Generator, names: List[str]) -> None:
    """Gen.getattr_protocol (driver) vs real attribute reads over random access sequences: outcome of each read (raises / formula value /
    the very object stored in `_data`) and the set of cached names after each read"""
    from ..regions import result_queries as RQ
    try:
        tabs = RQ.touched_tables(C.REPO)
    except Exception as ex:  # noqa
        P.disagreements.append({"op": "rq_getattr", "problem": f"nested-read tables could not be extracted: {ex!r}"[:200]})
        return
    kinds = [("full", False), ("full", True), ("single", False), ("single", True), ("fake", True), ("equalK-Lmin", False), ("band", True), ("fake", False)]
    for rec, res in _rq_results(rng, P, "rq-getattr", kinds[:ctx.scale(8, 8)]):
        mode = "cross" if res.iscsd else "auto"
        tab = tabs["Cross" if res.iscsd else "Auto"]
        keys = [k for k in data_keys(res) if k.isidentifier()]
        skip = lambda n: n in vars(res) or hasattr(type(res), n)        # real instance / class attributes never reach __getattr__
        pool = [n for n in names + ["G"] if tab.get(n) is not None and not skip(n)]
        pool_data = [k for k in keys if not skip(k)]
        extra = ["_zzz", "__nope__", "_", "nonexistent", "psd2", "Gzz", "PSD", "cf_", "f2", "XX_"]
        if mode == "auto":
            extra += ["foo_dev", "bar_error"]          # formula-table names with value None (cross: their branch also reads self.coh — not tabulated)
        for rep in range(ctx.scale(12, 40)):
            seq = [str(rng.choice(pool)) if rng.random() < 0.6 else (str(rng.choice(pool_data)) if rng.random() < 0.55 else str(rng.choice(extra)))
                   for _ in range(int(rng.integers(8, 30)))]
            vars(res)["_cache"].clear()
            impl = []
            for n in seq:
                try:
                    v = read(res, n)
                    tag = ("D:" + n) if (n in vars(res)["_data"] and v is vars(res)["_data"][n]) else ("F:" + n)
                except AttributeError:
                    tag = "RAISE"
                except Exception as ex:  # noqa
                    tag = "EXC:" + type(ex).__name__
                impl.append(tag + "#" + ",".join(sorted(vars(res)["_cache"].keys())))
            reply = ctx.driver.ask(f"rq_getattr {mode} {len(keys)} " + " ".join(keys) + f" {len(seq)} " + " ".join(seq))
            model = reply.split(" ") if reply else []
            P.cases += len(seq)
            P.hit(f"rq.getattr.{mode}.{rec['kind']}")
            for n, a in zip(seq, impl):
                P.hit("rq.getattr.read." + ("raise" if a.startswith("RAISE") else "data" if a.startswith("D:") else "formula"))
            P.nontrivial.add(("rq-getattr", mode, rec["kind"], tuple(seq[:6])))
            if model != impl:
                k = next((j for j, (a, b) in enumerate(zip(model, impl)) if a != b), min(len(model), len(impl)))
                P.disagreements.append({"op": "rq_getattr", "mode": mode, "sequence": seq, "first_difference_at": k, "name": seq[k] if k < len(seq) else None,
                                        "model": model[k] if k < len(model) else None, "impl": impl[k] if k < len(impl) else None,
                                        "case": recipe_summary(rec)})
            if rep == 0 and mode == "cross":
                P.sample({"op": "rq_getattr", "mode": mode, "sequence": seq[:5], "impl": impl[:5], "model": model[:5]})
        vars(res)["_cache"].clear()


def rq_meas(ctx, P: C.Part, rng: np.random.Generator) -> None:
    """Gen.get_measurement (driver; np.interp = Model.interp in Float) vs the real method: real and complex quantities, at grid points, between,
    outside; Python scalar, NumPy scalar, 0-d / 1-D / 2-D / empty arrays, lists; non-finite queries (ValueError)"""
    kinds = [("full", False), ("full", True), ("fake", True), ("single", True), ("band", False), ("equalK-band", True), ("fake", False), ("single", False)]
    for rec, res in _rq_results(rng, P, "rq-meas", kinds * ctx.scale(3, 10)):
        f = np.asarray(res.f, dtype=float)
        if len(f) > 120 or (len(f) > 1 and not np.all(np.diff(f) > 0)):
            continue
        mode = "cross" if res.iscsd else "auto"
        for which in (["Hxy", "ccoh", "coh", "Gxy"] if res.iscsd else ["asd", "Gxx"]):
            y = read(res, which)
            if y is None or not np.all(np.isfinite(y)):
                P.hit("rq.meas.skipped-nonfinite-table")
                continue
            cplx = bool(np.iscomplexobj(y))
            scale = float(np.max(np.abs(y))) if len(y) else 0.0
            tbl = ("c " + C.arr(np.real(y)) + " " + C.arr(np.imag(y))) if cplx else ("r " + C.arr(y))
            xs = queries(rng, f)
            forms: List[Tuple[str, Any]] = []
            for x in xs[:6]:
                forms.append(("pyfloat", float(x)))
            forms.append(("npfloat", np.float64(xs[int(rng.integers(0, len(xs)))])))
            forms.append(("0d", np.array(float(xs[int(rng.integers(0, len(xs)))]))))
            forms.append(("1d", np.array(xs, dtype=float)))
            forms.append(("list", [float(x) for x in xs[:3]]))
            forms.append(("2d", np.array((xs + xs)[:2 * (len(xs) // 2) * 1], dtype=float).reshape(2, -1) if len(xs) >= 2 else np.zeros((1, 1)) + xs[0]))
            forms.append(("empty", np.array([], dtype=float)))
            forms.append(("nonfinite-scalar", float(rng.choice([np.nan, np.inf, -np.inf]))))
            forms.append(("nonfinite-array", np.array([xs[0], np.nan, xs[-1]])))
            for how, q in forms:
                flat = [float(v) for v in np.asarray(q, dtype=float).ravel()]
                scalar = bool(np.isscalar(q))
                qline = ("s " + C.f2h(flat[0])) if scalar else ("a " + C.arr(flat))
                reply = ctx.driver.ask("rq_meas " + C.arr(f) + " " + tbl + " " + qline)
                P.cases += 1
                P.hit(f"rq.meas.{how}.{'complex' if cplx else 'real'}")
                P.nontrivial.add(("rq-meas", mode, which, how, min(len(f), 3)))
                try:
                    with quiet():
                        out = res.get_measurement(q, which)
                    impl_kind = None
                except ValueError:
                    out, impl_kind = None, "none"
                except Exception as ex:  # noqa
                    out, impl_kind = None, "EXC:" + type(ex).__name__
                problem = None
                if impl_kind is None:
                    is_sc = type(out) in (float, complex, int)          # a Python scalar (the result of .item()); NumPy scalars / 0-d arrays have a shape
                    impl_c = bool(np.iscomplexobj(out))
                    impl_kind = ("s" if is_sc else "a") + ("C" if impl_c else "R")
                    if not is_sc and np.shape(out) != np.shape(q):
                        problem = f"shape {np.shape(out)} for a query of shape {np.shape(q)}"
                toks = reply.split()
                mk = toks[0] if toks else ""
                if problem is None and mk != impl_kind:
                    problem = f"kind: model {mk}, impl {impl_kind}"
                if problem is None and impl_kind != "none":
                    mv = [C.h2f(t) for t in toks[1:]]
                    iv = np.asarray(out).ravel()
                    iv = [c for z in iv for c in (float(np.real(z)), float(np.imag(z)))] if impl_kind[1] == "C" else [float(v) for v in iv]
                    if len(mv) != len(iv):
                        problem = f"length: model {len(mv)}, impl {len(iv)}"
                    else:
                        for k, (a, b) in enumerate(zip(mv, iv)):
                            x = flat[k // 2 if impl_kind[1] == "C" else k]
                            cls = ref_interp(f, np.real(y).astype(float), x)[2]
                            tol = 0.0 if cls in ("grid", "below", "above") else 1e-12 * scale
                            if not (abs(a - b) <= tol):
                                problem = f"value at x={x!r} ({cls}): model {a!r}, impl {b!r}, tol {tol}"
                                break
                if problem:
                    P.disagreements.append({"op": "rq_meas", "which": which, "mode": mode, "query_form": how, "query": flat[:12], "problem": problem,
                                            "f": f.tolist(), "y_re": np.real(y).tolist(), "y_im": np.imag(y).tolist(), "case": recipe_summary(rec)})


def _attr_status(res, name: str) -> str:
    try:
        v = read(res, name)
    except AttributeError:
        return "E"
    if callable(v):
        return "C"
    if isinstance(v, np.ndarray):
        return "A:" + ",".join(str(int(k)) for k in v.shape)
    return "O"


def rq_dataframe(ctx, P: C.Part, rng: np.random.Generator) -> None:
    """Gen.to_dataframe (driver) on the attribute table of a real result (name -> raises / callable / ndarray shape / other, over dir(result)) vs the
    index and the columns of the real to_dataframe(); Gen.result_dir vs the real __dir__ / dir()"""
    kinds = [("full", False), ("full", True), ("single", False), ("single", True), ("equalK-Lmin", True), ("fake", False), ("band", True), ("equalK-band", False)]
    for rec, res in _rq_results(rng, P, "rq-df", kinds * ctx.scale(3, 10)):
        mode = "cross" if res.iscsd else "auto"
        # __dir__
        dflt = [n for n in object.__dir__(res)]
        keys = data_keys(res)
        ok_tok = lambda n: isinstance(n, str) and n and " " not in n
        if all(ok_tok(n) for n in dflt + keys):
            reply = ctx.driver.ask(f"rq_dir {len(dflt)} " + " ".join(dflt) + f" {len(keys)} " + " ".join(keys))
            P.cases += 1
            P.hit(f"rq.dir.{mode}")
            impl_dir = list(type(res).__dir__(res))
            if reply.split(" ") != impl_dir or sorted(impl_dir) != list(dir(res)):
                model_dir = reply.split(" ")
                P.disagreements.append({"op": "rq_dir", "mode": mode, "model_only": sorted(set(model_dir) - set(impl_dir))[:10],
                                        "impl_only": sorted(set(impl_dir) - set(model_dir))[:10], "same_set": set(model_dir) == set(impl_dir),
                                        "case": recipe_summary(rec)})
        # to_dataframe
        dnames = [n for n in dir(res)]
        if not all(ok_tok(n) for n in dnames):
            continue
        table = [(n, _attr_status(res, n)) for n in dnames]
        reply = ctx.driver.ask(f"rq_df {len(table)} " + " ".join(f"{n} {st}" for n, st in table))
        P.cases += 1
        P.hit(f"rq.df.{rec['kind']}.{mode}")
        P.nontrivial.add(("rq-df", rec["kind"], mode, min(int(res.nf), 3)))
        try:
            with quiet():
                df = res.to_dataframe()
            impl = [str(df.index.name)] + [str(c) for c in df.columns]
        except Exception as ex:  # noqa
            impl = ["EXC:" + type(ex).__name__]
        model = reply.split(" ")
        if reply == "none":
            model = ["none"]
        if model != impl:
            P.disagreements.append({"op": "rq_df", "mode": mode, "kind": rec["kind"], "nf": int(res.nf), "model_only": [c for c in model if c not in impl][:10],
                                    "impl_only": [c for c in impl if c not in model][:10], "order_differs": sorted(model) == sorted(impl),
                                    "table": {n: st for n, st in table if st != "C"}, "case": recipe_summary(rec)})
        elif len(P.samples) < 5:
            P.sample({"op": "rq_df", "mode": mode, "kind": rec["kind"], "nf": int(res.nf), "columns": len(impl) - 1, "index": impl[0]})


def corr_result_queries(ctx, P: C.Part, names: List[str]) -> None:
    """generated region ResultQueries (Gen/ResultQueries.lean, executed by the driver) vs the real code it was generated from"""
    rng = np.random.default_rng(int(ctx.rng.integers(0, 2 ** 31 - 1)))        # child generator: the existing streams above are not shifted
    t0 = __import__("time").time()
    for fn, args in ((rq_assemble, ()), (rq_getattr, (names,)), (rq_meas, ()), (rq_dataframe, ())):
        if ctx.time_left() < 40:
            P.notes.append(f"result-queries correspondence: time budget reached before {fn.__name__}")
            break
        try:
            fn(ctx, P, rng, *args)
        except RuntimeError as ex:       # the driver does not serve the op (generated region broken)
            P.disagreements.append({"op": fn.__name__, "model_error": str(ex)[:200]})
    P.notes.append(f"result-queries correspondence: {__import__('time').time() - t0:.1f}s")


# ---------------------------------------------------------------- generated region EntryPoints vs the real code
_EP_FLOAT_KEYS = ["f", "r", "b", "S12", "S2", "XX", "YY", "M2", "O", "compute_t"]
_EP_INT_KEYS = ["L", "K", "navg", "i"]


class _EpOpaque:
    """registry of objects outside the value model (non-numeric str, dict): the same object gets the same id on the way in and out"""

    def __init__(self):
        self.objs: List[Any] = []

    def id(self, o: Any) -> int:
        for j, x in enumerate(self.objs):
            if x is o:
                return j
        self.objs.append(o)
        return len(self.objs) - 1


def _ep_num(x: Any) -> Optional[str]:
    if isinstance(x, (bool, np.bool_)):
        return "b1" if x else "b0"
    if isinstance(x, (int, np.integer)):
        return f"i{int(x)}"
    if isinstance(x, (float, np.floating)):
        return "r" + C.f2h(float(x))
    if isinstance(x, (complex, np.complexfloating)):
        return "c" + C.f2h(complex(x).real) + "," + C.f2h(complex(x).imag)
    return None


def _ep_nums(xs) -> Optional[str]:
    toks = [_ep_num(x) for x in xs]
    if any(t is None for t in toks):
        return None
    return " ".join([str(len(toks))] + toks)


def _ep_item(x: Any, reg: _EpOpaque) -> str:
    if x is None:
        return "N"
    n = _ep_num(x)
    if n is not None:
        return "n " + n
    if isinstance(x, (list, tuple)):
        t = _ep_nums(x)
        if t is not None:
            return ("l " if isinstance(x, list) else "t ") + t
    if isinstance(x, np.ndarray):
        if x.dtype == np.int64 and x.ndim == 1:
            return "i " + C.iarr(x)
        if x.dtype == np.float64 and x.ndim == 1:
            return "f " + C.arr(x)
        if x.dtype == np.int64 and x.ndim == 0:
            return f"z {int(x)}"
        if x.dtype == object and x.ndim == 1:
            t = _ep_nums(list(x))
            if t is not None:
                return "r " + t
    if isinstance(x, (str, dict)):
        return f"o {reg.id(x)}"
    return "?item:" + type(x).__name__


def _ep_value(v: Any, reg: _EpOpaque) -> str:
    """a Python / NumPy value in the token grammar of the driver (`?…` = outside the grammar)"""
    if isinstance(v, np.ndarray):
        if v.ndim == 1 and v.dtype == np.bool_:
            return " ".join(["bv", str(len(v))] + [str(int(b)) for b in v])
        if v.ndim == 1 and v.dtype == np.int64:
            return "iv " + C.iarr(v)
        if v.ndim == 1 and v.dtype == np.float64:
            return "fv " + C.arr(v)
        if v.ndim == 1 and v.dtype == np.complex128:
            return " ".join(["cv", str(len(v))] + [C.f2h(z.real) + " " + C.f2h(z.imag) for z in v])
        if v.ndim == 1 and v.dtype == object:
            return " ".join(["ov", str(len(v))] + [_ep_item(x, reg) for x in v])
        if v.ndim == 2 and v.dtype == object:
            toks = [_ep_num(x) for x in v.ravel()]
            if all(t is not None for t in toks):
                return " ".join(["om", str(v.shape[0]), str(v.shape[1])] + toks)
        return f"?ndarray:{v.dtype}:{v.shape}"
    if isinstance(v, (list, tuple)):
        return " ".join(["li" if isinstance(v, list) else "tu", str(len(v))] + [_ep_item(x, reg) for x in v])
    n = _ep_num(v)
    if n is not None and not isinstance(v, np.generic):
        return "sc " + n
    if isinstance(v, (str, dict)):
        return f"op {reg.id(v)}"
    return "?value:" + type(v).__name__


def _ep_dict(d: Dict[str, Any], reg: _EpOpaque) -> str:
    return " ".join([str(len(d))] + [f"{k} {_ep_value(v, reg)}" for k, v in d.items()])


def _ep_vector(rng: np.random.Generator, n: int, cls: str) -> Any:
    """one per-bin quantity in a random representation"""
    ints = [int(x) for x in rng.integers(-50, 5000, size=n)]
    flts = [float(x) for x in np.round(rng.normal(size=n) * 10 ** float(rng.integers(-3, 4)), 6)]
    if cls == "int" and rng.random() < 0.6:
        flts = [float(z) for z in ints]                      # integral floats under an int key
    if n and rng.random() < 0.1 and cls != "int":
        flts[int(rng.integers(0, n))] = float(rng.choice([np.nan, np.inf, -np.inf]))
    cpx = [complex(a, b) for a, b in zip(flts, [float(x) for x in np.round(rng.normal(size=n), 4)])]
    bools = [bool(x) for x in rng.integers(0, 2, size=n)]
    form = str(rng.choice(["f64", "f64", "i64", "bool", "c128", "list-f", "list-i", "list-b", "list-mixed", "list-c", "tuple-f", "tuple-i", "tuple-c",
                           "scalar", "objvec-num", "str", "dict", "ragged-list"]))
    if form == "f64":
        return np.array(flts, dtype=np.float64)
    if form == "i64":
        return np.array(ints, dtype=np.int64)
    if form == "bool":
        return np.array(bools, dtype=np.bool_)
    if form == "c128":
        return np.array([z if np.isfinite(z.real) else complex(1.5, z.imag) for z in cpx], dtype=np.complex128)
    if form == "list-f":
        return list(flts)
    if form == "list-i":
        return list(ints)
    if form == "list-b":
        return list(bools)
    if form == "list-mixed":
        return [ints[j] if j % 3 == 0 else (bools[j] if j % 3 == 1 else flts[j]) for j in range(n)]
    if form == "list-c":
        return [z if j % 2 else flts[j] for j, z in enumerate(cpx)]
    if form == "tuple-f":
        return tuple(flts)
    if form == "tuple-i":
        return tuple(ints)
    if form == "tuple-c":
        return tuple(cpx)
    if form == "scalar":
        return [3, 2.5, True, 1 + 2j][int(rng.integers(0, 4))]
    if form == "objvec-num":
        a = np.empty(n, dtype=object)
        for j in range(n):
            a[j] = [ints[j], flts[j], bools[j]][j % 3]
        return a
    if form == "str":
        return "not-a-number"
    if form == "dict":
        return {"a": 1}
    return [[1, 2], [3]] if n else []                          # ragged nesting: np.asarray raises


def _ep_starts(rng: np.random.Generator, nf: int) -> Any:
    """the per-bin start table in a random representation and shape class"""
    shape = str(rng.choice(["ragged", "uniform", "uniform", "all-one", "with-empty"]))
    if shape == "uniform":
        ks = [int(rng.integers(1, 6))] * nf
    elif shape == "all-one":
        ks = [1] * nf
    elif shape == "with-empty":
        ks = [int(rng.integers(0, 3)) for _ in range(nf)]
    else:
        ks = [int(rng.integers(1, 7)) for _ in range(nf)]
    rows = [[int(x) for x in np.sort(rng.integers(0, 10000, size=k))] for k in ks]
    form = str(rng.choice(["list-of-i64", "list-of-i64", "list-of-i64", "list-of-lists", "list-of-tuples", "list-mixed", "list-of-f64", "objvec", "tuple",
                           "i64-vector", "list-of-ints", "list-with-None", "list-of-floatlists", "list-with-str"]))
    tag = f"{shape}.{form}"
    if form == "list-of-i64":
        return tag, [np.array(r, dtype=np.int64) for r in rows]
    if form == "list-of-lists":
        return tag, [list(r) for r in rows]
    if form == "list-of-tuples":
        return tag, [tuple(r) for r in rows]
    if form == "list-mixed":
        return tag, [np.array(r, dtype=np.int64) if j % 3 == 0 else (list(r) if j % 3 == 1 else tuple(r)) for j, r in enumerate(rows)]
    if form == "list-of-f64":
        return tag, [np.array(r, dtype=np.float64) + (0.75 if j % 2 else 0.0) for j, r in enumerate(rows)]
    if form == "objvec":
        a = np.empty(nf, dtype=object)
        for j, r in enumerate(rows):
            a[j] = np.array(r, dtype=np.int64) if j % 2 == 0 else list(r)
        return tag, a
    if form == "tuple":
        return tag, tuple(np.array(r, dtype=np.int64) for r in rows)
    if form == "i64-vector":
        return tag, np.array([r[0] if r else 0 for r in rows], dtype=np.int64)
    if form == "list-of-ints":
        return tag, [r[0] if r else 0 for r in rows]
    if form == "list-with-None":
        return tag, [None if j == nf // 2 else np.array(r, dtype=np.int64) for j, r in enumerate(rows)]
    if form == "list-of-floatlists":
        return tag, [[float(x) + 0.5 for x in r] for r in rows]
    return tag, ["zzz" if j == 0 else np.array(r, dtype=np.int64) for j, r in enumerate(rows)]


def ep_init(ctx, P: C.Part, rng: np.random.Generator) -> None:
    """Gen.result_init (driver, Float) vs the real SpectrumResult(results_dict, config, iscsd, fs) on generated dictionaries: raises / not,
    ndim and dtype class of every stored value (the stored D above all), every number, nf, len(); the caller's dictionary is left untouched"""
    from speckit.analysis import SpectrumResult
    n_cases = ctx.scale(500, 4000)
    for ci in range(n_cases):
        nf = int(rng.choice([0, 1, 1, 2, 3, 5]))
        reg = _EpOpaque()
        d: Dict[str, Any] = {}
        keys = [k for k in _EP_FLOAT_KEYS + _EP_INT_KEYS + ["XY", "D", "m", "label", "extra"] if rng.random() < 0.55]
        if ci % 2 == 0 and "D" not in keys:
            keys.append("D")
        rng.shuffle(keys)
        dtag = "absent"
        simple = ci % 3 == 0            # every value in its canonical form except D: the constructor does not raise, so the D path is reached
        for k in keys:
            if k == "D":
                dtag, d[k] = _ep_starts(rng, nf)
            elif simple:
                d[k] = (np.array(rng.integers(1, 99, size=nf), dtype=np.int64) if k in _EP_INT_KEYS else
                        np.array(rng.normal(size=nf) + 1j * rng.normal(size=nf)) if k == "XY" else np.array(rng.normal(size=nf), dtype=np.float64))
            else:
                d[k] = _ep_vector(rng, nf, "int" if k in _EP_INT_KEYS else "float")
        iscsd = bool(rng.integers(0, 2))
        fs = float(np.round(rng.uniform(0.5, 1000.0), 3))
        line = f"ep_init {int(iscsd)} {C.f2h(fs)} " + _ep_dict(d, reg)
        if "?" in line:
            P.notes.append("ep-init: generated a value outside the token grammar: " + line[:120])
            continue
        before = [(k, id(v), _ep_value(v, reg)) for k, v in d.items()]
        cfg = {"tag": ci}
        try:
            with quiet():
                res = SpectrumResult(d, cfg, iscsd, fs)
            data = vars(res)["_data"]
            impl = f"OK {int(res.nf)} {len(res)} {int(res.iscsd)} {C.f2h(res.fs)} " + _ep_dict(data, reg)
            if vars(res)["_config"] is not cfg or vars(res)["_cache"] != {}:
                impl += " ?config-or-cache"
        except Exception as ex:  # noqa
            impl = "RAISE"
            exn = type(ex).__name__
        after = [(k, id(v), _ep_value(v, reg)) for k, v in d.items()]
        reply = ctx.driver.ask(line)
        P.cases += 1
        if reply.startswith("ERR"):
            P.disagreements.append({"op": "ep_init", "model_error": reply[:200], "line": line[:400]})
            continue
        modelled, model = reply[0] == "1", reply[2:]
        P.hit(f"ep.init.D.{dtag}")
        P.hit("ep.init." + ("outside-model" if not modelled else "raises" if impl == "RAISE" else "ok"))
        if before != after:
            P.disagreements.append({"op": "ep_init", "problem": "the constructor changed the caller's dictionary", "before": str(before)[:300], "after": str(after)[:300]})
        if not modelled:
            continue
        P.nontrivial.add(("ep-init", dtag, nf, tuple(sorted(d))[:6], impl == "RAISE"))
        if impl != "RAISE" and "D" in d:
            Dst = vars(res)["_data"]["D"]
            P.hit(f"ep.init.stored-D.ndim{getattr(Dst, 'ndim', '?')}.{getattr(Dst, 'dtype', '?')}")
        if "-9223372036854775808" in impl.split() and any(t in line for t in ("7ff0000000000000", "fff0000000000000", "7ff8000000000000")):
            P.hit("ep.init.outside-model.nonfinite-cast-to-int64")      # C cast of NaN / inf: platform value, not modelled (EP.modelled docstring)
            continue
        if _ep_same(model, impl):
            if len(P.samples) < 8 and impl != "RAISE" and "D" in d and ci % 7 == 0:
                P.sample({"op": "ep_init", "D": dtag, "nf": nf, "keys": list(d), "impl": impl[:160]})
            continue
        P.disagreements.append({"op": "ep_init", "D": dtag, "nf": nf, "request": line[:1500], "model": model[:1500], "impl": impl[:1500],
                                "exception": exn if impl == "RAISE" else None})


def _ep_same(a: str, b: str) -> bool:
    """token-wise equality; two NaN bit patterns count as equal"""
    if a == b:
        return True
    ta, tb = a.split(), b.split()
    if len(ta) != len(tb):
        return False

    def nanlike(t: str) -> bool:
        try:
            return len(t.lstrip("r")) == 16 and np.isnan(C.h2f(t.lstrip("r")))
        except ValueError:
            return False
    return all(x == y or (nanlike(x) and nanlike(y)) for x, y in zip(ta, tb))


class _EpRecorder:
    """stand-in for SpectrumAnalyzer: records the construction and the method call as text"""

    def __init__(self, *a, **k):
        self._t = "SpectrumAnalyzer(" + ",".join([str(x) for x in a] + [f"{n}={v}" for n, v in k.items()]) + ")"

    def __getattr__(self, name):
        if name.startswith("_"):
            raise AttributeError(name)
        return lambda *a, **k: self._t + "." + name + "(" + ",".join([str(x) for x in a] + [f"{n}={v}" for n, v in k.items()]) + ")"


def ep_entry(ctx, P: C.Part, rng: np.random.Generator) -> None:
    """(1) the three generated wrappers (driver, over recording callables) vs the real wrappers run against a recording stand-in for SpectrumAnalyzer:
    identical call traces for random keyword sets; (2) the real wrappers vs SpectrumAnalyzer(...).compute() / .compute_single_bin(...) bit for bit"""
    import speckit.analysis as A
    from unittest import mock
    names = ["win", "olap", "Jdes", "Lmin", "bmin", "order", "psll", "band", "verbose", "scheduler", "Kdes", "force_target_nf", "backend"]
    for ci in range(ctx.scale(120, 600)):
        kw = {str(n): f"v{j}_{ci}" for j, n in enumerate(rng.permutation(names)[:int(rng.integers(0, 6))])}
        which = ["lpsd", "compute_spectrum", "compute_single_bin"][ci % 3]
        kwline = f"{len(kw)} " + " ".join(f"{k} {v}" for k, v in kw.items())
        with mock.patch.object(A, "SpectrumAnalyzer", _EpRecorder):
            try:
                if which == "compute_single_bin":
                    style = int(rng.integers(0, 4))
                    opt = {}
                    if style & 1:
                        opt["fres"] = "FRES"
                    if style & 2:
                        opt["L"] = "LEN"
                    if ci % 2:
                        impl = A.compute_single_bin("DATA", "FS", "FREQ", **opt, **kw)
                    else:
                        impl = A.compute_single_bin(fs="FS", freq="FREQ", data="DATA", **kw, **opt)
                    line = f"ep_entry {which} DATA FS FREQ {opt.get('fres')} {opt.get('L')} {kwline}"
                else:
                    impl = getattr(A, which)("DATA", "FS", **kw) if ci % 2 else getattr(A, which)(fs="FS", data="DATA", **kw)
                    line = f"ep_entry {which} DATA FS {kwline}"
            except Exception as ex:  # noqa
                impl = "EXC:" + type(ex).__name__
        model = ctx.driver.ask(line.strip())
        P.cases += 1
        P.hit(f"ep.entry.trace.{which}")
        P.nontrivial.add(("ep-entry", which, tuple(sorted(kw))))
        if model != impl:
            P.disagreements.append({"op": "ep_entry", "which": which, "request": line, "model": model, "impl": impl})
        elif ci < 3:
            P.sample({"op": "ep_entry", "which": which, "trace": impl})
    # (2) real analyses
    fields = ("f", "r", "b", "L", "K", "navg", "O", "XX", "YY", "XY", "S12", "S2", "M2")
    for ci in range(ctx.scale(6, 30)):
        cross = bool(ci % 2)
        N = int(rng.integers(300, 700))
        x = rng.normal(size=(2, N)) if cross else rng.normal(size=N)
        fs = float(rng.choice([1.0, 2.0, 100.0]))
        kw: Dict[str, Any] = {"Jdes": int(rng.integers(5, 20)), "order": int(rng.choice([-1, 0, 1])), "win": str(rng.choice(["hann", "kaiser"]))}
        if rng.random() < 0.5:
            kw["Lmin"] = int(rng.integers(8, 40))
        try:
            with quiet():
                ref = A.SpectrumAnalyzer(x, fs, **kw).compute()
                outs = {"lpsd": A.lpsd(x, fs, **kw), "compute_spectrum": A.compute_spectrum(x, fs, **kw)}
                fq = float(ref.f[len(ref.f) // 2])
                Lb = int(ref.L[len(ref.f) // 2])
                sb_ref = A.SpectrumAnalyzer(x, fs, **kw).compute_single_bin(freq=fq, fres=None, L=Lb)
                sb = A.compute_single_bin(x, fs, fq, L=Lb, **kw)
        except LIBERR as ex:  # noqa
            P.notes.append(f"ep-entry real: {ex!r}"[:160])
            continue
        for nm, out in list(outs.items()) + [("compute_single_bin", sb)]:
            base = sb_ref if nm == "compute_single_bin" else ref
            P.cases += 1
            P.hit(f"ep.entry.real.{nm}.{'cross' if cross else 'auto'}")
            bad = [k for k in fields if k in vars(base)["_data"] and not bits_equal(vars(base)["_data"][k], vars(out)["_data"].get(k))]
            Da, Db = vars(base)["_data"]["D"], vars(out)["_data"]["D"]
            if len(Da) != len(Db) or any(not np.array_equal(a, b) for a, b in zip(Da, Db)):
                bad.append("D")
            if bad or out.iscsd != base.iscsd or out.fs != base.fs:
                P.disagreements.append({"op": "ep_entry_real", "which": nm, "fields_differ": bad, "kwargs": {k: str(v) for k, v in kw.items()}, "N": N, "cross": cross})


def ep_core(ctx, P: C.Part, rng: np.random.Generator) -> None:
    """Gen._select_backend over the whole decision table (module flags patched, then restored) and Gen._check_starts_bounds on random / boundary starts"""
    import speckit.core as K
    from unittest import mock
    for hint in ["auto", "cuda", "numba", "numpy", "AUTO", "gpu", "x", None]:
        for cuda in (False, True):
            for numba in (False, True):
                for nseg in (0, 1, 999, 1000, 1001, 5000, -3):
                    with mock.patch.object(K, "_CUDA_ENABLED", cuda), mock.patch.object(K, "_NUMBA_ENABLED", numba), \
                            mock.patch.object(K, "_CUDA_ERROR", "" if nseg % 2 else "driver not found"):
                        try:
                            impl = "ok " + str(K._select_backend(nseg) if hint is None else K._select_backend(nseg, hint))
                        except Exception as ex:  # noqa
                            impl = "raise " + type(ex).__name__
                    h = "auto" if hint is None else hint          # the default of the parameter (Gen._select_backend_default, proved = "auto")
                    model = ctx.driver.ask(f"ep_backend {int(cuda)} {int(numba)} {nseg} {h}")
                    P.cases += 1
                    P.hit(f"ep.backend.{h}.{impl.split()[0]}")
                    P.nontrivial.add(("ep-backend", h, cuda, numba, nseg))
                    if model != impl:
                        P.disagreements.append({"op": "ep_backend", "hint": hint, "cuda": cuda, "numba": numba, "K": nseg, "model": model, "impl": impl})
    for ci in range(ctx.scale(400, 3000)):
        N = int(rng.integers(1, 200))
        L = int(rng.integers(1, N + 3))
        n = int(rng.choice([0, 1, 2, 5, 9]))
        starts = rng.integers(-2 if ci % 5 == 0 else 0, max(1, N - L + (3 if ci % 3 == 0 else 1)), size=n).astype(np.int64)
        if n and ci % 4 == 0:
            starts[int(rng.integers(0, n))] = N - L + int(rng.integers(-1, 2))          # the boundary max + L == N and its neighbours
        try:
            K._check_starts_bounds(N, starts, L)
            impl = "ok"
        except Exception as ex:  # noqa
            impl = "raise " + type(ex).__name__
        model = ctx.driver.ask(f"ep_bounds {N} {L} " + C.iarr(starts))
        P.cases += 1
        edge = n > 0 and int(starts.max()) + L == N
        P.hit("ep.bounds." + impl.split()[0] + (".max+L==N" if edge else ""))
        P.nontrivial.add(("ep-bounds", N, L, tuple(int(s) for s in starts)))
        if model != impl:
            P.disagreements.append({"op": "ep_bounds", "N": N, "L": L, "starts": [int(s) for s in starts], "model": model, "impl": impl})


def corr_entry_points(ctx, P: C.Part) -> None:
    """generated region EntryPoints (Gen/EntryPoints.lean, executed by the driver) vs the real code it was generated from"""
    rng = np.random.default_rng(int(ctx.rng.integers(0, 2 ** 31 - 1)))        # child generator, drawn at the END of the existing correspondence
    t0 = __import__("time").time()
    for fn in (ep_init, ep_entry, ep_core):
        if ctx.time_left() < 25:
            P.notes.append(f"entry-points correspondence: time budget reached before {fn.__name__}")
            break
        try:
            fn(ctx, P, rng)
        except RuntimeError as ex:       # the driver does not serve the op (generated region broken)
            P.disagreements.append({"op": fn.__name__, "model_error": str(ex)[:200]})
    P.notes.append(f"entry-points correspondence: {__import__('time').time() - t0:.1f}s")


def correspondence(ctx) -> C.Part:
    P = C.Part()
    _quiet_logs()
    names = dyn_names()
    # (a) generated attribute table vs the real __getattr__, every per-bin name (+ the alias G)
    _an.attr_correspondence(ctx, P, [n for n in names if n not in SEQ] + ["G"], ctx.scale(10, 60))
    # (b) None tables
    corr_none_tables(ctx, P, names)
    # (c) interpolation
    corr_interp(ctx, P)
    # (d) the translated result-side glue: compute() assembly, __getattr__ cache protocol, get_measurement, to_dataframe / __dir__
    corr_result_queries(ctx, P, names)
    # (e) the translated constructor of SpectrumResult, the module-level entry points, _select_backend, _check_starts_bounds
    corr_entry_points(ctx, P)
    return P


# ---------------------------------------------------------------- oracle
def oracle(ctx, intensive: bool = False, hints: List[Dict[str, Any]] = ()) -> C.Part:
    P = C.Part()
    _quiet_logs()
    names = dyn_names()
    if set(names) != set(FALLBACK_DYN):
        P.notes.append(f"dynamic attribute list changed: added {sorted(set(names) - set(FALLBACK_DYN))}, removed {sorted(set(FALLBACK_DYN) - set(names))}")
        names = names + [n for n in FALLBACK_DYN if n not in names]      # a name of the property text that disappeared is still demanded
    for rec, seed, ops in corpus():
        run_case(P, rec, seed, names, ops)
        P.hit("corpus")
    # the plot stream: auto / cross x multi-bin / single-bin / uniform-K / one more random kind; every result gets figure-making plot() calls
    # (one per applicable `which` with an error band of sigma != 1, bode with the degree and the radian band, then random options) mixed into a
    # random sequence of the other operations
    n_cross = 0
    for rep_ in range(ctx.scale(1, 10) * (2 if intensive else 1)):
        for kind, cross in PLOT_STREAM:
            if ctx.time_left() < 60 or len(P.violations) >= MAX_VIOL:
                break
            # the fourth pair: a cross result with a dead channel (tables that legitimately hold -inf / inf / NaN) on even rounds, else any other kind
            kind = kind or ("dead" if (cross and rep_ % 2 == 0) else str(ctx.rng.choice(["band", "equalK-band", "fake", "dead", "edge"])))
            rec = None
            for attempt in range(6 if kind == "dead" else 1):
                try:
                    with quiet():
                        rec = gen_recipe(ctx.rng, kind, cross)
                        if kind != "dead" or not np.all(np.isfinite(read(build(rec), "cf_db"))):
                            break                          # a dead-channel result is wanted for its cf = 0, cf_db = -inf, errors = inf bins
                        P.hit("plot-stream.dead-recipe-without-nonfinite-table")
                except LIBERR as ex:  # noqa
                    P.hit(f"recipe-failed.{kind}.{type(ex).__name__}")
            if rec is None:
                continue
            seed = int(ctx.rng.integers(0, 2 ** 31 - 1))
            run_case(P, rec, seed, names, plots=PLOTS_CROSS if cross else PLOTS_AUTO, phase=n_cross % 8)
            n_cross += int(bool(cross))
            P.hit("plot-stream")
    # the caller-edit stream: every result class x every kind of in-place edit of an exported frame (each run goes through all of FRAME_EDITS), the
    # first frame asked of the result or of a shallow copy, get_measurement outputs overwritten, mixed into random sequences of the other operations
    basic = [o for o in OPS if o not in ("dfmut", "qmut")]
    for rep_ in range(ctx.scale(1, 6) * (2 if intensive else 1)):
        edits = [str(e) for e in ctx.rng.permutation(FRAME_EDITS)]
        for idx, (kind, cross) in enumerate(EDIT_STREAM):
            if ctx.time_left() < 60 or len(P.violations) >= MAX_VIOL:
                break
            kind = kind or str(ctx.rng.choice(["band", "equalK-band", "fake", "edge", "dead"]))
            try:
                with quiet():
                    rec = gen_recipe(ctx.rng, kind, cross)
            except LIBERR as ex:  # noqa
                P.hit(f"recipe-failed.{kind}.{type(ex).__name__}")
                continue
            e = [edits[(4 * idx + j) % len(edits)] for j in range(4)]
            ops = [str(o) for o in ctx.rng.choice(basic, size=int(ctx.rng.integers(2, 6)))]
            for ins in (f"dfmut:{e[0]}+{e[1]}" + ("@copy" if idx % 3 == 2 else ""), f"dfmut:{e[2]}+{e[3]}", "qmut"):
                ops.insert(int(ctx.rng.integers(0, len(ops) + 1)), ins)
            run_case(P, rec, int(ctx.rng.integers(0, 2 ** 31 - 1)), names, ops)
            P.hit("edit-stream")
    n = ctx.scale(200, 3000) * (4 if intensive else 1)
    for i in range(n):
        if ctx.time_left() < 20:
            P.notes.append(f"time budget reached after {i} generated results")
            break
        if len(P.violations) >= MAX_VIOL:
            break
        kind = KINDS[i % len(KINDS)]
        try:
            with quiet():
                rec = gen_recipe(ctx.rng, kind)
        except LIBERR as ex:  # noqa  (planning failed: not this property)
            P.hit(f"recipe-failed.{kind}.{type(ex).__name__}")
            continue
        seed = int(ctx.rng.integers(0, 2 ** 31 - 1))
        run_case(P, rec, seed, names, plots=1 if i % 40 == 7 else 0)
        if i < 4:
            P.sample({"op": "oracle", **recipe_summary(rec), "case_seed": seed})
    return P


def replay(ctx, data) -> C.Part:
    P = C.Part()
    _quiet_logs()
    names = dyn_names()
    names = names + [n for n in FALLBACK_DYN if n not in names]
    for v in data.get("violations", []):
        r = v["replay"]
        run_case(P, r["recipe"], int(r["case_seed"]), names, r.get("forced_ops"), int(r.get("plots") or 0), r.get("plot_phase"))
    return P
