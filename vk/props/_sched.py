"""Shared machinery for the scheduler properties C02, C03, C04: configuration generator, the real
schedulers, model plans through the driver, boundary-instability probe, and the per-property predicates."""
from __future__ import annotations

import math
from fractions import Fraction
from typing import Any, Dict, List, Optional, Tuple

import numpy as np

from .. import common as C

SCHEDS = ["ltf", "lpsd", "vectorized_ltf", "new_ltf"]
DRV_NAME = {"ltf": "ltf", "lpsd": "lpsd", "vectorized_ltf": "vec", "new_ltf": "new"}
EPS = 2.0 ** -52


def sched_fn(name: str):
    from speckit import schedulers as S
    return {"ltf": S.ltf_plan, "lpsd": S.lpsd_plan, "vectorized_ltf": S.vectorized_ltf_plan, "new_ltf": S.new_ltf_plan}[name]


def gen_cfg(rng: np.random.Generator, thorough: bool = False, small: bool = False) -> Dict[str, Any]:
    """admissible configuration: N>=8, fs>0, 0<=olap<1, 1<=bmin<N/2, 1<=Lmin<=N, Jdes>=1, Kdes>=1 — branch-directed"""
    kind = int(rng.integers(0, 10))
    if small or kind == 0:
        N = int(rng.integers(8, 65))
    elif kind in (1, 2, 3, 4):
        N = int(rng.integers(65, 2500))
    elif kind in (5, 6):
        N = int(rng.integers(2500, 20000 if not thorough else 100000))
    else:
        N = int(rng.choice([8, 9, 16, 100, 128, 1000, 1013, 1024, 4096]))
    fs = float(rng.choice([1.0, 2.0, 0.37, 1000.0, 3.3, float(rng.uniform(0.01, 5000.0))]))
    olap = float(rng.choice([0.0, 0.5, 0.9, 0.99, 0.3, float(rng.uniform(0, 0.999)), float(rng.uniform(0.85, 0.999))]))
    bk = int(rng.integers(0, 6))
    bmax = N / 2.0
    if bk == 0:
        bmin = 1.0
    elif bk == 1:
        bmin = float(rng.uniform(1.0, min(10.0, bmax * 0.999)))
    elif bk == 2:
        bmin = float(rng.uniform(1.0, bmax * 0.999))
    elif bk == 3:
        bmin = float(bmax * (1 - 10 ** rng.uniform(-6, -1)))      # close to N/2
    else:
        bmin = float(rng.choice([1.5, 2.0, 3.7, 1.0]))
    bmin = max(1.0, min(bmin, np.nextafter(bmax, 0.0)))
    if not (bmin < bmax):
        bmin = 1.0
    lk = int(rng.integers(0, 6))
    Lmin = [1, 1, int(rng.integers(1, max(2, N // 10) + 1)), int(rng.integers(1, N + 1)), N, 2][lk]
    Jdes = int(rng.choice([1, 2, 5, 10, 20, 50, 100, int(rng.integers(1, 300))]))
    if thorough and rng.random() < 0.1:
        Jdes = int(rng.integers(300, 1500))
    Kdes = int(rng.choice([1, 2, 10, 100, int(rng.integers(1, 300)), 1000]))
    return {"N": N, "fs": fs, "olap": olap, "bmin": bmin, "Lmin": Lmin, "Jdes": Jdes, "Kdes": Kdes}


def cfg_key(cfg: Dict[str, Any]) -> Tuple:
    return (cfg["N"], cfg["fs"], cfg["olap"], cfg["bmin"], cfg["Lmin"], cfg["Jdes"], cfg["Kdes"])


def eff(cfg: Dict[str, Any], sched: str) -> Dict[str, Any]:
    """effective configuration (lpsd fixes bmin=1, Lmin=1)"""
    if sched == "lpsd":
        return dict(cfg, bmin=1.0, Lmin=1)
    return cfg


def real_plan(sched: str, cfg: Dict[str, Any]) -> Dict[str, Any]:
    return norm_plan(sched_fn(sched)(**cfg))


def analyzer_norm_plan(sched: str, cfg: Dict[str, Any], win="hann", **extra) -> Dict[str, Any]:
    """the plan the ANALYZER builds for this configuration (scheduler by name, the overlap requested explicitly), in the same normal form
    as `real_plan`: what the user gets from SpectrumAnalyzer(..., olap=cfg['olap'], ...).plan()"""
    return norm_plan(analyzer_plan(sched, cfg, win=win, **extra))


def norm_plan(out) -> Dict[str, Any]:
    return {"f": np.asarray(out["f"], dtype=float), "r": np.asarray(out["r"], dtype=float), "b": np.asarray(out["b"], dtype=float),
            "L": [int(v) for v in out["L"]], "K": [int(v) for v in out["K"]], "navg": [int(v) for v in out["navg"]],
            "D": [[int(d) for d in dd] for dd in out["D"]], "O": np.asarray(out["O"], dtype=float), "nf": int(out["nf"]),
            "m_is_b": bool(np.array_equal(np.asarray(out["m"], dtype=float), np.asarray(out["b"], dtype=float)))}


def analyzer_plan(sched: str, cfg: Dict[str, Any], **extra) -> Dict[str, Any]:
    from speckit.analysis import SpectrumAnalyzer
    an = SpectrumAnalyzer(np.zeros(cfg["N"]), cfg["fs"], olap=cfg["olap"], bmin=cfg["bmin"], Lmin=cfg["Lmin"], Jdes=cfg["Jdes"],
                          Kdes=cfg["Kdes"], scheduler=sched, **{"win": "hann", **extra})
    return an.plan()


def model_plan(drv, sched: str, cfg: Dict[str, Any]) -> Dict[str, Any]:
    line = f"plan {DRV_NAME[sched]} {cfg['N']} {C.f2h(cfg['fs'])} {C.f2h(cfg['olap'])} {C.f2h(cfg['bmin'])} {cfg['Lmin']} {cfg['Jdes']} {cfg['Kdes']}"
    r = drv.ask(line)
    if r.startswith("ERR"):
        raise RuntimeError(r)
    parts = r.split(" | ")
    nf = int(parts[0])
    bins = []
    for p in parts[1:]:
        t = p.split()
        if not t:
            continue
        nd = int(t[7])
        bins.append({"f": C.h2f(t[0]), "r": C.h2f(t[1]), "b": C.h2f(t[2]), "L": int(t[3]), "K": int(t[4]), "navg": int(t[5]),
                     "O": C.h2f(t[6]), "D": [int(x) for x in t[8:8 + nd]]})
    return {"nf": nf, "bins": bins}


def unstable(sched: str, cfg: Dict[str, Any], plan: Dict[str, Any], upto: int) -> bool:
    """is the implementation's own output at this input sensitive to a 1e-13 relative perturbation of the real-valued
    parameters (i.e. does some rounding/threshold decision up to bin `upto` sit on a boundary)?"""
    if sched == "vectorized_ltf":
        # the walker looks its frequency up in a 10^(log10 ...) grid: a lookup frequency within a few ulp of a grid point is a
        # rounding boundary of the implementation itself (in exact arithmetic grid[0] = fmin; in floats 10**log10(fmin) lands on
        # either side, and numpy's and libm's pow need not agree in the last bit) -- seen with Jdes = 1, seed 21
        try:
            fmin = cfg["bmin"] * cfg["fs"] / cfg["N"]
            grid = np.logspace(np.log10(fmin), np.log10(cfg["fs"] / 2), int(10 * cfg["Jdes"]))
            # only the bin where the outputs first differ can be explained this way (earlier bins agree)
            fs_ = np.asarray(plan["f"], dtype=float)
            if upto < len(fs_) and np.min(np.abs(grid - fs_[upto])) <= 1e-13 * abs(fs_[upto]):
                return True
        except Exception:
            return True
    for key in ("fs", "olap", "bmin"):
        for s in (1e-13, -1e-13):
            c2 = dict(cfg)
            v = cfg[key] * (1 + s) if cfg[key] != 0 else s
            if key == "olap":
                v = min(max(v, 0.0), np.nextafter(1.0, 0.0))
            if key == "bmin":
                v = max(v, 1.0)
                if not v < cfg["N"] / 2:
                    continue
            c2[key] = v
            try:
                p2 = real_plan(sched, c2)
            except Exception:
                return True
            n = min(upto + 1, plan["nf"], p2["nf"])
            if p2["nf"] != plan["nf"] and min(plan["nf"], p2["nf"]) <= upto + 1:
                return True
            if p2["L"][:n] != plan["L"][:n] or p2["K"][:n] != plan["K"][:n]:
                return True
    return False


def correspondence_plans(ctx, P: C.Part, n_cfg: int) -> List[Dict[str, Any]]:
    """model plan (driver, Float) vs the real scheduler, bin by bin; returns the configurations it ran (for `correspondence_glue`)"""
    ran: List[Dict[str, Any]] = []
    for i in range(n_cfg):
        if ctx.time_left() < 60:
            P.notes.append("time budget reached in correspondence")
            break
        cfg = gen_cfg(ctx.rng, ctx.thorough, small=(i % 5 == 0))
        if cfg["N"] > 6000 or cfg["Jdes"] > 400:
            cfg["N"] = int(ctx.rng.integers(8, 3000))
            cfg["Jdes"] = min(cfg["Jdes"], 300)
            cfg["bmin"] = min(cfg["bmin"], max(1.0, cfg["N"] / 2 * 0.99))
            cfg["Lmin"] = min(cfg["Lmin"], cfg["N"])
        sched = SCHEDS[i % 4]
        try:
            rp = real_plan(sched, cfg)
        except Exception as ex:
            P.disagreements.append({"op": "plan", "sched": sched, "cfg": cfg, "impl_raised": repr(ex)})
            continue
        mp = model_plan(ctx.driver, sched, cfg)
        ran.append(cfg)
        P.cases += 1
        P.hit(sched)
        P.nontrivial.add((sched,) + cfg_key(cfg))
        P.sample({"op": "plan", "sched": sched, "cfg": cfg, "nf": rp["nf"], "L_first_last": ([rp["L"][0], rp["L"][-1]] if rp["L"] else [])})
        # the GENERATED walk (translated from schedulers.py each run) must reproduce the same f, r, b, L, K
        if sched in ("ltf", "new_ltf", "vectorized_ltf"):
            gl = f"genwalk {dict(ltf='ltf', new_ltf='new', vectorized_ltf='vec')[sched]} {cfg['N']} {C.f2h(cfg['fs'])} {C.f2h(cfg['olap'])} {C.f2h(cfg['bmin'])} {cfg['Lmin']} {cfg['Jdes']} {cfg['Kdes']}"
            gr = ctx.driver.ask(gl)
            if gr.startswith("ERR"):
                P.disagreements.append({"op": "genwalk", "sched": sched, "cfg": cfg, "driver": gr})
            else:
                parts = gr.split(" | ")
                gn = int(parts[0])
                gL = [int(t) for t in parts[4].split()] if len(parts) > 4 else []
                gK = [int(t) for t in parts[5].split()] if len(parts) > 5 else []
                gf = [C.h2f(t) for t in parts[1].split()] if len(parts) > 1 else []
                P.cases += 1
                P.hit("genwalk-" + sched)
                m = min(gn, rp["nf"])
                gbad = None
                for j in range(m):
                    if gL[j] != rp["L"][j] or gK[j] != rp["K"][j] or not abs(gf[j] - float(rp["f"][j])) <= 1e-9 * abs(float(rp["f"][j])):
                        gbad = j
                        break
                if gbad is None and gn != rp["nf"]:
                    gbad = m
                if gbad is None and sched == "ltf":
                    # the GENERATED start positions (per-bin body of ltf_plan's second loop) against the real plan's D, every bin
                    for j in range(m):
                        gd = ctx.driver.ask(f"starts gen {cfg['N']} {rp['L'][j]} {rp['K'][j]}")
                        if [int(t) for t in gd.split()] != rp["D"][j]:
                            P.disagreements.append({"op": "starts gen", "sched": sched, "cfg": cfg, "bin": j, "L": rp["L"][j], "K": rp["K"][j],
                                                    "generated_head": gd.split()[:6], "impl_head": rp["D"][j][:6]})
                            break
                    P.hit("genstarts-bins", m)
                if gbad is None and sched in ("vectorized_ltf", "new_ltf"):
                    # the GENERATED closed-form post-processing (D and O) against the real plan, every bin
                    op = "genvec" if sched == "vectorized_ltf" else "gennew"
                    for j in range(m):
                        gd = ctx.driver.ask(f"starts {op} {cfg['N']} {rp['L'][j]} {rp['K'][j]}")
                        dpart, opart = gd.split(" | ") if " | " in gd else (gd.rstrip(" |"), "")
                        try:
                            okD = [int(t) for t in dpart.split()] == rp["D"][j]
                            okO = abs(C.h2f(opart.strip()) - float(rp["O"][j])) <= 1e-12
                        except Exception:
                            okD = okO = False
                        if not (okD and okO):
                            P.disagreements.append({"op": "starts " + op, "sched": sched, "cfg": cfg, "bin": j, "L": rp["L"][j], "K": rp["K"][j],
                                                    "generated": gd[:200], "impl_D_head": rp["D"][j][:6], "impl_O": float(rp["O"][j])})
                            break
                    P.hit("genpost-bins", m)
                if gbad is not None:
                    if unstable(sched, cfg, rp, gbad):
                        P.unstable += 1
                    else:
                        P.disagreements.append({"op": "genwalk", "sched": sched, "cfg": cfg, "bin": gbad,
                                                "generated": {"nf": gn, "L": gL[max(0, gbad - 1):gbad + 2], "K": gK[max(0, gbad - 1):gbad + 2]},
                                                "impl": {"nf": rp["nf"], "L": rp["L"][max(0, gbad - 1):gbad + 2], "K": rp["K"][max(0, gbad - 1):gbad + 2]}})
        n = min(rp["nf"], mp["nf"])
        bad = None
        for j in range(n):
            b = mp["bins"][j]
            if b["L"] != rp["L"][j] or b["K"] != rp["K"][j] or b["navg"] != rp["navg"][j] or b["D"] != rp["D"][j]:
                bad = (j, "integer fields", {"model": {k: b[k] for k in ("L", "K", "navg")}, "impl": {"L": rp["L"][j], "K": rp["K"][j], "navg": rp["navg"][j]},
                                            "D_model_head": b["D"][:6], "D_impl_head": rp["D"][j][:6]})
                break
            for k in ("f", "r", "b"):
                if not abs(b[k] - float(rp[k][j])) <= 1e-9 * max(abs(float(rp[k][j])), 1e-300):
                    bad = (j, k, {"model": b[k], "impl": float(rp[k][j])})
                    break
            if bad:
                break
            if not abs(b["O"] - float(rp["O"][j])) <= 1e-9:
                bad = (j, "O", {"model": b["O"], "impl": float(rp["O"][j])})
                break
        if bad is None and rp["nf"] != mp["nf"]:
            bad = (n, "nf", {"model": mp["nf"], "impl": rp["nf"]})
        if bad is not None:
            if bad[1] in ("integer fields", "nf", "f", "r", "b") and unstable(sched, cfg, rp, bad[0]):
                P.unstable += 1
                P.hit("unstable-boundary")
            else:
                P.disagreements.append({"op": "plan", "sched": sched, "cfg": cfg, "bin": bad[0], "field": bad[1], "detail": bad[2]})
    return ran


# ------------------------------------------------------------------------------------------ generated glue (region SchedGlue)
GLUE_REQUIRED = {"ltf": ["N", "fs", "olap", "bmin", "Lmin", "Jdes", "Kdes"], "lpsd": ["N", "fs", "olap", "Jdes", "Kdes"],
                 "vectorized_ltf": ["N", "fs", "olap", "bmin", "Lmin", "Jdes", "Kdes"], "new_ltf": ["N", "fs", "olap", "bmin", "Lmin", "Jdes", "Kdes"]}
GLUE_FLOAT_KEYS = ("f", "r", "b", "m")
GLUE_INT_KEYS = ("L", "K", "navg")


def kwargs_line(items: List[Tuple[str, Any]]) -> str:
    """keyword bindings in store order -> `n (key i|r value)^n` (Python int / Python float)"""
    parts = [str(len(items))]
    for k, v in items:
        if isinstance(v, (int, np.integer)) and not isinstance(v, bool):
            parts += [k, "i", str(int(v))]
        else:
            parts += [k, "r", C.f2h(float(v))]
    return " ".join(parts)


def parse_plan_dict(r: str) -> Optional[Dict[str, Any]]:
    """answer of the driver ops `genplan` / `gentail`: None for `NONE`, else every key of the output dictionary"""
    if r.strip() == "NONE":
        return None
    if r.startswith("ERR"):
        raise RuntimeError(r)
    secs = [x.strip() for x in r.split("|")]
    if len(secs) != 10:
        raise RuntimeError("plan dictionary answer with %d sections: %s" % (len(secs), r[:200]))
    fl = lambda x: [C.h2f(t) for t in x.split()]
    it = lambda x: [int(t) for t in x.split()]
    nf = int(secs[0])
    nbins = len(secs[5].split())               # one start list per entry of "L" (an empty plan prints no list at all)
    D = [it(x) for x in secs[9].split(";")] if (nbins > 0 or secs[9]) else []
    return {"nf": nf, "f": fl(secs[1]), "r": fl(secs[2]), "b": fl(secs[3]), "m": fl(secs[4]), "L": it(secs[5]), "K": it(secs[6]),
            "navg": it(secs[7]), "O": fl(secs[8]), "D": D}


def real_dict(out: Dict[str, Any]) -> Dict[str, Any]:
    """the dictionary a real scheduler returned, EVERY key, in plain Python values"""
    return {"nf": int(out["nf"]), "f": [float(v) for v in out["f"]], "r": [float(v) for v in out["r"]], "b": [float(v) for v in out["b"]],
            "m": [float(v) for v in out["m"]], "L": [int(v) for v in out["L"]], "K": [int(v) for v in out["K"]],
            "navg": [int(v) for v in out["navg"]], "O": [float(v) for v in out["O"]], "D": [[int(d) for d in dd] for dd in out["D"]],
            "keys": sorted(out.keys())}


def _same(a: float, b: float, tol: float) -> bool:
    return (a != a and b != b) or abs(a - b) <= tol          # NaN on both sides (e.g. the mean of an empty array) is agreement


def glue_diff(gen: Dict[str, Any], real: Dict[str, Any]) -> Optional[Tuple[str, int, Any]]:
    """first difference (key, bin, detail) between the generated and the real output dictionary; walk-level keys first.
    Nothing is assumed about the consistency of either dictionary (the value under "nf" is compared, never used as a bound)."""
    if real["keys"] != sorted(["f", "r", "b", "m", "L", "K", "navg", "D", "O", "nf"]):
        return ("keys", 0, real["keys"])
    n = min(len(d[k]) for d in (gen, real) for k in ("L", "K", "f", "r"))
    for j in range(n):
        for k in ("L", "K"):
            if gen[k][j] != real[k][j]:
                return (k, j, {"generated": gen[k][j], "impl": real[k][j]})
        for k in ("f", "r"):
            if not _same(gen[k][j], real[k][j], 1e-9 * max(abs(real[k][j]), 1e-300)):
                return (k, j, {"generated": gen[k][j], "impl": real[k][j]})
    for k in ("f", "L", "K", "r"):
        if len(gen[k]) != len(real[k]):
            return ("nf" if k == "f" else k, n, {"generated_len": len(gen[k]), "impl_len": len(real[k])})
    if gen["nf"] != real["nf"]:
        return ("nf-key", 0, {"generated": gen["nf"], "impl": real["nf"]})
    for k in GLUE_FLOAT_KEYS + GLUE_INT_KEYS + ("O", "D"):
        if len(gen[k]) != len(real[k]):
            return ("len-" + k, 0, {"generated": len(gen[k]), "impl": len(real[k])})
    for j in range(n):
        for k in ("b", "m"):
            if not _same(gen[k][j], real[k][j], 1e-9 * max(abs(real[k][j]), 1e-300)):
                return (k, j, {"generated": gen[k][j], "impl": real[k][j]})
        if gen["navg"][j] != real["navg"][j]:
            return ("navg", j, {"generated": gen["navg"][j], "impl": real["navg"][j]})
        if gen["D"][j] != real["D"][j]:
            return ("D", j, {"generated_head": gen["D"][j][:6], "impl_head": real["D"][j][:6], "generated_len": len(gen["D"][j]), "impl_len": len(real["D"][j])})
        if not _same(gen["O"][j], real["O"][j], 1e-9):
            return ("O", j, {"generated": gen["O"][j], "impl": real["O"][j]})
    return None


def correspondence_glue(ctx, P: C.Part, cfgs: List[Dict[str, Any]]) -> None:
    """the GENERATED schedulers of region SchedGlue (argument unpacking, `lpsd_plan`'s forwarding, the statements after the walk, the
    output dictionary -- translated from schedulers.py each run) executed by the driver against the real schedulers, EVERY key of
    the returned dictionary, on the configurations `correspondence_plans` ran: all four schedulers per configuration; keyword
    dictionaries in shuffled order with an extra unknown key; `lpsd_plan` WITH conflicting / partial / absent `bmin`, `Lmin`;
    a missing required key (TypeError <-> no plan).  Random choices come from a child generator seeded by one integer drawn from
    ctx.rng here, i.e. after everything the existing correspondence draws."""
    import time as _time
    rng = np.random.default_rng(int(ctx.rng.integers(0, 2 ** 62)))
    t0 = _time.time()
    cap = 90.0 if ctx.thorough else 15.0
    done = 0
    for ci, cfg in enumerate(cfgs):
        if _time.time() - t0 > cap or ctx.time_left() < 60:
            P.notes.append(f"glue correspondence stopped after {ci} of {len(cfgs)} configurations (time cap)")
            break
        done += 1
        for sched in SCHEDS:
            items = list(cfg.items())
            variant = "plain"
            if sched == "lpsd":
                variant = ["conflict", "conflict", "no-bmin-Lmin", "only-bmin", "only-Lmin", "int-bmin"][int(rng.integers(0, 6))]
                if variant == "no-bmin-Lmin":
                    items = [(k, v) for k, v in items if k not in ("bmin", "Lmin")]
                elif variant == "only-bmin":
                    items = [(k, v) for k, v in items if k != "Lmin"]
                elif variant == "only-Lmin":
                    items = [(k, v) for k, v in items if k != "bmin"]
                elif variant == "int-bmin":
                    items = [(k, (int(rng.integers(2, 9)) if k == "bmin" else v)) for k, v in items]
                else:
                    # conflicting values that would change the plan if the caller's won
                    items = [(k, (float(rng.uniform(1.5, max(2.0, min(50.0, cfg["N"] / 2 * 0.9)))) if k == "bmin"
                                  else int(rng.integers(2, cfg["N"] + 1)) if k == "Lmin" else v)) for k, v in items]
            elif rng.random() < 0.15 and cfg["N"] / 2 > 3:
                variant = "int-args"                 # Python ints where floats are expected: converted exactly
                ib = int(rng.integers(1, 4))
                items = [(k, (ib if k == "bmin" else 0 if k == "olap" else v)) for k, v in items]
            if rng.random() < 0.5:
                items.append(("zzz_unknown", 3.5))
            order = rng.permutation(len(items))
            items = [items[int(o)] for o in order]
            drop = None
            if rng.random() < 0.08:
                drop = GLUE_REQUIRED[sched][int(rng.integers(0, len(GLUE_REQUIRED[sched])))]
                items = [(k, v) for k, v in items if k != drop]
                variant += "+missing-" + drop
            kwargs = dict(items)
            line = f"genplan {DRV_NAME[sched]} {cfg['N'] + 8} " + kwargs_line(items)
            case = {"op": "genplan", "sched": sched, "kwargs": kwargs, "variant": variant}
            why = ""
            try:
                real = real_dict(sched_fn(sched)(**kwargs))
            except TypeError as ex:          # _require_args: a required name is missing
                real, why = None, "TypeError"
            except SystemExit as ex:         # ltf_plan: `sys.exit(-1)` for an empty plan
                real, why = None, "SystemExit"
            except BaseException as ex:  # noqa
                P.disagreements.append(dict(case, impl_raised=repr(ex)))
                continue
            try:
                gen = parse_plan_dict(ctx.driver.ask(line))
            except Exception as ex:
                P.disagreements.append(dict(case, driver=repr(ex)))
                continue
            P.cases += 1
            P.hit("glue-" + sched)
            if sched == "lpsd":
                P.hit("glue-lpsd-" + variant.split("+")[0])
            P.nontrivial.add(("glue", sched, variant) + cfg_key(cfg))
            if ci == 0 and sched == "lpsd":
                P.sample({"op": "genplan", "sched": sched, "variant": variant, "kwargs": kwargs, "nf": None if real is None else real["nf"]})
            if real is None or gen is None:
                P.hit("glue-missing-key" if drop else "glue-no-plan")
                if (real is None) != (gen is None):
                    P.disagreements.append(dict(case, generated=("no plan" if gen is None else "plan"), impl=(why if real is None else "plan"), dropped=drop))
                continue
            d = glue_diff(gen, real)
            if d is None:
                P.hit("glue-bins", real["nf"])
                continue
            if d[0] in ("L", "K", "f", "r", "nf"):
                # a walk-level difference (region Sched's walk inside the generated scheduler): rounding-boundary probe as for `genwalk`
                rp = {"nf": real["nf"], "L": real["L"], "K": real["K"], "f": real["f"]}
                base = {k: v for k, v in kwargs.items() if k != "zzz_unknown"}
                base.setdefault("bmin", 1.0)         # lpsd_plan ignores / supplies these two
                base.setdefault("Lmin", 1)
                if unstable(sched, base, rp, d[1]):
                    P.unstable += 1
                    P.hit("unstable-boundary")
                    # the statements after the walk are still checked on this case: generated tail on the REAL walk's lists
                    w = DRV_NAME[sched]
                    if w != "lpsd":
                        tl = f"gentail {w} {cfg['N']} {C.arr(real['f'])} {C.arr(real['r'])} " + ("" if w == "vec" else C.arr(real["b"]) + " ") \
                             + f"{C.iarr(real['L'])} {C.iarr(real['K'])}"
                        try:
                            g2 = parse_plan_dict(ctx.driver.ask(tl))
                            d2 = glue_diff(g2, real) if g2 is not None else ("no plan", 0, None)
                        except Exception as ex:
                            d2 = ("driver", 0, repr(ex))
                        P.cases += 1
                        P.hit("gluetail-" + sched)
                        if d2 is not None:
                            P.disagreements.append({"op": "gentail", "sched": sched, "cfg": cfg, "key": d2[0], "bin": d2[1], "detail": d2[2]})
                    continue
            P.disagreements.append(dict(case, cfg=cfg, key=d[0], bin=d[1], detail=d[2]))
    P.notes.append(f"glue correspondence (region SchedGlue): {done} configurations x 4 schedulers in {_time.time() - t0:.1f} s")


# ------------------------------------------------------------------------------------------ predicates (oracle)
def viol(prop: str, sched: str, cfg, sub: str, what: str, extra: Optional[Dict] = None) -> C.Violation:
    sig = {"scheduler": sched, "subclaim": sub}
    try:
        sig["one_minus_olap"] = 1.0 - float(cfg["olap"])
    except Exception:
        pass
    if extra:
        sig.update(extra)
    return C.Violation(what=f"{sched}: {what}  cfg={cfg}", signature=sig, replay={"scheduler": sched, "cfg": cfg, "subclaim": sub})


def shape_violation(prop: str, sched: str, cfg, plan) -> List[C.Violation]:
    """the output dictionary is one consistent table: "nf" = len(f) and every per-bin entry has nf elements (the predicates below
    index every entry by bin number, so an inconsistent table is reported here instead of crashing them)"""
    lens = {k: len(plan[k]) for k in ("f", "r", "b", "L", "K", "navg", "D", "O")}
    if any(v != plan["nf"] for v in lens.values()):
        return [viol(prop, sched, cfg, "nf-eq-len", f"output dictionary is inconsistent: nf={plan['nf']} but entry lengths {lens}")]
    return []


def pred_C02(sched: str, cfg, plan) -> List[C.Violation]:
    """every plan segments the record safely and completely"""
    out = shape_violation("C02", sched, cfg, plan)
    if out:
        return out
    e = eff(cfg, sched)
    N = cfg["N"]
    if plan["nf"] < 1:
        out.append(viol("C02", sched, cfg, "nonempty", "plan has no bins"))
    for j in range(plan["nf"]):
        L, K, D, navg = plan["L"][j], plan["K"][j], plan["D"][j], plan["navg"][j]
        if len(D) < 1:
            out.append(viol("C02", sched, cfg, "segments", f"bin {j} has no segment"))
            break
        if not (navg == len(D) == K):
            out.append(viol("C02", sched, cfg, "navg-eq-starts", f"bin {j}: navg={navg} K={K} but {len(D)} starts"))
            break
        if not (max(1, e["Lmin"]) <= L <= N):
            out.append(viol("C02", sched, cfg, "L-range", f"bin {j}: L={L} outside [{max(1, e['Lmin'])},{N}]"))
            break
        if D[0] != 0:
            out.append(viol("C02", sched, cfg, "first-start", f"bin {j}: first start {D[0]} != 0"))
            break
        if any(d < 0 or d + L > N for d in D):
            out.append(viol("C02", sched, cfg, "in-range", f"bin {j}: a segment leaves the record (L={L}, N={N}, max start {max(D)})"))
            break
        if any(D[i + 1] <= D[i] for i in range(len(D) - 1)):
            out.append(viol("C02", sched, cfg, "strictly-increasing", f"bin {j}: starts not strictly increasing (L={L}, K={K})"))
            break
        if D[-1] + L != N:
            out.append(viol("C02", sched, cfg, "last-ends-at-N", f"bin {j}: last segment ends at {D[-1] + L} != N={N}"))
            break
        if K == 1 and L != N:
            out.append(viol("C02", sched, cfg, "single-segment-whole-record", f"bin {j}: K=1 but L={L} != N={N}"))
            break
    return out


def ulps(x: float, n: float = 8.0) -> float:
    return n * EPS * max(abs(x), 1e-300)


def pred_C03(sched: str, cfg, plan) -> List[C.Violation]:
    out = shape_violation("C03", sched, cfg, plan)
    if out:
        return out
    e = eff(cfg, sched)
    N, fs = cfg["N"], cfg["fs"]
    f, r, b, L = plan["f"], plan["r"], plan["b"], plan["L"]
    nf = plan["nf"]
    if nf < 1:
        return out
    f0 = e["bmin"] * fs / N
    if not abs(f[0] - f0) <= ulps(f0):
        out.append(viol("C03", sched, cfg, "f0", f"f[0]={f[0]!r} != bmin*fs/N={f0!r}"))
    if not plan["m_is_b"]:
        out.append(viol("C03", sched, cfg, "m-is-b", "reported m differs from b"))
    q = 1.0
    if sched == "vectorized_ltf":
        ng = 10 * cfg["Jdes"]
        q = (fs / 2 / f0) ** (1.0 / max(ng - 1, 1)) if ng > 1 else (fs / 2 / f0)
    for j in range(nf):
        if not abs(r[j] * L[j] - fs) <= ulps(fs):
            out.append(viol("C03", sched, cfg, "rL-eq-fs", f"bin {j}: r*L={r[j] * L[j]!r} != fs={fs!r} (r={r[j]!r}, L={L[j]})"))
            break
        if not (f[j] < fs / 2):
            out.append(viol("C03", sched, cfg, "below-nyquist", f"bin {j}: f={f[j]!r} >= fs/2"))
            break
        if j + 1 < nf:
            if not abs(f[j + 1] - (f[j] + r[j])) <= ulps(f[j + 1]):
                out.append(viol("C03", sched, cfg, "stepping", f"bin {j}: f[j+1]={f[j + 1]!r} != f[j]+r[j]={f[j] + r[j]!r}"))
                break
            if not f[j + 1] > f[j]:
                out.append(viol("C03", sched, cfg, "increasing", f"bin {j}: f not strictly increasing"))
                break
        bj = f[j] * L[j] / fs
        if not (abs(b[j] - bj) <= ulps(bj) and abs(b[j] - f[j] / r[j]) <= ulps(bj)):
            out.append(viol("C03", sched, cfg, "bin-number", f"bin {j}: b={b[j]!r} != f*L/fs={bj!r}"))
            break
        # bmin slack: rounding of L (and the lookup-grid ratio q for the vectorised scheduler)
        slack = f[j] / (2 * fs)
        lo = e["bmin"] / q - slack if sched != "new_ltf" else e["bmin"]
        if not b[j] >= lo - 1e-9 * max(1.0, e["bmin"]):
            out.append(viol("C03", sched, cfg, "bmin-slack", f"bin {j}: b={b[j]!r} below bmin={e['bmin']!r} by more than the rounding of L allows (bound {lo!r})"))
            break
    return out


def pred_C03_lpsd_is_ltf(cfg) -> List[C.Violation]:
    a = real_plan("lpsd", cfg)
    b = real_plan("ltf", dict(cfg, bmin=1.0, Lmin=1))
    same = (a["nf"] == b["nf"] and a["L"] == b["L"] and a["K"] == b["K"] and a["D"] == b["D"] and np.array_equal(a["f"], b["f"])
            and np.array_equal(a["r"], b["r"]))
    if not same:
        return [viol("C03", "lpsd", cfg, "lpsd-is-ltf", "lpsd_plan differs from ltf_plan with bmin=1, Lmin=1")]
    return []


def nearest_int_ok(K: int, v: Fraction) -> bool:
    return abs(Fraction(K) - v) <= Fraction(1, 2) + Fraction(1, 10 ** 9)


def pred_C04(sched: str, cfg, plan) -> List[C.Violation]:
    out = shape_violation("C04", sched, cfg, plan)
    if out:
        return out
    e = eff(cfg, sched)
    N, fs = cfg["N"], cfg["fs"]
    L, K, D, O, f = plan["L"], plan["K"], plan["D"], plan["O"], plan["f"]
    nf = plan["nf"]
    xov_f = 1 - cfg["olap"]
    xov = Fraction(xov_f)
    logfact = (N / 2) ** (1 / cfg["Jdes"]) - 1
    fresmin = fs / N
    freslim = fresmin * (1 + xov_f * (cfg["Kdes"] - 1))
    q = 1.0
    if sched == "vectorized_ltf":
        ng = 10 * cfg["Jdes"]
        f0 = e["bmin"] * fs / N
        q = (fs / 2 / f0) ** (1.0 / max(ng - 1, 1)) if ng > 1 else (fs / 2 / f0)
    for j in range(nf):
        if j + 1 < nf and L[j + 1] > L[j]:
            out.append(viol("C04", sched, cfg, "L-nonincreasing", f"L increases from bin {j} ({L[j]}) to {j + 1} ({L[j + 1]})"))
            break
        if j + 1 < nf and K[j + 1] < K[j]:
            out.append(viol("C04", sched, cfg, "K-nondecreasing", f"K decreases from bin {j} ({K[j]}) to {j + 1} ({K[j + 1]})"))
            break
        # number of averages: nearest integer to 1+(N-L)/((1-olap)L), capped at N-L+1
        v = 1 + Fraction(N - L[j]) / (xov * L[j])
        cap = N - L[j] + 1
        okK = (K[j] == cap and v >= cap - Fraction(1, 2) - Fraction(1, 10 ** 9)) or (K[j] <= cap and nearest_int_ok(K[j], v))
        if not okK:
            out.append(viol("C04", sched, cfg, "K-formula", f"bin {j}: K={K[j]} is not the integer nearest to {float(v)!r} capped at {cap} (L={L[j]})"))
            break
        # even spreading
        if K[j] > 1:
            sh = Fraction(N - L[j], K[j] - 1)
            worst = max(abs(Fraction(D[j][i]) - i * sh) for i in range(len(D[j])))
            if worst > Fraction(1, 2) + Fraction(1, 10 ** 6):
                out.append(viol("C04", sched, cfg, "even-spread", f"bin {j}: a start is {float(worst):.3f} samples from its ideal position (L={L[j]}, K={K[j]})"))
                break
            real_ov = float(np.mean([(L[j] - (D[j][i + 1] - D[j][i])) / L[j] for i in range(len(D[j]) - 1)]))
        else:
            real_ov = 0.0
        if not abs(float(O[j]) - real_ov) <= 1e-9:
            out.append(viol("C04", sched, cfg, "overlap-reported", f"bin {j}: reported overlap {float(O[j])!r} != realised mean overlap {real_ov!r}"))
            break
        # log spacing and Kdes where nothing clamps (lpsd, ltf, vectorised only)
        if sched in ("ltf", "lpsd", "vectorized_ltf") and logfact > 0:
            fj = float(f[j])
            ideal_hi = fs / (fj * logfact)
            ideal_lo = fs / (q * fj * logfact)
            margin = 1e-6
            unclamped = (fj * logfact >= freslim * (1 + margin) and 1 / logfact >= e["bmin"] * (1 + margin) * q
                         and ideal_lo - 0.5 >= max(1, e["Lmin"]) + margin and ideal_hi + 0.5 <= N - margin)
            if unclamped and K[j] > 1:
                if not (ideal_lo - 0.5 - 1e-6 * ideal_lo <= L[j] <= ideal_hi + 0.5 + 1e-6 * ideal_hi):
                    out.append(viol("C04", sched, cfg, "log-spacing",
                                    f"bin {j}: L={L[j]} is not fs/(f*c) rounded (expected within [{ideal_lo - .5:.3f},{ideal_hi + .5:.3f}]), c=(N/2)^(1/Jdes)-1"))
                    break
                attainable = (N - L[j] + 1 >= cfg["Kdes"]) and (L[j] * (1 + xov_f * (cfg["Kdes"] - 1)) <= N * (1 - 1e-9))
                if attainable and K[j] < cfg["Kdes"]:
                    out.append(viol("C04", sched, cfg, "at-least-Kdes", f"bin {j}: K={K[j]} < Kdes={cfg['Kdes']} although attainable (L={L[j]})"))
                    break
    return out


def pred_C04_count(cfg) -> List[C.Violation]:
    """vectorised scheduler produces the same number of bins as the iterative one to within 10 % -- or one bin, the resolution of
    a count: for plans with fewer than ten bins a difference of a single bin already exceeds 10 % and is not what "about ten
    percent" can mean (thorough sweep, seed 0: all discrepancies at Jdes >= 10 were exactly one bin in plans of 3..9 bins)"""
    a = real_plan("vectorized_ltf", cfg)["nf"]
    b = real_plan("ltf", cfg)["nf"]
    if abs(a - b) > max(1.0, 0.10 * b):
        return [viol("C04", "vectorized_ltf", cfg, "count-vs-iterative", f"vectorised plan has {a} bins, iterative {b} (> 10 % apart)",
                     extra={"Jdes": cfg["Jdes"]})]
    return []


def pred_C04_force_history(cfgs: List[Dict[str, Any]], sched: str) -> List[C.Violation]:
    """forced target count over a HISTORY of plans in one process (consecutive configurations differ in one parameter):
    each plan has exactly the target count or raises -- whatever was planned before"""
    out: List[C.Violation] = []
    for k, cfg in enumerate(cfgs):
        vs = pred_C04_force(cfg, sched)
        for v in vs:
            v.what = f"after {k} earlier forced plans: " + v.what
            v.signature["subclaim"] = "forced-count-history"
            v.replay = {"scheduler": sched, "subclaim": "forced-count-history", "history": cfgs[:k + 1], "cfg": cfg}
        out.extend(vs)
        if vs:
            break
    return out


def pred_C04_force(cfg, sched: str) -> List[C.Violation]:
    """forcing a target bin count yields exactly that count or an error"""
    from speckit.analysis import SpectrumAnalyzer
    target = cfg["Jdes"]
    try:
        an = SpectrumAnalyzer(np.zeros(cfg["N"]), cfg["fs"], olap=cfg["olap"], bmin=cfg["bmin"], Lmin=cfg["Lmin"], Jdes=target,
                              Kdes=cfg["Kdes"], scheduler=sched, win="hann", force_target_nf=True)
        p = an.plan()
    except RuntimeError:
        return []
    if int(p["nf"]) != target or len(p["f"]) != target:
        return [viol("C04", sched, cfg, "forced-count", f"forced target {target} but plan has {int(p['nf'])} bins")]
    return []
