"""C13 — inputs are handled robustly: sanitised, never modified, layout-independent.

Sub-claims (DESIGN §4 C13), all evaluated on the REAL `speckit` (SpectrumAnalyzer / compute_spectrum / lpsd / compute_single_bin):
  a  sanitise    non-finite samples are treated as zeros: the analyzer's stored record IS the zero-filled record and every result
                 field equals, bit for bit, the result for the zero-filled record (same code path)
  b  untouched   the caller's object (array, base buffer of a view, list members, masked array, Series/DataFrame) is exactly as it was after
                 construction and after every analysis call (every order, numba and NumPy backends, full plan and single bin): the same BYTES,
                 and the same OBJECT STATE (class Watch: dtype, shape, strides, data address, every NumPy flag, identity and flags of the `.base`
                 chain of a view, mask / hard mask / fill value of a masked array, identity of every list element, index / columns / name / attrs /
                 `.values` flags of a pandas object); then the caller's own next statement — an in-place update of its arrays — succeeds if the
                 array was writeable before the call and still raises if it was read-only before
  c  layout      the same channels presented as 2xN / Nx2 (copy, transposed view, F-order, strided), list / tuple of arrays, nested lists,
                 float32 / int64 / longdouble (only when exactly representable), read-only, reversed strides, pandas objects give
                 bit-identical results; 2x2: rows are the channels (documented convention, nothing more is demanded)
  d  finite      for finite input (all-zero, constant, one zero channel, identical channels, tiny, huge-but-safe) every density,
                 coherence and transfer-function value is finite and every error bar is finite where the coherence is positive;
                 `cf_db` is excluded (DESIGN §3: legitimately -inf at a zero transfer function); nothing raises
  a-d are evaluated (i) on random records x presentations x options (layout / finite streams), (ii) by the OPTION SWEEP: every (backend, order,
  mode) kernel branch on every run, both entry points and the module-level wrappers incl. single bins requested by `fres`, user schedulers,
  every overlap request form and window kind, and call HISTORIES (second / third analysis on the same analyzer and on the same input array:
  bytes untouched after every call, results bit-identical), plus the two backends against each other within the kernels' rounding budget,
  (iii) on LONG records (>= 70001 samples, lengths around 2^16 and around the block constants mined from the current source, 1.1e6 samples)
  with non-finite samples near the end, (iv) by the OBJECT STREAM: every presentation (finite and with non-finite samples) through all seven
  entry forms in one call history on the same object, and masked arrays WITH masked samples (sub-claim b only).
Correspondence: (a) the aliasing rules of the hand model `Model.heapStep` run over the GENERATED constructor op lists (Gen/Ctor.lean)
predict whether `an.data` shares memory with the caller's array / whether the caller's buffer is written; compared with
`np.shares_memory` / a byte comparison on the real constructor; (b) generated attribute table vs the real `__getattr__`;
(c) the generated constructor DECISIONS (Gen/CtorShape.lean: validation, config table, shape dispatch, sanitising map) executed by the driver
vs the real `SpectrumAnalyzer(data, fs, **kw)` over shape classes x containers x dtypes x non-finite placements x keyword subsets.
"""
from __future__ import annotations

import logging
import os
import re
import warnings
from typing import Any, Dict, List, Optional, Tuple

import numpy as np

from .. import common as C
from . import _an

PROP = "C13"
# obligations of the properties this one is downstream of are obligations of this check too (vk.runner.collect_obligations)
UPSTREAM = ["C05"]
GEN_REGIONS = ["Ctor", "Attrs", "KernelHeap", "ResultQueries", "CtorShape", "GlobalState"]
THEOREMS = {
    # compute() zero-fills non-finite statistics: over strict partial reals every stored XX, YY, XY, S12, S2, M2 is finite (translated each run)
    "SpecKitV.Props.ResultQueriesGen": ["gen_compute_sanitised", "gen_compute_assemble_eq_model"],
    "SpecKitV.Lemmas.AnalyzerGlue": ["Model.channelOf_transpose", "Model.sanitise_idem", "Model.sanitise_eq_zero_fill",
                                     "Model.ctor_copy_no_foreign_write", "Model.ctor_copy_no_write", "Model.ctor_inplace_writes_caller",
                                     "Model.ctor_inplace_spares_copied", "Model.heapRun_written_ge"],
    "SpecKitV.Props.C13": ["ctor_ops_copying", "ctor_writes_nothing", "ctor_written_ge", "ctor_result_fresh", "inplace_would_write_fortran_Nx2"],
    # buffer operations of the six NumPy fallback kernels (+ _gather_segments inlined), regenerated from core.py each run: no execution writes a
    # buffer the kernel was handed (simulation concrete <= may-alias abstraction, then evaluation of the generated op lists)
    "SpecKitV.Props.KernelHeapGen": ["cRun_sub_aRun", "np_kernels_abstract_clean", "np_kernels_write_no_caller_buffer", "view_gather_would_write",
                                     "np_kernels_do_write"],
    # the DECISIONS of SpectrumAnalyzer.__init__ (validation, config table, rank / shape dispatch, sanitising map), translated each run, proved equal
    # to the specification Model.ctorSpec (through Model.channelOf / Model.sanitise) for all inputs; layout / sanitise theorems restated for it
    "SpecKitV.Props.CtorShapeGen": ["CtorShapeGen." + t for t in (
        "gen_ctor_eq_model", "gen_ctor_call_eq_model", "gen_ctor_defaults", "gen_ctor_defaults_eq_model", "gen_ctor_positional",
        "gen_ctor_default_bmin_real", "gen_ctor_config_table", "gen_ctor_shape", "gen_ctor_1d", "gen_ctor_rows", "gen_ctor_2x2_rows",
        "gen_ctor_cols", "gen_ctor_layout_independent", "gen_ctor_rows_cols_same", "gen_ctor_invalid_shape_raises",
        "gen_ctor_invalid_shape_valueerror", "gen_ctor_valid_no_raise", "gen_sanitise_elem", "gen_ctor_sanitise_eq_zero_fill",
        "gen_ctor_stored_record", "gen_ctor_stored_finite", "gen_ctor_1d_real", "finiteLaws_real", "finiteLaws_preal",
        "spec_shape_transpose", "spec_shape_zero_fill", "spec_shape_none_iff", "spec_ok", "head_fs")],
    # C13FINITE-PLACEHOLDER (filled in below when SpecKitV/Props/C13Finite.lean exists; see FINITE_THEOREMS)
    # no state outlives a call in the files this property is anchored in (no module/class-level containers, memoisers, mutable defaults) and the
    # decorators are exactly the audited ones (region GlobalState, re-scanned from the current source each run)
    "SpecKitV.Props.GlobalStateGen": ["GlobalStateGen.gen_globalState_analysis"],
}
# Props/C13Finite.lean (attribute table instantiated at strict partial reals) is written by another task. The theorems it is planned
# to contain are listed here; they are added to THEOREMS only when the file exists, so that a missing file is not reported as a
# broken obligation of a finished proof and an existing one is audited in full.
FINITE_THEOREMS = ["densities_finite", "coherence_finite", "tf_finite", "conditioned_finite", "empirical_finite",
                   "auto_errors_finite", "cross_errors_finite"]


def _finite_theorems_present() -> List[str]:
    p = os.path.join(C.LEAN_DIR, "SpecKitV", "Props", "C13Finite.lean")
    if not os.path.exists(p):
        return []
    txt = open(p).read()
    txt = re.sub(r"/-.*?-/", "", txt, flags=re.S)
    txt = re.sub(r"--.*", "", txt)
    ns = re.search(r"^namespace\s+(\S+)", txt, flags=re.M)
    pre = (ns.group(1) + ".") if ns else ""
    return [pre + t for t in FINITE_THEOREMS if re.search(r"^\s*theorem\s+" + re.escape(t) + r"\b", txt, flags=re.M)]


_ft = _finite_theorems_present()
if _ft:
    THEOREMS["SpecKitV.Props.C13Finite"] = _ft

CONTRACTS = ["NumPy aliasing rules assumed by Model.heapStep: np.asarray returns an ndarray argument itself and allocates for any other container; "
             ".T is a view; np.ascontiguousarray(a, dtype=float64) returns `a` iff it is C-contiguous float64 and allocates otherwise; "
             "np.nan_to_num(copy=False) writes its argument's buffer, copy=True allocates (validated each run against np.shares_memory)",
             "fancy indexing x[idx] (core._gather_segments) returns a copy, so the NumPy backend's in-place detrending cannot reach the record",
             "NumPy aliasing rules assumed by Model.KOp (Model/KHeap.lean; validated each run with np.shares_memory): advanced indexing copies; basic "
             "indexing, .T, .real, .imag, reshape are views; `a op= b` and `a[...] = b` write a's buffer; np.nan_to_num(copy=False) returns its "
             "argument after sanitising it in place; arithmetic, reductions, np.empty/exp/arange allocate; np.asarray may return its argument",
             "SpecKitV/Np/CtorShape.lean (vocabulary of the translated constructor Gen/CtorShape.lean; exercised each run by the `ctorcall` differential): "
             "CS.asarray = np.asarray(data) IS the input model (shape + index function; nested lists/tuples take their nesting shape, a scalar/None is 0-d; "
             "ragged nesting raises inside NumPy and is outside the model); CS.ascontiguousarray_f64 = np.ascontiguousarray(x, dtype=np.float64) at the value "
             "level (identity on the elements: the dtypes used convert exactly; at least 1-d); CS.NdArr.ndim / shapeAt / T / item / len = x.ndim, "
             "x.shape[k] (IndexError out of range), x.T (axes reversed), x[k] (IndexError), len(x) (TypeError for 0-d); CS.NdArr.all / any / map = "
             "np.all / np.any / elementwise application; CS.isfinite / isnan / isinf = np.isfinite / np.isnan / np.isinf on one element (x-x==0, x!=x); "
             "CS.nanToNum = np.nan_to_num(x, nan=, posinf=, neginf=) on one element, CS.f64max = np.finfo(float64).max (NumPy's default for posinf/-neginf)",
             "Python builtins on argument values (CS.PyVal: None | bool | int | float | str | callable by name | other truthy object): CS.pyFloat = float(v) "
             "(None/callable/object: TypeError; str: CPython's parse, supplied by the harness), CS.pyInt = int(v) (truncation; NaN: ValueError, +-Inf: "
             "OverflowError; str: CPython's parse), CS.pyBool = bool(v) (NaN truthy), CS.pyStr = str(v) (repr of floats/objects supplied by the harness), "
             "CS.npIsfinite = np.isfinite(scalar) (non-numbers: TypeError), CS.pyCmp = ordering between numbers (non-numbers: TypeError; ints exactly, "
             "otherwise as floats, exact for |int| < 2^53), CS.pyEq / pyIn = == / `in` over a literal tuple; CS.dictSet = d[k] = v (replace in place or "
             "append); CS.kwGet + ctor_call = keyword binding (unknown keyword: TypeError; missing: the signature's default); short-circuit and/or/not with "
             "exceptions (CS.andE / orE / bind); `self._process_window_config()` / `self._process_scheduler_config()` enter as parameters config -> config "
             "or raise (they touch self.config / self.verbose only: checked on the AST each run; translated separately in Gen/ConfigGlue)"]
ASSUMPTIONS = ["finiteness (sub-claim d) is demanded for records whose amplitude a satisfies 1e-65 <= a <= 1e60 or whose squares underflow to exactly "
               "zero (a = 1e-300): outside, IEEE overflow/underflow of XX*YY and |XY|^2 is outside the model (DESIGN §4 C13-d). Observed on the real "
               "code and reported as a note each run: amplitudes in about [1e-160, 1e-85] give NaN coherence (XX*YY underflows to 0 behind a guard "
               "that tests XX != 0 and YY != 0), amplitudes >= 1e78 give NaN coherence (inf/inf)",
               "Model.heapStep models `.T` as 'not C-contiguous'; for an F-contiguous N x 2 float64 input NumPy's `.T` IS C-contiguous and the "
               "constructor aliases the caller's buffer on the all-finite path. No theorem depends on that rule (no in-place operation is left); the "
               "correspondence uses the refined rule (swap C/F contiguity) for exactly these inputs and reports them in the histogram",
               "bit-identity of two runs on equal float64 records relies on run-to-run determinism of the kernels (property C14)",
               "the theorems are about the generated op lists / attribute table; rounding is not involved in sub-claims a-c (exact equalities)"]
RULE = ("cases = (record kind incl. zero/constant/ramp/tiny/huge, non-finite pattern none/single/burst/first/last/whole channel/all/mixed kinds, "
        "presentation (2xN, Nx2 copy/view/F/strided, list/tuple/nested list, float32/int64/longdouble, read-only, reversed, pandas), order -1..2, "
        "backend auto|numpy, entry analyzer.compute|compute_spectrum|lpsd|analyzer.compute_single_bin|compute_single_bin, scheduler, window); "
        "distinct by (stream, presentation, pattern, order, backend, entry, mode); non-trivial = N >= 8 and the presentation or the pattern "
        "differs from the plain C-contiguous float64 finite record, or the record is degenerate (finiteness stream). "
        "Option sweep (every run): every (backend numba|numpy, order -1..2, auto|cross) cell x {aliasing presentation + call history on one analyzer / one "
        "input array, 2xN vs Nx2 vs list + one cycling container/dtype/memory order, non-finite pattern through each of the 7 entry forms in turn, "
        "degenerate record, saturated record}, cycling scheduler (4 built-in, fixed-length 'welch', re-listed lengths, all-structures 'mix'), overlap "
        "request (default | float | 0.0 | so high that (1-olap)L < 1), window (kaiser psll | hann | callable | default | scipy kaiser), single bin by L or "
        "by fres; distinct by all of these. Long records: N = 70001, three lengths around 2^16 / the block constants mined from the current source, and "
        "1100003, non-finite samples in the last block / at block boundaries, single bins whose segment count crosses the kernels' chunk sizes. "
        "Object stream (every run): every presentation of the lists (+ C-contiguous views into larger buffers, masked arrays) x {finite, one non-finite "
        "pattern} x a permutation of all 7 entry forms on the SAME object, backends cycling; masked arrays with masked samples (finite / NaN / Inf "
        "underneath, hard / soft mask, 1-D / 2xN / Nx2 / list of two) through 4 entry forms; after every step the caller's object state (flags, shape, "
        "strides, base chain, mask, element identities, pandas axes) is compared and the caller's in-place update is performed")

ORDERS = [-1, 0, 1, 2]
BACKENDS = ["auto", "numpy"]
ENTRIES = ["analyzer.compute", "compute_spectrum", "lpsd", "analyzer.single", "compute_single_bin"]
FIELDS = ("f", "r", "b", "L", "K", "navg", "O", "XX", "YY", "XY", "M2", "S12", "S2")
DENS = ["Gxx", "Gyy", "Gxy", "psd", "asd", "ps", "csd", "cs", "coh", "ccoh", "Hxy", "Hyx", "tf", "cf", "cf_rad", "cf_deg",
        "GyyCx", "GyyRx", "GyySx"]
ERRS = ["Gxx_dev", "Gyy_dev", "Gxy_dev", "Hxy_dev", "coh_dev", "Gxx_error", "Gyy_error", "Gxy_error", "Hxy_mag_error",
        "Hxy_rad_error", "Hxy_deg_error", "coh_error", "XY_emp_var", "XY_emp_dev", "Gxx_emp_dev", "Gxy_emp_dev"]
PRES_CROSS = ["2xN_C", "2xN_F", "2xN_strided", "2xN_Tview", "2xN_readonly", "2xN_rev", "Nx2_C", "Nx2_Tview", "Nx2_F", "Nx2_strided",
              "list_arrays", "tuple_arrays", "list_lists", "list_views", "ld_2xN", "df", "2xN_rows_of_2d", "ma_2xN"]
PRES_CROSS_F32 = ["f32_2xN", "f32_Nx2_Tview", "f32_list_arrays"]
PRES_CROSS_INT = ["i64_2xN", "i64_Nx2_C", "i32_Nx2_Tview", "int_list_lists"]
PRES_AUTO = ["1d_C", "1d_strided", "1d_rev", "1d_row_of_2d", "1d_col_of_2d", "1d_readonly", "1d_list", "1d_tuple", "1d_ld", "series", "1d_slice",
             "1d_ma"]
PRES_AUTO_F32 = ["1d_f32"]
PRES_AUTO_INT = ["1d_i64", "1d_int_list"]
PATTERNS = ["none", "single", "burst", "first", "last", "first+last", "channel0", "channel1", "all", "scattered"]
MAX_VIOL = 8
FILL = -3.5


def quiet() -> None:
    for name in ("speckit", "speckit.analysis", "speckit.core", "speckit.schedulers", "root"):
        logging.getLogger(name).setLevel(logging.CRITICAL + 10)
    logging.getLogger().setLevel(logging.CRITICAL + 10)


def hexs(a) -> Optional[List[str]]:
    return None if a is None else [C.f2h(v) for v in np.asarray(a, dtype=np.float64).ravel()]


def unhex(l) -> Optional[np.ndarray]:
    return None if l is None else np.array([C.h2f(s) for s in l], dtype=np.float64)


def zero_fill(a: Optional[np.ndarray]) -> Optional[np.ndarray]:
    if a is None:
        return None
    z = np.array(a, dtype=np.float64, copy=True)
    z[~np.isfinite(z)] = 0.0
    return z


# ---------------------------------------------------------------- presentations of one record
def present(name: str, x: np.ndarray, y: Optional[np.ndarray]) -> Tuple[Any, List[Any]]:
    """the caller's object for channels (x, y) [y None: one channel] and the list of underlying objects whose bytes must not change"""
    N = len(x)
    if y is not None:
        two = np.array([x, y], dtype=np.float64)                # 2 x N, C
        if name == "2xN_C":
            return two, [two]
        if name == "2xN_F":
            a = np.asfortranarray(two)
            return a, [a]
        if name == "2xN_strided":
            big = np.full((4, 2 * N + 1), FILL)
            big[::2, 1:2 * N:2] = two
            return big[::2, 1:2 * N:2], [big]
        if name == "2xN_Tview":
            c = np.ascontiguousarray(two.T)
            return c.T, [c]
        if name == "2xN_readonly":
            two.setflags(write=False)
            return two, [two]
        if name == "2xN_rows_of_2d":                             # a C-contiguous float64 (2, N) VIEW: two adjacent rows of a larger buffer
            big = np.full((5, N), FILL)
            big[1:3] = two
            return big[1:3], [big]
        if name == "ma_2xN":                                    # masked array, explicit mask with no sample masked
            a = np.ma.array(two, mask=np.zeros(two.shape, dtype=bool))
            return a, [a]
        if name == "2xN_rev":
            b = np.ascontiguousarray(two[:, ::-1])
            return b[:, ::-1], [b]
        if name == "Nx2_C":
            a = np.ascontiguousarray(two.T)
            return a, [a]
        if name == "Nx2_Tview":
            return two.T, [two]
        if name == "Nx2_F":
            a = np.asfortranarray(two.T)
            return a, [a]
        if name == "Nx2_strided":
            big = np.full((2 * N, 5), FILL)
            big[::2, 1:4:2] = two.T
            return big[::2, 1:4:2], [big]
        if name == "list_arrays":
            l = [x.copy(), y.copy()]
            return l, list(l)
        if name == "tuple_arrays":
            l = (x.copy(), y.copy())
            return l, list(l)
        if name == "list_lists":
            l = [x.tolist(), y.tolist()]
            return l, [l]
        if name == "list_views":
            bx, by = np.full(2 * N, FILL), np.full(3 * N, FILL)
            bx[::2] = x
            by[1::3] = y
            return [bx[::2], by[1::3]], [bx, by]
        if name == "ld_2xN":
            a = two.astype(np.longdouble)
            return a, [a]
        if name == "df":
            import pandas as pd
            d = pd.DataFrame({"a": x.copy(), "b": y.copy()})
            return d, [d]
        if name == "f32_2xN":
            a = two.astype(np.float32)
            return a, [a]
        if name == "f32_Nx2_Tview":
            b = two.astype(np.float32)
            return b.T, [b]
        if name == "f32_list_arrays":
            l = [x.astype(np.float32), y.astype(np.float32)]
            return l, list(l)
        if name == "i64_2xN":
            a = two.astype(np.int64)
            return a, [a]
        if name == "i64_Nx2_C":
            a = np.ascontiguousarray(two.T).astype(np.int64)
            return a, [a]
        if name == "i32_Nx2_Tview":
            b = two.astype(np.int32)
            return b.T, [b]
        if name == "int_list_lists":
            l = [[int(v) for v in x], [int(v) for v in y]]
            return l, [l]
    else:
        if name == "1d_C":
            a = x.copy()
            return a, [a]
        if name == "1d_strided":
            big = np.full(2 * N + 1, FILL)
            big[1:2 * N:2] = x
            return big[1:2 * N:2], [big]
        if name == "1d_rev":
            b = x[::-1].copy()
            return b[::-1], [b]
        if name == "1d_row_of_2d":
            m = np.full((3, N), FILL)
            m[1] = x
            return m[1], [m]
        if name == "1d_col_of_2d":
            m = np.full((N, 3), FILL)
            m[:, 1] = x
            return m[:, 1], [m]
        if name == "1d_readonly":
            a = x.copy()
            a.setflags(write=False)
            return a, [a]
        if name == "1d_slice":                                  # a C-contiguous float64 VIEW into the middle of a longer buffer
            big = np.full(N + 7, FILL)
            big[3:3 + N] = x
            return big[3:3 + N], [big]
        if name == "1d_ma":
            a = np.ma.array(x.copy(), mask=np.zeros(N, dtype=bool))
            return a, [a]
        if name == "1d_list":
            l = x.tolist()
            return l, [l]
        if name == "1d_tuple":
            l = tuple(x.tolist())
            return l, [l]
        if name == "1d_ld":
            a = x.astype(np.longdouble)
            return a, [a]
        if name == "series":
            import pandas as pd
            s = pd.Series(x.copy())
            return s, [s]
        if name == "1d_f32":
            a = x.astype(np.float32)
            return a, [a]
        if name == "1d_i64":
            a = x.astype(np.int64)
            return a, [a]
        if name == "1d_int_list":
            l = [int(v) for v in x]
            return l, [l]
    raise ValueError(f"presentation {name} for {'two' if y is not None else 'one'} channel(s)")


def snapshot(roots: List[Any]) -> List[bytes]:
    out = []
    for r in roots:
        if isinstance(r, np.ndarray):
            out.append(r.tobytes() + repr((r.shape, r.strides, r.dtype.str)).encode())
        elif isinstance(r, (list, tuple)):
            out.append(repr(type(r)).encode() + np.asarray(r, dtype=np.float64).tobytes())
        else:                                   # pandas object
            out.append(r.to_numpy(copy=True).tobytes() + repr(r.shape).encode())
    return out


# ---------------------------------------------------------------- "left untouched" = the caller's OBJECT is exactly as it was
# The bytes are one aspect of the caller's object.  The others a caller can observe — and trip over in its next statement — are recorded before the
# call and compared (exactly: they are identities, integers, booleans, type names) after EVERY call of a case / step of a call history:
#   ndarray       type, dtype (incl. byte order), shape, strides, address of the first element, every flag (WRITEABLE, C_CONTIGUOUS, F_CONTIGUOUS,
#                 ALIGNED, OWNDATA, WRITEBACKIFCOPY), and for a view the chain of `.base` objects: identity, type, shape, strides, dtype, flags
#   masked array  additionally the mask (nomask or not, identity, bytes, WRITEABLE), hard / shared mask state, fill value
#   list / tuple  the container type, its length and the IDENTITY of every element (recursively for nested containers; ndarray members as above)
#   pandas        type, shape, dtypes, name / attrs, identity + values + names of the index (and columns), every flag / dtype / shape / strides of `.values`
# and then the caller's own next statement is executed: an in-place update `a[...] += 0` of every array the caller owns (the object handed to the
# library, its base buffers, the members of a list) must succeed if that array was writeable BEFORE the call and must still raise if it was read-only
# before; for pandas objects `obj.iloc[0] = obj.iloc[0]` must succeed.  The update is undone (-0.0 + 0 = +0.0) and the whole state compared once more.
ND_FLAGS = ("WRITEABLE", "C_CONTIGUOUS", "F_CONTIGUOUS", "ALIGNED", "OWNDATA", "WRITEBACKIFCOPY")
FOLLOW_WHOLE = 1 << 17            # arrays up to this many elements are updated as a whole, longer ones at both ends (the flag is per array object)


def nd_state(a: np.ndarray, pre: str, st: Dict[str, Any], pointers: bool = True) -> None:
    st[pre + "type"] = type(a).__module__ + "." + type(a).__name__
    st[pre + "dtype"] = (repr(a.dtype), a.dtype.str)
    st[pre + "shape"] = tuple(int(v) for v in a.shape)
    st[pre + "strides"] = tuple(int(v) for v in a.strides)
    for n in ND_FLAGS:
        st[pre + "flags." + n] = bool(a.flags[n])
    if not pointers:
        return
    st[pre + "data_address"] = int(a.__array_interface__["data"][0])
    b, k = a.base, 1
    st[pre + "base"] = "None" if b is None else f"object {id(b):#x}"
    while b is not None and k <= 8:
        p = f"{pre}base^{k}."
        st[p + "type"] = type(b).__module__ + "." + type(b).__name__
        if not isinstance(b, np.ndarray):
            break
        st[p + "dtype"] = (repr(b.dtype), b.dtype.str)
        st[p + "shape"] = tuple(int(v) for v in b.shape)
        st[p + "strides"] = tuple(int(v) for v in b.strides)
        st[p + "data_address"] = int(b.__array_interface__["data"][0])
        for n in ND_FLAGS:
            st[p + "flags." + n] = bool(b.flags[n])
        st[p + "base"] = "None" if b.base is None else f"object {id(b.base):#x}"
        b, k = b.base, k + 1
    if isinstance(a, np.ma.MaskedArray):
        m = a._mask
        st[pre + "mask.is_nomask"] = m is np.ma.nomask
        if m is not np.ma.nomask:
            st[pre + "mask.object"] = f"object {id(m):#x}"
            st[pre + "mask.bytes"] = np.asarray(m).tobytes()
            st[pre + "mask.shape"] = tuple(np.shape(m))
            st[pre + "mask.flags.WRITEABLE"] = bool(np.asarray(m).flags.writeable)
        st[pre + "mask.hardmask"] = bool(a._hardmask)
        st[pre + "mask.sharedmask"] = bool(a._sharedmask)
        st[pre + "fill_value"] = repr(a.fill_value)


def _is_pandas(o: Any) -> bool:
    return type(o).__module__.split(".")[0] == "pandas"


def obj_state(o: Any, pre: str, st: Dict[str, Any], keep: List[Any], arrays: List[Tuple[str, np.ndarray]], depth: int = 0) -> None:
    """the observable state of one caller's object into `st` (aspect -> exactly comparable value); `keep` holds every element object so that an
    identity recorded as id() cannot be reused; `arrays` collects the (label, ndarray) the caller owns (for the follow-up)"""
    if isinstance(o, np.ndarray):
        if any(o is a for _, a in arrays):
            return
        arrays.append((pre.rstrip(".") or "object", o))
        nd_state(o, pre, st)
        if isinstance(o, np.ma.MaskedArray):
            st[pre + "bytes"] = np.ma.getdata(o).tobytes()
        else:
            st[pre + "bytes"] = o.tobytes()
    elif isinstance(o, (list, tuple)):
        st[pre + "type"] = type(o).__name__
        st[pre + "len"] = len(o)
        elems = tuple(o)
        keep.append(elems)
        st[pre + "elements(identity)"] = tuple(id(e) for e in elems)
        if depth < 3:
            for i, e in enumerate(elems):
                if isinstance(e, (list, tuple, np.ndarray)):
                    obj_state(e, f"{pre}[{i}].", st, keep, arrays, depth + 1)
    elif _is_pandas(o):
        st[pre + "type"] = type(o).__module__ + "." + type(o).__name__
        st[pre + "shape"] = tuple(int(v) for v in o.shape)
        st[pre + "dtypes"] = repr(getattr(o, "dtypes", None)) if o.ndim == 2 else repr(o.dtype)
        st[pre + "attrs"] = repr(dict(o.attrs))
        if o.ndim == 1:
            st[pre + "name"] = repr(o.name)
        for axn in (("index", "columns") if o.ndim == 2 else ("index",)):
            ax = getattr(o, axn)
            keep.append(ax)
            st[pre + axn + ".object"] = f"object {id(ax):#x}"
            st[pre + axn + ".type"] = type(ax).__name__
            st[pre + axn + ".values"] = repr(ax.tolist()) if len(ax) <= 4096 else (len(ax), repr(ax[:8].tolist()), repr(ax[-8:].tolist()))
            st[pre + axn + ".names"] = repr(list(ax.names))
        nd_state(np.asarray(o.values), pre + "values.", st, pointers=False)
        st[pre + "bytes"] = o.to_numpy(copy=True).tobytes()
    else:
        st[pre + "type"] = type(o).__name__
        st[pre + "repr"] = repr(o)[:200]


class Watch:
    """the caller's object `obj` (what is handed to the library) and the `roots` (buffers underneath it) at the time of construction"""

    def __init__(self, obj: Any, roots: List[Any]):
        self.obj, self.roots = obj, roots
        self.snap0 = snapshot(roots)
        self.keep: List[Any] = []
        self.arrays: List[Tuple[str, np.ndarray]] = []
        self.st0 = self.state(self.arrays)

    def state(self, arrays: Optional[List[Tuple[str, np.ndarray]]] = None) -> Dict[str, Any]:
        st: Dict[str, Any] = {}
        arrays = [] if arrays is None else arrays
        obj_state(self.obj, "object.", st, self.keep, arrays)
        for i, r in enumerate(self.roots):
            if r is not self.obj:
                obj_state(r, f"root[{i}].", st, self.keep, arrays)
        return st

    def compare(self, own_pandas_update: bool = False) -> Optional[Tuple[str, str]]:
        """None if the caller's object is as it was, else (aspect, description); the bytes of the roots first (the description names the element).
        `own_pandas_update`: the harness itself has just assigned through `.iloc`, which lets pandas (copy-on-write) rebuild the axes objects"""
        snap1 = snapshot(self.roots)
        if snap1 != self.snap0:
            return "bytes", "the caller's data was modified" + changed_detail(self.roots, self.snap0, snap1)
        st1 = self.state()
        for k, v in self.st0.items():
            if own_pandas_update and (k.endswith("index.object") or k.endswith("columns.object")):
                continue
            if k not in st1:
                return k.split(".", 1)[-1], f"the caller's object was modified: {k} was {_short(v)} and no longer exists"
            w = st1[k]
            if type(v) is not type(w) or v != w:
                if k.endswith("bytes"):
                    return "bytes", f"the caller's data was modified ({k} differ)"
                if k.endswith("elements(identity)"):
                    j = [i for i, (p, q) in enumerate(zip(v, w)) if p != q]
                    d = f"element {j[0]} is now a different object ({len(j)} replaced)" if j else f"length {len(v)} -> {len(w)}"
                    return "elements", f"the caller's object was modified: {k}: {d}"
                return _aspect(k), f"the caller's object was modified: {k} was {_short(v)} and is now {_short(w)}"
        for k in st1:
            if k not in self.st0:
                return _aspect(k), f"the caller's object was modified: {k} = {_short(st1[k])} did not exist before the call"
        return None

    def follow_up(self) -> Optional[Tuple[str, str]]:
        """the caller's next statement: an in-place update of its own arrays.  None if each behaves as it would have without the call"""
        for lab, a in self.arrays:
            was_w = bool(self.st0.get(lab + ".flags.WRITEABLE", True))
            tgt = np.ma.getdata(a) if isinstance(a, np.ma.MaskedArray) else a
            if tgt.size == 0 or tgt.dtype.kind not in "fiu":
                continue
            if tgt.size <= FOLLOW_WHOLE or tgt.ndim == 0:
                parts = [tgt]
            elif tgt.shape[-1] >= 2048:
                parts = [tgt[..., :1024], tgt[..., -1024:]]
            else:
                parts = [tgt[:1024], tgt[-1024:]]
            for v in parts:
                saved = v.copy()
                try:
                    v[...] += v.dtype.type(0)
                    raised = None
                except Exception as ex:
                    raised = ex
                if raised is None:
                    try:
                        v[...] = saved
                    except Exception as ex:
                        return "follow-up", f"the caller's own `a[...] = saved` on its array {lab} raised {ex!r} after the call"
                if was_w and raised is not None:
                    return "follow-up", (f"the caller's own in-place update `a[...] += 0` of its array {lab} (writeable before the call) raised {raised!r} "
                                         f"after the call")
                if not was_w and raised is None:
                    return "follow-up", (f"the caller's array {lab} was read-only before the call (an in-place update raises ValueError), after the call "
                                         f"the in-place update `a[...] += 0` went through")
        pandas_updated = False
        for o in [self.obj] + [r for r in self.roots if r is not self.obj]:
            if _is_pandas(o) and o.shape[0] > 0:
                pandas_updated = True
                try:
                    if o.ndim == 1:
                        o.iloc[0] = o.iloc[0]
                    else:
                        o.iloc[0, 0] = o.iloc[0, 0]
                except Exception as ex:
                    return "follow-up", f"the caller's own `obj.iloc[0] = obj.iloc[0]` on its {type(o).__name__} raised {ex!r} after the call"
        c = self.compare(own_pandas_update=pandas_updated)
        if c is not None:
            return "follow-up-state", "after the caller's own in-place update (+ 0, undone): " + c[1]
        if pandas_updated:
            self.st0 = self.state()               # the caller's own assignment may have replaced the axes objects: they are the reference from now on
        return None

    def verdict(self, follow: bool = True) -> Optional[Tuple[str, str]]:
        c = self.compare()
        if c is None and follow:
            c = self.follow_up()
        return c


def _short(v: Any) -> str:
    s = repr(v)
    return s if len(s) <= 120 else s[:117] + "..."


def _aspect(k: str) -> str:
    """signature key of an aspect: without the position of the object (object. / root[i]. / [i].)"""
    return re.sub(r"^(object|root\[\d+\])\.(\[\d+\]\.)*", "", k)


def untouched(P: C.Part, W: Watch, where: str, sig: Dict[str, Any], rp: Dict[str, Any], follow: bool = True) -> bool:
    """sub-claim b after one call: True if the caller's object is exactly as it was (and its next in-place update behaves as before)"""
    c = W.verdict(follow)
    if c is None:
        return True
    aspect, text = c
    s = dict(sig, subclaim="untouched")
    if aspect != "bytes":
        s["aspect"] = aspect
    P.violations.append(C.Violation(what=f"{where}: {text}", signature=s, replay=rp))
    return False


def inject(rng: np.random.Generator, x: np.ndarray, y: Optional[np.ndarray], pattern: str) -> None:
    """write non-finite samples into (x, y) in place according to `pattern`"""
    N = len(x)
    chans = [x] if y is None else [x, y]

    def bad(n):
        return rng.choice([np.nan, np.inf, -np.inf], size=n)
    if pattern == "none":
        return
    if pattern == "single":
        c = chans[int(rng.integers(len(chans)))]
        c[int(rng.integers(N))] = bad(1)[0]
    elif pattern == "burst":
        for c in chans:
            n = int(rng.integers(2, max(3, N // 4)))
            s = int(rng.integers(0, N - n + 1))
            c[s:s + n] = bad(n)
    elif pattern == "first":
        chans[0][0] = bad(1)[0]
    elif pattern == "last":
        chans[-1][N - 1] = bad(1)[0]
    elif pattern == "first+last":
        for c in chans:
            c[0] = bad(1)[0]
            c[N - 1] = bad(1)[0]
    elif pattern == "channel0":
        chans[0][:] = bad(N)
    elif pattern == "channel1":
        chans[-1][:] = bad(N)
    elif pattern == "all":
        for c in chans:
            c[:] = bad(N)
    elif pattern == "scattered":
        for c in chans:
            m = rng.random(N) < 0.15
            c[m] = bad(int(m.sum()))
    else:
        raise ValueError(pattern)


# ---------------------------------------------------------------- running the real code
def run_entry(obj, fs: float, entry: str, backend: str, opts: Dict[str, Any], freq: float, L: int):
    """-> (analyzer or None, result)"""
    import speckit
    from speckit.analysis import SpectrumAnalyzer
    kw = real_opts(dict(opts, backend=backend))
    with warnings.catch_warnings(), np.errstate(all="ignore"):
        warnings.simplefilter("ignore")
        if entry == "analyzer.compute":
            an = SpectrumAnalyzer(obj, fs, **kw)
            return an, an.compute()
        if entry == "compute_spectrum":
            return None, speckit.compute_spectrum(obj, fs, **kw)
        if entry == "lpsd":
            return None, speckit.lpsd(obj, fs, **kw)
        if entry == "analyzer.single":
            an = SpectrumAnalyzer(obj, fs, **kw)
            return an, an.compute_single_bin(freq, L=L)
        if entry == "compute_single_bin":
            return None, speckit.compute_single_bin(obj, fs, freq, L=L, **kw)
        if entry == "analyzer.single_fres":                 # the same bin requested by its resolution fs / L instead of its length
            an = SpectrumAnalyzer(obj, fs, **kw)
            return an, an.compute_single_bin(freq, fres=fs / L)
        if entry == "compute_single_bin_fres":
            return None, speckit.compute_single_bin(obj, fs, freq, fres=fs / L, **kw)
    raise ValueError(entry)


def ref_entry(entry: str) -> str:
    """the analyzer-method form of an entry point: the reference (plain zero-filled float64 record) runs through it, so that both results
    come from the same code path (full plan / single bin by length / single bin by resolution)"""
    if entry.endswith("_fres"):
        return "analyzer.single_fres"
    return "analyzer.single" if "single" in entry else "analyzer.compute"


def result_fields(res) -> Dict[str, Any]:
    d = {k: np.asarray(getattr(res, k)) for k in FIELDS}
    d["D"] = [np.asarray(v, dtype=np.int64) for v in res.D]
    return d


def diff_fields(a: Dict[str, Any], b: Dict[str, Any]) -> Optional[Tuple[str, int, Any, Any]]:
    """first field/bin where two results differ in BITS (same code path => exact), or None"""
    for k in FIELDS:
        u, v = a[k], b[k]
        if u.shape != v.shape or u.dtype != v.dtype:
            return k, -1, (u.shape, str(u.dtype)), (v.shape, str(v.dtype))
        if u.tobytes() != v.tobytes():
            ub = u.view(np.uint64) if u.dtype.itemsize == 8 else u.view(np.uint64).reshape(len(u), -1)
            vb = v.view(np.uint64) if v.dtype.itemsize == 8 else v.view(np.uint64).reshape(len(v), -1)
            j = int(np.argmax((ub != vb).reshape(len(u), -1).any(axis=1)))
            return k, j, u[j].item(), v[j].item()
    if len(a["D"]) != len(b["D"]):
        return "D", -1, len(a["D"]), len(b["D"])
    for j, (u, v) in enumerate(zip(a["D"], b["D"])):
        if u.shape != v.shape or not np.array_equal(u, v):
            return "D", j, u[:6].tolist(), v[:6].tolist()
    return None


def check_finite(P: C.Part, res, sig: Dict[str, Any], rp: Dict[str, Any], where: str) -> Optional[int]:
    """sub-claim d on one result: every density / coherence / transfer-function value finite, error bars finite where coh > 0"""
    with warnings.catch_warnings(), np.errstate(all="ignore"):
        warnings.simplefilter("ignore")
        try:
            coh = np.asarray(res.coh) if res.iscsd else None
            mask = (coh > 0) if coh is not None else np.ones(len(np.asarray(res.XX)), dtype=bool)
            for group, names in (("value", DENS), ("errorbar", ERRS)):
                for name in names:
                    val = getattr(res, name)
                    if val is None:
                        continue
                    val = np.asarray(val)
                    ok = np.isfinite(val)
                    if group == "errorbar":
                        ok = ok | ~mask
                    if not ok.all():
                        j = int(np.argmin(ok))
                        P.violations.append(C.Violation(
                            what=f"{where}: {name}[{j}] = {val[j]!r} is not finite for a finite record (XX={float(res.XX[j])!r}, "
                                 f"YY={float(res.YY[j])!r}, XY={complex(res.XY[j])!r}, S2={float(res.S2[j])!r}, navg={int(res.navg[j])}"
                                 + (f", coh={float(coh[j])!r}" if coh is not None else "") + ")",
                            signature=dict(sig, subclaim="finite", attr=name), replay=rp))
                        return j
        except Exception as ex:
            P.violations.append(C.Violation(what=f"{where}: reading the attributes raised {ex!r}", signature=dict(sig, subclaim="finite", raises=True), replay=rp))
            return -1
    return None


def in_domain(x: np.ndarray, y: Optional[np.ndarray]) -> bool:
    """amplitude range in which sub-claim d is demanded (see ASSUMPTIONS)"""
    for c in ([x] if y is None else [x, y]):
        a = np.abs(c[np.isfinite(c)])
        a = a[a > 0]
        if a.size and (a.max() > 1.0001e60 or (a.min() < 1e-65 and a.max() > 1e-290)):
            return False
    return True


def eval_case(P: C.Part, case: Dict[str, Any], ref_cache: Optional[Dict[Any, Any]] = None) -> None:
    """one (record, presentation, options, backend, entry): sub-claims a, b, c, d on the real code"""
    x, y = unhex(case["x"]), unhex(case["y"])
    fs, opts, backend, entry = float(case["fs"]), dict(case["opts"]), case["backend"], case["entry"]
    freq, L, pres, pattern = float(case["freq"]), int(case["L"]), case["present"], case["pattern"]
    N = len(x)
    mode = "auto" if y is None else "cross"
    sig = {"present": pres, "backend": backend, "entry": entry, "order": int(opts.get("order", 0)), "mode": mode, "pattern": pattern}
    rp = {"case": case}
    where = f"{entry}({pres}, N={N}, pattern={pattern}, order={opts.get('order')}, backend={backend}, sched={opts.get('scheduler')})"
    P.cases += 1
    key = (case["stream"], pres, pattern, sig["order"], backend, entry, mode)
    plain = pres in ("2xN_C", "1d_C") and pattern == "none" and case["stream"] != "finite"
    if N >= 8 and not plain:
        P.nontrivial.add(key)
    P.hit(f"present.{pres}")
    P.hit(f"pattern.{pattern}")
    P.hit(f"entry.{entry}")
    P.hit(f"backend.{backend}")
    P.hit(f"order.{sig['order']}")
    xz, yz = zero_fill(x), zero_fill(y)
    try:
        obj, roots = present(pres, x, y)
    except ImportError:
        P.hit("pandas-unavailable")
        return
    W = Watch(obj, roots)
    try:
        an, res = run_entry(obj, fs, entry, backend, opts, freq, L)
    except Exception as ex:
        touched = W.verdict()
        changed = touched is not None
        # a plan / option error that a plain finite noise record of the same size provokes too is not about the input's values or layout
        ctrl = np.random.default_rng(N).standard_normal((1 if y is None else 2, N))
        try:
            run_entry(ctrl[0].copy() if y is None else ctrl, fs, ref_entry(entry), backend, opts, freq, L)
            ctrl_raises = False
        except Exception:
            ctrl_raises = True
        if ctrl_raises and not changed:
            P.hit("options-rejected-for-any-record(" + type(ex).__name__ + ")")
            return
        P.violations.append(C.Violation(what=f"{where} raised {ex!r}" + (f" AND {touched[1]}" if changed else ""),
                                        signature=dict(sig, subclaim="untouched" if changed else "raises"), replay=rp))
        return
    # b. untouched (after construction AND analysis): bytes, then every other aspect of the caller's object, then the caller's own in-place update
    if not untouched(P, W, where, sig, rp):
        return
    # a./c. the analyzer's stored record is the zero-filled record in canonical layout
    if an is not None:
        got1 = np.asarray(an.x1).astype(np.float64)          # the VALUES of the stored record (its dtype is internal)
        bad = None
        if got1.shape != xz.shape or got1.tobytes() != xz.tobytes():
            bad = ("x1", got1, xz)
        elif y is not None:
            got2 = np.asarray(an.x2).astype(np.float64)
            if got2.shape != yz.shape or got2.tobytes() != yz.tobytes():
                bad = ("x2", got2, yz)
        if bad is not None:
            nm, g, e = bad
            if g.shape == e.shape and g.dtype == e.dtype:
                j = int(np.argmax(g.view(np.uint64) != e.view(np.uint64)))
                d = f"{nm}[{j}] = {g[j]!r}, expected {e[j]!r} (caller's sample {([x, y][nm == 'x2'])[j]!r})"
            else:
                d = f"{nm} has shape {g.shape} dtype {g.dtype}, expected {e.shape} float64"
            P.violations.append(C.Violation(what=f"{where}: stored record is not the zero-filled record: {d}",
                                            signature=dict(sig, subclaim="sanitise" if pattern != "none" else "layout", stage="stored"), replay=rp))
            return
    # a./c. results equal those of the plain C-contiguous float64 zero-filled record, bit for bit
    rkey = (case["x_id"], ref_entry(entry), backend, repr(sorted(opts.items())), freq, L) if "x_id" in case else None
    ref = ref_cache.get(rkey) if (ref_cache is not None and rkey is not None) else None
    if ref is None:
        canon = xz.copy() if y is None else np.array([xz, yz], dtype=np.float64)
        try:
            _, rres = run_entry(canon, fs, ref_entry(entry), backend, opts, freq, L)
        except Exception as ex:
            P.violations.append(C.Violation(what=f"{where}: the plain zero-filled float64 record raised {ex!r}", signature=dict(sig, subclaim="raises", ref=True), replay=rp))
            return
        ref = result_fields(rres)
        if ref_cache is not None and rkey is not None:
            ref_cache[rkey] = ref
    d = diff_fields(result_fields(res), ref)
    if d is not None:
        k, j, u, v = d
        sub = "sanitise" if pattern != "none" else "layout"
        P.violations.append(C.Violation(
            what=f"{where}: {k}[{j}] = {u!r} but the plain C-contiguous float64 " + ("zero-filled " if pattern != "none" else "") + f"record gives {v!r}",
            signature=dict(sig, subclaim=sub, field=k), replay=rp))
        return
    # d. finiteness
    if in_domain(xz, yz):
        check_finite(P, res, sig, rp, where)
    else:
        P.hit("finite-not-demanded(out of amplitude domain)")


# ---------------------------------------------------------------- generators
def gen_opts(rng: np.random.Generator, N: int, order: Optional[int] = None) -> Dict[str, Any]:
    o = _an.options(rng, N)
    o["Jdes"] = int(rng.integers(4, 16))
    o["Kdes"] = int(rng.choice([1, 2, 5, 10]))
    o["Lmin"] = int(rng.choice([1, 1, 4]))
    if order is not None:
        o["order"] = int(order)
    return o


def gen_channels(rng: np.random.Generator, N: int, cls: str, cross: bool) -> Tuple[np.ndarray, Optional[np.ndarray]]:
    """cls: 'real' arbitrary float64, 'f32' exactly representable in float32, 'int' small integers"""
    kinds = ["noise", "offset", "drift", "red", "tone"]
    x = _an.record(rng, N, str(rng.choice(kinds)))
    y = (0.5 * np.roll(x, 2) + _an.record(rng, N, str(rng.choice(kinds)))) if cross else None
    if cls == "f32":
        x = x.astype(np.float32).astype(np.float64)
        y = None if y is None else y.astype(np.float32).astype(np.float64)
    elif cls == "int":
        x = np.round(50 * x / (1 + np.abs(x).max() / 1e4)).astype(np.float64) + 0.0          # + 0.0: no negative zeros (integers have none)
        y = None if y is None else np.round(50 * y / (1 + np.abs(y).max() / 1e4)).astype(np.float64) + 0.0
    return x, y


def make_case(stream, x, y, x_id, pres, pattern, fs, opts, backend, entry, freq, L) -> Dict[str, Any]:
    return {"stream": stream, "x": hexs(x), "y": hexs(y), "x_id": x_id, "present": pres, "pattern": pattern, "fs": float(fs),
            "opts": opts, "backend": backend, "entry": entry, "freq": float(freq), "L": int(L)}


def single_params(rng: np.random.Generator, N: int, fs: float) -> Tuple[float, int]:
    L = int(rng.choice([N, max(4, N // 2), max(4, N // 3), int(rng.integers(4, N + 1))]))
    freq = float(rng.choice([0.0, fs / 2, fs * int(rng.integers(0, L // 2 + 1)) / L, float(rng.uniform(0, fs / 2))]))
    return freq, L


def layout_group(ctx, P: C.Part, gi: int, full: bool) -> None:
    """one record (optionally with non-finite samples) through presentations x backends x entries"""
    rng = ctx.rng
    cross = bool(rng.random() < 0.65)
    cls = str(rng.choice(["real", "f32", "int"]))
    N = int(rng.choice([8, 9, 33, 64, int(rng.integers(16, 400)), int(rng.integers(100, 700))]))
    pattern = "none" if rng.random() < 0.3 else str(rng.choice(PATTERNS[1:]))
    x, y = gen_channels(rng, N, cls, cross)
    inject(rng, x, y, pattern)
    fs = float(rng.choice([1.0, 2.0, 1000.0, float(rng.uniform(0.1, 1e4))]))
    pres = list(PRES_CROSS if cross else PRES_AUTO)
    if cls in ("f32", "int"):
        pres += PRES_CROSS_F32 if cross else PRES_AUTO_F32
    if cls == "int" and pattern == "none":
        pres += PRES_CROSS_INT if cross else PRES_AUTO_INT
    if not full:
        keep = set(rng.choice(len(pres), size=min(len(pres), 7), replace=False).tolist()) | {0}
        pres = [p for i, p in enumerate(pres) if i in keep]
    cache: Dict[Any, Any] = {}
    order = ORDERS[gi % 4]
    opts = gen_opts(rng, N, order)
    freq, L = single_params(rng, N, fs)
    for pi, p in enumerate(pres):
        if ctx.time_left() < 15 or len(P.violations) >= MAX_VIOL:
            return
        backend = BACKENDS[(gi + pi) % 2]
        entry = ENTRIES[(gi + 2 * pi) % 5] if pi else "analyzer.compute"
        eval_case(P, make_case("layout", x, y, gi, p, pattern, fs, opts, backend, entry, freq, L), cache)
        if pi < 2 or full:                                  # the other backend / entry kind for the aliasing-prone presentations
            entry2 = "analyzer.single" if "single" not in entry else "analyzer.compute"
            eval_case(P, make_case("layout", x, y, gi, p, pattern, fs, opts, BACKENDS[(gi + pi + 1) % 2], entry2, freq, L), cache)
    if gi < 3:
        P.sample({"op": "layout-group", "N": N, "mode": "cross" if cross else "auto", "class": cls, "pattern": pattern, "order": order,
                  "presentations": pres, "opts": {k: v for k, v in opts.items()}})


DEGENERATE = ["zero|zero", "zero|noise", "noise|zero", "const|const", "const|noise", "noise|const", "same|same", "sameconst|sameconst",
              "tiny|tiny", "tiny|noise", "noise|tiny", "small|small", "huge|huge", "huge|zero", "zero|huge", "ramp|ramp", "ramp|noise",
              "impulse|noise", "noise|impulse", "alt|alt", "zero|const", "const|zero", "negsame|same", "zero", "const", "tiny", "small", "huge",
              "ramp", "impulse", "alt"]


def degenerate_record(rng: np.random.Generator, N: int, kind: str) -> np.ndarray:
    t = np.arange(N, dtype=np.float64)
    if kind == "zero":
        return np.zeros(N)
    if kind in ("const", "sameconst"):
        return np.full(N, float(rng.choice([1.0, -2.5, 1e3, 0.1, float(rng.uniform(-5, 5))])))
    if kind in ("noise", "same", "negsame"):
        return rng.standard_normal(N)
    if kind == "tiny":
        return 1e-300 * rng.standard_normal(N)
    if kind == "small":
        return 1e-40 * rng.standard_normal(N)
    if kind == "huge":
        return 1e60 * np.clip(rng.standard_normal(N), -1.0, 1.0)
    if kind == "ramp":
        return float(rng.uniform(-3, 3)) + float(rng.uniform(-2, 2)) * t
    if kind == "impulse":
        z = np.zeros(N)
        z[int(rng.integers(N))] = float(rng.choice([1.0, -7.0]))
        return z
    if kind == "alt":
        return np.where(t % 2 == 0, 1.0, -1.0)
    raise ValueError(kind)


def finite_group(ctx, P: C.Part, gi: int) -> None:
    rng = ctx.rng
    kind = DEGENERATE[gi % len(DEGENERATE)]
    parts = kind.split("|")
    N = int(rng.choice([32, 33, 64, 100, int(rng.integers(32, 500))]))
    x = degenerate_record(rng, N, parts[0])
    y = None
    if len(parts) == 2:
        if parts[1] in ("same", "sameconst") and parts[0] in ("same", "sameconst"):
            y = x.copy()
        elif parts[0] == "negsame":
            y = degenerate_record(rng, N, "noise")
            x = -3.0 * y
        else:
            y = degenerate_record(rng, N, parts[1])
    fs = float(rng.choice([1.0, 2.0, 1000.0]))
    cache: Dict[Any, Any] = {}
    for oi, order in enumerate(ORDERS):
        if ctx.time_left() < 15 or len(P.violations) >= MAX_VIOL:
            return
        opts = gen_opts(rng, N, order)
        freq, L = single_params(rng, N, fs)
        pres = ("2xN_C" if (gi + oi) % 3 else "Nx2_Tview") if y is not None else ("1d_C" if (gi + oi) % 3 else "1d_list")
        backend = BACKENDS[(gi + oi) % 2]
        for entry in ("analyzer.compute", "analyzer.single"):
            c = make_case("finite", x, y, (gi, oi), pres, "none", fs, opts, backend, entry, freq, L)
            c["kind"] = kind
            eval_case(P, c, cache)
            P.hit(f"degenerate.{kind}")
    if gi < 2:
        P.sample({"op": "finite-group", "kind": kind, "N": N, "fs": fs})


def synthetic_finite(ctx, P: C.Part, n: int) -> None:
    """sub-claim d on SpectrumResults built from chosen per-bin numbers (degenerate corners: zeros in XX, YY, XY, S2, S12, M2, navg=1)"""
    rng = ctx.rng
    for mode, iscsd in (("auto", False), ("cross", True)):
        fs = float(rng.choice([1.0, 2.0, 1000.0, float(rng.uniform(0.1, 1e4))]))
        bins = []
        for i in range(n):
            b = _an.gen_bin(rng, iscsd, edge=(i % 2 == 1))
            if i % 7 == 3:
                b["S12"] = 0.0
            if i % 11 == 5:
                b["M2"] = 0.0
            bins.append(b)
        res = _an.fake_result(bins, iscsd, fs)
        P.cases += n
        for i in range(n):
            P.nontrivial.add(("synthetic", mode, i % 2 == 1, bins[i]["XX"] == 0, bins[i]["YY"] == 0, bins[i]["S2"] == 0, bins[i]["navg"] == 1))
        P.hit(f"synthetic.{mode}", n)
        def enc(bs):
            return [{k: (hexs([complex(b[k]).real, complex(b[k]).imag]) if k == "XY" else (int(b[k]) if k == "navg" else C.f2h(b[k]))) for k in b} for b in bs]
        rp: Dict[str, Any] = {"synthetic": {"mode": mode, "fs": fs, "bins": []}}
        j = check_finite(P, res, {"present": "synthetic", "mode": mode}, rp, f"SpectrumResult({mode}, synthetic bins)")
        if j is not None:
            rp["synthetic"]["bins"] = enc(bins if j < 0 else [bins[j]])      # only the failing bin goes into the replay file


def two_by_two(ctx, P: C.Part) -> None:
    """2x2 input: rows are the channels (convention stated in DESIGN §4 C13-c); the caller's object stays untouched"""
    from speckit.analysis import SpectrumAnalyzer
    rng = ctx.rng
    for k in range(6):
        m = rng.standard_normal((2, 2))
        if k % 2:
            m[int(rng.integers(2)), int(rng.integers(2))] = [np.nan, np.inf, -np.inf][k % 3]
        objs = {"2x2_C": np.ascontiguousarray(m), "2x2_F": np.asfortranarray(m), "2x2_Tview": np.ascontiguousarray(m.T).T, "2x2_list": m.tolist()}
        for nm, obj in objs.items():
            P.cases += 1
            P.hit("2x2")
            P.nontrivial.add(("2x2", nm, k % 2))
            W = Watch(obj, [obj])
            rp = {"two_by_two": {"m": hexs(m), "present": nm}}
            sig = {"present": nm, "mode": "cross", "pattern": "single" if k % 2 else "none"}
            try:
                with warnings.catch_warnings():
                    warnings.simplefilter("ignore")
                    an = SpectrumAnalyzer(obj, 1.0)
            except Exception as ex:
                P.violations.append(C.Violation(what=f"SpectrumAnalyzer({nm}) raised {ex!r}", signature=dict(sig, subclaim="raises"), replay=rp))
                continue
            z = zero_fill(m)
            if not untouched(P, W, f"SpectrumAnalyzer({nm}) [2x2]", sig, rp):
                pass
            elif not (an.iscsd and np.asarray(an.x1).tobytes() == z[0].tobytes() and np.asarray(an.x2).tobytes() == z[1].tobytes()):
                P.violations.append(C.Violation(what=f"SpectrumAnalyzer({nm}): channels are {np.asarray(an.x1).tolist()}, {np.asarray(an.x2).tolist()}, "
                                                     f"expected the (zero-filled) rows {z.tolist()}", signature=dict(sig, subclaim="layout", stage="2x2"), replay=rp))


def tiny_sizes(ctx, P: C.Part) -> None:
    """malformed / edge stream: sizes 0, 1, 2, 3 — whatever happens (a clear error is fine), the caller's data keeps its bytes"""
    rng = ctx.rng
    for N in (0, 1, 2, 3):
        for cross in (False, True):
            for pat in ("none", "all"):
                x = rng.standard_normal(N)
                y = rng.standard_normal(N) if cross else None
                if N and pat == "all":
                    inject(rng, x, y, "all")
                for pres in (["2xN_C", "Nx2_Tview", "list_arrays"] if cross else ["1d_C", "1d_list"]):
                    if cross and N == 2:
                        continue        # 2x2 handled by two_by_two
                    P.cases += 1
                    P.hit(f"tinyN.{N}")
                    obj, roots = present(pres, x, y)
                    W = Watch(obj, roots)
                    outcome = "ok"
                    try:
                        run_entry(obj, 1.0, "analyzer.compute", "auto", {"order": 0, "Jdes": 4, "Kdes": 1}, 0.0, max(N, 1))
                    except Exception as ex:
                        outcome = type(ex).__name__
                    P.hit(f"tinyN.outcome.{outcome}")
                    untouched(P, W, f"analysis of a length-{N} {pres} record (outcome: {outcome})", {"present": pres, "tinyN": N},
                              {"case": make_case("tiny", x, y, None, pres, pat, 1.0, {"order": 0, "Jdes": 4, "Kdes": 1}, "auto", "analyzer.compute", 0.0, max(N, 1))})


def corpus(ctx, P: C.Part) -> None:
    """design-phase defect D3: `a[5] = nan; SpectrumAnalyzer(a, 1.0)` zeroed a[5] in the caller's array (1-D and 2xN C-contiguous
    float64); plus the F-contiguous N x 2 variant (aliased through `.T`), a read-only array and pandas objects"""
    r0 = np.random.default_rng(0)
    x = r0.standard_normal(64)
    y = r0.standard_normal(64)
    x[5] = np.nan
    y[63] = -np.inf
    y[0] = np.inf
    opts = {"order": 0, "Jdes": 8, "Kdes": 4}
    cache: Dict[Any, Any] = {}
    for pres in ("1d_C", "1d_row_of_2d", "1d_readonly", "series"):
        for entry in ("analyzer.compute", "compute_single_bin"):
            c = make_case("corpus-D3", x, None, "d3a", pres, "single", 1.0, opts, "auto", entry, 0.125, 32)
            eval_case(P, c, cache)
    for pres in ("2xN_C", "Nx2_Tview", "Nx2_F", "2xN_readonly", "df", "list_arrays"):
        for entry in ("analyzer.compute", "compute_spectrum"):
            c = make_case("corpus-D3", x, y, "d3c", pres, "scattered", 1.0, opts, "numpy" if pres == "Nx2_F" else "auto", entry, 0.125, 32)
            eval_case(P, c, cache)
    # seeded change C13g: `self.data.setflags(write=False)` on the stored record froze the CALLER's array whenever the constructor keeps the caller's
    # own object (finite C-contiguous float64 1-D / 2xN array or view): bytes unchanged, the caller's next `x -= x.mean()` raised
    xf, yf = zero_fill(x) + 3.0, zero_fill(y) - 1.5
    for pres, yy in (("1d_C", None), ("1d_row_of_2d", None), ("1d_slice", None), ("series", None), ("2xN_C", yf), ("2xN_rows_of_2d", yf)):
        for entry in ("analyzer.compute", "compute_spectrum", "compute_single_bin"):
            eval_case(P, make_case("corpus-C13g", xf, yy, "g" + str(yy is None), pres, "none", 1.0, opts, "auto", entry, 0.125, 32), cache)


def range_probe(ctx, P: C.Part) -> None:
    """outside the amplitude domain of sub-claim d (ASSUMPTIONS): observed, reported as a note; becomes a violation only if a known finding
    with match {"subclaim":"finite","regime":"range"} is registered for C13 (so that it is then printed as KNOWN-FINDING)"""
    registered = any(C.finding_matches(f, PROP, {"subclaim": "finite", "regime": "range"}) for f in C.load_findings())
    r0 = np.random.default_rng(12345)
    obs = []
    for amp in (1e-120, 1e-90, 1e90, 1e120):
        a = amp * r0.standard_normal(200)
        b = 0.5 * a + amp * r0.standard_normal(200)
        try:
            _, res = run_entry(np.array([a, b]), 1.0, "analyzer.compute", "auto", {"order": 0, "Jdes": 10, "Kdes": 5}, 0.0, 200)
            with np.errstate(all="ignore"), warnings.catch_warnings():
                warnings.simplefilter("ignore")
                badn = [n for n in DENS if getattr(res, n) is not None and not np.all(np.isfinite(np.asarray(getattr(res, n))))]
        except Exception as ex:
            badn = [f"raised {type(ex).__name__}"]
        P.cases += 1
        P.hit("range-probe")
        if badn:
            obs.append(f"{amp:g}: {','.join(badn)}")
            if registered:
                P.violations.append(C.Violation(what=f"record of amplitude {amp:g}: non-finite {badn}", signature={"subclaim": "finite", "regime": "range", "amp": amp},
                                                replay={"range": amp}))
    # far beyond the overflow threshold the per-segment powers overflow inside the kernels and compute() zero-fills the non-finite statistics: every
    # density / coherence / transfer-function value is then finite (0) on the real code — and the property demands exactly that of ANY finite
    # input. (Between ~1e78 and ~1e154 lies the recorded finding D11; this region is not it and is never matched by it.)
    for amp in (1e160, 1e200):
        a = amp * r0.standard_normal(200)
        b = 0.5 * a + amp * r0.standard_normal(200)
        for data, lab in ((np.array([a, b]), "cross"), (a, "auto")):
            for be in ("auto", "numpy"):
                try:
                    _, res = run_entry(data, 1.0, "analyzer.compute", be, {"order": 0, "Jdes": 10, "Kdes": 5}, 0.0, 200)
                    with np.errstate(all="ignore"), warnings.catch_warnings():
                        warnings.simplefilter("ignore")
                        badn = [n for n in DENS if getattr(res, n) is not None and not np.all(np.isfinite(np.asarray(getattr(res, n))))]
                except Exception as ex:
                    badn = [f"raised {type(ex).__name__}"]
                P.cases += 1
                P.hit("saturated-probe")
                if badn:
                    P.violations.append(C.Violation(what=f"finite {lab} record of amplitude {amp:g} (backend {be}): non-finite {badn} — the statistics that overflowed "
                                                         f"inside the kernels are no longer zero-filled", signature={"subclaim": "finite", "regime": "saturated", "amp": amp, "mode": lab},
                                                    replay={"saturated": amp, "mode": lab, "backend": be}))
    if obs:
        P.notes.append("range probe (outside the amplitude domain of sub-claim d, not counted as violations): non-finite values at amplitude " + "; ".join(obs))


# ---------------------------------------------------------------- option sweep (entry points x kernel branches x call histories)
# Every analysis option selects a branch of the library: 2 backends x 4 detrending orders x auto/cross pick one of 16 kernels, each entry point
# (analyzer methods, module-level wrappers, single bin by length or by resolution) has its own glue, a user scheduler / window callable / overlap
# request takes its own path through the configuration code, and a SECOND analysis on the same analyzer or the same input array sees whatever the
# first one left behind.  The sub-claims a-d are quantified over all of these ("for all records ... layouts and dtypes, orders and modes"), so the
# stream below applies the SAME predicates (bytes of the caller's object, stored record, bit-identity with the plain zero-filled float64 record,
# finiteness) to cases drawn from one generator that visits every (backend, order, mode) on every run and cycles the other dimensions.
ENTRIES_ALL = ENTRIES + ["analyzer.single_fres", "compute_single_bin_fres"]
SW_BACKENDS = [("auto", "numba"), ("numpy",)]                      # 'auto' and 'numba' are the Numba kernels (no CUDA device), 'numpy' the fallbacks
SW_SCHEDS = ["lpsd", "welch", "ltf", "relist", "vectorized_ltf", "new_ltf"]
SW_OLAPS = ["default", "float", "zero", "high"]
SW_WINS = ["kaiser", "hashwin", "hann", "default", "spkaiser"]
SW_PSLL = [60.0, 200.0, 100.0, 137.5, 45.0]
ALIAS_CROSS = ["2xN_C", "Nx2_F", "Nx2_Tview", "2xN_readonly", "2xN_rows_of_2d"]   # the constructor's (2, N) float64 C-contiguous view IS the caller's buffer
ALIAS_AUTO = ["1d_C", "1d_row_of_2d", "1d_readonly", "1d_slice"]
SW_SEQS = [
    [["A", "compute"], ["A", "compute"], ["A", "compute"]],
    [["A", "compute"], ["A", "single"], ["A", "compute"], ["A", "single_fres"], ["A", "single"]],
    [["M", "compute_spectrum"], ["M", "lpsd"], ["M", "compute_spectrum"]],
    [["A", "single"], ["A", "single"], ["A", "compute"], ["A", "single"]],
    [["M", "compute_single_bin"], ["M", "compute_single_bin_fres"], ["M", "compute_single_bin"], ["M", "compute_single_bin_fres"]],
    [["A", "compute"], ["B", "compute"], ["A", "single"], ["B", "single"], ["A", "compute"]],
    [["M", "lpsd"], ["A", "compute"], ["M", "compute_single_bin"], ["A", "single"], ["M", "compute_spectrum"]],
]
STEP_OF_ENTRY = {"analyzer.compute": ["A", "compute"], "analyzer.single": ["A", "single"], "analyzer.single_fres": ["A", "single_fres"],
                 "compute_spectrum": ["M", "compute_spectrum"], "lpsd": ["M", "lpsd"], "compute_single_bin": ["M", "compute_single_bin"],
                 "compute_single_bin_fres": ["M", "compute_single_bin_fres"]}
STEP_KIND = {"compute": "full", "compute_spectrum": "full", "lpsd": "full", "single": "single", "compute_single_bin": "single",
             "single_fres": "single_fres", "compute_single_bin_fres": "single_fres"}
KIND_REF = {"full": "analyzer.compute", "single": "analyzer.single", "single_fres": "analyzer.single_fres"}
SAT_MIN_L = 8


def hashwin(L: int) -> np.ndarray:
    """a user window (callable): positive, not symmetric, values depend on L"""
    return 0.5 + ((np.arange(L) * 7 + 3 * L) % 11) / 11


def custom_sched(spec: str):
    """user schedulers (the analyzer accepts callables), deterministic in (N, fs, olap) so that the reference analysis gets the same plan:
       welch:L      one fixed segment length, stepped by round((1 - olap) L) >= 1 samples (back-to-back for olap = 0), a few bins up to Nyquist
       relist:a,b,… the listed lengths in this order (a length may return after a different one: 256, 1024, 256), K = 2 / 1 / several segments
       mix          every segment structure in one plan: L = N (K = 1), the two halves back-to-back, an odd length once in the middle, a short
                    even length tiling the record, the half again (K = 1, reaching the last sample), the odd length overlapped with unsorted
                    starts, two back-to-back segments at Nyquist, L = N again
       long         a few bins for a long record: L = N, both halves, 4099 samples overlapped (first / middle / last), 50 short segments at the end"""
    kind, _, arg = spec.partition(":")
    nums = [int(v) for v in arg.split(",") if v]

    def plan(N, fs, olap, **kw):
        N, fs, olap = int(N), float(fs), float(olap)
        bins: List[Tuple[int, List[int], float]] = []                 # (L, starts, bin number m: f = fs m / L)
        if kind == "welch":
            L0 = max(1, min(nums[0], N))
            step = max(1, int(round((1.0 - olap) * L0)))
            d = list(range(0, N - L0 + 1, step))[:24]
            for m in sorted({int(v) for v in np.linspace(1, max(1, L0 // 2), min(6, max(1, L0 // 2)))}):
                bins.append((L0, d, float(m)))
        elif kind == "relist":
            for j, Lj in enumerate(nums):
                Lj = max(1, min(Lj, N))
                if j % 3 == 0:
                    d = sorted({0, N - Lj})
                elif j % 3 == 1:
                    d = [(N - Lj) // 2]
                else:
                    d = list(range(0, N - Lj + 1, max(1, int(round((1.0 - olap) * Lj)))))[:5]
                bins.append((Lj, d, min(1.5 + j, Lj / 2.0)))
        elif kind == "mix":
            half, Lo, Le = N // 2, (N // 3) | 1, max(6, (N // 12) & ~1)
            bins.append((N, [0], 1.0))
            bins.append((half, sorted({0, N - half}), 2.0))
            bins.append((Lo, [(N - Lo) // 2], 1.5))
            bins.append((Le, list(range(0, N - Le + 1, Le))[:48], 1.0))
            bins.append((half, [N - half], 3.0))
            bins.append((Lo, list(range(0, N - Lo + 1, max(1, Lo // 2)))[:7][::-1], float((Lo - 1) // 2)))
            bins.append((Le, [0, Le], Le / 2.0))
            bins.append((N, [0], 2.5))
        elif kind == "long":
            half, Lb, Ls = N // 2, min(4099, N), min(12, N)
            bins.append((N, [0], 3.0))
            bins.append((half, sorted({0, N - half}), 2.5))
            bins.append((Lb, sorted({0, (N - Lb) // 2, N - Lb}), 7.0))
            bins.append((Ls, list(range(max(0, N - 50 * Ls), N - Ls + 1, Ls)), 2.0))
        else:
            raise ValueError(spec)
        L = np.array([b[0] for b in bins], dtype=np.int64)
        D = [np.array(b[1], dtype=np.int64) for b in bins]
        f = np.array([fs * b[2] / b[0] for b in bins], dtype=np.float64)
        r = fs / L
        K = np.array([len(d) for d in D], dtype=np.int64)
        return {"f": f, "r": r, "b": f / r, "L": L, "K": K, "navg": K.copy(), "D": D, "O": np.full(len(bins), olap)}
    plan.__name__ = "custom_" + re.sub(r"\W", "_", spec)
    return plan


def real_opts(opts: Dict[str, Any]) -> Dict[str, Any]:
    """keyword arguments of the real call from the (JSON-able) options of a case: scheduler 'welch:..' / 'relist:..' / 'mix' / 'long' and window
    'hashwin' are user callables, window 'default' is the constructor's default (np.kaiser callable), 'spkaiser' SciPy's kaiser callable"""
    o = dict(opts)
    s = o.get("scheduler")
    if isinstance(s, str) and s.split(":")[0] in ("welch", "relist", "mix", "long"):
        o["scheduler"] = custom_sched(s)
    w = o.get("win")
    if w == "hashwin":
        o["win"] = hashwin
    elif w == "default":
        del o["win"]
    elif w == "spkaiser":
        from scipy.signal.windows import kaiser as sp_kaiser
        o["win"] = sp_kaiser
    return o


def tol_window(opts: Dict[str, Any], L: int) -> np.ndarray:
    """magnitudes of the window of a case (enters only the rounding budget of the backend comparison)"""
    w = opts.get("win", "default")
    if w == "hashwin":
        return hashwin(L)
    if w == "hann":
        return _an.window("hann", L, None)
    return _an.window("kaiser", L, float(opts.get("psll", 200.0)))


def spec_record(spec: Dict[str, Any]) -> Tuple[np.ndarray, Optional[np.ndarray]]:
    """a long record rebuilt from a small description (a replay does not store the samples): noise + offset + drift (or zero / constant), the
    second channel a delayed copy plus its own noise; `holes` = [channel, index, 0 nan | 1 +inf | 2 -inf]"""
    r = np.random.default_rng(int(spec["seed"]))
    N = int(spec["N"])
    t = np.arange(N, dtype=np.float64)

    def chan(k):
        if spec.get("kind") == "zero":
            return np.zeros(N)
        if spec.get("kind") == "const":
            return np.full(N, 2.5 - 4.0 * k)
        return r.standard_normal(N) + (3.0 - 5.0 * k) + (0.7 + k) * t / N
    x = chan(0)
    y = None
    if spec.get("cross"):
        y = chan(1) + (0.5 * np.roll(x, 3) if spec.get("kind") not in ("zero", "const") else 0.0)
    if spec.get("f32"):
        x = x.astype(np.float32).astype(np.float64)
        y = None if y is None else y.astype(np.float32).astype(np.float64)
    for ch, idx, code in spec.get("holes", []):
        ([x, y][int(ch)])[int(idx)] = [np.nan, np.inf, -np.inf][int(code)]
    return x, y


def case_record(case: Dict[str, Any]) -> Tuple[np.ndarray, Optional[np.ndarray]]:
    if "rec" in case:
        return spec_record(case["rec"])
    return unhex(case["x"]), unhex(case["y"])


def changed_detail(roots: List[Any], snap0: List[bytes], snap1: List[bytes]) -> str:
    k = [i for i, (u, v) in enumerate(zip(snap0, snap1)) if u != v][0]
    r = roots[k]
    if isinstance(r, np.ndarray) and r.dtype.kind == "f" and r.dtype.itemsize in (4, 8):
        old = np.frombuffer(snap0[k][:r.nbytes], dtype=r.dtype)
        new = np.ascontiguousarray(r).ravel()
        ch = np.nonzero(old.view(f"u{r.dtype.itemsize}") != new.view(f"u{r.dtype.itemsize}"))[0]
        if ch.size:
            return (f": flat element {int(ch[0])} of {r.size} was {old[int(ch[0])]!r} and is now {new[int(ch[0])]!r} ({ch.size} element(s) changed, "
                    f"last at {int(ch[-1])})")
    return ""


def stored_mismatch(an, x, y, xz, yz) -> Optional[str]:
    """None if the analyzer's stored record is (still) the zero-filled record, else a description"""
    got = [("x1", np.asarray(an.x1).astype(np.float64), xz, x)]
    if y is not None:
        got.append(("x2", np.asarray(an.x2).astype(np.float64), yz, y))
    for nm, g, e, orig in got:
        if g.shape != e.shape:
            return f"{nm} has shape {g.shape}, expected {e.shape}"
        if g.tobytes() != e.tobytes():
            j = np.nonzero(g.view(np.uint64) != e.view(np.uint64))[0]
            return (f"{nm}[{int(j[0])}] = {g[int(j[0])]!r}, expected {e[int(j[0])]!r} (caller's sample {orig[int(j[0])]!r}; {j.size} of {g.size} "
                    f"samples differ, last at {int(j[-1])})")
    return None


def is_saturated(x: np.ndarray, y: Optional[np.ndarray]) -> bool:
    """every channel is noise of amplitude >= 1e159: each windowed DFT power overflows inside the kernels (saturated regime of range_probe)"""
    return all(float(np.min(np.abs(c))) > 0 and float(np.median(np.abs(c))) >= 1e159 for c in ([x] if y is None else [x, y]))


def check_saturated(P: C.Part, res, sig: Dict[str, Any], rp: Dict[str, Any], where: str) -> None:
    """the saturated-probe predicate of range_probe (densities / coherence / transfer function finite because compute() zero-fills the statistics
    that overflowed) for one full-plan result.  Demanded only when every segment has >= SAT_MIN_L samples: a segment of <= order + 1 samples has
    an identically zero detrended residual, its power is rounding noise (finite, ~1e290) instead of an overflow, and the quotient of such
    numbers is outside the amplitude domain of sub-claim d (ASSUMPTIONS) — not a statement about the zero-filling."""
    if int(np.min(np.asarray(res.L))) < SAT_MIN_L:
        P.hit("saturated-not-demanded(segments shorter than 8 samples)")
        return
    with np.errstate(all="ignore"), warnings.catch_warnings():
        warnings.simplefilter("ignore")
        try:
            badn = [n for n in DENS if getattr(res, n) is not None and not np.all(np.isfinite(np.asarray(getattr(res, n))))]
        except Exception as ex:
            badn = [f"raised {type(ex).__name__}"]
    P.hit("saturated-sweep")
    if badn:
        P.violations.append(C.Violation(what=f"{where}: finite record of amplitude >= 1e160: non-finite {badn} — the statistics that overflowed inside the "
                                             f"kernels are no longer zero-filled", signature=dict(sig, subclaim="finite", saturated=True), replay=rp))


def eval_seq(P: C.Part, case: Dict[str, Any], ref_cache: Optional[Dict[Any, Any]] = None) -> Optional[Dict[str, Any]]:
    """one record in one presentation under one set of options, analysed by a SEQUENCE of calls: case['seq'] = [[slot, entry], ...] with slot
    'A' / 'B' = an analyzer built once from the caller's object and reused, 'M' = a module-level wrapper called on the caller's object again.
    After EVERY step: the caller's object holds the same bytes (b), every analyzer built so far still stores the zero-filled record (a/c), the
    result equals — bit for bit, same code path — the first result of the same kind in this sequence (repeat) and the result for the plain
    C-contiguous float64 zero-filled record (a/c); the last result of each kind is finite (d).  Returns the reference fields per kind."""
    from speckit.analysis import SpectrumAnalyzer
    import speckit
    x, y = case_record(case)
    fs, opts, backend = float(case["fs"]), dict(case["opts"]), case["backend"]
    freq, L, pres, pattern, seq = float(case["freq"]), int(case["L"]), case["present"], case["pattern"], case["seq"]
    N = len(x)
    mode = "auto" if y is None else "cross"
    order = int(opts.get("order", 0))
    sched = str(opts.get("scheduler", "default")).split(":")[0]
    sig0 = {"present": pres, "backend": backend, "order": order, "mode": mode, "pattern": pattern, "stream": case["stream"]}
    rp = {"seq_case": case}
    P.cases += 1
    tag = "+".join(f"{s}.{e}" for s, e in seq)
    plain = pres in ("2xN_C", "1d_C") and pattern == "none" and len(seq) == 1 and case.get("kind") is None
    if N >= 8 and not plain:
        P.nontrivial.add((case["stream"], pres, pattern, order, backend, tag, mode, sched, case.get("olap_form"), str(opts.get("win", "default")),
                          case.get("kind")))
    for k, v in (("present", pres), ("pattern", pattern), ("backend", backend), ("order", order), ("sched", sched), ("olap", case.get("olap_form")),
                 ("win", opts.get("win", "default")), ("cell", f"{backend}.{order}.{mode}"), ("seq", tag if len(seq) > 1 else "single-call")):
        P.hit(f"{case['stream']}.{k}.{v}")
    xz, yz = zero_fill(x), zero_fill(y)
    try:
        obj, roots = present(pres, x, y)
    except ImportError:
        P.hit("pandas-unavailable")
        return None
    W = Watch(obj, roots)
    kw = real_opts(dict(opts, backend=backend))
    ans: Dict[str, Any] = {}
    first: Dict[str, Any] = {}
    last: Dict[str, Any] = {}
    for si, (slot, entry) in enumerate(seq):
        kind = STEP_KIND[entry]
        sig = dict(sig0, entry=entry if slot == "M" else "analyzer." + entry, step=si)
        where = (f"step {si} of [{tag}]: {sig['entry']}({pres}, N={N}, pattern={pattern}, order={order}, backend={backend}, sched={opts.get('scheduler')}, "
                 f"olap={opts.get('olap', 'default')!r}, win={opts.get('win', 'default')}" + (f", freq={freq!r}, L={L}" if kind != "full" else "") + ")")
        P.hit(f"{case['stream']}.entry.{sig['entry']}")
        try:
            with warnings.catch_warnings(), np.errstate(all="ignore"):
                warnings.simplefilter("ignore")
                if slot == "M":
                    if entry in ("compute_spectrum", "lpsd"):
                        res = getattr(speckit, entry)(obj, fs, **kw)
                    elif entry == "compute_single_bin":
                        res = speckit.compute_single_bin(obj, fs, freq, L=L, **kw)
                    else:
                        res = speckit.compute_single_bin(obj, fs, freq, fres=fs / L, **kw)
                else:
                    if slot not in ans:
                        ans[slot] = SpectrumAnalyzer(obj, fs, **kw)
                    an = ans[slot]
                    res = an.compute() if entry == "compute" else (an.compute_single_bin(freq, L=L) if entry == "single" else an.compute_single_bin(freq, fres=fs / L))
        except Exception as ex:
            touched = W.verdict()
            changed = touched is not None
            ctrl_raises = False
            if kind not in first:        # never succeeded before: an option / plan error that a plain noise record of this size provokes too?
                ctrl = np.random.default_rng(N).standard_normal((1 if y is None else 2, N))
                try:
                    run_entry(ctrl[0].copy() if y is None else ctrl, fs, KIND_REF[kind], backend, opts, freq, L)
                except Exception:
                    ctrl_raises = True
            if ctrl_raises and not changed:
                P.hit("options-rejected-for-any-record(" + type(ex).__name__ + ")")
                return None
            P.violations.append(C.Violation(what=f"{where} raised {ex!r}" + (f" AND {touched[1]}" if changed else ""),
                                            signature=dict(sig, subclaim="untouched" if changed else "raises"), replay=rp))
            return None
        # b. untouched after this step: bytes, every other aspect of the caller's object, and the caller's own in-place update (which a later step
        #    of the history then follows: analyse -> update in place -> analyse again)
        if not untouched(P, W, where, sig, rp):
            return None
        # a./c. every analyzer built so far still stores the zero-filled record
        for sl, an in ans.items():
            d = stored_mismatch(an, x, y, xz, yz)
            if d is not None:
                P.violations.append(C.Violation(what=f"{where}: the record stored in analyzer {sl} is not the zero-filled record: {d}",
                                                signature=dict(sig, subclaim="sanitise" if pattern != "none" else "layout", stage="stored"), replay=rp))
                return None
        fld = result_fields(res)
        # repeat: same options, same record, same code path => same bits
        if kind in first:
            d = diff_fields(fld, first[kind][0])
            if d is not None:
                k, j, u, v = d
                P.violations.append(C.Violation(what=f"{where}: {k}[{j}] = {u!r} but step {first[kind][1]} of the same sequence (same record, same options) gave {v!r}",
                                                signature=dict(sig, subclaim="repeat", field=k), replay=rp))
                return None
        else:
            first[kind] = (fld, si)
        last[kind] = (res, sig, where)
    # a./c. each kind equals the result for the plain C-contiguous float64 zero-filled record, bit for bit
    refs: Dict[str, Any] = {}
    for kind, (fld, si) in first.items():
        rkey = (case.get("x_id"), kind, backend, repr(sorted(opts.items())), freq, L) if case.get("x_id") is not None else None
        ref = ref_cache.get(rkey) if (ref_cache is not None and rkey is not None) else None
        sig = dict(last[kind][1])
        where = last[kind][2]
        if ref is None:
            canon = xz.copy() if y is None else np.array([xz, yz], dtype=np.float64)
            try:
                _, rres = run_entry(canon, fs, KIND_REF[kind], backend, opts, freq, L)
            except Exception as ex:
                P.violations.append(C.Violation(what=f"{where}: the plain zero-filled float64 record raised {ex!r}", signature=dict(sig, subclaim="raises", ref=True), replay=rp))
                return None
            ref = result_fields(rres)
            if ref_cache is not None and rkey is not None:
                ref_cache[rkey] = ref
        refs[kind] = ref
        d = diff_fields(fld, ref)
        if d is not None:
            k, j, u, v = d
            P.violations.append(C.Violation(
                what=f"{where}: {k}[{j}] = {u!r} (first result of kind '{kind}') but the plain C-contiguous float64 " + ("zero-filled " if pattern != "none" else "")
                     + f"record gives {v!r}", signature=dict(sig, subclaim="sanitise" if pattern != "none" else "layout", field=k), replay=rp))
            return None
    # d. finiteness
    for kind, (res, sig, where) in last.items():
        if in_domain(xz, yz):
            check_finite(P, res, sig, rp, where)
        elif kind == "full" and is_saturated(xz, yz):
            check_saturated(P, res, sig, rp, where)
        else:
            P.hit("finite-not-demanded(out of amplitude domain)")
    return refs


class Cycler:
    """per-dimension round robin with a seed-dependent starting point: every value of a list of n entries is used within n consecutive draws, and
    lists of different lengths drift against each other, so combinations change over the run and across seeds"""
    def __init__(self, rng: np.random.Generator):
        self.rng = rng
        self.pos: Dict[str, int] = {}

    def __call__(self, name: str, lst: List[Any]) -> Any:
        if name not in self.pos:
            self.pos[name] = int(self.rng.integers(0, 1 << 20))
        v = lst[self.pos[name] % len(lst)]
        self.pos[name] += 1
        return v


def sweep_channels(rng: np.random.Generator, N: int, cls: str, cross: bool) -> Tuple[np.ndarray, Optional[np.ndarray]]:
    """offset + linear + quadratic trend + tone with a phase + noise per channel; the second channel contains a delayed copy of the first"""
    t = np.arange(N, dtype=np.float64)

    def chan():
        return (float(rng.uniform(-30, 30)) + float(rng.uniform(-0.2, 0.2)) * t + float(rng.uniform(-1e-3, 1e-3)) * t * t
                + 2.0 * np.sin(2 * np.pi * float(rng.uniform(0.02, 0.45)) * t + float(rng.uniform(0, 6.28))) + rng.standard_normal(N))
    x = chan()
    y = (0.5 * np.roll(x, 3) + chan()) if cross else None
    if cls == "f32":
        x = x.astype(np.float32).astype(np.float64)
        y = None if y is None else y.astype(np.float32).astype(np.float64)
    elif cls == "int":
        x = np.round(x).astype(np.float64) + 0.0
        y = None if y is None else np.round(y).astype(np.float64) + 0.0
    return x, y


def sweep_opts(cyc: Cycler, rng: np.random.Generator, N: int, order: int, sched: Optional[str] = None, olap: Optional[str] = None,
               numba_only: bool = False) -> Tuple[Dict[str, Any], str]:
    """options of one sweep case -> (JSON-able options, overlap request form).  Cost: with an overlap so high that (1 - olap) L < 1 the built-in
    schedulers put N - L + 1 segments into every bin; the NumPy kernels are slow there, so that combination runs on the Numba kernels only
    (`numba_only`) and the NumPy kernels get the very high overlap through the user schedulers (capped segment counts) and single bins."""
    o: Dict[str, Any] = {"order": int(order), "Jdes": int(rng.integers(5, 13)), "Kdes": int(rng.choice([1, 2, 5])), "bmin": float(rng.choice([1.0, 1.0, 2.0])),
                         "Lmin": 1}
    s = sched or cyc("sched", SW_SCHEDS)
    form = olap or cyc("olap", SW_OLAPS)
    if form == "high" and s in _an.SCHEDS and not numba_only:
        s = cyc("sched.high", ["welch", "relist"])
    if s == "welch":
        divs = [d for d in range(6, N // 2 + 1) if N % d == 0]
        Lw = int(rng.choice(divs)) if (divs and rng.random() < 0.6) else int(rng.integers(6, max(7, N // 2)))       # a divisor of N: olap = 0 tiles the record
        s = f"welch:{Lw}"
    elif s == "relist":
        a, b = int(rng.integers(8, max(9, N // 4))) | 1, (int(rng.integers(N // 3, N // 2 + 1)) & ~1)
        s = f"relist:{a},{b},{a},{N},{b},{a + 1},{a}"
    o["scheduler"] = s
    if form == "float":
        o["olap"] = float(np.round(rng.uniform(0.05, 0.9), 3))
    elif form == "zero":
        o["olap"] = 0.0
    elif form == "high":
        o["olap"] = float(rng.choice([0.99, 0.995, 0.999]))          # (1 - olap) L < 1 for every L < 100
    else:
        o["olap"] = "default"
    w = cyc("win", SW_WINS)
    o["win"] = w
    if w in ("kaiser", "default", "spkaiser"):
        o["psll"] = float(cyc("psll", SW_PSLL))
    return o, form


def sweep_single(cyc: Cycler, rng: np.random.Generator, N: int, fs: float, tiling: bool = False) -> Tuple[float, int]:
    """single-bin request: whole record (K = 1), a divisor of N (olap = 0: back-to-back up to the last sample), odd / even lengths; frequency on a
    bin centre, between centres, 0 or Nyquist"""
    divs = [d for d in range(5, N // 2 + 1) if N % d == 0]
    k = "div" if (tiling and divs) else cyc("singleL", ["N", "div", "odd", "even", "third"])
    if k == "div" and divs:
        L = int(rng.choice(divs))
    elif k == "N":
        L = N
    elif k == "odd":
        L = int(rng.integers(5, N)) | 1
    elif k == "even":
        L = max(6, int(rng.integers(6, N)) & ~1)
    else:
        L = max(5, N // 3)
    L = min(L, N)
    fk = cyc("singlef", ["centre", "between", "centre", "zero", "between", "nyquist"])
    m = int(rng.integers(1, max(2, L // 2)))
    freq = {"centre": fs * m / L, "between": fs * (m + float(rng.uniform(0.1, 0.9))) / L if (m + 1) <= L / 2 else fs * m / L, "zero": 0.0, "nyquist": fs / 2}[fk]
    return float(freq), int(L)


def few_segments(L: int, N: int, form: str) -> int:
    """single bin under a very high overlap: (N - L) / ((1 - olap) L) + 1 segments — keep N - L <= 3 so that the count stays small"""
    return max(L, N - 3) if form == "high" else L


def backend_agreement(P: C.Part, label: str, x: np.ndarray, y: Optional[np.ndarray], fs: float, opts: Dict[str, Any], refs: Dict[str, Dict[str, Any]],
                      rp: Dict[str, Any]) -> None:
    """the Numba and the NumPy kernels evaluate the same quantities: for one record under identical options their statistics agree within twice the
    forward rounding budget of one kernel (_an.bin_tol, scaled by max_seg sum |x w|; each is within one budget of the exact value), the plan and the
    window sums (same code for every backend) exactly.  A layout / sanitising / state defect confined to ONE backend's branch shows here even when
    both of that backend's runs (test and reference) suffer from it alike."""
    (ba, ra), (bb, rb) = list(refs.items())[:2]
    order = int(opts.get("order", 0))
    for kind in ra:
        if kind not in rb:
            continue
        A, B = ra[kind], rb[kind]
        P.cases += 1
        P.hit("agreement." + kind)
        sig = {"subclaim": "backend-agreement", "order": order, "mode": "auto" if y is None else "cross", "kind": kind, "backends": f"{ba}|{bb}"}
        where = f"{label} ({kind}, order={order}, sched={opts.get('scheduler')}, win={opts.get('win', 'default')}, olap={opts.get('olap')!r})"
        bad = None
        for k in ("f", "r", "b", "L", "K", "navg", "O", "S12", "S2"):
            if A[k].shape != B[k].shape or A[k].tobytes() != B[k].tobytes():
                bad = f"{k} differs between backends {ba} and {bb} (computed by backend-independent code)"
                break
        if bad is None and (len(A["D"]) != len(B["D"]) or any(not np.array_equal(u, v) for u, v in zip(A["D"], B["D"]))):
            bad = f"segment starts differ between backends {ba} and {bb}"
        if bad is None:
            for j in range(len(A["f"])):
                Lj = int(A["L"][j])
                w = np.abs(tol_window(opts, Lj))
                idx = A["D"][j][:, None] + np.arange(Lj)[None, :]
                a = float(np.max(np.abs(x[idx]) @ w)) + 1e-300
                b = a if y is None else float(np.max(np.abs(y[idx]) @ w)) + 1e-300
                tXX, tYY, tXY, tM2 = _an.bin_tol(Lj, 2 * np.pi * float(A["f"][j]) / fs, a, b, order)
                for k, t in (("XX", tXX), ("YY", tYY if y is not None else tXX), ("XY", tXY), ("M2", tM2)):
                    u, v = A[k][j], B[k][j]
                    if not abs(u - v) <= 2 * t:
                        bad = f"{k}[{j}] (L={Lj}, K={len(A['D'][j])}, f={float(A['f'][j])!r}) = {u!r} with backend {ba} but {v!r} with backend {bb}: differ by {abs(u - v):.3e} > 2 x rounding budget {t:.3e}"
                        sig["field"] = k
                        break
                if bad:
                    break
        if bad:
            P.violations.append(C.Violation(what=f"{where}: {bad}", signature=sig, replay=rp))


def sweep_cell(ctx, P: C.Part, cyc: Cycler, rnd: int, order: int, cross: bool, ci: int) -> None:
    """one (order, mode) cell: the same records and options through BOTH backends (A cases), plus cycling layout / sanitise / degenerate cases"""
    rng = ctx.rng
    mode = "cross" if cross else "auto"
    fs = float(cyc("fs", [1.0, 2.0, 1000.0, 0.37]))
    # record 1: N a multiple of 48 (halves, thirds, quarters, twelfths tile it); record 2: any length, both parities over the run
    N1 = int(cyc("N1", [96, 240, 144, 192, 336]))
    N2 = int(cyc("N2", [int(rng.integers(60, 400)) | 1, int(rng.integers(60, 400)) & ~1, 255, 128]))
    cls = cyc("cls", ["real", "f32", "int"])
    x1, y1 = sweep_channels(rng, N1, "real", cross)
    x2, y2 = sweep_channels(rng, N2, cls, cross)
    o1, f1 = sweep_opts(cyc, rng, N1, order, sched="mix", olap="zero")
    o2, f2 = sweep_opts(cyc, rng, N2, order)
    fq1, L1 = sweep_single(cyc, rng, N1, fs, tiling=True)
    fq2, L2 = sweep_single(cyc, rng, N2, fs)
    L2a = few_segments(L2, N2, f2)
    pres_all = list(PRES_CROSS if cross else PRES_AUTO)
    if cls in ("f32", "int"):
        pres_all += PRES_CROSS_F32 if cross else PRES_AUTO_F32
    pres_holes = list(pres_all)                               # integer containers cannot hold a NaN
    if cls == "int":
        pres_all += PRES_CROSS_INT if cross else PRES_AUTO_INT
    alias = ALIAS_CROSS if cross else ALIAS_AUTO
    plainp = "2xN_C" if cross else "1d_C"
    refsA1: Dict[str, Any] = {}
    refsA2: Dict[str, Any] = {}
    caseA2 = None
    for bnames in SW_BACKENDS:
        if ctx.time_left() < 25 or len(P.violations) >= MAX_VIOL:
            return
        backend = bnames[rnd % len(bnames)]
        cache: Dict[Any, Any] = {}

        def mk(stream_kind, x, y, xid, pres, pattern, opts, form, seq, freq, L, **extra):
            c = {"stream": "sweep", "x": hexs(x), "y": hexs(y), "x_id": xid, "present": pres, "pattern": pattern, "fs": fs, "opts": opts, "olap_form": form,
                 "backend": backend, "seq": seq, "freq": float(freq), "L": int(L), "role": stream_kind}
            c.update(extra)
            return c
        # A1: aliasing presentation, every segment structure in one plan, olap exactly 0, call history with a back-to-back single bin in between
        seqA1 = [["A", "compute"], ["A", "single"], ["A", "compute"], ["A", "single_fres"], ["M", "compute_spectrum"], ["A", "compute"]]
        r = eval_seq(P, mk("A1", x1, y1, (ci, 1), cyc("aliasA1", alias), "none", o1, f1, seqA1, fq1, L1), cache)
        if r is not None:
            refsA1[backend] = r
        # A2: aliasing presentation, cycling scheduler / overlap form / window, cycling call history
        cA2 = mk("A2", x2, y2, (ci, 2), cyc("aliasA2", alias), "none", o2, f2, cyc("seq", SW_SEQS), fq2, L2a)
        r = eval_seq(P, cA2, cache)
        if r is not None:
            refsA2[backend] = r
            caseA2 = cA2
        # B: the same channels in other layouts / containers / dtypes: 2xN vs Nx2 vs list of two on every cell, one more cycling through all
        for pres in ((["Nx2_C", "list_arrays"] if cross else ["1d_list"]) + [cyc("presB." + mode + cls, pres_all)]):
            eval_seq(P, mk("B", x2, y2, (ci, 2), pres, "none", o2, f2, [STEP_OF_ENTRY[cyc("entryB", ENTRIES_ALL)]], fq2, L2a), cache)
        # C: non-finite samples; C1 in the plain (aliasing) layout through every entry point in turn, three calls on the same object;
        #    C2 in a cycling presentation with freshly drawn options
        for role, pres, opts, form in (("C1", plainp, o2, f2), ("C2", cyc("presC." + mode + cls, pres_holes), None, None)):
            xh, yh = x2.copy(), None if y2 is None else y2.copy()
            pattern = cyc("pattern", PATTERNS[1:])
            inject(rng, xh, yh, pattern)
            if opts is None:
                opts, form = sweep_opts(cyc, rng, N2, order, numba_only=(backend != "numpy"))
            step = STEP_OF_ENTRY[cyc("entry" + role, ENTRIES_ALL)]
            eval_seq(P, mk(role, xh, yh, None, pres, pattern, opts, form, [step] * (3 if role == "C1" else 1), fq2, few_segments(L2, N2, form)), None)
        # D: degenerate finite records (zero / constant / one dead channel / identical channels / tiny / huge ...), then the saturated regime
        for kind in (cyc("kind." + mode, [k for k in DEGENERATE if (("|" in k) == cross)]), "sat|sat" if cross else "sat"):
            parts = kind.split("|")
            od, fd = sweep_opts(cyc, rng, N2, order, numba_only=(backend != "numpy"))
            if parts[0] == "sat":
                amp = float(cyc("satamp", [1e160, 1e200]))
                xd = amp * rng.standard_normal(N2)
                yd = (0.5 * xd + amp * rng.standard_normal(N2)) if cross else None
                od["Lmin"] = SAT_MIN_L
                if od["scheduler"] == "lpsd":                   # lpsd_plan ignores Lmin
                    od["scheduler"] = "ltf"
                elif od["scheduler"].startswith("welch:") and int(od["scheduler"].split(":")[1]) < SAT_MIN_L:
                    od["scheduler"] = f"welch:{SAT_MIN_L}"
                seqD = [STEP_OF_ENTRY[cyc("entryDsat", ["analyzer.compute", "compute_spectrum", "lpsd"])]] * 2
            else:
                xd = degenerate_record(rng, N2, parts[0])
                yd = None
                if cross:
                    if parts[1] in ("same", "sameconst") and parts[0] in ("same", "sameconst"):
                        yd = xd.copy()
                    elif parts[0] == "negsame":
                        yd = degenerate_record(rng, N2, "noise")
                        xd = -3.0 * yd
                    else:
                        yd = degenerate_record(rng, N2, parts[1])
                seqD = [["A", "compute"], ["A", cyc("entryD", ["single", "single_fres"])], ["A", "compute"]]
            eval_seq(P, mk("D", xd, yd, None, cyc("presD." + mode, ["2xN_C", "Nx2_Tview", "list_arrays", "Nx2_C"] if cross else ["1d_C", "1d_list", "1d_strided"]),
                           "none", od, fd, seqD, fq2, few_segments(L2, N2, fd), kind=kind), None)
            P.hit(f"sweep.degenerate.{kind}")
    # (iv) the two backends against each other on the A records (identical options)
    if len(refsA1) == 2:
        backend_agreement(P, f"mix plan, N={N1}", x1, y1, fs, o1, refsA1, {"agreement": {"x": hexs(x1), "y": hexs(y1), "fs": fs, "opts": o1, "freq": fq1, "L": L1,
                                                                                       "backends": list(refsA1)}})
    if len(refsA2) == 2 and caseA2 is not None:
        backend_agreement(P, f"N={N2}", x2, y2, fs, o2, refsA2, {"agreement": {"x": hexs(x2), "y": hexs(y2), "fs": fs, "opts": o2, "freq": fq2, "L": L2a,
                                                                              "backends": list(refsA2)}})
    if ci < 2:
        P.sample({"op": "sweep-cell", "order": order, "mode": mode, "N": [N1, N2], "class": cls, "opts_mix": o1, "opts": o2, "single": [fq2, L2]})


def option_sweep(ctx, P: C.Part, rounds: int) -> None:
    cyc = Cycler(ctx.rng)
    ci = 0
    for rnd in range(rounds):
        for order in ORDERS:
            for cross in (True, False):
                if ctx.time_left() < 25 or len(P.violations) >= MAX_VIOL:
                    P.notes.append("option sweep: stopped early (time budget or violation cap)")
                    return
                sweep_cell(ctx, P, cyc, rnd, order, cross, ci)
                ci += 1


def replay_agreement(P: C.Part, a: Dict[str, Any]) -> None:
    x, y = unhex(a["x"]), unhex(a["y"])
    refs: Dict[str, Any] = {}
    for be in a["backends"]:
        refs[be] = {}
        for kind, ent in KIND_REF.items():
            try:
                _, r = run_entry(x.copy() if y is None else np.array([x, y]), float(a["fs"]), ent, be, a["opts"], float(a["freq"]), int(a["L"]))
                refs[be][kind] = result_fields(r)
            except Exception:
                pass
    backend_agreement(P, "replayed", x, y, float(a["fs"]), a["opts"], refs, {"agreement": a})


# ---------------------------------------------------------------- the caller's object: every presentation x every entry point, on every run
# Whether the library keeps the caller's own array object (and can therefore change its flags / shape / contents) or works on a copy depends on the
# representation: C-contiguous float64 1-D / 2xN arrays and views without NaN/Inf are kept, everything else is copied; with NaN/Inf a sanitised copy
# is made.  The streams above visit the presentations by cycling; this one hands EVERY presentation — finite and with non-finite samples — to EVERY
# entry form in one call history on the same object (seven calls in a seed-dependent order, backends cycling) and applies eval_seq's predicates
# after every step: the caller's object exactly as it was (Watch), the caller's own in-place update works, results bit-identical to the plain record's.
OBJ_STEPS = [["A", "compute"], ["A", "single"], ["A", "single_fres"], ["M", "compute_spectrum"], ["M", "lpsd"], ["M", "compute_single_bin"],
             ["M", "compute_single_bin_fres"]]


def object_stream(ctx, P: C.Part, rounds: int) -> None:
    rng = ctx.rng
    cyc = Cycler(rng)
    for rnd in range(rounds):
        for cross in (True, False):
            mode = "cross" if cross else "auto"
            N = int(cyc("N", [48, 60, 37, 96, 41]))
            fs = float(cyc("fs", [1.0, 1000.0, 0.37]))
            x, y = sweep_channels(rng, N, "int", cross)              # small integers: every container / dtype of the lists holds them exactly
            xh, yh = x.copy(), None if y is None else y.copy()
            pattern = str(cyc("pattern", PATTERNS[1:]))
            inject(rng, xh, yh, pattern)
            order = int(cyc("order", ORDERS))
            divs = [d for d in range(6, N // 2 + 1) if N % d == 0]
            L = int(rng.choice(divs)) if divs else N // 2
            freq = fs * int(rng.integers(1, L // 2 + 1)) / L
            opts = {"order": order, "Jdes": int(rng.integers(4, 9)), "Kdes": 2, "Lmin": 1, "scheduler": cyc("sched", ["ltf", "lpsd", "mix", "new_ltf"]),
                    "win": cyc("win", ["hann", "kaiser", "hashwin"]), "psll": 100.0, "olap": cyc("olap", ["default", 0.0, 0.5])}
            cache: Dict[Any, Any] = {}
            holes_ok = (PRES_CROSS + PRES_CROSS_F32) if cross else (PRES_AUTO + PRES_AUTO_F32)
            for pres in holes_ok + (PRES_CROSS_INT if cross else PRES_AUTO_INT):
                for pat, (u, v) in (("none", (x, y)), (pattern, (xh, yh))):
                    if pat != "none" and pres not in holes_ok:
                        continue
                    if ctx.time_left() < 25 or len(P.violations) >= MAX_VIOL:
                        P.notes.append("object stream: stopped early (time budget or violation cap)")
                        return
                    seq = [OBJ_STEPS[i] for i in rng.permutation(len(OBJ_STEPS))]
                    case = {"stream": "object", "x": hexs(u), "y": hexs(v), "x_id": (rnd, mode, pat), "present": pres, "pattern": pat, "fs": fs, "opts": opts,
                            "olap_form": str(opts["olap"]), "backend": cyc("backend", ["auto", "numpy", "numba"]), "seq": seq, "freq": float(freq), "L": int(L),
                            "role": "object"}
                    eval_seq(P, case, cache)
            if rnd == 0:
                P.sample({"op": "object-stream", "mode": mode, "N": N, "pattern": pattern, "opts": opts, "single": [freq, L],
                          "presentations": len(holes_ok) + len(PRES_CROSS_INT if cross else PRES_AUTO_INT)})


def masked_case(P: C.Part, m: Dict[str, Any]) -> None:
    """a masked array WITH masked samples (possibly NaN underneath, as np.ma.masked_invalid leaves them): what the analysis makes of the masked samples is not
    stated by the property, so nothing is demanded of the results — only sub-claim b: whatever each call does (a clear error included), the caller's
    masked array (data, mask, mask identity, hard / shared mask state, fill value, flags) is exactly as it was and can be updated in place"""
    x, y = unhex(m["x"]), unhex(m["y"])
    N = len(x)
    mk = np.array(m["mask"], dtype=bool).reshape((1 if y is None else 2), N)
    form = m["form"]
    if y is None:
        obj: Any = np.ma.array(x.copy(), mask=mk[0].copy(), hard_mask=bool(m["hard"]))
        roots = [obj]
    elif form == "2xN":
        obj = np.ma.array(np.array([x, y]), mask=mk.copy(), hard_mask=bool(m["hard"]))
        roots = [obj]
    elif form == "Nx2":
        obj = np.ma.array(np.ascontiguousarray(np.array([x, y]).T), mask=np.ascontiguousarray(mk.T), hard_mask=bool(m["hard"]))
        roots = [obj]
    else:
        obj = [np.ma.array(x.copy(), mask=mk[0].copy(), hard_mask=bool(m["hard"])), np.ma.array(y.copy(), mask=mk[1].copy())]
        roots = list(obj)
    if m.get("fill") is not None:
        for r in roots:
            r.fill_value = float(m["fill"])
    W = Watch(obj, roots)
    sig0 = {"present": "masked_" + (form if y is not None else "1d"), "mode": "auto" if y is None else "cross", "pattern": m["pattern"], "backend": m["backend"],
            "order": int(m["opts"].get("order", 0))}
    for si, entry in enumerate(m["entries"]):
        P.cases += 1
        P.hit("masked.entry." + entry)
        P.nontrivial.add(("masked", sig0["present"], m["pattern"], entry, bool(m["hard"])))
        outcome = "ok"
        try:
            run_entry(obj, float(m["fs"]), entry, m["backend"], m["opts"], float(m["freq"]), int(m["L"]))
        except Exception as ex:
            outcome = "raised " + type(ex).__name__
        P.hit("masked.outcome." + outcome)
        if not untouched(P, W, f"step {si}: {entry}({sig0['present']}, N={N}, {int(mk.sum())} masked sample(s), data under the mask: {m['pattern']}; {outcome})",
                         dict(sig0, entry=entry, step=si), {"masked": m}):
            return


def masked_stream(ctx, P: C.Part, n: int) -> None:
    rng = ctx.rng
    cyc = Cycler(rng)
    for i in range(n):
        cross = bool(i % 2)
        N = int(cyc("N", [40, 33, 64]))
        x, y = sweep_channels(rng, N, "real", cross)
        mk = rng.random((2 if cross else 1, N)) < 0.2
        mk[0, 0] = True
        pattern = str(cyc("under", ["finite", "nan", "inf"]))
        if pattern != "finite":
            for c, row in zip([x, y] if cross else [x], mk):
                c[row] = np.nan if pattern == "nan" else np.inf
        L = N // 2
        m = {"x": hexs(x), "y": hexs(y), "mask": mk.astype(int).ravel().tolist(), "form": cyc("form", ["2xN", "Nx2", "list"]) if cross else "1d",
             "hard": bool(cyc("hard", [False, True])), "fill": cyc("fill", [None, -1.0]), "pattern": pattern, "fs": 1.0,
             "opts": {"order": int(cyc("order", ORDERS)), "Jdes": 5, "Kdes": 2, "win": "hann"}, "backend": cyc("backend", ["auto", "numpy"]),
             "entries": [ENTRIES_ALL[j] for j in rng.permutation(len(ENTRIES_ALL))[:4]], "freq": 2.0 / L, "L": L}
        masked_case(P, m)


# ---------------------------------------------------------------- long records (size thresholds)
# "for all records": code that sanitises / copies / gathers in blocks, chunks or buffers of c samples (or switches method above c) can be right for
# every record of <= c samples and wrong beyond; the quick generators above stay below 700 samples.  Record lengths just below / at / above 2^16, around
# every block constant found in the CURRENT source (C.mined_sizes) and a few lengths well beyond are analysed with non-finite samples NEAR THE END of the
# record (last sample, last partial block, block boundaries), compared over the whole length (bytes of the caller's object, stored record) and through
# single bins whose segment COUNT crosses the kernels' chunk constants.  Records are described by a spec (seed, length, holes): replays stay small.
LONG_ALWAYS = [70_001]
LONG_MORE = [300_007, (1 << 20) + 7]            # thorough tier / when an obligation broke
LONG_BLOCK = 1 << 16
LONG_HUGE = 1_100_003


def long_sizes(ctx, intensive: bool) -> Tuple[List[int], List[int]]:
    try:
        mined = C.mined_sizes(["speckit/analysis.py", "speckit/core.py"], lo=1024)
    except Exception:
        mined = []
    cand = []
    for c in sorted(set(mined + [LONG_BLOCK])):
        cand += [c - 1, c, c + 1, c + 17, 2 * c + 3]
    cand = sorted({n for n in cand if 2048 <= n <= (1_200_000 if (intensive or ctx.thorough) else 140_000)})
    if intensive or ctx.thorough:
        picks = cand
    else:
        k = int(ctx.rng.integers(0, 1 << 20))
        picks = [cand[(k + 5 * i) % len(cand)] for i in range(3)] if cand else []
    more = LONG_MORE if (intensive or ctx.thorough) else []
    return LONG_ALWAYS + [n for n in picks if n not in LONG_ALWAYS] + more, mined


def long_holes(rng: np.random.Generator, N: int, cross: bool, variant: int, blocks: List[int]) -> List[List[int]]:
    """non-finite samples near the end of the record; variant 0: ONLY the last sample of the last channel (a block-wise scan that drops the tail sees
    a finite record); 1: only inside the last partial block; 2: last samples, a burst, and both sides of every block boundary"""
    nch = 2 if cross else 1
    code = lambda: int(rng.integers(0, 3))
    if variant == 0:
        return [[nch - 1, N - 1, code()]]
    if variant == 1:
        B = max([b for b in blocks if b < N] or [N // 2])
        lo = (N - 1) // B * B
        idx = sorted({int(v) for v in rng.integers(lo, N, size=5)} | {N - 1})
        return [[int(rng.integers(0, nch)), i, code()] for i in idx]
    h = [[0, N - 1, code()], [nch - 1, N - 2, code()]]
    h += [[int(rng.integers(0, nch)), i, code()] for i in range(N - 40, N - 33)]
    for B in blocks:
        for q in range(B, N, B):
            h += [[int(rng.integers(0, nch)), i, code()] for i in (q - 1, q, q + 1) if 0 <= i < N]
    return h[:400]


def long_stream(ctx, P: C.Part, intensive: bool) -> None:
    rng = ctx.rng
    sizes, mined = long_sizes(ctx, intensive)
    blocks = sorted(set([LONG_BLOCK] + [c for c in mined if c >= 1024]))
    P.notes.append(f"long records: lengths {sizes} (+ {LONG_HUGE}); block constants mined from the current source: {mined}")
    cyc = Cycler(rng)
    chunks = sorted({c for c in mined if 1024 <= c <= 40_000} | {1 << 15})
    for si, N in enumerate(sizes):
        if ctx.time_left() < 40 or len(P.violations) >= MAX_VIOL:
            P.notes.append("long records: stopped early (time budget or violation cap)")
            return
        fs = 1.0
        for role in ("full", "segments", "finite"):
            cross = bool(cyc("cross", [True, False, True]))
            order = int(cyc("order", ORDERS))
            seed = int(rng.integers(0, 1 << 31))
            if role == "full":
                # non-finite samples near the end; Numba kernels through a built-in plan (L = N, N/2, ...), NumPy through the short `long` plan
                backend = cyc("be.full", ["auto", "numpy", "numba"])
                spec = {"seed": seed, "N": N, "cross": cross, "holes": long_holes(rng, N, cross, int(cyc("variant", [0, 2, 1])), blocks)}
                pres = cyc("pres." + str(cross), ["2xN_C", "Nx2_C", "list_arrays", "Nx2_F", "2xN_F"] if cross else ["1d_C", "1d_strided", "1d_f32"])
                if pres == "1d_f32":
                    spec["f32"] = True
                opts = {"order": order, "Jdes": 5, "Kdes": 2, "scheduler": "long" if backend == "numpy" else cyc("sched", ["lpsd", "long", "ltf"]),
                        "win": cyc("win", ["hann", "kaiser"]), "psll": 120.0, "olap": cyc("olap", ["default", 0.0, 0.5])}
                seq = [STEP_OF_ENTRY[cyc("entry.full", ["analyzer.compute", "compute_spectrum", "lpsd"])]]
                freq, L, pattern = 0.01, N, "end-holes"
            elif role == "segments":
                # single bin whose segment count crosses a chunk constant of the kernels; holes in the last segments
                backend = cyc("be.seg", ["numpy", "auto"])
                c = int(cyc("chunk", chunks))
                K = int(cyc("koff", [c + 1, c + 17, 2 * c + 3, c]))
                L = max(4, -(-N // max(1, K - 1)))
                ol = min(max(1.0 - (N - L) / ((K - 1) * L), 0.0), 0.99)
                spec = {"seed": seed, "N": N, "cross": cross, "holes": long_holes(rng, N, cross, int(cyc("variant2", [2, 0, 1])), blocks)}
                pres = cyc("pres2." + str(cross), ["Nx2_C", "2xN_C", "list_arrays"] if cross else ["1d_C", "1d_row_of_2d"])
                opts = {"order": order, "win": cyc("win2", ["kaiser", "hann", "hashwin"]), "psll": 90.0, "olap": float(ol)}
                seq = [STEP_OF_ENTRY[cyc("entry.seg", ["analyzer.single", "compute_single_bin", "analyzer.single_fres", "compute_single_bin_fres"])]] * 2
                freq, pattern = float(fs * int(rng.integers(1, L // 2 + 1)) / L), "end-holes"
            else:
                # finite long record in an ALIASING presentation, analysed twice: kernels working on views of a long record must not write to it
                backend = cyc("be.fin", ["numpy", "auto"])
                kind = cyc("kind", [None, "zero", None, "const"])
                spec = {"seed": seed, "N": N, "cross": cross, "holes": []}
                if kind:
                    spec["kind"] = kind
                pres = cyc("pres3." + str(cross), ALIAS_CROSS if cross else ALIAS_AUTO)
                opts = {"order": order, "scheduler": "long", "win": cyc("win3", ["hann", "kaiser", "hashwin"]), "psll": 150.0, "olap": cyc("olap3", [0.0, "default"])}
                L = N // 2 if N % 2 == 0 else N
                seq = [["A", "compute"], ["A", "compute"]] if backend == "numpy" else [["A", "compute"], ["A", "single"], ["A", "compute"]]
                freq, pattern = float(fs * 3 / L), "none"
            case = {"stream": "long", "rec": spec, "x_id": None, "present": pres, "pattern": pattern, "fs": fs, "opts": opts, "olap_form": str(opts.get("olap")),
                    "backend": backend, "seq": seq, "freq": freq, "L": int(L), "role": role, "kind": spec.get("kind")}
            eval_seq(P, case, None)
            P.hit(f"long.N.{N}")
            if si == 0:
                P.sample({"op": "long", "role": role, "N": N, "present": pres, "backend": backend, "opts": opts, "holes": spec["holes"][:6]})
    # far beyond every other case: constructor (scan + sanitise + copy) over 1.1e6 samples and a Numba single bin across the whole record
    if ctx.time_left() > 60 and len(P.violations) < MAX_VIOL:
        for cross in ((True, False) if (intensive or ctx.thorough) else (bool(rng.integers(0, 2)),)):
            N = LONG_HUGE
            spec = {"seed": int(rng.integers(0, 1 << 31)), "N": N, "cross": cross, "holes": long_holes(rng, N, cross, int(cyc("variant3", [0, 1, 2])), [LONG_BLOCK, 1 << 20])}
            opts = {"order": int(cyc("order3", ORDERS)), "win": "hann", "olap": 0.0}
            case = {"stream": "long", "rec": spec, "x_id": None, "present": cyc("pres4." + str(cross), ["2xN_C", "Nx2_C"] if cross else ["1d_C"]), "pattern": "end-holes",
                    "fs": 1.0, "opts": opts, "olap_form": "0.0", "backend": "auto", "seq": [["A", "single"]], "freq": 0.1, "L": 4096, "role": "huge", "kind": None}
            eval_seq(P, case, None)
            P.hit(f"long.N.{N}")


# ---------------------------------------------------------------- correspondence: the heap model's aliasing rules vs NumPy
def parse_ctor_ops() -> Dict[str, List[str]]:
    txt = open(os.path.join(C.LEAN_DIR, "SpecKitV", "Gen", "Ctor.lean")).read()
    return {m.group(1): [t.strip().replace("HeapOp.", "") for t in m.group(2).split(",") if t.strip()]
            for m in re.finditer(r"def (ctorOps\w+) : List HeapOp := \[(.*?)\]", txt)}


def model_has_fcontig() -> bool:
    txt = open(os.path.join(C.LEAN_DIR, "SpecKitV", "Model", "Analyzer.lean")).read()
    m = re.search(r"structure ArrDesc where(.*?)deriving", txt, flags=re.S)
    return bool(m and re.search(r"\bfcontig\b", m.group(1)))


def heap_run(ops: List[str], desc: Dict[str, Any], refined: bool) -> Dict[str, Any]:
    """Python mirror of Model.heapStep / heapRun (Model/Analyzer.lean). `refined`: `.T` swaps C/F contiguity (NumPy's actual rule)
    instead of the model's `contig := false`."""
    cur = dict(desc)
    nxt = cur["buf"] + 1
    written: List[int] = []
    for op in ops:
        if op == "asarray":
            if not cur["isArray"]:
                cur = {"buf": nxt, "contig": True, "fcontig": False, "f64": cur["f64"], "isArray": True}
                nxt += 1
        elif op == "transposeView":
            if refined:
                cur = dict(cur, contig=cur["fcontig"], fcontig=cur["contig"])
            else:
                cur = dict(cur, contig=False)
        elif op == "ascontig64":
            if not (cur["contig"] and cur["f64"]):
                cur = {"buf": nxt, "contig": True, "fcontig": False, "f64": True, "isArray": True}
                nxt += 1
        elif op == "nanToNumInPlace":
            written.append(cur["buf"])
        elif op == "nanToNumCopy":
            cur = {"buf": nxt, "contig": True, "fcontig": False, "f64": True, "isArray": True}
            nxt += 1
        else:
            raise ValueError(f"unknown HeapOp {op}")
    return {"cur": cur, "written": written}


def heap_inputs(rng: np.random.Generator, N: int):
    """every (rank, dtype, memory order) ndarray input plus the non-array containers; yields (label, object, ndarray-to-test-or-None)"""
    for rank in ("1d", "2xN", "Nx2"):
        for dt in (np.float64, np.float32, np.int64):
            for order in ("C", "F", "strided", "Tview"):
                shp = (N,) if rank == "1d" else ((2, N) if rank == "2xN" else (N, 2))
                vals = np.round(100 * rng.standard_normal(shp)).astype(dt)
                if order == "C":
                    a = np.ascontiguousarray(vals)
                elif order == "F":
                    a = np.asfortranarray(vals)
                elif order == "strided":
                    big = np.zeros(tuple(2 * s for s in shp), dtype=dt)
                    a = big[::2] if rank == "1d" else big[::2, ::2]
                    a[...] = vals
                else:
                    a = np.ascontiguousarray(vals.T).T
                yield f"ndarray/{rank}/{np.dtype(dt).name}/{order}", a, a
    for rank in ("1d", "2xN", "Nx2"):
        shp = (N,) if rank == "1d" else ((2, N) if rank == "2xN" else (N, 2))
        vals = np.round(100 * rng.standard_normal(shp))
        yield f"list/{rank}/float", vals.tolist(), None
        yield f"tuple/{rank}/float", tuple(vals.tolist()) if rank == "1d" else tuple(tuple(r) for r in vals.tolist()), None
        yield f"list/{rank}/int", vals.astype(np.int64).tolist(), None
    c1, c2 = np.round(100 * rng.standard_normal(N)), np.round(100 * rng.standard_normal(N))
    yield "list-of-two-arrays/2xN/float64", [c1, c2], "members"
    yield "tuple-of-two-arrays/2xN/float64", (c1.copy(), c2.copy()), "members"
    yield "list-of-two-arrays/2xN/float32", [c1.astype(np.float32), c2.astype(np.float32)], "members"


def heap_correspondence(ctx, P: C.Part) -> None:
    from speckit.analysis import SpectrumAnalyzer
    try:
        ops_all = parse_ctor_ops()
    except Exception as ex:
        P.disagreements.append({"op": "heap", "error": f"cannot read the generated constructor op lists: {ex!r}"})
        return
    if not all(k in ops_all for k in ("ctorOps1D", "ctorOps2DRows", "ctorOps2DCols")):
        P.disagreements.append({"op": "heap", "error": "Gen/Ctor.lean does not define ctorOps1D/ctorOps2DRows/ctorOps2DCols (translator could not "
                                                        "recognise the constructor)", "found": sorted(ops_all)})
        return
    refined_model = model_has_fcontig()
    P.notes.append(f"constructor ops (generated): {ops_all}; heap model has fcontig field: {refined_model}")
    quiet()
    for N in (1, 2, 3, 17, int(ctx.rng.integers(20, 200))):
        for label, obj, target in heap_inputs(ctx.rng, N):
            for path in ("finite", "nonfinite"):
                a = np.asarray(obj) if target is None or isinstance(target, str) else target
                if a.ndim == 2 and a.shape == (2, 2):
                    which = "ctorOps2DRows"                 # 2x2: rows are channels (Model.channelOf)
                elif a.ndim == 1:
                    which = "ctorOps1D"
                elif a.shape[0] == 2:
                    which = "ctorOps2DRows"
                else:
                    which = "ctorOps2DCols"
                ops = list(ops_all[which])
                if path == "finite":
                    while ops and ops[-1].startswith("nanToNum"):
                        ops.pop()                           # all-finite input: the sanitiser is skipped (DESIGN / Props.C13 docstring)
                    if any(o.startswith("nanToNum") for o in ops):
                        P.disagreements.append({"op": "heap", "error": "a sanitising op is not the last op of the generated list", "ops": ops_all[which]})
                        return
                is_arr = isinstance(obj, np.ndarray)
                isfloat = (a.dtype.kind == "f")
                if path == "nonfinite":
                    if not isfloat:
                        continue
                    # put one NaN into the caller's object (rebuild lists)
                    if is_arr:
                        obj.flat[0] = np.nan
                    elif isinstance(target, str):
                        obj[0][0] = np.nan
                    else:
                        l = np.asarray(obj, dtype=np.float64)
                        l.flat[0] = np.nan
                        obj = l.tolist() if isinstance(obj, list) else (tuple(l.tolist()) if l.ndim == 1 else tuple(tuple(r) for r in l.tolist()))
                desc = {"buf": 0, "contig": bool(a.flags.c_contiguous) if is_arr else False,
                        "fcontig": bool(a.flags.f_contiguous) if is_arr else False,
                        "f64": bool(a.dtype == np.float64), "isArray": is_arr}
                mA = heap_run(ops, desc, refined=refined_model)
                mB = heap_run(ops, desc, refined=True)
                predA = (mA["cur"]["buf"] == 0, 0 in mA["written"])
                pred = (mB["cur"]["buf"] == 0, 0 in mB["written"])
                outside = predA != pred
                # the real constructor
                members = list(obj) if isinstance(target, str) else None
                watch = [obj] if is_arr else (members if members is not None else [obj])
                snap0 = snapshot(watch)
                try:
                    with warnings.catch_warnings():
                        warnings.simplefilter("ignore")
                        an = SpectrumAnalyzer(obj, 1.0)
                        an2 = SpectrumAnalyzer(obj, 1.0)
                except Exception as ex:
                    P.disagreements.append({"op": "heap", "input": label, "N": N, "path": path, "impl_raised": repr(ex)})
                    continue
                modified = snapshot(watch) != snap0
                if is_arr:
                    shares = bool(np.shares_memory(an.data, obj))
                elif members is not None:
                    shares = any(bool(np.shares_memory(an.data, m)) for m in members)
                else:
                    shares = bool(np.shares_memory(an.data, an2.data))   # a fresh buffer per construction <=> asarray allocated for the container
                P.cases += 1
                P.nontrivial.add((label, path, N if N <= 3 else "n"))
                P.hit(f"heap.{which}.{path}")
                P.hit("heap.shares" if shares else "heap.fresh")
                if outside:
                    P.hit("heap.outside-model-T-rule(F-contiguous Nx2: refined rule used)")
                if (shares, modified) != pred:
                    P.disagreements.append({"op": "heap", "input": label, "N": N, "path": path, "ops": ops, "descriptor": desc,
                                            "model": {"shares_caller_buffer": pred[0], "writes_caller_buffer": pred[1]},
                                            "model_as_written": {"shares_caller_buffer": predA[0], "writes_caller_buffer": predA[1]},
                                            "numpy": {"shares_memory": shares, "caller_bytes_changed": modified}})
                elif len(P.samples) < 3 and N > 3 and (shares or outside):
                    P.sample({"op": "heap", "input": label, "N": N, "path": path, "ops": ops, "model_shares": pred[0], "numpy_shares": shares})
                # two analyzers built from one ndarray alias each other exactly when both alias the caller
                if is_arr and bool(np.shares_memory(an.data, an2.data)) != shares:
                    P.disagreements.append({"op": "heap", "input": label, "N": N, "path": path, "error": "two constructions from one array alias each other "
                                            "although the model says each is fresh (or vice versa)", "shares_caller": shares})


def kheap_correspondence(ctx, P: C.Part) -> None:
    """(i) every aliasing rule of Model.KOp against NumPy itself (np.shares_memory / identity / bytes), on arrays of several dtypes and layouts;
    (ii) the six real NumPy kernels on records with non-zero segment means, unsorted/repeated/back-to-back starts and K = 1: every array handed to
    the kernel (record(s), starts, window, basis) is byte-identical afterwards — the concrete statement np_kernels_write_no_caller_buffer is about."""
    from speckit import core as K
    rng = np.random.default_rng(int(ctx.rng.integers(0, 2 ** 62)))
    def rule(name, ok):
        P.cases += 1
        P.hit("kheap_rule_" + name)
        if not ok:
            P.disagreements.append({"op": "kheap-rule", "rule": name, "error": "NumPy does not follow the aliasing rule assumed by Model.KOp"})
    for dt in (np.float64, np.float32, np.int64):
        for N in (7, 64):
            a = (rng.standard_normal(N) * 5).astype(dt)
            idx = np.array([0, 2, 2, 5])
            rule("fancy_copies", not np.shares_memory(a[idx], a))
            rule("fancy2d_copies", not np.shares_memory(a[idx[:, None] + np.arange(2)[None, :]], a))
            rule("boolmask_copies", not np.shares_memory(a[a > 0], a) or not (a > 0).any())
            rule("basic_views", np.shares_memory(a[1:5], a) and np.shares_memory(a[1:5][None, :], a) and np.shares_memory(a[::2], a))
            rule("T_real_imag_reshape_view", np.shares_memory(a.reshape(1, -1).T, a) and np.shares_memory(a.real, a)
                 and np.shares_memory((a.astype(complex)).imag, a) is False)
            b = a.copy()
            r = np.nan_to_num(b, copy=False)
            rule("nan_to_num_inplace_returns_arg", r is b or np.shares_memory(r, b))
            rule("nan_to_num_copy_allocates", not np.shares_memory(np.nan_to_num(b, copy=True), b) and not np.shares_memory(np.nan_to_num(b), b))
            c = a.copy(); v = c[1:4]; before = c.copy(); v -= 1
            rule("augassign_writes_view_base", not np.array_equal(before, c) and np.array_equal(before[4:], c[4:]))
            rule("arith_allocates", not np.shares_memory(a * 2, a) and not np.shares_memory(a - a.mean(), a) and not np.shares_memory(np.exp(a.astype(float)), a))
            same = np.asarray(a, dtype=np.float64, order="C")
            rule("asarray_alias_iff_same_dtype", (same is a or np.shares_memory(same, a)) == (dt is np.float64))
    names = [("_stats_win_only_auto_np", False, False), ("_stats_win_only_csd_np", True, False), ("_stats_detrend0_auto_np", False, False),
             ("_stats_detrend0_csd_np", True, False), ("_stats_poly_auto_np", False, True), ("_stats_poly_csd_np", True, True)]
    for rep in range(ctx.scale(6, 40)):
        N = int(rng.integers(40, 300))
        L = int(rng.integers(1, min(N, 64) + 1))
        mode = ["generic", "backtoback", "single", "repeated"][rep % 4]
        if mode == "backtoback":
            starts = np.arange(0, N - L + 1, L, dtype=np.int64)
        elif mode == "single":
            starts = np.array([int(rng.integers(0, N - L + 1))], dtype=np.int64)
        elif mode == "repeated":
            s0 = int(rng.integers(0, N - L + 1)); starts = np.array([s0, s0, 0], dtype=np.int64)
        else:
            starts = rng.integers(0, N - L + 1, size=int(rng.integers(1, 9))).astype(np.int64)
        x1 = np.ascontiguousarray(rng.standard_normal(N) + 3.0)
        x2 = np.ascontiguousarray(rng.standard_normal(N) - 7.0 + 0.01 * np.arange(N))
        if rep % 5 == 0:
            x1[int(rng.integers(0, N))] = np.nan      # kernels sanitise gathered copies; the record must keep its NaN
        w = np.ascontiguousarray(rng.uniform(0.1, 1.0, L))
        omega = float(rng.uniform(0, np.pi))
        order = int(rng.integers(1, 3))
        Q = np.ascontiguousarray(K._build_Q(L, order))
        for nm, cross, poly in names:
            args = [x1] + ([x2] if cross else []) + [starts, L, w, omega] + ([Q] if poly else [])
            held = [a for a in args if isinstance(a, np.ndarray)]
            snaps = [a.tobytes() for a in held]
            with warnings.catch_warnings():
                warnings.simplefilter("ignore")
                getattr(K, nm)(*args)
            P.cases += 1
            P.hit("kheap_kernel_" + mode)
            if L > 1 and len(starts) >= 1:
                P.nontrivial.add(("kheap", nm, mode, L > 8))
            for a, sn, lab in zip(held, snaps, (["x1"] + (["x2"] if cross else []) + ["starts", "w"] + (["Q"] if poly else []))):
                if a.tobytes() != sn:
                    P.disagreements.append({"op": "kheap-kernel", "kernel": nm, "buffer": lab, "N": N, "L": L, "starts": starts.tolist(), "mode": mode,
                                            "error": "the real kernel modified an array it was handed, which np_kernels_write_no_caller_buffer excludes "
                                                     "for the op list generated from its source"})



# ---------------------------------------------------------------- correspondence: the GENERATED constructor decisions (Gen/CtorShape.lean) vs the real constructor
CTOR_EXC = ("ValueError", "TypeError", "IndexError", "OverflowError", "AttributeError", "KeyError")
CTOR_STEP_KEYS = {"win_func", "alpha", "final_olap", "win_name", "scheduler_func", "scheduler_name"}


def _hx(s: str) -> str:
    return s.encode("ascii").hex()


def _custom_win(n):            # a user window / scheduler: only their identity matters to the constructor
    return np.ones(n)


def _custom_sched(**kw):
    return {}


class _Tok:
    """Python argument values <-> driver tokens (n | b: | i: | r: | s: | f:<name> | o:<id>)"""

    def __init__(self):
        self.fn: Dict[int, Tuple[str, Any]] = {}
        self.obj: Dict[int, Tuple[int, Any]] = {}
        self.strs: List[str] = []
        self.others: List[Any] = []

    def enc(self, v: Any) -> str:
        if v is None:
            return "n"
        if isinstance(v, bool):
            return "b:1" if v else "b:0"
        if isinstance(v, int):
            return f"i:{v}"
        if isinstance(v, float):
            self.others.append(v)
            return "r:" + C.f2h(v)
        if isinstance(v, str):
            self.strs.append(v)
            return "s:" + _hx(v)
        if callable(v):
            if id(v) not in self.fn:
                self.fn[id(v)] = (f"fn{len(self.fn)}", v)
            self.others.append(v)
            return "f:" + _hx(self.fn[id(v)][0])
        if id(v) not in self.obj:
            self.obj[id(v)] = (len(self.obj), v)
        self.others.append(v)
        return f"o:{self.obj[id(v)][0]}"

    def same(self, tok: str, real: Any) -> bool:
        """does the driver's token describe exactly the real Python value (type included)"""
        if tok == "n":
            return real is None
        k, _, body = tok.partition(":")
        if k == "b":
            return isinstance(real, bool) and real == (body == "1")
        if k == "i":
            return type(real) is int and real == int(body)
        if k == "r":
            return type(real) is float and C.f2h(real) == body
        if k == "s":
            return type(real) is str and _hx(real) == body
        if k == "f":
            if any(_hx(nm) == body and real is o for nm, o in self.fn.values()):
                return True
            try:                                      # a default of the signature: the expression as written in the source, in the module's namespace
                import speckit.analysis as A
                return eval(bytes.fromhex(body).decode(), vars(A)) is real
            except Exception:
                return False
        if k == "o":
            return any(str(i) == body and real is o for i, o in self.obj.values())
        return False


def ctor_case_inputs(rng: np.random.Generator, idx: int) -> Dict[str, Any]:
    """one constructor call: data (shape class, container, dtype, non-finite placement) and keyword arguments"""
    shape_cls = ["1d", "2xN", "Nx2", "2x2", "1xN", "Nx1", "3xN", "Nx3", "0d", "3d", "none", "str"][idx % 12] if idx < 96 else \
        str(rng.choice(["1d", "1d", "2xN", "2xN", "Nx2", "Nx2", "2x2", "1xN", "Nx1", "3xN", "Nx3", "0d", "3d"]))
    N = int([0, 1, 2, 3, int(rng.integers(4, 40))][(idx // 12) % 5] if idx < 96 else rng.choice([0, 1, 2, 3, int(rng.integers(4, 40))]))
    shp = {"1d": (N,), "2xN": (2, N), "Nx2": (N, 2), "2x2": (2, 2), "1xN": (1, N), "Nx1": (N, 1), "3xN": (3, N), "Nx3": (N, 3), "0d": (),
           "3d": [(2, 2, 2), (1, 2, N), (2, N, 2), (N, 2, 1)][int(rng.integers(4))], "none": (), "str": ()}[shape_cls]
    dt = [np.float64, np.float64, np.float32, np.int64, np.int32, np.bool_][int(rng.integers(6))]
    M = int(np.prod(shp)) if shp else 1
    vals = (rng.permutation(M) + 1).astype(np.float64)                  # distinct integers: exact provenance of every stored sample
    if dt is np.bool_:
        vals = (vals % 2)
    a = vals.reshape(shp).astype(dt)
    pattern = "none"
    if np.dtype(dt).kind == "f" and M > 0 and rng.random() < 0.6:
        pattern = str(rng.choice(["nan", "inf", "-inf", "mixed", "all", "last"]))
        flat = a.reshape(-1)
        bad = {"nan": [np.nan], "inf": [np.inf], "-inf": [-np.inf]}.get(pattern, [np.nan, np.inf, -np.inf])
        pos = np.arange(M) if pattern == "all" else ([M - 1] if pattern == "last" else rng.choice(M, size=min(M, int(rng.integers(1, 4))), replace=False))
        for q in pos:
            flat[q] = bad[int(rng.integers(len(bad)))]
        a = flat.reshape(shp)
    container = str(rng.choice(["C", "F", "Tview", "list", "tuple", "list_of_arrays", "strided"]))
    if shape_cls == "none":
        data: Any = None
    elif shape_cls == "str":
        data = "abc"
    elif container == "F":
        data = np.asfortranarray(a)
    elif container == "Tview" and a.ndim >= 2:
        data = np.ascontiguousarray(a.T).T
    elif container == "list":
        data = a.tolist()
    elif container == "tuple":
        data = tuple(a.tolist()) if a.ndim == 1 else (tuple(tuple(r) if isinstance(r, list) else r for r in a.tolist()) if a.ndim >= 2 else a.tolist())
    elif container == "list_of_arrays" and a.ndim == 2:
        data = [np.array(r) for r in a]
    elif container == "strided" and a.ndim >= 1 and M > 0:
        big = np.zeros(tuple(2 * d for d in shp), dtype=dt)
        big[tuple(slice(None, None, 2) for _ in shp)] = a
        data = big[tuple(slice(None, None, 2) for _ in shp)]
    else:
        data = a
    band = (0.1, 0.2)
    pools = {
        "olap": (["default", 0.5, 0, 0.3], ["0.3", 1.5, None, -0.1]),
        "bmin": ([1.0, 2, 3.7, True], ["2.5", None, "abc", float("nan")]),
        "Lmin": ([1, 2, 7, 2.7, True], ["3", "3.5", float("nan"), float("inf"), None, -1.5, (1,)]),
        "Jdes": ([10, 500, 7.9], [None, "12", float("-inf")]),
        "Kdes": ([1, 100, 2.5], ["x", None]),
        "num_patch_pts": ([None, 50, 3.9, 0], ["4", "z", float("nan")]),
        "order": ([-1, 0, 1, 2, 1.0, True, 2.0, False], [3, None, "0", 1.5, -2, float("nan")]),
        "psll": ([200, 100.5, 60], [None]),
        "win": (["hann", "kaiser", np.hanning, _custom_win], ["nonexistent", 5]),
        "scheduler": (["ltf", "lpsd", "vectorized_ltf", "new_ltf", _custom_sched], ["zzz", None]),
        "band": ([None, band], [band]),
        "force_target_nf": ([False, True, None, 1, 0, "x", "", 0.0], [float("nan"), band, _custom_win]),
        "backend": (["auto", "numpy", "numba"], [3, None, 1.5, True, _custom_win]),
        "verbose": ([False, None, 0, ""], [True, 1, "yes"]),
    }
    fs_pool = ([1.0, 2, True, 1000.0, 0.5], [0, -1.0, float("nan"), float("inf"), None, "1", False, _custom_win])     # (a tuple as fs is outside the CS.PyVal contract: np.isfinite of a tuple is an array)
    wild = rng.random() < 0.3
    pick = lambda pool: pool[1][int(rng.integers(len(pool[1])))] if (wild and rng.random() < 0.5) else pool[0][int(rng.integers(len(pool[0])))]
    kw: Dict[str, Any] = {}
    if rng.random() < 0.7:
        for k in rng.choice(sorted(pools), size=int(rng.integers(1, 6)), replace=False):
            kw[str(k)] = pick(pools[str(k)])
    if rng.random() < 0.03:
        kw["no_such_keyword"] = 1
    return {"shape_cls": shape_cls, "N": N, "dtype": np.dtype(dt).name, "pattern": pattern, "container": container, "data": data, "fs": pick(fs_pool), "kw": kw}


def ctor_defaults_check(ctx, P: C.Part) -> None:
    """the signature as the translator read it (Gen.ctor_positional / Gen.ctor_kwdefaults, through the driver) vs inspect.signature of the real class"""
    import inspect
    import speckit.analysis as A
    P.cases += 1
    P.hit("ctor.defaults")
    try:
        r = ctx.driver.ask("ctordefaults")
        parts = dict(t.split("=", 1) for t in r.split())
        pos = [bytes.fromhex(h).decode() for h in parts["pos"].split(",") if h]
        kws = [(bytes.fromhex(kv.split("=", 1)[0]).decode(), kv.split("=", 1)[1]) for kv in parts["kw"].split(";") if kv]
    except Exception as ex:
        P.disagreements.append({"op": "ctordefaults", "error": f"driver: {ex!r}"})
        return
    sig = inspect.signature(A.SpectrumAnalyzer.__init__)
    rpos = [n for n, q in sig.parameters.items() if q.kind == q.POSITIONAL_OR_KEYWORD and n != "self"]
    rkw = [(n, q.default) for n, q in sig.parameters.items() if q.kind == q.KEYWORD_ONLY]
    bad = []
    if pos != rpos:
        bad.append({"positional": pos, "real": rpos})
    if [k for k, _ in kws] != [k for k, _ in rkw]:
        bad.append({"keywords": [k for k, _ in kws], "real": [k for k, _ in rkw]})
    else:
        for (k, tok), (_, d) in zip(kws, rkw):
            if tok.startswith("f:"):
                name = bytes.fromhex(tok[2:]).decode()
                try:
                    obj = eval(name, vars(A))          # the default expression as written in the source, resolved in the module's namespace
                except Exception:
                    obj = object()
                ok = obj is d
            else:
                ok = _Tok().same(tok, d)
            if not ok:
                bad.append({"keyword": k, "generated_default": tok, "real_default": repr(d)})
    if bad:
        P.disagreements.append({"op": "ctordefaults", "mismatch": bad})


def ctor_correspondence(ctx, P: C.Part, rng: np.random.Generator) -> None:
    """real `SpectrumAnalyzer(data, fs, **kw)` vs Gen.ctor_call executed by the driver: raised-or-not and the exception class, iscsd, nx,
    fs, verbose, _plan_cache, the stored data / x1 / x2 bit for bit (elements are distinct integers, so provenance is exact), and the config
    entries the constructor itself writes (value AND type; key order). `_process_window_config` / `_process_scheduler_config` are parameters
    of the translated constructor: the driver runs them as identity, or as `raise X` when the real run raised X inside one of them."""
    import traceback
    from speckit.analysis import SpectrumAnalyzer
    ctor_defaults_check(ctx, P)
    quiet()
    logging.disable(logging.CRITICAL)
    try:
        n = ctx.scale(420, 4000)
        for idx in range(n):
            case = ctor_case_inputs(rng, idx)
            data, fs, kw = case["data"], case["fs"], case["kw"]
            desc = {"op": "ctorcall", "index": idx, "shape_cls": case["shape_cls"], "N": case["N"], "dtype": case["dtype"], "pattern": case["pattern"],
                    "container": case["container"], "fs": repr(fs), "kw": {k: repr(v) for k, v in kw.items()}}
            try:
                with warnings.catch_warnings():
                    warnings.simplefilter("ignore")
                    arr = np.asarray(data)
            except Exception:
                P.hit("ctor.outside-model(np.asarray raises)")
                continue
            if arr.dtype.kind not in "fiub" and arr.ndim in (1, 2):
                P.hit("ctor.outside-model(non-numeric elements)")
                continue
            elems = arr.astype(np.float64).ravel() if arr.dtype.kind in "fiub" else np.full(max(1, arr.size), np.nan)
            # the real constructor
            real: Dict[str, Any] = {}
            try:
                with warnings.catch_warnings():
                    warnings.simplefilter("ignore")
                    an = SpectrumAnalyzer(data, fs, **kw)
                real["ok"] = an
            except Exception as ex:
                frames = [f.name for f in traceback.extract_tb(ex.__traceback__)]
                cls = type(ex).__name__
                real["exc"] = cls if cls in CTOR_EXC else "Other"
                real["where"] = ("wstep" if "_process_window_config" in frames else "sstep" if "_process_scheduler_config" in frames
                                 else "init" if "__init__" in frames else "call")
            # the generated constructor
            T = _Tok()
            toks = [T.enc(fs)] + [f"{_hx(k)} {T.enc(v)}" for k, v in kw.items()]
            ftab, itab, stab = [], [], []
            for s_ in dict.fromkeys(T.strs):
                try:
                    ftab.append(f"h{_hx(s_)} {C.f2h(float(s_))}")
                except Exception:
                    ftab.append(f"h{_hx(s_)} -")
                try:
                    itab.append(f"h{_hx(s_)} {int(s_)}")
                except Exception:
                    itab.append(f"h{_hx(s_)} -")
            seen = set()
            for o in list(T.others):
                t = T.enc(o)
                if t not in seen:
                    seen.add(t)
                    stab.append(f"{t} h{_hx(str(o).encode('ascii', 'replace').decode())}")
            wst = f"raise:{real['exc']}" if real.get("where") == "wstep" else "ok"
            sst = f"raise:{real['exc']}" if real.get("where") == "sstep" else "ok"
            line = " ".join(["ctorcall", C.iarr(arr.shape), C.arr(elems), toks[0], str(len(kw))] + toks[1:]
                            + [str(len(ftab))] + ftab + [str(len(itab))] + itab + [str(len(stab))] + stab + [wst, sst])
            try:
                out = ctx.driver.ask(line)
            except Exception as ex:
                P.disagreements.append(dict(desc, error=f"driver: {ex!r}"))
                return
            P.cases += 1
            P.hit(f"ctor.shape.{case['shape_cls']}.N{case['N'] if case['N'] <= 3 else 'n'}")
            P.hit(f"ctor.container.{case['container']}")
            P.hit(f"ctor.dtype.{case['dtype']}")
            P.hit(f"ctor.pattern.{case['pattern']}")
            for k in kw:
                P.hit(f"ctor.kw.{k}")
            P.nontrivial.add(("ctor", case["shape_cls"], min(case["N"], 4), case["container"], case["dtype"], case["pattern"], tuple(sorted(kw))))
            bad: List[str] = []
            if "exc" in real:
                P.hit(f"ctor.outcome.raise.{real['exc']}@{real['where']}")
                if out != f"raise {real['exc']}":
                    bad.append(f"real raised {real['exc']} (in {real['where']}), generated constructor: {out[:80]}")
            elif not out.startswith("ok "):
                bad.append(f"real constructed an analyzer, generated constructor: {out[:80]}")
                P.hit("ctor.outcome.ok")
            else:
                P.hit("ctor.outcome.ok")
                an = real["ok"]
                f = dict(t.split("=", 1) for t in out.split()[1:])
                bits = lambda a_: ",".join(C.f2h(v) for v in np.asarray(a_, dtype=np.float64).ravel())
                shp = lambda a_: ",".join(str(d) for d in np.shape(a_))
                if f["iscsd"] != ("1" if an.iscsd else "0"):
                    bad.append(f"iscsd {an.iscsd} vs {f['iscsd']}")
                if type(an.nx) is not int or f["nx"] != str(an.nx):
                    bad.append(f"nx {an.nx!r} vs {f['nx']}")
                if type(an.fs) is not float or f["fs"] != C.f2h(an.fs):
                    bad.append(f"fs {an.fs!r} vs {C.h2f(f['fs'])!r}")
                if type(an.verbose) is not bool or f["verbose"] != ("1" if an.verbose else "0"):
                    bad.append(f"verbose {an.verbose!r} vs {f['verbose']}")
                if (an._plan_cache is None) != (f["pc"] == "n"):
                    bad.append(f"_plan_cache {an._plan_cache!r} vs {f['pc']}")
                if f["dshape"] != shp(an.data) or f["data"] != bits(an.data):
                    bad.append(f"stored data: shape {shp(an.data)} vs {f['dshape']}; elements {np.asarray(an.data).ravel()[:8].tolist()} vs "
                               f"{[C.h2f(h) for h in f['data'].split(',')[:8] if h]}")
                if f["x1"] != shp(an.x1) + "|" + bits(an.x1):
                    bad.append(f"x1: real {np.asarray(an.x1)[:8].tolist()} (shape {shp(an.x1)}) vs generated {f['x1'][:120]}")
                rx2 = (shp(an.x2) + "|" + bits(an.x2)) if hasattr(an, "x2") else "n"
                if f["x2"] != rx2:
                    bad.append(f"x2: real {rx2[:80]} vs generated {f['x2'][:80]}")
                gcfg = [(bytes.fromhex(kv.split("=", 1)[0]).decode(), kv.split("=", 1)[1]) for kv in f["cfg"].split(";") if kv]
                rkeys = [k for k in an.config if k not in CTOR_STEP_KEYS]
                if [k for k, _ in gcfg] != rkeys:
                    bad.append(f"config keys {rkeys} vs generated {[k for k, _ in gcfg]}")
                else:
                    for k, tok in gcfg:
                        if not T.same(tok, an.config[k]):
                            bad.append(f"config[{k!r}] = {an.config[k]!r} ({type(an.config[k]).__name__}) vs generated {tok}")
            if bad:
                P.disagreements.append(dict(desc, mismatch=bad[:4], data=repr(data)[:300]))
                if len(P.disagreements) > 12:
                    return
            elif len([s_ for s_ in P.samples if isinstance(s_, dict) and s_.get("op") == "ctorcall"]) < 2 and case["pattern"] != "none" and kw:
                P.sample(dict(desc, outcome=out[:160]))
    finally:
        logging.disable(logging.NOTSET)


def correspondence(ctx) -> C.Part:
    """(a) Model.heapStep aliasing rules over the generated constructor ops vs np.shares_memory / byte comparison on the real constructor;
       (b) generated Lean attribute table (Float, driver) vs the real SpectrumResult.__getattr__ incl. degenerate (zero) bins"""
    P = C.Part()
    quiet()
    heap_correspondence(ctx, P)
    kheap_correspondence(ctx, P)
    _an.attr_correspondence(ctx, P, DENS + ERRS, ctx.scale(30, 300))
    # generated constructor decisions vs the real constructor; its random stream is a child generator seeded at the END of the existing streams
    ctor_correspondence(ctx, P, np.random.default_rng(int(ctx.rng.integers(0, 2 ** 62))))
    return P


# ---------------------------------------------------------------- oracle / replay
def oracle(ctx, intensive: bool = False, hints: List[Dict[str, Any]] = ()) -> C.Part:
    P = C.Part()
    quiet()
    mult = 4 if intensive else 1
    corpus(ctx, P)
    two_by_two(ctx, P)
    tiny_sizes(ctx, P)
    object_stream(ctx, P, ctx.scale(1, 4) * mult)
    masked_stream(ctx, P, ctx.scale(8, 48) * mult)
    option_sweep(ctx, P, ctx.scale(2, 8) * mult)
    long_stream(ctx, P, intensive)
    synthetic_finite(ctx, P, ctx.scale(400, 4000) * mult)
    n_fin = ctx.scale(4 * len(DEGENERATE), 24 * len(DEGENERATE)) * mult
    n_lay = ctx.scale(160, 1600) * mult
    # interleave so that a time limit cuts both streams evenly
    gi_f = gi_l = 0
    while (gi_f < n_fin or gi_l < n_lay) and len(P.violations) < MAX_VIOL:
        if ctx.time_left() < 20:
            P.notes.append("time budget reached")
            break
        if gi_l < n_lay:
            layout_group(ctx, P, gi_l, full=(gi_l < 4 or ctx.thorough and gi_l % 4 == 0))
            gi_l += 1
        if gi_f < n_fin:
            finite_group(ctx, P, gi_f)
            gi_f += 1
    range_probe(ctx, P)
    return P


def replay(ctx, data) -> C.Part:
    P = C.Part()
    quiet()
    for v in data.get("violations", []):
        r = v.get("replay", {})
        if "case" in r:
            eval_case(P, r["case"], None)
        elif "seq_case" in r:
            eval_seq(P, r["seq_case"], None)
        elif "agreement" in r:
            replay_agreement(P, r["agreement"])
        elif "masked" in r:
            masked_case(P, r["masked"])
        elif "synthetic" in r:
            s = r["synthetic"]
            bins = []
            for b in s["bins"]:
                xy = unhex(b["XY"])
                bins.append({k: (complex(xy[0], xy[1]) if k == "XY" else (int(b[k]) if k == "navg" else C.h2f(b[k]))) for k in b})
            iscsd = s["mode"] == "cross"
            P.cases += len(bins)
            check_finite(P, _an.fake_result(bins, iscsd, float(s["fs"])), {"present": "synthetic", "mode": s["mode"]}, r, "SpectrumResult(replayed bins)")
        elif "two_by_two" in r or "range" in r:
            two_by_two(ctx, P)
            range_probe(ctx, P)
    return P
