"""C09 — cross-spectral quantities satisfy their defining identities and bounds.

Sub-claims (DESIGN §4 C09), all evaluated on the REAL `speckit` through `compute_spectrum` / `lpsd` / `compute_single_bin`:
  1  every coherence value is finite and lies in [0, 1]; |Gxy|^2 <= Gxx*Gyy            (zero / constant channels included)
  2  coherence = 1 for bins averaged over ONE segment and for linearly dependent channels (y = x, y = -3x)
  3  swapping the channels leaves the coherence unchanged, turns Gxy into its conjugate and exchanges Gxx and Gyy
  4  the auto-density of a channel is the same whether it is analysed alone or as a member of a pair
  5  GyyCx + GyyRx = Gyy and GyySx (optimal-subtraction residual) = Gyy*(1 - coh), delayed couplings included (D2)
  6  |ccoh|^2 = coh
Every run also visits the EDGE FREQUENCIES of the analysis (`edge_stream`): the DC bin (f = 0: `compute_single_bin(freq=0.0)`, library plans with
bmin = 0 / 0 < bmin < 1, explicit plans handed in as a callable scheduler), sub-first-bin frequencies, and Nyquist (f = fs/2 and just below), with
records whose DC content is real (non-zero mean / red noise, order = -1 as well as 0..2) and partially coherent, so that a frequency-dependent
scaling of only some of the densities is seen by sub-claims 1, 3, 4, 5; the synthetic results carry f = 0 and f = fs/2 bins too.
Every run also sweeps the OPTIONS (`option_sweep`): each of the 12 (backend in numpy / numba / auto) x (order -1..2) rows of the kernel dispatch, through
a spectrum entry point AND a single-bin entry point (SpectrumAnalyzer.compute / compute_single_bin(L=) / compute_single_bin(fres=), speckit.compute_spectrum /
lpsd / compute_single_bin), with library and user schedulers (fixed-length Welch plan, a plan that returns to a segment length: L1, L2, L1), the overlap
requested as "default" / a float / exactly 0.0 / so high that (1 - olap) * L < 1, Kaiser / hann / callable windows, 2xN / Nx2 / list / non-contiguous
inputs, on records with different offsets, linear and quadratic drifts in the two channels.  [x,y], [y,x], x alone and y alone go through the SAME backend
and order, so sub-claim 4 compares the auto kernel with the cross kernel of one dispatch row.  Added consistency demands on those cases: a repeated
analysis (same analyzer / same input object) is bit-identical and leaves the input untouched; the backends agree within twice the kernels' budget.
`size_stream` probes segment counts, record lengths and grid sizes around every integer constant of the current source and far beyond the generators
(70 001 and 1 100 003 samples, 65 539 segments, 1003 bins), segments placed up to the last block of the record.
This file also holds the helpers shared with C10 and C11 (pair generator, option cycling, tolerances, replay plumbing).
"""
from __future__ import annotations

import logging
import math
import warnings
from typing import Any, Dict, List, Optional, Tuple

import numpy as np

from .. import common as C
from . import _an

PROP = "C09"
# obligations of the properties this one is downstream of are obligations of this check too (vk.runner.collect_obligations)
UPSTREAM = ["C05"]
GEN_REGIONS = ["Attrs", "ResultPurity"]
THEOREMS = {
    "SpecKitV.Lemmas.CauchySchwarz": ["cross_cs_real", "cross_cs_complex", "cross_cs_means", "cross_cs_eq_one_segment",
                                      "cross_cs_eq_dependent", "cross_swap", "cross_swap_modsq"],
    "SpecKitV.Props.AttrsA": ["coh_bounds", "Gxy_sq_le", "coh_one_of_eq", "coh_def", "swap_channels", "conditioned_sum",
                              "residual_identity", "residual_eq_GyyRx", "auto_consistent"],
    # residual_identity' (the form without |.|) is not listed by name: the runner's `#print axioms` parser cannot read a primed name;
    # residual_eq_GyyRx is proved FROM it, so its axiom audit covers it transitively.
    "SpecKitV.Props.C01": ["auto_is_diag"],
    # no method of a result writes in place an array its cache holds (region ResultPurity: buffer effects of every SpectrumResult method, regenerated
    # each run) — the quantities of this property are read off that cache, in any order, possibly after plot() / get_measurement() / to_dataframe()
    "SpecKitV.Props.ResultPurityGen": ["gen_result_methods_write_no_cached_array", "gen_result_methods_pure", "gen_session_pure", "cRun_clean_of_clean"],
}
CONTRACTS = ["the per-bin numbers (XX, YY, XY) handed to SpectrumResult are the segment means of |X_k|^2, |Y_k|^2, X_k conj(Y_k) of ONE set of "
             "segment DFTs (C01: kernels = Ref); the Cauchy-Schwarz hypothesis `CS d` of the attribute theorems is discharged from that by cross_cs_means"]
ASSUMPTIONS = ["theorems are over the reals for the Lean translation of SpectrumResult.__getattr__; rounding is covered by the stated tolerances "
               "(forward bounds scaled by the data), not by theorem",
               "coherence = 1 for dependent channels is demanded only where XX and YY are above the rounding floor of the Goertzel recurrence "
               "(bins below it are counted as unstable, never as failures)",
               "records with |x| < 1e-100 or > 1e100 (underflow/overflow of XX*YY) are outside the generated domain"]
RULE = ("cases = (pair kind: independent / mixed kinds / identical / scaled y=-3x / delayed / weak / strong / zero-x / zero-y / const-x / const-y / "
        "zero-zero / const-const / zero-const, N, fs, order -1..2, scheduler (4), window kaiser(psll)/hann, backend auto/numpy, 2xN or Nx2 layout) "
        "through compute_spectrum|lpsd and compute_single_bin (random frequency, L incl. L = N), each analysed as [x,y], [y,x], x alone, y alone; "
        "plus synthetic SpectrumResults over 12 decades of magnitude with degenerate bins; distinct by (entry point, pair kind, order, scheduler, "
        "window, backend); non-trivial = both channels non-zero and at least one bin averaged over >= 2 segments (single bin: K >= 2); "
        "edge-frequency stream on every run: DC-carrying partially coherent pairs (small mean / large mean / red noise / y=-3x with mean) x order "
        "(-1 on every other case) x {library scheduler with bmin = 0 or in (0,1); explicit plan (callable scheduler) with bins at f = 0 (K >= 2), "
        "below the first bin, mid-band, just below Nyquist and at fs/2; compute_single_bin at freq = 0 and at fs/2 / near it / below fs/N}; "
        "synthetic SpectrumResults with f = 0 and f = fs/2 bins; the number of DC bins with real power and coherence in (0.25, 1) is measured; "
        "option sweep on every run: (backend numpy|numba|auto) x (order -1..2) x (spectrum entry | single-bin entry) all 24 rows per round, 6 rounds "
        "(round 0: olap = 0.0 and L | N, round 1: K = 1), cycling 7 entry points, 6 schedulers (4 library, Welch callable, revisiting callable), 4 overlap "
        "forms, 5 windows (2 callables), 4 layouts with seed-dependent rotations; records = offset + linear + quadratic drift (different per channel) + "
        "delayed partially coherent noise | y = -3x | independent; each row analysed as [x,y], [y,x], x, y, then repeated (same analyzer, other entry "
        "point in between, new analyzer on the same object, second module call) and compared across backends; K = 1 / K = 2 / K >= 3 and odd / even L "
        "per (backend, order) are measured; size stream: K, N, nf at c-1, c, c+1, c+17, 2c+3 for every constant c mined from core.py / analysis.py, "
        "N = 70001 on all 12 dispatch pairs, 65537, 131075, 1100003, nf = 1003")

U = _an.U
ORDERS = [-1, 0, 1, 2]
WINS: List[Tuple[str, Optional[float]]] = [("kaiser", 60.0), ("hann", None), ("kaiser", 200.0), ("kaiser", 123.0)]
PAIR_KINDS = ["indep", "mixed", "identical", "scaled", "delayed", "weak", "strong", "zero-x", "zero-y", "const-x", "const-y",
              "zero-zero", "const-const", "zero-const"]
DC_KINDS = ["dc-partial", "dc-offset", "dc-red", "dc-scaled"]     # records whose DC bin carries real power (edge_stream)
DEP_KINDS = ("identical", "scaled", "dc-scaled", "tr-scaled")
LIB_BMIN0 = ["ltf", "vectorized_ltf", "new_ltf"]                   # schedulers that honour bmin < 1 (lpsd_plan forces bmin = 1)
NAMES = ["Gxx", "Gyy", "Gxy", "Gyx", "coh", "ccoh", "Hxy", "Hyx", "GyyCx", "GyyRx", "GyySx"]
MAX_VIOL = 8
MARGIN: Dict[str, float] = {}


# ---------------------------------------------------------------- shared helpers (also imported by C10, C11)
def quiet() -> None:
    for name in ("speckit", "speckit.analysis", "speckit.core", "speckit.schedulers", "root"):
        logging.getLogger(name).setLevel(logging.CRITICAL + 10)
    logging.getLogger().setLevel(logging.CRITICAL + 10)


class blas_threads:
    """best effort, execution environment only: pin the OpenBLAS pools loaded in this process to `n` threads while the oracle runs and restore them
    afterwards.  On an oversubscribed machine every NumPy-kernel matrix product above OpenBLAS's threading threshold (K * L > ~8000) costs ~0.1 s of
    thread spinning instead of ~30 us, which would decide how many cases fit into the time budget; the numbers stay within the same budgets."""
    def __init__(self, n: int = 1):
        self.n, self.saved = int(n), []

    def __enter__(self):
        try:
            import ctypes
            paths = sorted({ln.split()[-1] for ln in open("/proc/self/maps") if "openblas" in ln and ".so" in ln})
            for path in paths:
                lib = ctypes.CDLL(path)
                for pre in ("scipy_openblas_", "openblas_"):
                    for suf in ("64_", ""):
                        get, put = getattr(lib, pre + "get_num_threads" + suf, None), getattr(lib, pre + "set_num_threads" + suf, None)
                        if get is not None and put is not None:
                            self.saved.append((put, int(get())))
                            put(self.n)
        except Exception:
            pass
        return self

    def __exit__(self, *a):
        for put, old in self.saved:
            try:
                put(old)
            except Exception:
                pass
        return False


def within(key: str, val: float, tol: float) -> bool:
    """val <= tol (False for NaN), remembering the worst used fraction of the allowance per kind of check"""
    if tol > 0 and val == val and tol != math.inf:
        MARGIN[key] = max(MARGIN.get(key, 0.0), val / tol)
    return bool(val <= tol)


def margins_note(prefix: str) -> str:
    return prefix + " worst used fraction of tolerance: " + ", ".join(f"{k}={v:.2g}" for k, v in sorted(MARGIN.items()))


def add_violation(P: C.Part, what: str, signature: Dict[str, Any], replay: Dict[str, Any]) -> None:
    if len(P.violations) < MAX_VIOL:
        P.violations.append(C.Violation(what=what, signature=signature, replay=replay))


def cyc_options(rng: np.random.Generator, N: int, i: int) -> Dict[str, Any]:
    """random valid options; order, scheduler and window are cycled by the case index so that every combination is visited"""
    o = _an.options(rng, N)
    o["order"] = ORDERS[i % 4]
    o["scheduler"] = _an.SCHEDS[(i // 4) % 4]
    win, psll = WINS[(i // 16 + i) % 4]
    o["win"] = win
    o.pop("psll", None)
    if psll is not None:
        o["psll"] = psll
    o["backend"] = "numpy" if i % 5 == 3 else "auto"
    return o


def pair(rng: np.random.Generator, N: int, kind: str) -> Tuple[np.ndarray, np.ndarray]:
    kinds = ["noise", "offset", "drift", "red", "tone"]
    rk = lambda: str(rng.choice(kinds))  # noqa: E731
    s = float(10 ** rng.uniform(-3, 3))
    if kind == "indep":
        return _an.record(rng, N, "noise"), s * _an.record(rng, N, "noise")
    if kind == "mixed":
        return _an.record(rng, N, rk()), s * _an.record(rng, N, rk())
    if kind == "identical":
        x = _an.record(rng, N, rk())
        return x, x.copy()
    if kind == "scaled":
        x = _an.record(rng, N, rk())
        return x, -3.0 * x
    if kind == "delayed":
        x = rng.standard_normal(N)
        return x, 0.7 * np.roll(x, int(rng.choice([1, 3, 7]))) + 0.3 * rng.standard_normal(N)
    if kind == "weak":
        x = _an.record(rng, N, "noise")
        return x, 0.05 * x + rng.standard_normal(N)
    if kind == "strong":
        x = _an.record(rng, N, rk())
        return x, s * (x + 0.01 * rng.standard_normal(N))
    if kind == "zero-x":
        return np.zeros(N), _an.record(rng, N, rk())
    if kind == "zero-y":
        return _an.record(rng, N, rk()), np.zeros(N)
    if kind == "const-x":
        return _an.record(rng, N, "const"), _an.record(rng, N, rk())
    if kind == "const-y":
        return _an.record(rng, N, rk()), _an.record(rng, N, "const")
    if kind == "zero-zero":
        return np.zeros(N), np.zeros(N)
    if kind == "const-const":
        return _an.record(rng, N, "const"), _an.record(rng, N, "const")
    if kind == "zero-const":
        return np.zeros(N), _an.record(rng, N, "const")
    raise ValueError(kind)


def pair_dc(rng: np.random.Generator, N: int, kind: str) -> Tuple[np.ndarray, np.ndarray]:
    """two channels whose DC bin carries real power when only the window is applied (order = -1), with a fluctuating part that is
    partially coherent (target coherence 0.35..0.9, i.e. well inside (0.25, 1)) at every frequency"""
    s = float(10 ** rng.uniform(-3, 3))
    c = float(rng.uniform(0.35, 0.9))
    g, h = math.sqrt(c), math.sqrt(1.0 - c)
    n1, n2 = rng.standard_normal(N), rng.standard_normal(N)
    sg = lambda: float(rng.choice([-1.0, 1.0]))  # noqa: E731
    if kind == "dc-partial":      # mean comparable to the scatter of a windowed segment sum: the DC bin itself is partially coherent
        m1, m2 = sg() * float(rng.uniform(0.3, 2.0)) / math.sqrt(N), sg() * float(rng.uniform(0.3, 2.0)) / math.sqrt(N)
        return m1 + n1, s * (m2 + g * n1 + h * n2)
    if kind == "dc-offset":       # large means (DC bin dominated by them), slow drift on x
        m1, m2 = sg() * float(rng.uniform(0.5, 5.0)), sg() * float(rng.uniform(0.5, 5.0))
        t = np.arange(N) / max(1, N)
        return m1 + 0.3 * np.sin(2 * np.pi * float(rng.uniform(0.2, 1.5)) * t) + n1, s * (m2 + g * n1 + h * n2)
    if kind == "dc-red":          # random walks: power concentrated at the lowest frequencies, partially coherent there
        w1, w2 = np.cumsum(n1), np.cumsum(n2)
        return w1, s * (g * w1 + h * w2)
    if kind == "dc-scaled":       # linearly dependent channels with a mean
        x = sg() * float(rng.uniform(0.5, 5.0)) + n1
        return x, -3.0 * x
    raise ValueError(kind)


def gen_plan(rng: np.random.Generator, N: int, fs: float) -> Dict[str, Any]:
    """an explicit plan (ascending f, non-increasing L, evenly spread starts as the library schedulers produce them) whose bins sit on the
    edges of the band: f = 0 averaged over >= 2 segments, below the first Fourier bin, mid-band, just below Nyquist, fs/2"""
    f = [0.0, 0.3 * fs / N, fs / N, float(rng.uniform(0.01, 0.2)) * fs, float(rng.uniform(0.2, 0.45)) * fs, 0.5 * fs * (1.0 - 1.0 / N), 0.5 * fs]
    lo, hi = max(4, N // 16), max(5, N // 2)
    Ls = sorted((int(v) for v in rng.integers(lo, hi + 1, size=len(f))), reverse=True)
    D = []
    for L in Ls:
        kmax = int(min(8, N - L + 1))
        K = int(rng.integers(2, kmax + 1)) if kmax >= 2 else 1
        d = np.unique(np.floor(np.arange(K) * ((N - L) / max(1, K - 1)) + 0.5).astype(np.int64)) if K > 1 else np.array([0], dtype=np.int64)
        D.append([int(v) for v in d])
    return {"f": [float(v) for v in f], "L": Ls, "D": D}


def stack(x: np.ndarray, y: np.ndarray, layout: str) -> np.ndarray:
    return np.vstack([x, y]) if layout == "2xN" else np.ascontiguousarray(np.vstack([x, y]).T)


def explicit_plan(spec: Dict[str, Any]):
    """a callable scheduler (the analyzer accepts one) that returns the plan written down in `spec` = {"f": [...], "L": [...], "D": [[...], ...]}
    (JSON-serialisable, so that it travels in a replay)"""
    def explicit(**kw):
        fs = float(kw["fs"])
        f = np.asarray(spec["f"], dtype=float)
        L = np.asarray(spec["L"], dtype=np.int64)
        D = [np.asarray(d, dtype=np.int64) for d in spec["D"]]
        K = np.array([len(d) for d in D], dtype=np.int64)
        r = fs / L
        O = np.array([0.0 if len(d) < 2 else max(0.0, 1.0 - float(d[1] - d[0]) / float(l)) for d, l in zip(D, L)])
        return {"f": f, "r": r, "b": f / r, "L": L, "K": K, "navg": K.copy(), "D": D, "O": O}
    return explicit


def spectrum(data: np.ndarray, fs: float, opts: Dict[str, Any], entry: str = "compute_spectrum"):
    import speckit
    o = dict(opts)
    spec = o.pop("plan", None)
    if spec is not None:            # explicit plan: opts["scheduler"] is only the label "explicit"
        o["scheduler"] = explicit_plan(spec)
    with warnings.catch_warnings(), np.errstate(all="ignore"):
        warnings.simplefilter("ignore")
        return getattr(speckit, entry)(data, fs, **o)


def single_bin(data: np.ndarray, fs: float, freq: float, L: int, opts: Dict[str, Any]):
    import speckit
    keep = {k: opts[k] for k in ("order", "win", "psll", "olap", "backend") if k in opts}
    with warnings.catch_warnings(), np.errstate(all="ignore"):
        warnings.simplefilter("ignore")
        return speckit.compute_single_bin(data, fs, float(freq), L=int(L), **keep)


class WinCache:
    """the window the analyzer must use (built by _an.window, independently of speckit), with its sums"""
    def __init__(self, opts: Dict[str, Any]):
        self.win, self.psll, self.c = opts["win"], opts.get("psll"), {}

    def get(self, L: int) -> Tuple[np.ndarray, float, float]:
        if L not in self.c:
            w = _an.window(self.win, L, self.psll)
            self.c[L] = (w, float(np.abs(w).sum()), float(np.sum(w * w)))
        return self.c[L]


def budgets(res, x: np.ndarray, y: np.ndarray, fs: float, opts: Dict[str, Any], wc: Optional[WinCache] = None) -> Dict[str, np.ndarray]:
    """per-bin forward rounding budgets of (XX, YY, |XY|, M2) (same model as C01/_an.bin_tol; a, b = sup over segments of sum|x w|
    bounded by max|x| * sum|w|), the spectral scale 2/(fs*sum w^2) and the segment count"""
    wc = wc or WinCache(opts)
    nf = len(res.f)
    out = {k: np.zeros(nf) for k in ("tXX", "tYY", "tXY", "tM2", "c", "K", "S2")}
    ax, ay = float(np.abs(x).max(initial=0.0)), float(np.abs(y).max(initial=0.0))
    for j in range(nf):
        L = int(res.L[j])
        w, s1, s2 = wc.get(L)
        om = 2 * np.pi * float(res.f[j]) / fs
        t = _an.bin_tol(L, om, ax * s1 + 1e-300, ay * s1 + 1e-300, int(opts["order"]))
        out["tXX"][j], out["tYY"][j], out["tXY"][j], out["tM2"][j] = t
        out["c"][j] = 2.0 / (fs * s2) if s2 > 0 else 0.0
        out["S2"][j] = s2
        out["K"][j] = len(res.D[j])
    return out


def case_replay(x, y, fs, opts, layout, entry, single, kind) -> Dict[str, Any]:
    return {"x": np.asarray(x).tolist(), "y": None if y is None else np.asarray(y).tolist(), "fs": fs, "opts": dict(opts), "layout": layout,
            "entry": entry, "single": single, "kind": kind}


def all_finite(a) -> bool:
    a = np.asarray(a)
    return bool(np.all(np.isfinite(a.real)) and np.all(np.isfinite(a.imag))) if np.iscomplexobj(a) else bool(np.all(np.isfinite(a)))


# ---------------------------------------------------------------- the predicate
def check_results(P: C.Part, r, rs, rx, ry, x, y, fs, opts, kind: str, where: str, rp: Dict[str, Any], wc: Optional[WinCache] = None) -> None:
    """r = [x,y], rs = [y,x], rx = x alone, ry = y alone (same options, same entry point); `wc` = the window the analyses were asked to use
    when `opts["win"]` is only a label of it (callable windows of the option sweep)"""
    order = int(opts["order"])
    nf = len(r.f)
    B = budgets(r, x, y, fs, opts, wc)
    K = B["K"]
    epsK = 32.0 * (K + 4.0) * U
    XX, YY, XY = np.asarray(r.XX), np.asarray(r.YY), np.asarray(r.XY)
    with warnings.catch_warnings(), np.errstate(all="ignore"):
        warnings.simplefilter("ignore")
        A = {n: np.asarray(getattr(r, n)) for n in NAMES}
        S = {n: np.asarray(getattr(rs, n)) for n in ("Gxx", "Gyy", "Gxy", "coh")}
        gx, gy = np.asarray(rx.Gxx), np.asarray(ry.Gxx)
    sig = {"kind": kind, "order": order, "where": where}

    def bad(check: str, j: int, msg: str) -> None:
        add_violation(P, f"{where} {kind} order={order} sched={opts.get('scheduler')} win={opts.get('win')} bin {j} (f={float(r.f[j]):.6g}, "
                         f"L={int(r.L[j])}, K={int(K[j])}): {msg}", dict(sig, check=check), dict(rp, check=check, bin=int(j)))

    P.cases += 6 * nf
    # structure: the four analyses share one plan
    for nm, o in (("swapped", rs), ("x alone", rx), ("y alone", ry)):
        if len(o.f) != nf or not np.array_equal(np.asarray(o.f), np.asarray(r.f)) or not np.array_equal(np.asarray(o.L), np.asarray(r.L)) \
                or any(not np.array_equal(np.asarray(o.D[j]), np.asarray(r.D[j])) for j in range(nf)):
            bad("same-plan", 0, f"the analysis of '{nm}' uses a different plan (f/L/D differ) although N, fs and the options are the same")
            return
    # 1. finiteness, range, Cauchy-Schwarz
    for n in NAMES:
        if not all_finite(A[n]):
            j = int(np.flatnonzero(~np.isfinite(np.abs(A[n])))[0])
            bad("finite", j, f"{n} = {A[n][j]!r} is not finite (XX={XX[j]!r}, YY={YY[j]!r}, XY={XY[j]!r})")
            return
    if not all_finite(S["coh"]):
        j = int(np.flatnonzero(~np.isfinite(S["coh"]))[0])
        bad("finite", j, f"coherence of the swapped pair = {S['coh'][j]!r} is not finite")
        return
    coh = A["coh"]
    for j in range(nf):
        if not (coh[j] >= 0.0 and within("coh<=1", coh[j] - 1.0, epsK[j])):
            bad("coh-range", j, f"coherence {coh[j]!r} outside [0, 1] (allowance {epsK[j]:.3g})")
        g2 = abs(A["Gxy"][j]) ** 2
        if not g2 <= A["Gxx"][j] * A["Gyy"][j] * (1 + epsK[j]) + 1e-300:
            bad("cauchy-schwarz", j, f"|Gxy|^2 = {g2!r} > Gxx*Gyy = {A['Gxx'][j] * A['Gyy'][j]!r}")
    # 2. coherence one: single segment; dependent channels
    dep = kind in DEP_KINDS
    for j in range(nf):
        pos = XX[j] > 0 and YY[j] > 0 and XX[j] * YY[j] > 1e-280
        if K[j] == 1 and pos:
            P.hit("K=1 bins")
            if not within("coh=1 (K=1)", abs(coh[j] - 1.0), 1e-9):
                bad("coh-one-segment", j, f"one segment but coherence = {coh[j]!r} (XX={XX[j]!r}, YY={YY[j]!r}, XY={XY[j]!r})")
        if dep and pos:
            rr = B["tXX"][j] / XX[j] + B["tYY"][j] / YY[j] + 2 * B["tXY"][j] / math.sqrt(XX[j] * YY[j])
            if rr > 0.05:
                P.unstable += 1       # channel power at the rounding floor of the recurrence: coherence carries no information
            elif not within("coh=1 (dependent)", abs(coh[j] - 1.0), 4 * rr + epsK[j]):
                bad("coh-one-dependent", j, f"y is a multiple of x but coherence = {coh[j]!r} (tolerance {4 * rr + epsK[j]:.3g})")
    # 3. swap
    for j in range(nf):
        c = B["c"][j]
        if not within("swap Gxx<->Gyy", abs(S["Gxx"][j] - A["Gyy"][j]), 2 * c * B["tYY"][j]) or \
                not within("swap Gxx<->Gyy", abs(S["Gyy"][j] - A["Gxx"][j]), 2 * c * B["tXX"][j]):
            bad("swap-auto", j, f"[y,x] gives (Gxx, Gyy) = ({S['Gxx'][j]!r}, {S['Gyy'][j]!r}) but [x,y] gives (Gyy, Gxx) = ({A['Gyy'][j]!r}, {A['Gxx'][j]!r})")
        if not within("swap Gxy->conj", abs(S["Gxy"][j] - np.conj(A["Gxy"][j])), 2 * c * B["tXY"][j]):
            bad("swap-cross", j, f"[y,x] gives Gxy = {S['Gxy'][j]!r}, expected conj of {A['Gxy'][j]!r} (tol {2 * c * B['tXY'][j]:.3g})")
        if not abs(A["Gyx"][j] - np.conj(A["Gxy"][j])) <= 4 * U * abs(A["Gxy"][j]):
            bad("Gyx-conj", j, f"Gyx = {A['Gyx'][j]!r} is not the conjugate of Gxy = {A['Gxy'][j]!r}")
        if XX[j] > 0 and YY[j] > 0:
            rr = B["tXX"][j] / XX[j] + B["tYY"][j] / YY[j] + 2 * B["tXY"][j] / math.sqrt(XX[j] * YY[j])
            if rr > 0.05:
                P.unstable += 1
            elif not within("swap coh", abs(S["coh"][j] - coh[j]), 4 * rr + epsK[j] + 1e-12 * coh[j]):
                bad("swap-coh", j, f"coherence {coh[j]!r} for [x,y] but {S['coh'][j]!r} for [y,x] (tol {4 * rr + epsK[j]:.3g})")
        elif not (S["coh"][j] == coh[j] == 0.0):
            bad("swap-coh", j, f"a channel has zero power: coherence must be 0 in both orders, got {coh[j]!r} / {S['coh'][j]!r}")
    # 4. auto consistency
    for j in range(nf):
        c = B["c"][j]
        if not within("auto = pair", abs(gx[j] - A["Gxx"][j]), 2 * c * B["tXX"][j]):
            bad("auto-consistent", j, f"Gxx = {A['Gxx'][j]!r} in the pair but {gx[j]!r} for x alone (tol {2 * c * B['tXX'][j]:.3g})")
        if not within("auto = pair", abs(gy[j] - A["Gyy"][j]), 2 * c * B["tYY"][j]):
            bad("auto-consistent", j, f"Gyy = {A['Gyy'][j]!r} in the pair but {gy[j]!r} for y alone (tol {2 * c * B['tYY'][j]:.3g})")
    # 5./6. attribute identities
    check_identities(P, A, sig, rp, where, f"{kind} order={order}")
    # measured coverage of the band edges: which bins sat at DC / Nyquist, and whether they carried real, partially coherent power
    fj = np.asarray(r.f, dtype=float)
    for j in np.flatnonzero((fj == 0.0) | (fj >= 0.5 * fs * (1 - 1e-9)) | (fj * len(x) < fs * (1 - 1e-9))):
        edge = "DC" if fj[j] == 0.0 else ("Nyquist" if fj[j] >= 0.5 * fs * (1 - 1e-9) else "below-first-bin")
        P.hit(f"edge-bin {edge}")
        real = XX[j] > 100 * B["tXX"][j] and YY[j] > 100 * B["tYY"][j]
        if real:
            P.hit(f"edge-bin {edge} with power")
            if K[j] >= 2 and 0.25 < coh[j] < 0.999:
                P.hit(f"edge-bin {edge} with power, K>=2, 0.25<coh<0.999")
                P.nontrivial.add(("edge", edge, where, str(opts.get("scheduler")), order))
    if kind not in ("zero-x", "zero-y", "zero-zero", "zero-const") and bool(np.any(K >= 2)):
        P.nontrivial.add((where, kind, order, str(opts.get("scheduler")), str(opts.get("win")), str(opts.get("backend"))))
    P.hit(f"{where}:{kind}")
    P.hit(f"order={order}")


def check_identities(P: C.Part, A: Dict[str, np.ndarray], sig, rp, where: str, label: str) -> None:
    coh, Gyy = A["coh"], A["Gyy"]
    for j in range(len(coh)):
        def bad(check: str, msg: str) -> None:
            add_violation(P, f"{where} {label} bin {j}: {msg}", dict(sig, check=check), dict(rp, check=check, bin=int(j)))
        if not within("Cx+Rx=Gyy", abs(A["GyyCx"][j] + A["GyyRx"][j] - Gyy[j]), 1e-12 * Gyy[j] + 1e-300):
            bad("conditioned-sum", f"GyyCx + GyyRx = {A['GyyCx'][j] + A['GyyRx'][j]!r} but Gyy = {Gyy[j]!r}")
        want = Gyy[j] * (1.0 - coh[j])
        if not within("Sx=Gyy(1-coh)", abs(A["GyySx"][j] - want), 1e-9 * Gyy[j] + 1e-300):
            bad("residual-identity", f"GyySx = {A['GyySx'][j]!r} but Gyy*(1-coh) = {want!r} (Gyy={Gyy[j]!r}, coh={coh[j]!r}, Gxy={A['Gxy'][j]!r})")
        if not within("Rx=Gyy(1-coh)", abs(A["GyyRx"][j] - want), 1e-12 * Gyy[j] + 1e-300):
            bad("residual-spectrum", f"GyyRx = {A['GyyRx'][j]!r} but Gyy*(1-coh) = {want!r}")
        if not within("|ccoh|^2=coh", abs(abs(A["ccoh"][j]) ** 2 - coh[j]), 1e-12 * coh[j] + 1e-300):
            bad("ccoh", f"|ccoh|^2 = {abs(A['ccoh'][j]) ** 2!r} but coh = {coh[j]!r}")
        if not abs(A["Hyx"][j] - np.conj(A["Hxy"][j])) <= 4 * U * abs(A["Hxy"][j]):
            bad("Hyx-conj", f"Hyx = {A['Hyx'][j]!r} is not the conjugate of Hxy = {A['Hxy'][j]!r}")


def run_case(P: C.Part, x, y, fs, opts, layout: str, entry: str, single, kind: str) -> None:
    """analyse [x,y], [y,x], x, y with one entry point and evaluate the predicate"""
    rp = case_replay(x, y, fs, opts, layout, entry, single, kind)
    where = "single_bin" if single else entry

    def go(data):
        if single:
            return single_bin(data, fs, single["freq"], single["L"], opts)
        return spectrum(data, fs, opts, entry)
    try:
        r = go(stack(x, y, layout))
    except Exception as ex:  # an option set the planner rejects is C02's business, not a C09 case
        P.hit("rejected:" + type(ex).__name__)
        return
    try:
        other = "Nx2" if layout == "2xN" else "2xN"
        rs, rx, ry = go(stack(y, x, other)), go(np.asarray(x)), go(np.asarray(y))
    except Exception as ex:
        add_violation(P, f"{where} {kind}: [x,y] is analysed but the swapped pair or a single channel raises {ex!r}",
                      {"kind": kind, "check": "raises", "where": where}, dict(rp, check="raises"))
        return
    check_results(P, r, rs, rx, ry, np.asarray(x, dtype=float), np.asarray(y, dtype=float), fs, opts, kind, where, rp)


def fake_result_at(bins: List[Dict[str, Any]], fs: float, f: List[float]):
    """like _an.fake_result (a real two-channel SpectrumResult built from chosen per-bin numbers) but on the frequency axis `f`"""
    from speckit.analysis import SpectrumResult
    n = len(bins)
    K = np.array([int(b["navg"]) for b in bins], dtype=np.int64)
    d = {"f": np.asarray(f, dtype=float), "r": np.full(n, 0.1), "b": np.ones(n), "L": np.full(n, 10, dtype=np.int64), "K": K, "navg": K.copy(),
         "D": [np.arange(int(b["navg"]), dtype=np.int64) for b in bins], "O": np.zeros(n), "compute_t": np.zeros(n),
         "XY": np.array([b["XY"] for b in bins], dtype=complex)}
    for k in ("XX", "YY", "S12", "S2", "M2"):
        d[k] = np.array([b[k] for b in bins], dtype=float)
    return SpectrumResult(d, {"Jdes": n}, True, fs)


def edge_axis(n: int, fs: float) -> List[float]:
    """ascending frequency axis of n >= 4 bins that starts at DC and ends at Nyquist"""
    mid = np.linspace(0.0, 0.5 * fs, n)[1:-1]
    return [0.0] + [float(v) for v in mid[:-1]] + [0.5 * fs * (1 - 2.0 ** -40), 0.5 * fs]


def check_fake(P: C.Part, bins: List[Dict[str, Any]], fs: float, f: Optional[List[float]] = None) -> None:
    """identities 5/6 and the bounds on a synthetic SpectrumResult (per-bin numbers satisfying Cauchy-Schwarz, many decades, degenerate bins);
    `f` = the frequency axis (default: _an.fake_result's 0.1..1.0, strictly inside the band)"""
    res = _an.fake_result(bins, True, fs) if f is None else fake_result_at(bins, fs, f)
    with warnings.catch_warnings(), np.errstate(all="ignore"):
        warnings.simplefilter("ignore")
        A = {n: np.asarray(getattr(res, n)) for n in NAMES}
    rp = {"fake": [dict(b, XY=[complex(b["XY"]).real, complex(b["XY"]).imag]) for b in bins], "fs": fs}
    if f is not None:
        rp["f"] = [float(v) for v in f]
        P.hit("synthetic: axis with f=0 and f=fs/2")
    sig = {"kind": "synthetic", "where": "SpectrumResult"}
    P.cases += len(bins)
    for n in NAMES:
        if not all_finite(A[n]):
            j = int(np.flatnonzero(~np.isfinite(np.abs(A[n])))[0])
            add_violation(P, f"synthetic bin {bins[j]}: {n} = {A[n][j]!r} is not finite", dict(sig, check="finite"), dict(rp, check="finite", bin=j))
            return
    for j, b in enumerate(bins):
        eps = 32.0 * 5 * U
        if not (A["coh"][j] >= 0 and A["coh"][j] <= 1 + eps):
            add_violation(P, f"synthetic bin {b}: coherence {A['coh'][j]!r} outside [0,1]", dict(sig, check="coh-range"), dict(rp, check="coh-range", bin=j))
        if not abs(A["Gxy"][j]) ** 2 <= A["Gxx"][j] * A["Gyy"][j] * (1 + eps) + 1e-300:
            add_violation(P, f"synthetic bin {b}: |Gxy|^2 > Gxx*Gyy", dict(sig, check="cauchy-schwarz"), dict(rp, check="cauchy-schwarz", bin=j))
        zero = b["XX"] == 0 or b["YY"] == 0
        P.hit("synthetic:degenerate" if zero or b["S2"] == 0 else "synthetic:regular")
        if not zero:
            P.nontrivial.add(("synthetic", int(math.log10(b["XX"])), int(math.log10(b["YY"])), round(float(A["coh"][j]), 1)))
    check_identities(P, A, sig, rp, "SpectrumResult", "synthetic")


def corpus_d2() -> Tuple[np.ndarray, np.ndarray]:
    """design-phase defect D2: x white, y = 0.7*roll(x,3) + 0.3*noise, N = 4000 (GyySx was off by > 10x)"""
    r0 = np.random.default_rng(0)
    x = r0.standard_normal(4000)
    return x, 0.7 * np.roll(x, 3) + 0.3 * r0.standard_normal(4000)


def edge_stream(P: C.Part, ctx, rng: np.random.Generator, n: int) -> None:
    """the band edges, on every run: DC-carrying partially coherent pairs analysed (a) by a library scheduler asked for bmin = 0 (first half of
    the cases) or 0 < bmin < 1, (b) on an explicit plan with bins at f = 0 (K >= 2), below the first bin, just below Nyquist and at fs/2,
    (c) by compute_single_bin at freq = 0 and at a second edge frequency; order = -1 on every other case (DC power survives), 0..2 on the rest;
    plus synthetic results whose axis runs from f = 0 to fs/2. Index scheme (mixed radix, so that the factors are crossed, not correlated):
    order <- i % 2, pair kind <- (i // 2) % 4, bmin = 0 <- (i // 8) % 2 == 0, scheduler <- (i // 2 + i // 8) % 3."""
    sizes = [64, 257, 1000, 2048]
    for i in range(n):
        if len(P.violations) >= MAX_VIOL or ctx.time_left() < (600 if ctx.thorough else 25):
            break
        kind = DC_KINDS[(i // 2) % len(DC_KINDS)]
        N = int(sizes[(i // 2 + i // 8) % len(sizes)]) if i < 16 else int(rng.choice(sizes))
        fs = float(rng.choice([1.0, 2.0, 1000.0, float(rng.uniform(0.1, 1e4))]))
        opts = cyc_options(rng, N, i)
        opts["order"] = -1 if i % 2 == 0 else [0, 1, 2][(i // 2) % 3]
        opts["backend"] = "numpy" if (i // 2) % 3 == 2 else "auto"
        xx, yy = pair_dc(rng, N, kind)
        layout = "2xN" if i % 3 else "Nx2"
        # (a) library scheduler, plan reaching below the first Fourier bin
        oa = dict(opts, scheduler=LIB_BMIN0[(i // 2 + i // 8) % 3], bmin=0.0 if (i // 8) % 2 == 0 else float(rng.choice([0.5, float(rng.uniform(0.05, 0.95))])))
        run_case(P, xx, yy, fs, oa, layout, "lpsd" if i % 5 == 4 else "compute_spectrum", None, kind)
        # (b) explicit plan
        ob = dict(opts, scheduler="explicit", plan=gen_plan(rng, N, fs))
        run_case(P, xx, yy, fs, ob, layout, "compute_spectrum", None, kind)
        # (c) single bin: DC (K >= 2 except every fourth case: L = N), then one more edge frequency
        Ldc = N if i % 4 == 3 else int(rng.choice([max(4, N // 2), max(4, N // 3), max(4, N // 8), int(rng.integers(4, max(5, N // 2)))]))
        run_case(P, xx, yy, fs, opts, layout, "compute_spectrum", {"freq": 0.0, "L": Ldc}, kind)
        L2 = int(rng.choice([max(4, N // 2), max(4, N // 8), int(rng.integers(4, N + 1))]))
        f2 = [0.5 * fs, 0.25 * fs / N, 0.5 * fs * (1 - 1e-6), fs / L2][(i // 2) % 4 if i % 2 == 0 else (i // 2 + 1) % 4]
        run_case(P, xx, yy, fs, opts, layout, "compute_spectrum", {"freq": float(f2), "L": L2}, kind)
        # synthetic result on an axis from DC to Nyquist (first and last bin regular, partially coherent)
        if i % 2 == 0:
            check_fake(P, [_an.gen_bin(rng, True, edge=(k % 4 == 2)) for k in range(24)], fs, edge_axis(24, fs))
        if i < 1:
            P.sample({"op": "oracle-edge", "kind": kind, "N": N, "fs": fs, "opts": {k: v for k, v in ob.items() if k != "plan"}, "plan_f": ob["plan"]["f"]})
    want = "edge-bin DC with power, K>=2, 0.25<coh<0.999"
    P.notes.append(f"edge stream: {P.histogram.get(want, 0)} DC bins with real power, K >= 2 and coherence in (0.25, 0.999); "
                   f"{P.histogram.get('edge-bin DC with power', 0)} DC bins with real power; {P.histogram.get('edge-bin Nyquist with power', 0)} at Nyquist")


# ---------------------------------------------------------------- Family O: ONE option generator over dispatch x entry point x scheduler x overlap x window x layout
# Every run visits every (backend, order) pair of the kernel dispatch, through a spectrum entry point AND through a single-bin entry point (each has
# its own 18-way dispatch), with records that carry an offset, a linear and a quadratic drift (different in the two channels), a delayed partially
# coherent coupling (XY has a phase) or exact dependence y = -3x; the remaining options are cycled by the case index with per-run rotations drawn from
# the seed.  Each case is analysed as [x,y], [y,x], x alone, y alone BY THE SAME backend and order (so the "alone vs pair" clause compares the auto
# kernel with the cross kernel of one dispatch row) and goes through the predicates of `check_results`; on top of that
#   (iii) repeat:  second call on the same analyzer, another entry point in between, a new analyzer on the SAME input object, a second module-level
#                  call on the same object: results bit-identical (same code path, same numbers in), input object untouched;
#   (iv)  backends: numpy / numba / auto on identical options give the same plan and densities within TWICE the kernels' forward budget
#                  (each is within one budget of the exact value: _an.bin_tol, the model of C01) — same form as the swap predicates above.
SW_BACKENDS = ["numpy", "numba", "auto"]
SW_SPEC_ENTRIES = ["an.compute", "compute_spectrum", "lpsd"]
SW_BIN_ENTRIES = ["an.single:L", "mod.single:fres", "mod.single:L", "an.single:fres"]
SW_SCHEDS = ["welch", "lpsd", "revisit", "ltf", "vectorized_ltf", "new_ltf"]
SW_WINS: List[Tuple[str, Optional[float]]] = [("kaiser", 60.0), ("hann", None), ("cb:welch", None), ("kaiser", 140.0), ("cb:asym", None)]
SW_OLAPS = ["default", "float", "zero", "high"]
SW_LAYOUTS = ["2xN", "Nx2", "list", "view"]
SW_N = [240, 315, 257, 360, 189, 420]          # composite (L | N happens), odd, prime, even
SW_KINDS = ["tr-partial", "tr-partial", "tr-scaled", "tr-partial", "tr-indep"]
SIZE_FILES = ["speckit/core.py", "speckit/analysis.py"]


def cb_welch(L):
    """a user-supplied window (callable): parabolic, strictly positive"""
    n = np.arange(int(L), dtype=float)
    return 1.0 - ((n - 0.5 * (L - 1)) / (0.5 * (L + 1))) ** 2


def cb_asym(L):
    """a user-supplied window that is NOT symmetric"""
    n = np.arange(int(L), dtype=float)
    return np.sin(np.pi * (n + 0.5) / L) ** 2 * (0.7 + 0.6 * n / L)


WIN_FUNCS = {"cb:welch": cb_welch, "cb:asym": cb_asym}


def plan_dict(fs: float, f, L, D) -> Dict[str, Any]:
    f = np.asarray(f, dtype=float)
    L = np.asarray(L, dtype=np.int64)
    D = [np.asarray(d, dtype=np.int64) for d in D]
    K = np.array([len(d) for d in D], dtype=np.int64)
    r = fs / L
    O = np.array([0.0 if len(d) < 2 else max(0.0, 1.0 - float(d[1] - d[0]) / float(l)) for d, l in zip(D, L)])
    return {"f": f, "r": r, "b": f / r, "L": L, "K": K, "navg": K.copy(), "D": D, "O": O}


def hop_starts(N: int, L: int, olap: float) -> np.ndarray:
    hop = max(1, int(math.floor((1.0 - float(olap)) * L)))      # (1 - olap) * L < 1: hop of one sample
    return np.arange(0, N - L + 1, hop, dtype=np.int64)


def make_scheduler(label: str):
    """user callables as the analyzer accepts them (they receive N, fs, olap, bmin, Lmin, Jdes, Kdes), written down as a label so that a case is
    JSON-serialisable:  welch:L0[:nf]  one fixed segment length, hop from the requested overlap;  revisit:L1:L2  lengths L1, L2, L1, L2, L1 (a length
    comes back after a different one: per-L caches are hit);  kseg:L:K:L2  one bin averaged over exactly K segments spread over the record;
    marks:L,..:m,..  segments at the start, at the end and around the given sample positions"""
    t = label.split(":")
    if t[0] == "welch":
        L0, nf = int(t[1]), (int(t[2]) if len(t) > 2 else 0)

        def welch(**kw):
            N, fs = int(kw["N"]), float(kw["fs"])
            L = max(2, min(L0, N))
            d = hop_starts(N, L, kw["olap"])
            b = np.linspace(0.5, 0.5 * L - 0.25, nf) if nf else np.unique([v for v in (1.0, 2.0, 3.5, L / 8 + 0.3, L // 4, 0.5 * L - 1.0) if 0 < v < 0.5 * L])
            return plan_dict(fs, b * fs / L, [L] * len(b), [d] * len(b))
        return welch
    if t[0] == "revisit":
        L1, L2 = int(t[1]), int(t[2])

        def revisit(**kw):
            N, fs = int(kw["N"]), float(kw["fs"])
            Ls = [max(2, min(v, N)) for v in (L1, L2, L1, L2, L1)]
            f = [fs * (0.04 + 0.085 * j + 0.3 / l) for j, l in enumerate(Ls)]
            return plan_dict(fs, f, Ls, [hop_starts(N, l, kw["olap"]) for l in Ls])
        return revisit
    if t[0] == "kseg":
        L, K, L2 = int(t[1]), int(t[2]), int(t[3])

        def kseg(**kw):
            N, fs = int(kw["N"]), float(kw["fs"])
            d = np.floor(np.linspace(0.0, float(N - L), K)).astype(np.int64) if K > 1 else np.array([N - L], dtype=np.int64)
            return plan_dict(fs, [0.137 * fs, 0.31 * fs], [L, L2], [d, np.array([0, N - L2], dtype=np.int64)])
        return kseg
    if t[0] == "marks":
        Ls, marks = [int(v) for v in t[1].split(",")], [int(v) for v in t[2].split(",") if v]

        def marked(**kw):
            N, fs = int(kw["N"]), float(kw["fs"])
            LL, D = [], []
            for l in Ls:
                l = max(2, min(l, N))
                s = {0, N - l}
                for m in marks:
                    s |= {min(max(v, 0), N - l) for v in (m - l // 2, m - l, m, m - 1, m + 1 - l)}
                LL.append(l)
                D.append(np.array(sorted(s), dtype=np.int64))
            f = [fs * (0.11 + 0.3 * j / max(1, len(LL) - 1)) for j in range(len(LL))]
            return plan_dict(fs, f, LL, D)
        return marked
    raise ValueError(label)


def trend_pair(rec: Dict[str, Any]) -> Tuple[np.ndarray, np.ndarray]:
    """rec = {"rs": seed, "N": n, "kind": ...}: two channels with DIFFERENT offsets, linear and quadratic drifts and a slow oscillation, unit noise,
    y coupled to a delayed copy of x's noise (partial coherence with a phase) and of a different scale; regenerated from the recipe (replays stay small)"""
    g = np.random.default_rng(int(rec["rs"]))
    N, kind = int(rec["N"]), str(rec["kind"])
    amp = float(rec.get("amp", 30.0))       # largest trend coefficient in units of the noise (the rounding budgets grow with max|x|^2)
    u = np.arange(N) / max(1, N - 1)

    def trend():
        c = [float(g.choice([-1.0, 1.0]) * g.uniform(1.0, amp)) for _ in range(3)]
        return c[0] + c[1] * u + c[2] * u * u + min(1.0, amp / 10.0) * float(g.uniform(0.5, 3.0)) * np.sin(2 * np.pi * float(g.uniform(0.3, 2.5)) * u + float(g.uniform(0, 6)))
    n1, n2 = g.standard_normal(N), g.standard_normal(N)
    c = float(g.uniform(0.3, 0.9))
    s = float(10 ** g.uniform(-2, 2))
    d = int(g.choice([1, 2, 5]))
    x = trend() + n1
    if kind == "tr-scaled":
        return x, -3.0 * x
    if kind == "tr-indep":
        return x, s * (trend() + n2)
    return x, s * (trend() + math.sqrt(c) * np.roll(n1, d) + math.sqrt(1.0 - c) * n2)


def lay(x: np.ndarray, y: Optional[np.ndarray], layout: str):
    """the input object handed to the library: 1-D array / list for one channel; 2xN, Nx2, list of two lists, non-contiguous 2xN view for a pair"""
    if y is None:
        return [float(v) for v in x] if layout == "list" else np.array(x, dtype=float)
    if layout == "2xN":
        return np.vstack([x, y])
    if layout == "Nx2":
        return np.ascontiguousarray(np.vstack([x, y]).T)
    if layout == "list":
        return [[float(v) for v in x], [float(v) for v in y]]
    if layout == "view":
        big = np.full((4, len(x)), 7.25)
        big[0], big[2] = x, y
        return big[::2]
    raise ValueError(layout)


def snapshot(data) -> bytes:
    return np.asarray(data, dtype=float).tobytes()


def sw_kwargs(o: Dict[str, Any], single) -> Dict[str, Any]:
    """the keyword arguments for the library from the JSON-able option set `o` (labels -> callables)"""
    keys = ("order", "backend", "olap") if single else ("order", "backend", "olap", "Jdes", "Kdes", "bmin", "Lmin")
    kw = {k: o[k] for k in keys if k in o}
    kw["win"] = WIN_FUNCS.get(o["win"], o["win"])
    if o.get("psll") is not None:
        kw["psll"] = o["psll"]
    if not single:
        s = o["scheduler"]
        kw["scheduler"] = s if s in _an.SCHEDS else make_scheduler(s)
    return kw


def sw_call(entry: str, data, fs: float, kw: Dict[str, Any], single, an=None):
    import speckit
    from speckit.analysis import SpectrumAnalyzer
    with warnings.catch_warnings(), np.errstate(all="ignore"):
        warnings.simplefilter("ignore")
        if entry in ("compute_spectrum", "lpsd"):
            return getattr(speckit, entry)(data, fs, **kw)
        if entry == "an.compute":
            return (an if an is not None else SpectrumAnalyzer(data, fs, **kw)).compute()
        arg = {"L": int(single["L"])} if entry.endswith(":L") else {"fres": float(single["fres"])}
        if entry.startswith("mod."):
            return speckit.compute_single_bin(data, fs, float(single["freq"]), **arg, **kw)
        return (an if an is not None else SpectrumAnalyzer(data, fs, **kw)).compute_single_bin(float(single["freq"]), **arg)


RAW = ("f", "L", "XX", "YY", "XY", "S2")


def raw_diff(a, b) -> Optional[str]:
    """name of the first field that is not bit-identical (plan and the numbers every C09 quantity is formed from), or None"""
    for n in RAW:
        va, vb = np.asarray(getattr(a, n)), np.asarray(getattr(b, n))
        if va.shape != vb.shape or not np.array_equal(va, vb, equal_nan=True):
            return n
    if len(a.D) != len(b.D) or any(not np.array_equal(np.asarray(p), np.asarray(q)) for p, q in zip(a.D, b.D)):
        return "D"
    return None


def same_plan(a, b) -> bool:
    return len(a.f) == len(b.f) and np.array_equal(np.asarray(a.f), np.asarray(b.f)) and np.array_equal(np.asarray(a.L), np.asarray(b.L)) \
        and all(np.array_equal(np.asarray(p), np.asarray(q)) for p, q in zip(a.D, b.D))


def sweep_spec(g: np.random.Generator, k: int, rot: List[int], order: int, single: bool, force: str = "") -> Dict[str, Any]:
    """the k-th option set of a run (k = round * 4 + order index); `rot` = the run's rotations (drawn from the seed), so that over the seeds every
    value of a factor meets every value of the others.  `force`: "tile" = olap exactly 0.0 and a segment length that divides N (the segments tile the
    record: Welch plan with L = N/m, single bin with L = N/2, K = 2); "one" = every / one bin averaged over a single segment (L = N)"""
    q = 1 if single else 0
    N = int(SW_N[(k + rot[0] + 3 * q) % len(SW_N)])
    if force == "tile":
        N = int([240, 360, 420, 180][(k + rot[0]) % 4])
    fs = float([1.0, 2.0, 1000.0, round(float(g.uniform(0.1, 1e4)), 3)][(k // 2 + rot[1] + q) % 4])
    win, psll = SW_WINS[(k + k // 5 + rot[2] + 2 * q) % len(SW_WINS)]
    form = "zero" if force == "tile" else SW_OLAPS[(k + k // 4 + rot[3] + q) % 4]
    olap: Any = {"default": "default", "float": float(g.choice([0.3, 0.5, 0.66, round(float(g.uniform(0.05, 0.9)), 4)])), "zero": 0.0,
                 "high": float(g.choice([0.97, 0.98, 0.99]))}[form]
    if form == "high" and not force:        # (1 - olap) * L < 1 for L < 33..100: hop of one sample / thousands of requested averages; short record keeps K * L small
        N = int([96, 121, 150][(k + rot[0]) % 3])
    kind = SW_KINDS[(k + rot[5] + 2 * q) % len(SW_KINDS)]
    opts: Dict[str, Any] = {"order": int(order), "olap": olap, "win": win}
    if psll is not None:
        opts["psll"] = psll
    spec: Dict[str, Any] = {"rec": {"rs": int(g.integers(0, 2 ** 31 - 1)), "N": N, "kind": kind}, "fs": fs, "layout": SW_LAYOUTS[(k // 2 + k + rot[4] + q) % 4],
                            "olap_form": form}
    if single:
        L = int([N, N // 2, (N // 3) | 1, 2 * (N // 10), int(g.integers(4, N + 1))][(k + k // 4 + rot[7]) % 5])
        L = N // 2 if force == "tile" else (N if force == "one" else L)
        # half of the frequencies on a Fourier bin of the segment, half between bins
        freq = fs * int(g.integers(1, max(2, L // 2))) / L if (k + rot[6]) % 2 else fs * float(g.uniform(0.02, 0.48))
        spec.update(entry=SW_BIN_ENTRIES[(k + k // 4 + rot[6]) % 4], single={"freq": float(freq), "L": L, "fres": fs / L})
        opts["scheduler"] = "-"
    else:
        sched = SW_SCHEDS[(k + rot[8]) % len(SW_SCHEDS)]
        if force == "tile":
            sched = "welch:%d" % (N // [2, 3, 4, 5][(k + rot[9]) % 4])
        elif force == "one":
            sched = "revisit:%d:%d" % ([(N // 6) | 1, N // 4][(k + rot[9]) % 2], N) if k % 2 else "welch:%d" % N
        elif sched == "welch":      # L0 = N: K = 1 in every bin; N // 2 + 1: one or two segments; divisors of N: the record is tiled exactly when olap = 0
            sched = "welch:%d" % [N, N // 2 + 1, N // 3, (N // 5) | 1, N // 4, N // 2][(k // 2 + rot[9]) % 6]
        elif sched == "revisit":
            sched = "revisit:%d:%d" % ([(N // 6) | 1, N // 4, 2 * (N // 14)][(k + rot[9]) % 3], [N, N // 2, (N // 3) | 1][(k // 3 + rot[9]) % 3])
        opts.update(scheduler=sched, Jdes=int(g.integers(5, 13)), Kdes=int(g.choice([1, 2, 5, 20])), bmin=float(g.choice([1.0, 1.0, 2.0, 3.5])),
                    Lmin=int(g.choice([1, 1, 8])) if sched in _an.SCHEDS else 1)
        spec.update(entry=SW_SPEC_ENTRIES[(k + k // 3 + rot[6]) % 3], single=None)
    spec["opts"] = opts
    return spec


def bit_check(P: C.Part, name: str, a, b, sig, rp, what: str) -> None:
    P.cases += 1
    fld = raw_diff(a, b)
    if fld is not None:
        add_violation(P, f"{what}: field {fld} is not bit-identical ({name}); same input values, same options, same code path",
                      dict(sig, check="repeat-" + name), dict(rp, check="repeat-" + name))


def check_repeat(P: C.Part, spec: Dict[str, Any], be: str, first, x: np.ndarray, y: np.ndarray) -> None:
    """(iii): the pair and one channel alone, analysed again — on the same analyzer, after a different entry point on that analyzer, by a new analyzer
    on the SAME input object, by a second module-level call on the same object; the caller's object must hold the same bytes afterwards"""
    from speckit.analysis import SpectrumAnalyzer
    o = dict(spec["opts"], backend=be)
    fs, entry, single = float(spec["fs"]), spec["entry"], spec.get("single")
    kw = sw_kwargs(o, single)
    rp = {"sweep": dict(spec, opts=o), "repeat": True}
    sig = {"kind": spec["rec"]["kind"], "order": int(o["order"]), "where": entry, "backend": be}
    what = f"{entry} backend={be} order={o['order']} sched={o.get('scheduler')} olap={o['olap']!r} win={o['win']} layout={spec['layout']}"
    for chan, data, ref in (("pair", lay(x, y, spec["layout"]), first), ("x alone", lay(x, None, spec["layout"]), None)):
        keep = snapshot(data)
        try:
            if entry.startswith("an."):
                with warnings.catch_warnings():
                    warnings.simplefilter("ignore")
                    an = SpectrumAnalyzer(data, fs, **kw)
                r1 = sw_call(entry, data, fs, kw, single, an)
                r2 = sw_call(entry, data, fs, kw, single, an)
                # another entry point of the same analyzer in between (a single bin after a spectrum, a spectrum after a single bin)
                if single:
                    an.compute_single_bin(float(single["freq"]) * 0.5, L=max(2, int(single["L"]) // 2))
                else:
                    an.compute_single_bin(0.21 * fs, L=max(2, len(x) // 3))
                r3 = sw_call(entry, data, fs, kw, single, an)
                r4 = sw_call(entry, data, fs, kw, single, None)          # new analyzer, same input object
                runs = [("second call on the same analyzer", r2), ("call after another entry point on the same analyzer", r3),
                        ("new analyzer on the same input object", r4)]
            else:
                r1 = sw_call(entry, data, fs, kw, single)
                runs = [("second call on the same input object", sw_call(entry, data, fs, kw, single))]
        except Exception as ex:
            add_violation(P, f"{what} ({chan}): analysed once, but a repeated analysis raises {ex!r}", dict(sig, check="repeat-raises"), dict(rp, check="repeat-raises"))
            continue
        P.hit("repeat:" + ("analyzer" if entry.startswith("an.") else "module"))
        for nm, rr in runs:
            bit_check(P, nm, r1, rr, sig, rp, f"{what} ({chan})")
        if ref is not None:
            bit_check(P, "fresh copy of the data", ref, r1, sig, rp, f"{what} ({chan})")
        P.cases += 1
        if snapshot(data) != keep:
            add_violation(P, f"{what} ({chan}): the caller's input object was modified by the analysis", dict(sig, check="input-untouched"),
                          dict(rp, check="input-untouched"))


def check_backends(P: C.Part, res: Dict[str, Any], x, y, fs: float, o: Dict[str, Any], wc: WinCache, spec: Dict[str, Any]) -> None:
    """(iv): the backends on identical options.  Each kernel is within (tXX, tYY, tXY) of the exact segment means (C01's forward model, _an.bin_tol),
    so two of them differ by at most twice that; coherence as in the swap predicate (first-order propagation 2*rr, allowance 4*rr, bins whose power
    sits at the rounding floor are `unstable`)."""
    names = [b for b in SW_BACKENDS if b in res]
    if len(names) < 2:
        return
    a = res[names[0]]
    B = budgets(a, x, y, fs, o, wc)
    epsK = 32.0 * (B["K"] + 4.0) * U
    with warnings.catch_warnings(), np.errstate(all="ignore"):
        warnings.simplefilter("ignore")
        A = {n: np.asarray(getattr(a, n)) for n in ("Gxx", "Gyy", "Gxy", "coh")}
    XX, YY = np.asarray(a.XX), np.asarray(a.YY)
    for nb in names[1:]:
        b = res[nb]
        sig = {"kind": spec["rec"]["kind"], "order": int(o["order"]), "where": spec["entry"], "backend": f"{names[0]}-vs-{nb}"}
        rp = {"sweep": dict(spec, opts=dict(o)), "backends": [names[0], nb]}
        lab = f"{spec['entry']} order={o['order']} sched={o.get('scheduler')} win={o['win']} olap={o['olap']!r}: backends {names[0]} and {nb}"
        P.cases += len(a.f)
        if not same_plan(a, b):
            add_violation(P, f"{lab} use different plans (f/L/D differ)", dict(sig, check="backend-plan"), dict(rp, check="backend-plan"))
            continue
        with warnings.catch_warnings(), np.errstate(all="ignore"):
            warnings.simplefilter("ignore")
            Bv = {n: np.asarray(getattr(b, n)) for n in ("Gxx", "Gyy", "Gxy", "coh")}
        for j in range(len(a.f)):
            c = B["c"][j]
            for n, t in (("Gxx", "tXX"), ("Gyy", "tYY"), ("Gxy", "tXY")):
                dv = abs(Bv[n][j] - A[n][j])
                if not within("backends " + n, dv, 2 * c * B[t][j]):
                    add_violation(P, f"{lab} disagree in bin {j} (f={float(a.f[j]):.6g}, L={int(a.L[j])}, K={int(B['K'][j])}): {n} = {A[n][j]!r} vs "
                                     f"{Bv[n][j]!r} (tol {2 * c * B[t][j]:.3g})", dict(sig, check="backend-" + n), dict(rp, check="backend-" + n, bin=int(j)))
            if XX[j] > 0 and YY[j] > 0:
                rr = B["tXX"][j] / XX[j] + B["tYY"][j] / YY[j] + 2 * B["tXY"][j] / math.sqrt(XX[j] * YY[j])
                if rr > 0.05:
                    P.unstable += 1
                elif not within("backends coh", abs(Bv["coh"][j] - A["coh"][j]), 4 * rr + epsK[j] + 1e-12 * A["coh"][j]):
                    add_violation(P, f"{lab} disagree in bin {j}: coherence {A['coh'][j]!r} vs {Bv['coh'][j]!r} (tol {4 * rr + epsK[j]:.3g})",
                                  dict(sig, check="backend-coh"), dict(rp, check="backend-coh", bin=int(j)))


def sweep_case(P: C.Part, spec: Dict[str, Any], backends: List[str], repeat_on: Optional[str] = None, tag: str = "sweep") -> None:
    """one option set on each of `backends`: [x,y], [y,x], x, y through the entry point -> check_results; then (iv) and, on `repeat_on`, (iii)"""
    x, y = trend_pair(spec["rec"])
    fs, layout, entry, single, kind = float(spec["fs"]), spec["layout"], spec["entry"], spec.get("single"), spec["rec"]["kind"]
    other = {"2xN": "Nx2", "Nx2": "2xN", "list": "view", "view": "list"}[layout]
    o0 = spec["opts"]
    wc = WinCache({"win": WIN_FUNCS.get(o0["win"], o0["win"]), "psll": o0.get("psll")})
    res: Dict[str, Any] = {}
    raised: Dict[str, str] = {}
    for be in backends:
        o = dict(o0, backend=be)
        kw = sw_kwargs(o, single)
        rp = {"sweep": dict(spec, opts=o)}
        try:
            r = sw_call(entry, lay(x, y, layout), fs, kw, single)
        except Exception as ex:
            raised[be] = repr(ex)
            continue
        try:
            rs, rx, ry = (sw_call(entry, lay(y, x, other), fs, kw, single), sw_call(entry, lay(x, None, layout), fs, kw, single),
                          sw_call(entry, lay(y, None, other), fs, kw, single))
        except Exception as ex:
            add_violation(P, f"{entry} {kind} backend={be} order={o['order']}: [x,y] is analysed but the swapped pair or a single channel raises {ex!r}",
                          {"kind": kind, "check": "raises", "where": entry, "backend": be}, dict(rp, check="raises"))
            continue
        res[be] = r
        check_results(P, r, rs, rx, ry, x, y, fs, o, kind, entry, rp, wc)
        # measured coverage of the dispatch row: segment counts and segment-length parities that went through it
        row = f"{tag} {be}/order={o['order']}/{'bin' if single else 'spectrum'}"
        P.hit(row)
        if tag != "sweep":
            continue
        Ks = np.array([len(d) for d in r.D])
        for nm, hitit in (("K=1", bool(np.any(Ks == 1))), ("K=2", bool(np.any(Ks == 2))), ("K>=3", bool(np.any(Ks >= 3))),
                          ("odd L", bool(np.any(np.asarray(r.L) % 2 == 1))), ("even L", bool(np.any(np.asarray(r.L) % 2 == 0)))):
            if hitit:
                P.hit(f"{tag} {be}/order={o['order']}: {nm}")
        P.hit(f"{tag} entry {entry}")
        P.hit(f"{tag} scheduler {str(o0.get('scheduler')).split(':')[0]}")
        P.hit(f"{tag} olap {spec.get('olap_form')}")
        P.hit(f"{tag} window {o0['win']}")
        P.hit(f"{tag} layout {layout}")
    if raised and res:        # the option set is valid (a backend analysed it): another backend must not refuse it
        be = sorted(raised)[0]
        add_violation(P, f"{entry} {kind} order={o0['order']} sched={o0.get('scheduler')}: backend {be} raises {raised[be]} but {sorted(res)[0]} analyses the same case",
                      {"kind": kind, "check": "backend-raises", "where": entry, "backend": be}, {"sweep": dict(spec, opts=dict(o0, backend=be)), "check": "backend-raises"})
    elif raised:
        P.hit(f"{tag} rejected:" + raised[sorted(raised)[0]].split("(")[0])
        return
    check_backends(P, res, x, y, fs, dict(o0, backend="/".join(res)), wc, spec)
    for be in (list(res) if repeat_on == "all" else [repeat_on]):
        if be in res:
            check_repeat(P, spec, be, res[be], x, y)


def option_sweep(P: C.Part, ctx, g: np.random.Generator, rounds: int) -> None:
    rot = [int(v) for v in g.integers(0, 60, size=10)]
    reserve = 600 if ctx.thorough else 25
    k = 0
    for rnd in range(rounds):
        for oi, order in enumerate(ORDERS):
            for single in (False, True):
                if len(P.violations) >= MAX_VIOL or ctx.time_left() < reserve:
                    P.notes.append("option sweep cut short (violation cap / time budget)")
                    return
                # rounds 0 and 1 pin what must not be left to the cycling: exact tilings at olap = 0.0 (K = 2 in the single bin) and K = 1 bins
                spec = sweep_spec(g, k, rot, order, single, force={0: "tile", 1: "one"}.get(rnd, ""))
                sweep_case(P, spec, SW_BACKENDS, repeat_on="all")       # (iii) on every dispatch row
                if k < 1 and not single:
                    P.sample({"op": "oracle-sweep", "spec": spec})
            k += 1
    rows = [f"sweep {b}/order={o}/{m}" for b in SW_BACKENDS for o in ORDERS for m in ("spectrum", "bin")]
    cover = {nm: sum(1 for b in SW_BACKENDS for o in ORDERS if P.histogram.get(f"sweep {b}/order={o}: {nm}", 0) > 0) for nm in ("K=1", "K=2", "K>=3", "odd L", "even L")}
    P.notes.append(f"option sweep: {rounds} rounds; dispatch rows (backend x order x spectrum|bin) visited {sum(1 for r in rows if P.histogram.get(r, 0) > 0)}/24, "
                   f"min visits {min(P.histogram.get(r, 0) for r in rows)}; (backend, order) pairs out of 12 that saw " + ", ".join(f"{k_}: {v}" for k_, v in cover.items()))


# ---------------------------------------------------------------- Family S: sizes around the constants of the CURRENT source and well beyond the generators
def size_stream(P: C.Part, ctx, g: np.random.Generator, full: bool) -> None:
    """segment counts K, record lengths N and grid sizes nf at c-1, c, c+1, c+17, 2c+3 for every integer constant c mined from core.py / analysis.py
    (chunk sizes of the NumPy kernels, the CUDA heuristic, defaults), plus records of 70 001 (all 12 dispatch pairs), 65 537 / 131 075 and 1 100 003
    samples whose segments sit at the start, around 2^16 / 2^20 / every mined constant, and in the LAST block; same predicates (alone vs pair on one
    dispatch row, swap, bounds, identities) and the backend comparison.  `full` (thorough tier / an obligation broke): every size on every order."""
    consts = [int(c) for c in C.mined_sizes(SIZE_FILES)]
    rot = int(g.integers(0, 12))
    reserve = 600 if ctx.thorough else 25
    pairs = [(b, o) for o in ORDERS for b in SW_BACKENDS]
    idx = 0

    def run(spec: Dict[str, Any], backends: List[str], tag: str) -> bool:
        if len(P.violations) >= MAX_VIOL or ctx.time_left() < reserve:
            return False
        sweep_case(P, spec, backends, repeat_on=None, tag=tag)
        return True

    def base(N: int, order: int, kind: str = "tr-partial") -> Dict[str, Any]:
        win, psll = SW_WINS[(idx + rot) % 2]           # kaiser(60) / hann: cheap to rebuild at any length
        o: Dict[str, Any] = {"order": int(order), "olap": [0.5, 0.0, "default"][(idx + rot) % 3], "win": win, "Jdes": 6, "Kdes": 2, "bmin": 1.0, "Lmin": 1}
        if psll is not None:
            o["psll"] = psll
        return {"rec": {"rs": int(g.integers(0, 2 ** 31 - 1)), "N": int(N), "kind": kind, "amp": 3.0}, "fs": float([1.0, 1000.0, 2.0][(idx + rot) % 3]),
                "layout": SW_LAYOUTS[(idx + rot) % 2], "olap_form": "size", "entry": "an.compute", "single": None, "opts": o}

    # (a) segment counts around every constant: one bin averaged over exactly K segments spread over the whole record (ascending starts, so that a
    #     block of segments processed with the wrong offset reads other samples), second bin K = 2; numpy AND numba (the chunking is per backend)
    kcap = 140000 if full else 70000
    for c in consts:
        for K in (c - 1, c, c + 1, c + 17, 2 * c + 3):
            if K < 1 or K > kcap:
                P.hit("size K skipped (cap)")
                continue
            for order in (ORDERS if full else [ORDERS[(idx + rot) % 4]]):
                N = 1009 if K < 2000 else 4001
                spec = base(N, order)
                spec["opts"].update(scheduler=f"kseg:{[7, 12][idx % 2]}:{K}:{[12, 9][idx % 2]}")
                if not run(spec, ["numpy", "numba"] + (["auto"] if c <= 1000 or full else []), "sizeK"):
                    return
                P.hit(f"size K around {c}")
                idx += 1
    # (b) record lengths: around every constant (library scheduler on the short ones, marked plan beyond), one dispatch pair each, rotating
    marks_all = sorted(set(consts) | {1 << 16, 1 << 20})
    sizesN = sorted({n for c in consts for n in (c - 1, c, c + 1, c + 17, 2 * c + 3) if n >= 16} | {65537, 131075})
    for N in sizesN:
        be, order = pairs[(idx + rot) % 12]
        spec = base(N, order)
        marks = [m for m in marks_all if 16 < m < N]
        if idx % 3 == 0 and N <= 4000:
            spec["opts"].update(scheduler=_an.SCHEDS[(idx // 3) % 4])
        elif idx % 3 == 1:
            L = min(N, max(2, ([N // 3, 4097, 255] if N > 9000 else [N // 3, N // 2, N])[(idx // 3) % 3] | ((idx // 3) % 2)))
            spec.update(entry=SW_BIN_ENTRIES[idx % 4], single={"freq": spec["fs"] * 0.173, "L": int(L), "fres": spec["fs"] / L})
            spec["opts"]["scheduler"] = "-"
        else:
            spec["opts"].update(scheduler="marks:%s:%s" % (",".join(str(v) for v in (N, min(N, 4097), min(N // 2, 1024), 255, 64)), ",".join(str(m) for m in marks[-4:])))
        if not run(spec, [be] if not full else SW_BACKENDS, "sizeN"):
            return
        P.hit("size N around a mined constant" if N < 65537 else "size N > 2^16")
        idx += 1
    # (c) well beyond every generator: 70 001 samples on all 12 dispatch pairs (marked plan / single bin alternating)
    for j, (be, order) in enumerate(pairs):
        N = 70001
        spec = base(N, order, "tr-scaled" if j % 6 == 5 else "tr-partial")
        if j % 2:
            L = [4097, 8192, 1023, 70001][(j // 2 + rot) % 4]
            spec.update(entry=SW_BIN_ENTRIES[(j // 2) % 4], single={"freq": spec["fs"] * 0.2173, "L": L, "fres": spec["fs"] / L})
            spec["opts"]["scheduler"] = "-"
        else:
            spec["opts"].update(scheduler="marks:70001,8193,1024,255:65536,32768,16384")
        if not run(spec, [be], "size70001"):
            return
        idx += 1
    # (d) grid size: more bins than any constant in the source (Welch grid), one dispatch pair
    be, order = pairs[(idx + rot) % 12]
    nfs = [2 * max([c for c in consts if c <= 1000] or [500]) + 3] + ([c + 1 for c in consts if 100 <= c <= 1000] if full else [])
    for nf in nfs:
        spec = base(600, order)
        spec["opts"].update(scheduler=f"welch:64:{nf}")
        if not run(spec, [be], "sizeNF"):
            return
        P.hit("size nf beyond the constants")
        idx += 1
    # (e) 1 100 003 samples (> 2^20): one dispatch pair per run (all orders on numba and numpy when `full`)
    for j, (be, order) in enumerate(pairs if full else [pairs[(idx + rot) % 12]]):
        spec = base(1100003, order)
        spec["opts"].update(win="hann", scheduler="marks:1048577,65537,4096,255:1048576,65536")
        spec["opts"].pop("psll", None)
        if not run(spec, [be], "size1100003"):
            return
        P.hit("size N > 2^20")
        idx += 1
    P.notes.append(f"size stream: constants mined from the current source {consts}; {idx} size cases"
                   f" ({'every order' if full else 'one order / dispatch pair per size, rotating with the seed'})")


# ---------------------------------------------------------------- correspondence / oracle / replay
def correspondence(ctx) -> C.Part:
    """generated Lean attribute table (Float, driver) vs the real SpectrumResult.__getattr__ for the attributes C09 talks about"""
    P = C.Part()
    _an.attr_correspondence(ctx, P, NAMES, ctx.scale(40, 400))
    return P


def oracle(ctx, intensive: bool = False, hints: List[Dict[str, Any]] = ()) -> C.Part:
    with blas_threads(1):
        return oracle_body(ctx, intensive, hints)


def oracle_body(ctx, intensive: bool = False, hints: List[Dict[str, Any]] = ()) -> C.Part:
    P = C.Part()
    quiet()
    MARGIN.clear()
    rng = ctx.rng
    # corpus first: D2 (delayed coupling) for every order, both entry points
    x, y = corpus_d2()
    for order in ORDERS:
        o = {"order": order, "olap": 0.5, "Jdes": 30, "Kdes": 10, "scheduler": _an.SCHEDS[order % 4], "win": "kaiser", "psll": 100.0}
        run_case(P, x, y, 2.0, o, "2xN", "compute_spectrum", None, "delayed")
    run_case(P, x, y, 2.0, {"order": 0, "olap": 0.5, "win": "hann"}, "Nx2", "compute_spectrum", {"freq": 0.3, "L": 200}, "delayed")
    # hints from a broken correspondence: re-evaluate the identities on the disagreeing bins through the real attribute code
    hb = [h["bin"] for h in hints if isinstance(h, dict) and h.get("mode") == "cross" and isinstance(h.get("bin"), dict)]
    if hb:
        check_fake(P, [dict(b, XY=complex(b["XY"])) for b in hb[:50]], float([h for h in hints if "fs" in h][0]["fs"]))
    # band edges (DC / below the first bin / Nyquist) on every run, from a child generator so that the main stream below is undisturbed
    edge_stream(P, ctx, rng.spawn(1)[0], ctx.scale(16, 64) * (4 if intensive else 1))
    # Family O (every dispatch row x cycled entry points / schedulers / overlap forms / windows / layouts, repeats, backend comparison) and
    # Family S (sizes around the constants of the current source and well beyond the generators), each from its own child generator
    option_sweep(P, ctx, rng.spawn(1)[0], ctx.scale(6, 24) * (4 if intensive else 1))
    size_stream(P, ctx, rng.spawn(1)[0], bool(intensive or ctx.thorough))
    n = ctx.scale(196, 2100) * (4 if intensive else 1)
    sizes = [16, 64, 257, 1000, 2048] if not ctx.thorough else [8, 16, 64, 100, 257, 1000, 2048, 4000, 10007]
    for i in range(n):
        low = ctx.time_left() < (600 if ctx.thorough else 25)      # thorough: leave the runner well inside its 20 minutes
        if low or len(P.violations) >= MAX_VIOL:
            P.notes.append("time budget reached" if low else "violation cap reached")
            break
        kind = PAIR_KINDS[i % len(PAIR_KINDS)]
        N = int(rng.choice(sizes))
        fs = float(rng.choice([1.0, 2.0, 1000.0, float(rng.uniform(0.1, 1e4))]))
        opts = cyc_options(rng, N, i // len(PAIR_KINDS) + i)
        xx, yy = pair(rng, N, kind)
        layout = "2xN" if i % 3 else "Nx2"
        rot = i // len(PAIR_KINDS) + i
        entry = "lpsd" if rot % 7 == 6 else "compute_spectrum"
        run_case(P, xx, yy, fs, opts, layout, entry, None, kind)
        if rot % 2 == 0:
            L = int(rng.choice([N, max(2, N // 2), int(rng.integers(4, N + 1)), int(rng.integers(4, max(5, N // 8)))]))
            single = {"freq": float(rng.uniform(0.0, 0.5) * fs) if i % 10 else float(fs * int(rng.integers(1, max(2, L // 2))) / L), "L": L}
            run_case(P, xx, yy, fs, opts, layout, "compute_spectrum", single, kind)
        if i % 4 == 0:
            check_fake(P, [_an.gen_bin(rng, True, edge=(k % 4 == 3)) for k in range(24)], fs)
        if i < 2:
            P.sample({"op": "oracle", "kind": kind, "N": N, "fs": fs, "opts": opts, "layout": layout})
    P.notes.append(margins_note("C09"))
    return P


def replay(ctx, data) -> C.Part:
    with blas_threads(1):
        return replay_body(ctx, data)


def replay_body(ctx, data) -> C.Part:
    P = C.Part()
    quiet()
    for v in data.get("violations", []):
        rp = v["replay"]
        if "fake" in rp:
            check_fake(P, [dict(b, XY=complex(b["XY"][0], b["XY"][1])) for b in rp["fake"]], float(rp["fs"]), rp.get("f"))
        elif "sweep" in rp:
            spec = rp["sweep"]
            bes = [b for b in (rp.get("backends") or str(spec["opts"].get("backend", "auto")).split("/")) if b in SW_BACKENDS] or ["auto"]
            sweep_case(P, spec, bes, repeat_on=bes[0] if rp.get("repeat") else None, tag="replay")
        else:
            run_case(P, np.array(rp["x"], dtype=float), np.array(rp["y"], dtype=float), float(rp["fs"]), rp["opts"], rp["layout"], rp["entry"],
                     rp["single"], rp["kind"])
    return P
