"""C01 — per-bin statistics equal the windowed-DFT definition on every backend."""
from __future__ import annotations

import json
import os
import subprocess
import sys
from typing import Any, Dict, List

import numpy as np

from .. import common as C

PROP = "C01"
GEN_REGIONS = ["CoreKernels", "CudaKernels"]
THEOREMS = {
    "SpecKitV.Lemmas.Goertzel": ["goertzelS_dft", "forRange_goertzel", "segDFT_toC", "goertzel_pair_outputs", "goertzel_pair_segDFT"],
    "SpecKitV.Props.C01": [
        "reduce_spec", "reduce_M2_all_K", "reduce_M2_nonneg", "reduce_M2_one",
        "stats_win_only_csd_eq_ref", "stats_win_only_auto_eq_ref", "stats_detrend0_csd_eq_ref", "stats_detrend0_auto_eq_ref",
        "stats_poly_csd_eq_ref", "stats_poly_auto_eq_ref",
        "stats_win_only_csd_cuda_eq_ref", "stats_win_only_auto_cuda_eq_ref", "stats_detrend0_csd_cuda_eq_ref",
        "stats_detrend0_auto_cuda_eq_ref", "stats_poly_csd_cuda_eq_ref", "stats_poly_auto_cuda_eq_ref",
        "numba_cuda_agree_win_only_csd", "numba_cuda_agree_win_only_auto", "numba_cuda_agree_detrend0_csd",
        "numba_cuda_agree_detrend0_auto", "numba_cuda_agree_poly_csd", "numba_cuda_agree_poly_auto",
        "auto_is_diag", "ref_cross_is_X_conjY"],
}
CONTRACTS = ["np.linalg.qr (through _build_Q) returns a basis Q; the kernels are proved equal to the estimator that subtracts Q Qᵀ seg for ANY Q",
             "CUDA kernels are translated from core_cuda.py source and executed only under Numba's CUDA simulator"]
ASSUMPTIONS = ["rounding / fastmath re-association are covered by the stated tolerance, not by theorem",
               "theorems are over ℝ for the Lean translation of the kernels' source; NumPy fallbacks are tied by correspondence to Model.refStats"]
RULE = ("cases = (backend function, record(s), L, start vector incl. repeated/unsorted/extreme starts, window with random signs, "
        "omega in {0, pi, tiny, on-bin, fractional}); distinct by (function, L, K, omega class, order); non-trivial = K>=2 or L>=3")

NUMBA = ["_stats_win_only_auto", "_stats_win_only_csd", "_stats_detrend0_auto", "_stats_detrend0_csd", "_stats_poly_auto", "_stats_poly_csd"]
U = 2.0 ** -53


def order_of(name: str, Q) -> int:
    if "win_only" in name:
        return -1
    if "detrend0" in name:
        return 0
    return Q.shape[1] - 1


def gen_case(rng: np.random.Generator, small: bool = False) -> Dict[str, Any]:
    Lmax = 48 if small else 256
    L = int(rng.choice([1, 2, 3, 4, 5, int(rng.integers(6, Lmax + 1)), int(rng.integers(6, Lmax + 1))]))
    N = int(L + rng.integers(0, 120 if small else 400))
    K = int(rng.choice([1, 1, 2, 3, int(rng.integers(2, 9 if small else 33))]))
    mode = int(rng.integers(0, 5))
    if mode == 0:
        starts = rng.integers(0, N - L + 1, size=K)
    elif mode == 1:
        starts = np.sort(rng.integers(0, N - L + 1, size=K))
    elif mode == 2:
        starts = np.full(K, int(rng.integers(0, N - L + 1)))          # all equal
    elif mode == 3 and K * L <= N:
        s0 = int(rng.integers(0, N - K * L + 1))
        starts = s0 + L * np.arange(K)                                  # back-to-back segments
    else:
        starts = rng.choice([0, N - L], size=K)                        # extremes
    wk = int(rng.integers(0, 3))
    if wk == 0:
        w = rng.standard_normal(L)                                      # random signs
    elif wk == 1:
        w = np.hanning(L + 2)[1:-1] + 0.05
    else:
        w = np.ones(L)
    ok = int(rng.integers(0, 6))
    omega = [0.0, np.pi, 1e-9, 2 * np.pi * int(rng.integers(0, L + 1)) / max(L, 1) % np.pi, float(rng.uniform(0, np.pi)),
             float(rng.uniform(0.05, 3.0))][ok]
    if wk == 0 and L >= 4 and rng.random() < 0.4:
        w[rng.integers(1, L - 1, size=max(1, L // 8))] = 0.0           # window with interior zeros (notched / two-lobe windows)
    offs = float(rng.choice([0.0, 0.0, 10.0, 1e3])) * float(rng.standard_normal())
    slope = float(rng.choice([0.0, 0.0, 0.1])) * float(rng.standard_normal())
    t = np.arange(N)
    x1 = rng.standard_normal(N) + offs + slope * t
    x2 = 0.5 * np.roll(x1, 2) + rng.standard_normal(N) - offs
    dk = int(rng.integers(0, 6))
    if dk == 0:                                                         # zero-filled data gaps (exact zeros inside segments)
        for _ in range(int(rng.integers(1, 4))):
            a = int(rng.integers(0, N)); b = min(N, a + int(rng.integers(1, max(2, N // 5))))
            x1[a:b] = 0.0
            if rng.random() < 0.5:
                x2[a:b] = 0.0
    elif dk == 1:                                                       # quantised (ADC counts): many exact zeros and repeats
        x1 = np.round(2.0 * (x1 - offs - slope * t))
        x2 = np.round(1.5 * (x2 + offs))
    return {"L": L, "N": N, "starts": starts.astype(np.int64), "w": w.astype(np.float64), "omega": float(omega),
            "x1": x1, "x2": x2, "omega_class": ok, "start_mode": mode}


def direct(x1, x2, starts, L, w, omega, order, Q, cross):
    """reference: direct windowed DFT of every segment in extended precision, then the averages"""
    ld = np.longdouble
    n = np.arange(L, dtype=ld)
    c = np.cos(ld(omega) * n)
    s = np.sin(ld(omega) * n)
    wl = w.astype(ld)

    def seg(z, st):
        v = z[st:st + L].astype(ld)
        if order == 0:
            v = v - v.mean()
        elif order >= 1:
            Ql = Q.astype(ld)
            v = v - Ql @ (Ql.T @ v)
        v = v * wl
        return complex(float((v * c).sum()), float(-(v * s).sum())), float(np.abs(v).sum())
    XX, YY, Z, S1, S2 = [], [], [], 0.0, 0.0
    for st in starts:
        X, sx = seg(x1, int(st))
        Y, sy = seg(x2, int(st)) if cross else (X, sx)
        XX.append(abs(X) ** 2)
        YY.append(abs(Y) ** 2)
        Z.append(X * np.conj(Y) if cross else complex(abs(X) ** 2, 0.0))
        S1 = max(S1, sx)
        S2 = max(S2, sy)
    Z = np.array(Z)
    mu = Z.mean()
    m2 = float(np.mean(np.abs(Z - mu) ** 2)) if len(Z) >= 2 else 0.0
    return (float(np.mean(XX)), float(np.mean(YY)), float(mu.real), float(mu.imag), m2), S1, S2


def tolerances(L, omega, S1, S2, x1, x2, starts, w, order, Q):
    """forward rounding budget of the recurrence, scaled by the data (never by a quantity that can vanish)"""
    sn = max(abs(np.sin(omega)), 1e-300)
    g = 64.0 * U * (L + 4) * min(float(L) + 1.0, 1.0 / sn)
    # detrending adds cancellation: scale by the raw (undetrended) windowed magnitude
    raw1 = max(float(np.abs(x1[int(s):int(s) + L] * w).sum()) for s in starts) + 1e-300
    raw2 = max(float(np.abs(x2[int(s):int(s) + L] * w).sum()) for s in starts) + 1e-300
    if order >= 1:
        amp = float(np.abs(Q).sum(axis=0).max()) * float(np.abs(Q).max()) * (Q.shape[1])
        raw1 *= (1 + amp)
        raw2 *= (1 + amp)
    a, b = raw1, raw2
    return (g * a * a, g * b * b, g * a * b, g * a * b, 4 * g * (a * b) ** 2)


class InputModified(Exception):
    pass


def impl_call(name, c, Q):
    """call the real kernel on the case's own arrays; the record, window, starts (and Q) are inputs and must come back
    untouched — a kernel that writes into them corrupts every later bin computed from the same record"""
    from speckit import core
    fn = getattr(core, name)
    cross = "csd" in name
    args = [c["x1"]] + ([c["x2"]] if cross else []) + [c["starts"], c["L"], c["w"], c["omega"]]
    if "poly" in name:
        args.append(Q)
    snap = {k: c[k].tobytes() for k in ("x1", "x2", "w", "starts")}
    qsnap = None if Q is None else Q.tobytes()
    out = tuple(float(v) for v in fn(*args))
    changed = [k for k in snap if c[k].tobytes() != snap[k]] + (["Q"] if Q is not None and Q.tobytes() != qsnap else [])
    if changed:
        for k in snap:                       # restore, so the search can go on
            c[k][...] = np.frombuffer(snap[k], dtype=c[k].dtype).reshape(c[k].shape)
        raise InputModified(",".join(changed))
    return out


def driver_line(name, c, Q):
    cross = "csd" in name
    parts = ["kernel", name, C.arr(c["x1"])] + ([C.arr(c["x2"])] if cross else []) + [C.iarr(c["starts"]), str(c["L"]), C.arr(c["w"]), C.f2h(c["omega"])]
    if "poly" in name:
        parts.append(f"{Q.shape[0]} {Q.shape[1]} " + " ".join(C.f2h(v) for v in Q.reshape(-1)))
    return " ".join(parts)


def ref_line(order, cross, c, Q):
    parts = ["ref", str(order), "1" if cross else "0", C.arr(c["x1"])] + ([C.arr(c["x2"])] if cross else []) + \
            [C.iarr(c["starts"]), str(c["L"]), C.arr(c["w"]), C.f2h(c["omega"])]
    if order >= 1:
        parts.append(f"{Q.shape[0]} {Q.shape[1]} " + " ".join(C.f2h(v) for v in Q.reshape(-1)))
    return " ".join(parts)


class Cuda:
    """CUDA functions under the simulator, in a worker process"""
    def __init__(self):
        env = dict(os.environ, NUMBA_ENABLE_CUDASIM="1")
        self.p = subprocess.Popen([sys.executable, "-m", "vk.cuda_worker"], cwd=C.VERIF, env=env, stdin=subprocess.PIPE,
                                  stdout=subprocess.PIPE, stderr=subprocess.DEVNULL, text=True, bufsize=1)

    def call(self, name, c, Q):
        cross = "csd" in name
        args = [{"f64": c["x1"].tolist()}] + ([{"f64": c["x2"].tolist()}] if cross else []) + \
               [{"i64": c["starts"].tolist()}, int(c["L"]), {"f64": c["w"].tolist()}, float(c["omega"])]
        if "poly" in name:
            args.append({"f64": Q.reshape(-1).tolist(), "shape": list(Q.shape)})
        self.p.stdin.write(json.dumps({"fn": name + "_cuda", "args": args}) + "\n")
        self.p.stdin.flush()
        r = json.loads(self.p.stdout.readline())
        if "err" in r:
            raise RuntimeError(r["err"])
        return tuple(r["ok"])

    def close(self):
        try:
            self.p.stdin.close()
            self.p.wait(timeout=10)
        except Exception:
            self.p.kill()


def qfor(name, L, rng):
    from speckit.core import _build_Q
    if "poly" not in name:
        return None
    return _build_Q(L, int(rng.choice([1, 2])))


def cmp5(a, b, tol):
    return [i for i in range(5) if not (abs(a[i] - b[i]) <= tol[i])]


def case_summary(name, c, Q):
    return {"fn": name, "L": c["L"], "N": c["N"], "K": len(c["starts"]), "omega": c["omega"], "order": order_of(name, Q) if Q is not None or "poly" not in name else None,
            "starts": c["starts"].tolist()[:8]}


def case_dump(name, c, Q, backend):
    return {"fn": name, "backend": backend, "L": c["L"], "starts": c["starts"].tolist(), "omega": c["omega"], "w": c["w"].tolist(),
            "x1": c["x1"].tolist(), "x2": c["x2"].tolist(), "Q": None if Q is None else Q.tolist()}


def correspondence(ctx) -> C.Part:
    """(a) generated Lean kernels run in Float vs the Numba functions they were generated from;
       (b) generated CUDA host functions vs the CUDA simulator; (c) Model.refStats (Float) vs the NumPy fallbacks."""
    P = C.Part()
    n = ctx.scale(60, 600)
    cuda = None
    try:
        cuda = Cuda()
    except Exception as ex:
        P.notes.append(f"CUDA simulator unavailable: {ex!r}")
    for i in range(n):
        if ctx.time_left() < 60:
            P.notes.append("time budget reached")
            break
        c = gen_case(ctx.rng, small=True)
        name = NUMBA[i % 6]
        if "poly" in name and c["L"] < 4:
            c["L"] = 4 + c["L"]
            c["N"] = max(c["N"], c["L"] + 8)
            c = dict(c, x1=np.resize(c["x1"], c["N"]), x2=np.resize(c["x2"], c["N"]), w=np.resize(c["w"], c["L"]),
                     starts=np.minimum(c["starts"], c["N"] - c["L"]))
        Q = qfor(name, c["L"], ctx.rng)
        order = order_of(name, Q)
        cross = "csd" in name
        ref, S1, S2 = direct(c["x1"], c["x2"], c["starts"], c["L"], c["w"], c["omega"], order, Q, cross)
        tol = tolerances(c["L"], c["omega"], S1, S2, c["x1"], c["x2"] if cross else c["x1"], c["starts"], c["w"], order, Q)
        try:
            imp = impl_call(name, c, Q)
            imp_np = impl_call(name + "_np", c, Q)
        except InputModified as ex:
            P.cases += 1
            P.disagreements.append({"op": "input-modified", "fn": name, "arrays": str(ex), "case": case_dump(name, c, Q, "numba/numpy"),
                                    "note": "the model's kernels are pure functions of their inputs; the implementation wrote into an input array"})
            continue
        gen = tuple(ctx.driver.floats(driver_line(name, c, Q)))
        P.cases += 1
        key = (name, c["L"], len(c["starts"]), c["omega_class"])
        if len(c["starts"]) >= 2 or c["L"] >= 3:
            P.nontrivial.add(key)
        P.hit(f"{name}")
        P.hit(f"omega_class_{c['omega_class']}")
        P.hit(f"start_mode_{c['start_mode']}")
        P.hit("K=1" if len(c["starts"]) == 1 else "K>=2")
        P.sample({"op": "kernel", **case_summary(name, c, Q), "impl": imp, "generated": gen})
        bad = cmp5(imp, gen, tol)
        if bad:
            P.disagreements.append({"op": "kernel", "fn": name, "components": bad, "impl": imp, "generated_lean": gen, "tol": tol,
                                    "case": case_dump(name, c, Q, "numba")})
        # NumPy fallback vs the hand model (Model.refStats in Float)
        mdl = tuple(ctx.driver.floats(ref_line(order, cross, c, Q)))
        P.cases += 1
        bad = cmp5(imp_np, mdl, tol)
        if bad:
            P.disagreements.append({"op": "ref-vs-numpy", "fn": name + "_np", "components": bad, "impl": imp_np, "model": mdl, "tol": tol,
                                    "case": case_dump(name + "_np", c, Q, "numpy")})
        # CUDA host function (simulator) vs generated CUDA
        if cuda is not None and (i % 3 == 0 or ctx.thorough) and c["L"] * len(c["starts"]) <= 600:
            try:
                imp_cu = cuda.call(name, c, Q)
                gen_cu = tuple(ctx.driver.floats(driver_line(name + "_cuda", c, Q)))
                P.cases += 1
                P.hit("cuda")
                bad = cmp5(imp_cu, gen_cu, tol)
                if bad:
                    P.disagreements.append({"op": "kernel", "fn": name + "_cuda", "components": bad, "impl": imp_cu, "generated_lean": gen_cu,
                                            "tol": tol, "case": case_dump(name + "_cuda", c, Q, "cuda-sim")})
            except Exception as ex:
                P.notes.append(f"cuda simulator error: {ex!r}"[:200])
    if cuda:
        cuda.close()
    return P


def check_case(P: C.Part, name: str, backend: str, c, Q, imp) -> None:
    order = order_of(name, Q)
    cross = "csd" in name
    ref, S1, S2 = direct(c["x1"], c["x2"], c["starts"], c["L"], c["w"], c["omega"], order, Q, cross)
    tol = tolerances(c["L"], c["omega"], S1, S2, c["x1"], c["x2"] if cross else c["x1"], c["starts"], c["w"], order, Q)
    P.cases += 1
    if len(c["starts"]) >= 2 or c["L"] >= 3:
        P.nontrivial.add((name, backend, c["L"], len(c["starts"]), c["omega_class"]))
    P.hit(backend)
    bad = cmp5(imp, ref, tol)
    if bad:
        comp = ["mean|X|^2", "mean|Y|^2", "Re mean X conj Y", "Im mean X conj Y", "M2"][bad[0]]
        P.violations.append(C.Violation(
            what=f"{backend} {name}: {comp} = {imp[bad[0]]!r} but direct windowed DFT gives {ref[bad[0]]!r} (tol {tol[bad[0]]:.3g}), L={c['L']} K={len(c['starts'])} omega={c['omega']}",
            signature={"backend": backend, "fn": name, "component": bad[0]},
            replay={"case": case_dump(name, c, Q, backend), "observed": imp, "expected": ref, "tol": tol}))


def oracle(ctx, intensive: bool = False, hints: List[Dict[str, Any]] = ()) -> C.Part:
    """the property itself on the real implementation: every backend's 5-tuple vs the direct windowed DFT"""
    P = C.Part()
    n = ctx.scale(120, 1500) * (4 if intensive else 1)
    cuda = None
    try:
        cuda = Cuda()
    except Exception:
        pass
    # corpus: design-phase witness D1 (sign of Im for the NumPy fallbacks)
    rng0 = np.random.default_rng(0)
    N = 200
    w0 = {"L": 37, "N": N, "starts": np.array([0, 5, 17, 163, 163, 40], dtype=np.int64), "w": np.hanning(37) + 0.1, "omega": 0.7,
          "x1": rng0.standard_normal(N), "x2": rng0.standard_normal(N), "omega_class": 5, "start_mode": 0}
    cases = [w0] + [h["case"] for h in hints if isinstance(h, dict) and "case" in h and "x1" in h.get("case", {})][:0]
    for i in range(n):
        if ctx.time_left() < 20:
            P.notes.append("time budget reached")
            break
        c = cases[i] if i < len(cases) else gen_case(ctx.rng, small=(i % 2 == 0))
        for name in (NUMBA if i < len(cases) else [NUMBA[i % 6]]):
            cc = c
            if "poly" in name and cc["L"] < 1:
                continue
            Q = qfor(name, cc["L"], ctx.rng)
            try:
                check_case(P, name, "numba", cc, Q, impl_call(name, cc, Q))
                check_case(P, name, "numpy", cc, Q, impl_call(name + "_np", cc, Q))
                if cuda is not None and cc["L"] * len(cc["starts"]) <= 400 and (i % 4 == 0 or intensive or i < len(cases)):
                    check_case(P, name, "cuda-sim", cc, Q, cuda.call(name, cc, Q))
            except InputModified as ex:
                P.violations.append(C.Violation(
                    what=f"{name} (or its NumPy fallback) modified its input array(s) {ex} in place: later bins on the same record no longer "
                         f"equal the windowed DFT of the supplied record (L={cc['L']} K={len(cc['starts'])} starts={cc['starts'].tolist()[:6]})",
                    signature={"fn": name, "input_modified": True}, replay={"case": case_dump(name, cc, Q, "numpy"), "modified": str(ex)}))
            except Exception as ex:
                P.violations.append(C.Violation(what=f"{name} raised {ex!r} on an in-range case", signature={"fn": name, "raises": True},
                                                replay={"case": case_dump(name, cc, Q, "?"), "error": repr(ex)}))
        if i < 3:
            P.sample({"op": "oracle", **case_summary(NUMBA[i % 6], c, None)})
        if len(P.violations) >= 5:
            break
    if cuda:
        cuda.close()
    return P


def replay(ctx, data) -> C.Part:
    P = C.Part()
    for v in data.get("violations", []):
        cd = v["replay"]["case"]
        c = {"L": cd["L"], "N": len(cd["x1"]), "starts": np.array(cd["starts"], dtype=np.int64), "w": np.array(cd["w"]), "omega": cd["omega"],
             "x1": np.array(cd["x1"]), "x2": np.array(cd["x2"]), "omega_class": -1, "start_mode": -1}
        Q = None if cd["Q"] is None else np.array(cd["Q"])
        name = cd["fn"]
        be = cd["backend"]
        if be == "cuda-sim":
            cu = Cuda()
            imp = cu.call(name, c, Q)
            cu.close()
        else:
            imp = impl_call(name + ("_np" if be == "numpy" else ""), c, Q)
        check_case(P, name, be, c, Q, imp)
    return P
