"""C01 — per-bin statistics equal the windowed-DFT definition on every backend."""
from __future__ import annotations

import json
import os
import subprocess
import sys
from typing import Any, Dict, List, Tuple

import numpy as np

from .. import common as C

PROP = "C01"
GEN_REGIONS = ["CoreKernels", "CudaKernels", "NumpyKernels", "BuildQ", "Analysis", "GlobalState"]
THEOREMS = {
    "SpecKitV.Lemmas.Goertzel": ["goertzelS_dft", "forRange_goertzel", "segDFT_toC", "goertzel_pair_outputs", "goertzel_pair_segDFT"],
    "SpecKitV.Props.C01": [
        "reduce_spec", "reduce_M2_all_K", "reduce_M2_nonneg", "reduce_M2_one",
        "stats_win_only_csd_eq_ref", "stats_win_only_auto_eq_ref", "stats_detrend0_csd_eq_ref", "stats_detrend0_auto_eq_ref",
        "stats_poly_csd_eq_ref", "stats_poly_auto_eq_ref",
        "stats_win_only_csd_cuda_eq_ref", "stats_win_only_auto_cuda_eq_ref", "stats_detrend0_csd_cuda_eq_ref",
        "stats_detrend0_auto_cuda_eq_ref", "stats_poly_csd_cuda_eq_ref", "stats_poly_auto_cuda_eq_ref",
        "numba_cuda_agree_win_only_csd", "numba_cuda_agree_win_only_auto", "numba_cuda_agree_detrend0_csd",
        "numba_cuda_agree_detrend0_auto", "numba_cuda_agree_poly_csd", "numba_cuda_agree_poly_auto",
        "auto_is_diag", "ref_cross_is_X_conjY"],
    # the NumPy fallbacks as TRANSLATED from core.py each run (Gen/NumpyKernels.lean) equal the reference, for every chunk size
    "SpecKitV.Props.NumpyKernelsGen": [
        "gen_gather_segments_spec",
        "gen_np_win_only_auto_eq_ref", "gen_np_win_only_csd_eq_ref", "gen_np_detrend0_auto_eq_ref", "gen_np_detrend0_csd_eq_ref",
        "gen_np_poly_auto_eq_ref", "gen_np_poly_csd_eq_ref",
        "gen_np_win_only_auto_K0", "gen_np_win_only_csd_K0", "gen_np_detrend0_auto_K0", "gen_np_detrend0_csd_K0",
        "gen_np_poly_auto_K0", "gen_np_poly_csd_K0", "gen_np_default_chunks_pos",
        "np_numba_agree_win_only_auto", "np_numba_agree_win_only_csd", "np_numba_agree_detrend0_auto", "np_numba_agree_detrend0_csd",
        "np_numba_agree_poly_auto", "np_numba_agree_poly_csd", "np_poly_csd_chunk_invariant",
        "np_auto_is_diag_win_only", "np_auto_is_diag_detrend0", "np_auto_is_diag_poly",
        "np_cross_is_X_conjY_win_only", "np_cross_is_X_conjY_detrend0", "np_cross_is_X_conjY_poly", "np_poly_csd_M2_nonneg"],
    # `_build_Q` TRANSLATED from core.py each run (Gen/BuildQ.lean) satisfies the basis contract, so the polynomial kernels of the three backends called
    # with the library's own basis equal the reference estimator of order p (L >= p+1), and give all-zero statistics on short segments
    "SpecKitV.Props.BuildQGen": ["BuildQ.gen_build_Q_none", "BuildQ.gen_build_Q_isPolyBasis", "BuildQ.libQ_eq_some", "BuildQ.libQ_isPolyBasis", "BuildQ.libQ_m", "BuildQ.libQ_ortho", "BuildQ.stats_poly_csd_libQ_eq_ref", "BuildQ.stats_poly_auto_libQ_eq_ref", "BuildQ.stats_poly_csd_cuda_libQ_eq_ref", "BuildQ.stats_poly_auto_cuda_libQ_eq_ref", "BuildQ.np_poly_csd_libQ_eq_ref", "BuildQ.np_poly_auto_libQ_eq_ref", "BuildQ.stats_poly_csd_libQ_short", "BuildQ.stats_poly_auto_libQ_short", "BuildQ.stats_poly_csd_cuda_libQ_short", "BuildQ.stats_poly_auto_cuda_libQ_short", "BuildQ.np_poly_csd_libQ_short", "BuildQ.np_poly_auto_libQ_short", "BuildQ.stats_poly_csd_libQ_L1", "BuildQ.stats_poly_auto_libQ_L1"],
    # the digital frequency handed to every kernel by the single-bin entry point is 2*pi*f/fs for the frequency the result reports (translated each run)
    "SpecKitV.Props.AnalysisGen": ["gen_single_bin_omega_eq"],
    # no state outlives a call in the files this property is anchored in (no module/class-level containers, memoisers, mutable defaults) and the
    # decorators are exactly the audited ones (region GlobalState, re-scanned from the current source each run)
    "SpecKitV.Props.GlobalStateGen": ["GlobalStateGen.gen_globalState_core", "GlobalStateGen.gen_globalState_core_cuda"],
}
CONTRACTS = ["np.linalg.qr (through _build_Q) returns a basis Q; the kernels are proved equal to the estimator that subtracts Q Qᵀ seg for ANY Q",
             # contracts of the NumPy routines the translated _build_Q refers to (definitions in lean/SpecKitV/Np/BuildQ.lean; differential run in C08)
             "Np.linspace lo hi n = np.linspace(lo, hi, n) (entry i = i*((hi-lo)/(n-1)) + lo, last entry overwritten by hi, n = 1: the single point lo); "
             "Np.ones n = np.ones(n); Np.stackCols = np.stack([...], axis=1); Np.qrReducedQ V = np.linalg.qr(V, mode='reduced')[0] up to the sign of each "
             "column (Gram-Schmidt of the first min(rows, cols) columns; the reduced QR factor of a matrix with independent leading columns is unique up to "
             "these signs, and orthonormality, span and the projector Q Qᵀ do not depend on them)",
             "CUDA kernels are translated from core_cuda.py source and executed only under Numba's CUDA simulator",
             # contracts of the NumPy operations the translated fallbacks refer to (definitions in lean/SpecKitV/Np/NumpyKernels.lean)
             "Np.sliceBound / Np.slice = v[lo:hi] (Python slice bounds: negative from the end, clamped; empty when hi <= lo)",
             "Np.setSlice = `v[lo:hi] = u` (entries of the slice replaced; a length-1 u is broadcast; NumPy raises on any other length mismatch)",
             "Np.empty = np.empty(K, dtype=float64): K entries of uninitialised memory (a parameter `uninit`; the theorems hold for every content)",
             "Np.rangeLen = len(range(start, stop, step)) for step >= 1",
             "Np.arange / Np.arangeF = np.arange(L, dtype=int64 / float64)",
             "Np.outerAdd = s[:, None] + r[None, :];  Np.take2 = x[idx] with a 2-D integer index array (a fresh array)",
             "Np.rowMean = a.mean(axis=1, keepdims=True);  Np.subCol = a - column;  Np.sub2 = a - b;  Np.mulRow / Np.rowMul = a * w, w * a "
             "(w broadcast over rows);  Np.transpose = a.T;  Np.matmul = a @ b;  Np.matvecC = real matrix @ complex vector "
             "(all reductions as left-to-right sums: NumPy's pairwise/BLAS order differs by rounding only)",
             "Np.expI t = np.exp(1j*t) = cos t + i sin t;  np.nan_to_num is the identity on finite values (identity over the reals)"]
ASSUMPTIONS = ["rounding / fastmath re-association are covered by the stated tolerance, not by theorem",
               "the scatter statistic M2 is additionally held to the forward bound of the TWO-PASS evaluation of the definition (2 E s + E^2 + reduction, "
               "E = per-segment rounding budget of the cross product, s = sqrt(M2); see m2_tight_tol), i.e. relative to the scatter and the rounding of "
               "each z_k, not to |mean z|^2; measured on the unchanged library the used fraction of that budget stays below 1% on all backends",
               "for detrend orders >= 0 the four means (and, through m2_tight_tol, the scatter) are additionally held to the forward bound of the "
               "PER-SEGMENT evaluation (seg_tight_tol): recurrence budget times the DETRENDED windowed magnitude plus the rounding of the trend "
               "coefficients, u*(L+3)*max|x| over the segment, as far as a constant / polynomial passes the window at the analysis frequency -- i.e. the "
               "budget never depends on anything outside the segment (record length, level of the rest of the record, running sums); measured on the "
               "unchanged library the used fraction stays below 10% on all backends; for orders 1, 2 at the public entry this comparison uses the basis the "
               "library builds (core._build_Q), whose least-squares property is checked separately with the projector allowance",
               "theorems are over ℝ for the Lean translation of the kernels' source (Numba, CUDA and, through the whole-array NumPy contracts "
               "listed in the trusted base, the NumPy fallbacks); the translation is executed in Float against the real functions each run"]
RULE = ("cases = (backend function, record(s), L, start vector incl. repeated/unsorted/extreme starts, window with random signs, "
        "omega in {0, pi, tiny, on-bin, fractional}); distinct by (function, L, K, omega class, order); non-trivial = K>=2 or L>=3; "
        "PLUS near-identical-segment records (carrier of period P dividing the segment spacing, common to both channels, with independent noise "
        "1e-10..1e-6 of it | exactly periodic | phase-locked sinusoids | constant | DC + relative noise | repeated starts) x K in {2,3,17,256} x "
        "unsorted / sorted / repeated starts x 6 Numba + 6 NumPy + 6 CUDA-simulator functions, and SpectrumAnalyzer.compute_single_bin (numba, numpy; "
        "orders -1..2; auto, cross): M2 of EVERY case is also held to the two-pass budget relative to the scatter (m2_tight_tol); there "
        "non-trivial = K>=2 and that budget < u*|mean|^2/4 (a variance formula that cancels against |mean|^2 would be seen); "
        "PLUS long records (N = 1e5 .. 1.1e6, a pure function of a small spec) riding on a level | ramp | level+ramp | step of 1e6 .. 1e10 times the fluctuation "
        "(each channel its own level, sign, shape; every third record with one huge finite sample per channel that no segment covers) x L in {16, 64, 257} x "
        "K <= 64 segments at the start, the middle and the END of the record (unsorted, repeats) x window with zero / non-zero end points / rectangular / random "
        "signs x fractional low bin | low integer bin | anywhere | 0 | pi x 6 Numba + 6 NumPy (+ 6 CUDA-simulator on the 1e5 records) functions, and "
        "compute_single_bin on such records (numpy, numba; orders -1..2; auto, cross; by L / by resolution; method / module wrapper): for orders >= 0 EVERY case "
        "of EVERY stream is also held to the budget of the per-segment evaluation (seg_tight_tol); there non-trivial = that budget < 1e-3 of the raw-magnitude "
        "budget (an error that scales with the level or the running sum of the record instead of the detrended segment would be seen); "
        "PLUS structured start vectors (the statistics are those of EXACTLY the given starts): arithmetic progressions s0 + k*hop (hop 2 .. 2L) with one / two "
        "interior entries displaced (+-1 | within a hop | up to 3 hops; mostly at positions 2 .. K-2, so first hop, end point and K are those of the progression), "
        "permuted interior + one displaced, an entry replaced by its neighbour, first hop (last hop) = mean hop with everything in between arbitrary, "
        "round(k*shift) grids (shift near-integer | generic) with one entry off by one, last / first entry displaced, displaced + fully permuted, decreasing "
        "(+ displaced), two different hops; controls: the progression itself, the rounded grid, the decreasing progression; x K in {3, 4, 5, 7, 16, 33} x "
        "6 Numba + 6 NumPy functions (+ CUDA simulator on some), NumPy vs Numba within twice the budget, and SpectrumAnalyzer(..., backend = numpy | numba, "
        "scheduler = <callable returning a five-bin plan of such vectors>).compute() (orders -1..2, auto, cross) against the definition on the plan's own "
        "starts; non-trivial = distinct (family, K) whose vector has the intended shape (irregular / progression), measured per run")

NUMBA = ["_stats_win_only_auto", "_stats_win_only_csd", "_stats_detrend0_auto", "_stats_detrend0_csd", "_stats_poly_auto", "_stats_poly_csd"]
U = 2.0 ** -53


def order_of(name: str, Q) -> int:
    if "win_only" in name:
        return -1
    if "detrend0" in name:
        return 0
    return Q.shape[1] - 1


def gen_case(rng: np.random.Generator, small: bool = False) -> Dict[str, Any]:
    Lmax = 48 if small else 256
    L = int(rng.choice([1, 2, 3, 4, 5, int(rng.integers(6, Lmax + 1)), int(rng.integers(6, Lmax + 1))]))
    N = int(L + rng.integers(0, 120 if small else 400))
    K = int(rng.choice([1, 1, 2, 3, int(rng.integers(2, 9 if small else 33))]))
    mode = int(rng.integers(0, 5))
    if mode == 0:
        starts = rng.integers(0, N - L + 1, size=K)
    elif mode == 1:
        starts = np.sort(rng.integers(0, N - L + 1, size=K))
    elif mode == 2:
        starts = np.full(K, int(rng.integers(0, N - L + 1)))          # all equal
    elif mode == 3 and K * L <= N:
        s0 = int(rng.integers(0, N - K * L + 1))
        starts = s0 + L * np.arange(K)                                  # back-to-back segments
    else:
        starts = rng.choice([0, N - L], size=K)                        # extremes
    wk = int(rng.integers(0, 3))
    if wk == 0:
        w = rng.standard_normal(L)                                      # random signs
    elif wk == 1:
        w = np.hanning(L + 2)[1:-1] + 0.05
    else:
        w = np.ones(L)
    ok = int(rng.integers(0, 6))
    omega = [0.0, np.pi, 1e-9, 2 * np.pi * int(rng.integers(0, L + 1)) / max(L, 1) % np.pi, float(rng.uniform(0, np.pi)),
             float(rng.uniform(0.05, 3.0))][ok]
    if wk == 0 and L >= 4 and rng.random() < 0.4:
        w[rng.integers(1, L - 1, size=max(1, L // 8))] = 0.0           # window with interior zeros (notched / two-lobe windows)
    offs = float(rng.choice([0.0, 0.0, 10.0, 1e3])) * float(rng.standard_normal())
    slope = float(rng.choice([0.0, 0.0, 0.1])) * float(rng.standard_normal())
    t = np.arange(N)
    x1 = rng.standard_normal(N) + offs + slope * t
    x2 = 0.5 * np.roll(x1, 2) + rng.standard_normal(N) - offs
    dk = int(rng.integers(0, 6))
    if dk == 0:                                                         # zero-filled data gaps (exact zeros inside segments)
        for _ in range(int(rng.integers(1, 4))):
            a = int(rng.integers(0, N)); b = min(N, a + int(rng.integers(1, max(2, N // 5))))
            x1[a:b] = 0.0
            if rng.random() < 0.5:
                x2[a:b] = 0.0
    elif dk == 1:                                                       # quantised (ADC counts): many exact zeros and repeats
        x1 = np.round(2.0 * (x1 - offs - slope * t))
        x2 = np.round(1.5 * (x2 + offs))
    return {"L": L, "N": N, "starts": starts.astype(np.int64), "w": w.astype(np.float64), "omega": float(omega),
            "x1": x1, "x2": x2, "omega_class": ok, "start_mode": mode}


def direct(x1, x2, starts, L, w, omega, order, Q, cross):
    """reference: direct windowed DFT of every segment in extended precision, then the averages"""
    ld = np.longdouble
    n = np.arange(L, dtype=ld)
    c = np.cos(ld(omega) * n)
    s = np.sin(ld(omega) * n)
    wl = w.astype(ld)

    def seg(z, st):
        v = z[st:st + L].astype(ld)
        if order == 0:
            v = v - v.mean()
        elif order >= 1:
            Ql = Q.astype(ld)
            v = v - Ql @ (Ql.T @ v)
        v = v * wl
        return complex(float((v * c).sum()), float(-(v * s).sum())), float(np.abs(v).sum())
    XX, YY, Z, S1, S2 = [], [], [], 0.0, 0.0
    for st in starts:
        X, sx = seg(x1, int(st))
        Y, sy = seg(x2, int(st)) if cross else (X, sx)
        XX.append(abs(X) ** 2)
        YY.append(abs(Y) ** 2)
        Z.append(X * np.conj(Y) if cross else complex(abs(X) ** 2, 0.0))
        S1 = max(S1, sx)
        S2 = max(S2, sy)
    Z = np.array(Z)
    mu = Z.mean()
    m2 = float(np.mean(np.abs(Z - mu) ** 2)) if len(Z) >= 2 else 0.0
    return (float(np.mean(XX)), float(np.mean(YY)), float(mu.real), float(mu.imag), m2), S1, S2


def tolerances(L, omega, S1, S2, x1, x2, starts, w, order, Q):
    """forward rounding budget of the recurrence, scaled by the data (never by a quantity that can vanish)"""
    sn = max(abs(np.sin(omega)), 1e-300)
    g = 64.0 * U * (L + 4) * min(float(L) + 1.0, 1.0 / sn)
    # detrending adds cancellation: scale by the raw (undetrended) windowed magnitude
    raw1 = max(float(np.abs(x1[int(s):int(s) + L] * w).sum()) for s in starts) + 1e-300
    raw2 = max(float(np.abs(x2[int(s):int(s) + L] * w).sum()) for s in starts) + 1e-300
    if order >= 0:
        # the DETRENDED samples d_n = x_n - trend_n are what enters the recurrence: sum|w d| <= sum|w x| + max|x| sum|w| (order 0: |mean| <= max|x|;
        # orders 1, 2: further scaled by the basis factor below).  Without the second term the budget collapses to 0 when the window vanishes exactly
        # where the record does not (quantised record x = [-0, 3, -0, 0], window zero at index 1: sum|w x| = 0 but the mean-removed segment is not 0) and
        # 1-ulp differences alarm on the unchanged library — a latent false alarm found by the wave-8 strengthening agent (never hit by ./check seeds).
        # The tight per-segment budget `seg_tight_tol` is enforced in addition, so this correction does not weaken what a run demands.
        sw = float(np.abs(w).sum())
        raw1 += max(float(np.abs(x1[int(s):int(s) + L]).max()) if L > 0 else 0.0 for s in starts) * sw
        raw2 += max(float(np.abs(x2[int(s):int(s) + L]).max()) if L > 0 else 0.0 for s in starts) * sw
    if order >= 1:
        amp = float(np.abs(Q).sum(axis=0).max()) * float(np.abs(Q).max()) * (Q.shape[1])
        raw1 *= (1 + amp)
        raw2 *= (1 + amp)
    a, b = raw1, raw2
    return (g * a * a, g * b * b, g * a * b, g * a * b, 4 * g * (a * b) ** 2)


LD = np.longdouble


def direct_ext(x1, x2, starts, L, w, omega, order, Q, cross):
    """the definition kept in EXTENDED precision from the DFT to the squared deviations: X_k by the direct windowed (detrended) DFT, the products
    Z_k = X_k conj(Y_k) (auto: |X_k|^2), their mean (pass 1) and the mean squared deviation about it (pass 2), nothing rounded to double in between.
    Returns ((XX, YY, Re mu, Im mu, M2) as floats, sqrt(M2), max_k |Z_k|). Segments with the same start are evaluated once."""
    n = np.arange(L, dtype=LD)
    co, si = np.cos(LD(omega) * n), np.sin(LD(omega) * n)
    wl = np.asarray(w, dtype=np.float64).astype(LD)
    us, inv = np.unique(np.asarray(starts, dtype=np.int64), return_inverse=True)
    inv = np.asarray(inv).reshape(-1)
    idx = us[:, None] + np.arange(L, dtype=np.int64)[None, :]
    Ql = None if order < 1 else np.asarray(Q).astype(LD)

    def dfts(z):
        sg = np.asarray(z, dtype=np.float64)[idx].astype(LD)
        if order == 0:
            sg = sg - sg.mean(axis=1, keepdims=True)
        elif order >= 1:
            sg = sg - (sg @ Ql) @ Ql.T
        sg = sg * wl
        return (sg @ co)[inv], (-(sg @ si))[inv]
    xr, xi = dfts(x1)
    yr, yi = dfts(x2) if cross else (xr, xi)
    K = len(inv)
    xx, yy = xr * xr + xi * xi, yr * yr + yi * yi
    if cross:
        zr, zi = xr * yr + xi * yi, xi * yr - xr * yi
    else:
        zr, zi = xx, np.zeros(K, dtype=LD)
    mr, mi = zr.mean(), zi.mean()                                     # pass 1
    dr, di = zr - mr, zi - mi
    m2 = (dr * dr + di * di).mean() if K >= 2 else LD(0)               # pass 2
    return ((float(xx.mean()), float(yy.mean()), float(mr), float(mi), float(m2)), float(np.sqrt(m2)),
            float(np.sqrt((zr * zr + zi * zi).max())))


def m2_tight_tol(K: int, tre: float, tim: float, s: float, zmax: float) -> float:
    """SOUND forward budget of the mean squared scatter (two-pass evaluation of the definition) against direct_ext -- relative to the SCATTER
    and to the rounding of each Z_k, never to |mean|^2.
    Per segment a kernel delivers Z^_k = Z_k + e_k with |Re e_k| <= tre, |Im e_k| <= tim: the module's budget of the cross-product components
    (`tolerances`: Goertzel growth (L+4) min(L+1, 1/|sin w|) times the SUPREMUM over the segments of sum|x w|, so it bounds every segment and hence
    their mean). |e_k| <= E0 = hypot(tre, tim). The reference's own Z~_k is off by at most E0/1024 (same operation count, unit roundoff 2^-64, no
    recurrence growth). s = sqrt(M2) is the l2 norm of the centred vector / sqrt(K): a seminorm, so |s(Z^) - s(Z~)| <= E = E0 (1 + 2^-10) and
    |M2(Z^) - M2(Z~)| <= 2 E s~ + E^2. The reduction in floating point returns (M2(Z^) + |d|^2)(1 + th): d = rounding error of the mean,
    |d|^2 <= 2 (K u max|Z^|)^2 (any summation order; the deviations about the exact mean sum to zero, so d enters only squared), |th| <= 8 (K + 8) u
    (a subtraction, two squares and an addition per term, a K-term mean; fused / reassociated evaluation included).
    A formula that is algebraically the variance but cancels (E|z|^2 - |E z|^2: error ~ u |mean|^2) cannot meet this once s << |mean|."""
    E = float(np.hypot(tre, tim)) * (1.0 + 2.0 ** -10)
    d2 = 4.0 * (K * U * (zmax + E)) ** 2
    th = 8.0 * (K + 8) * U
    return 2.0 * E * s + E * E + d2 + th * ((s + E) ** 2 + d2)


def seg_tight_tol(x1, x2, starts, L, w, omega, order, Q, cross):
    """SOUND forward budget of the four means for detrend orders >= 0 that scales with the segment's OWN magnitudes: the DETRENDED windowed
    magnitude D_k = sum_n |w_n d_k[n]| (d = segment minus its exact trend, extended precision) plus the rounding of the trend itself,
    which is of the size u * L * max|x| over the SEGMENT -- never of anything outside the segment (record length, running sums, other segments).
    Returns ((tXX, tYY, tRe, tIm), EZ, (max_k D1, D2, E1, E2 for the message)); EZ = per-segment bound of each component of X_k conj(Y_k) (for m2_tight_tol).

    Derivation for the kernels as they are (per-segment evaluation; Numba streaming, NumPy gathered, CUDA one thread per segment), A = max_n |x[n]| over
    the segment, Q the (L, p+1) trend basis (order 0: the mean, i.e. the single column 1/sqrt(L), p = 0):
      (a) trend coefficients a_j = sum_n Q[n,j] x[n]: ANY summation order gives |da_j| <= g_L A ||Q_j||_1, g_L <= L u (1 + ..) (order 0: the sum, then one
          division by L, or a reciprocal multiply under fastmath: (L+1) u A for the mean).  The error is the SAME for every sample of the segment, so it reaches
          the transform only through the transform of the windowed basis column:  sum_j |da_j| |WQ_j(w)|,  WQ_j(w) = sum_n w_n Q[n,j] exp(-i w n)
          (order 0: |dm| |W(w)|, W the window's own transform)  ->  A S,  S = (L+3) u sum_j ||Q_j||_1 |WQ_j(w)|   (two units of margin);
      (b) evaluating the trend at n, sum_j Q[n,j] a^_j: (p+2) u sum_j |Q[n,j]| |a_j|, |a_j| <= A ||Q_j||_1 (order 0: nothing, the mean is used as is), one more
          rounding each if the mean / the coefficients are re-rounded per sample  ->  A T,  T = (p+4) u sum_n |w_n| q_n,  q_n = sum_j |Q[n,j]| ||Q_j||_1 (order 0: 1);
      (c) the subtraction x[n] - trend^[n] and the product with w[n]: one rounding of the (small) result each; then the transform of the sequence
          v^_n = w_n d_n + r_n actually handed to the recurrence is off by at most g sum|v^_n| -- g the module's recurrence budget (`tolerances`: Goertzel growth
          (L+4) min(L+1, 1/|sin w|), which also covers the direct matrix product of the NumPy path, the phase table and an independently built window) --
          with sum|v^_n| <= D + A F,  F = (L+p+5) u sum_n |w_n| q_n.
      Hence, per segment k (its own A_k, D_k), |X^_k - X_k| <= E_k = A_k (S + T)(1 + 2^-10) + (g + 4u)(D_k + A_k F)   (2^-10: the extended-precision reference's own
      trend error, 2^-64 L A), and
      |mean_k |X^_k|^2 - mean_k |X_k|^2| <= mean_k (2 |X_k| E_k + E_k^2),
      |mean X^ conj Y^ - mean X conj Y| <= mean_k (|X_k| E2_k + |Y_k| E1_k + E1_k E2_k) (each component; EZ = the max over k of that term),
      the squares / products / K-term means add 8 (K+8) u max_k (D1+E1)(D2+E2)  (any order; fused or reassociated evaluation included).
    This is what the property calls the rounding budget of the recurrence for orders
    >= 0: it does not grow with the level of the record except through u*L*level of the SEGMENT, and only as far as a constant (a polynomial) passes the
    window at w (for order -1 the level is part of the segment's windowed magnitude and `tolerances` is already this bound)."""
    K = len(starts)
    sn = max(abs(np.sin(omega)), 1e-300)
    g = 64.0 * U * (L + 4) * min(float(L) + 1.0, 1.0 / sn)
    us, inv = np.unique(np.asarray(starts, dtype=np.int64), return_inverse=True)
    inv = np.asarray(inv).reshape(-1)
    idx = us[:, None] + np.arange(L, dtype=np.int64)[None, :]
    n = np.arange(L, dtype=LD)
    co, si = np.cos(LD(omega) * n), np.sin(LD(omega) * n)
    wl = np.asarray(w, dtype=np.float64).astype(LD)
    aw = np.abs(wl)
    Ql = np.asarray(Q).astype(LD) if order >= 1 else np.full((L, 1), 1 / np.sqrt(LD(L)), dtype=LD)
    p = Ql.shape[1] - 1
    aq = np.abs(Ql)
    q1 = aq.sum(axis=0)                                                # ||Q_j||_1
    wq = wl[:, None] * Ql
    WQ = np.sqrt((co @ wq) ** 2 + (si @ wq) ** 2)                      # |WQ_j(omega)|
    S = (L + 3) * U * float((q1 * WQ).sum())
    leak = float((aw * (aq @ q1)).sum())
    T = (p + 4) * U * leak
    F = (L + p + 5) * U * leak

    def chan(z):
        sg = np.asarray(z, dtype=np.float64)[idx].astype(LD)
        A = np.abs(sg).max(axis=1)
        d = (sg - sg.mean(axis=1, keepdims=True) if order == 0 else sg - (sg @ Ql) @ Ql.T) * wl
        D = np.abs(d).sum(axis=1)
        X = np.sqrt((d @ co) ** 2 + (d @ si) ** 2)
        E = A * ((S + T) * (1.0 + 2.0 ** -10)) + (g + 4.0 * U) * (D + A * F)
        return D[inv], E[inv], X[inv]                                   # per segment k: sum|w d_k|, budget of X_k, |X_k|
    D1, E1, X1 = chan(x1)
    D2, E2, X2 = chan(x2) if cross else (D1, E1, X1)
    rr = 8.0 * (K + 8) * U
    tXX = float((2 * X1 * E1 + E1 * E1).mean() + rr * ((D1 + E1) ** 2).max())
    tYY = float((2 * X2 * E2 + E2 * E2).mean() + rr * ((D2 + E2) ** 2).max())
    ez = X1 * E2 + X2 * E1 + E1 * E2
    tZ = float(ez.mean() + rr * ((D1 + E1) * (D2 + E2)).max())
    EZ = float(ez.max())
    D1, D2, E1, E2 = float(D1.max()), float(D2.max()), float(E1.max()), float(E2.max())
    return (tXX, tYY, tZ, tZ), EZ, (D1, D2, E1, E2)


def tight_means(P: C.Part, label: str, key, K: int, obs, ext, sx: float, zmax: float, tt, raw_tol, sig: Dict[str, Any], rp: Dict[str, Any]) -> bool:
    """orders >= 0: the five statistics against the extended-precision per-segment evaluation within seg_tight_tol (means) and m2_tight_tol fed with
    the per-segment product bound of seg_tight_tol (scatter).  Counts the evaluation as `segtight:detectable` when that budget is below 1e-3 of the
    module's raw-magnitude budget (there an error that scales with the level / the record instead of the detrended segment is seen)."""
    t4, EZ, (D1, D2, E1, E2) = tt
    bad = [i for i in range(4) if not (abs(obs[i] - ext[i]) <= t4[i])]
    if t4[0] < 1e-3 * raw_tol[0] or t4[1] < 1e-3 * raw_tol[1]:
        P.hit("segtight:detectable")
        P.nontrivial.add(("segtight",) + tuple(key))
    if bad:
        k = bad[0]
        P.violations.append(C.Violation(
            what=f"{label}: {STAT[k]} = {obs[k]!r} but evaluating the windowed DFT of every (detrended) segment directly, in extended precision, gives "
                 f"{ext[k]!r}: off by {abs(obs[k] - ext[k]):.3g}, rounding budget of the per-segment evaluation {t4[k]:.3g} (detrended windowed magnitude "
                 f"sum|w d| = {D1:.3g} / {D2:.3g}, per-segment DFT budget incl. the u*L*max|x| rounding of the trend as far as it passes the window = {E1:.3g} / {E2:.3g}; the budget from the RAW "
                 f"segment magnitude would be {raw_tol[k]:.3g}): the error scales with something outside the segment",
            signature=dict(sig, component=k, sub="segment-budget"), replay=dict(rp, observed=list(obs), expected=list(ext), tol_tight=list(t4))))
        return False
    tT = m2_tight_tol(K, EZ, EZ, sx, zmax)
    if not abs(obs[4] - ext[4]) <= tT:
        P.violations.append(C.Violation(
            what=f"{label}: M2 = {obs[4]!r} but the mean squared scatter of the per-segment products evaluated directly (extended precision) is {ext[4]!r}: off by "
                 f"{abs(obs[4] - ext[4]):.3g}, budget {tT:.3g} (= 2 E s + E^2 + reduction with E = {EZ:.3g} the per-segment product budget of the DETRENDED "
                 f"segments, s = sqrt(M2) = {sx:.3g})",
            signature=dict(sig, component=4, sub="segment-budget"), replay=dict(rp, observed=list(obs), expected=list(ext), tol_tight_M2=tT)))
        return False
    return True


class InputModified(Exception):
    pass


def impl_call(name, c, Q):
    """call the real kernel on the case's own arrays; the record, window, starts (and Q) are inputs and must come back
    untouched — a kernel that writes into them corrupts every later bin computed from the same record"""
    from speckit import core
    fn = getattr(core, name)
    cross = "csd" in name
    args = [c["x1"]] + ([c["x2"]] if cross else []) + [c["starts"], c["L"], c["w"], c["omega"]]
    if "poly" in name:
        args.append(Q)
    snap = {k: c[k].tobytes() for k in ("x1", "x2", "w", "starts")}
    qsnap = None if Q is None else Q.tobytes()
    out = tuple(float(v) for v in fn(*args))
    changed = [k for k in snap if c[k].tobytes() != snap[k]] + (["Q"] if Q is not None and Q.tobytes() != qsnap else [])
    if changed:
        for k in snap:                       # restore, so the search can go on
            c[k][...] = np.frombuffer(snap[k], dtype=c[k].dtype).reshape(c[k].shape)
        raise InputModified(",".join(changed))
    return out


def driver_line(name, c, Q):
    cross = "csd" in name
    parts = ["kernel", name, C.arr(c["x1"])] + ([C.arr(c["x2"])] if cross else []) + [C.iarr(c["starts"]), str(c["L"]), C.arr(c["w"]), C.f2h(c["omega"])]
    if "poly" in name:
        parts.append(f"{Q.shape[0]} {Q.shape[1]} " + " ".join(C.f2h(v) for v in Q.reshape(-1)))
    return " ".join(parts)


def ref_line(order, cross, c, Q):
    parts = ["ref", str(order), "1" if cross else "0", C.arr(c["x1"])] + ([C.arr(c["x2"])] if cross else []) + \
            [C.iarr(c["starts"]), str(c["L"]), C.arr(c["w"]), C.f2h(c["omega"])]
    if order >= 1:
        parts.append(f"{Q.shape[0]} {Q.shape[1]} " + " ".join(C.f2h(v) for v in Q.reshape(-1)))
    return " ".join(parts)


class Cuda:
    """CUDA functions under the simulator, in a worker process"""
    def __init__(self):
        env = dict(os.environ, NUMBA_ENABLE_CUDASIM="1")
        self.p = subprocess.Popen([sys.executable, "-m", "vk.cuda_worker"], cwd=C.VERIF, env=env, stdin=subprocess.PIPE,
                                  stdout=subprocess.PIPE, stderr=subprocess.DEVNULL, text=True, bufsize=1)

    def call(self, name, c, Q):
        cross = "csd" in name
        args = [{"f64": c["x1"].tolist()}] + ([{"f64": c["x2"].tolist()}] if cross else []) + \
               [{"i64": c["starts"].tolist()}, int(c["L"]), {"f64": c["w"].tolist()}, float(c["omega"])]
        if "poly" in name:
            args.append({"f64": Q.reshape(-1).tolist(), "shape": list(Q.shape)})
        self.p.stdin.write(json.dumps({"fn": name + "_cuda", "args": args}) + "\n")
        self.p.stdin.flush()
        r = json.loads(self.p.stdout.readline())
        if "err" in r:
            raise RuntimeError(r["err"])
        return tuple(r["ok"])

    def close(self):
        try:
            self.p.stdin.close()
            self.p.wait(timeout=10)
        except Exception:
            self.p.kill()


def qfor(name, L, rng):
    from speckit.core import _build_Q
    if "poly" not in name:
        return None
    return _build_Q(L, int(rng.choice([1, 2])))


def cmp5(a, b, tol):
    return [i for i in range(5) if not (abs(a[i] - b[i]) <= tol[i])]


def case_summary(name, c, Q):
    return {"fn": name, "L": c["L"], "N": c["N"], "K": len(c["starts"]), "omega": c["omega"], "order": order_of(name, Q) if Q is not None or "poly" not in name else None,
            "starts": c["starts"].tolist()[:8]}


def case_dump(name, c, Q, backend):
    d = {"fn": name, "backend": backend, "L": c["L"], "starts": c["starts"].tolist(), "omega": c["omega"], "w": c["w"].tolist(),
         "Q": None if Q is None else Q.tolist()}
    if "long" in c:                  # a long record is a pure function of its small spec (long_record): the replay regenerates it
        d["long"] = c["long"]
    else:
        d["x1"], d["x2"] = c["x1"].tolist(), c["x2"].tolist()
    return d


def correspondence(ctx) -> C.Part:
    """(a) generated Lean kernels run in Float vs the Numba functions they were generated from;
       (b) generated CUDA host functions vs the CUDA simulator; (c) Model.refStats (Float) vs the NumPy fallbacks."""
    P = C.Part()
    n = ctx.scale(60, 600)
    cuda = None
    try:
        cuda = Cuda()
    except Exception as ex:
        P.notes.append(f"CUDA simulator unavailable: {ex!r}")
    for i in range(n):
        if ctx.time_left() < 60:
            P.notes.append("time budget reached")
            break
        c = gen_case(ctx.rng, small=True)
        name = NUMBA[i % 6]
        if "poly" in name and c["L"] < 4:
            c["L"] = 4 + c["L"]
            c["N"] = max(c["N"], c["L"] + 8)
            c = dict(c, x1=np.resize(c["x1"], c["N"]), x2=np.resize(c["x2"], c["N"]), w=np.resize(c["w"], c["L"]),
                     starts=np.minimum(c["starts"], c["N"] - c["L"]))
        Q = qfor(name, c["L"], ctx.rng)
        order = order_of(name, Q)
        cross = "csd" in name
        ref, S1, S2 = direct(c["x1"], c["x2"], c["starts"], c["L"], c["w"], c["omega"], order, Q, cross)
        tol = tolerances(c["L"], c["omega"], S1, S2, c["x1"], c["x2"] if cross else c["x1"], c["starts"], c["w"], order, Q)
        try:
            imp = impl_call(name, c, Q)
            imp_np = impl_call(name + "_np", c, Q)
        except InputModified as ex:
            P.cases += 1
            P.disagreements.append({"op": "input-modified", "fn": name, "arrays": str(ex), "case": case_dump(name, c, Q, "numba/numpy"),
                                    "note": "the model's kernels are pure functions of their inputs; the implementation wrote into an input array"})
            continue
        except Exception as ex:   # a kernel that raises on an in-range case: a broken correspondence (the oracle then looks for the failing input), not an infra error
            P.cases += 1
            P.disagreements.append({"op": "impl-raised", "fn": name, "error": repr(ex)[:300], "case": case_dump(name, c, Q, "numba/numpy"),
                                    "note": "the implementation raised on an in-range case; the translated / model kernels are total"})
            continue
        gen = tuple(ctx.driver.floats(driver_line(name, c, Q)))
        P.cases += 1
        key = (name, c["L"], len(c["starts"]), c["omega_class"])
        if len(c["starts"]) >= 2 or c["L"] >= 3:
            P.nontrivial.add(key)
        P.hit(f"{name}")
        P.hit(f"omega_class_{c['omega_class']}")
        P.hit(f"start_mode_{c['start_mode']}")
        P.hit("K=1" if len(c["starts"]) == 1 else "K>=2")
        P.sample({"op": "kernel", **case_summary(name, c, Q), "impl": imp, "generated": gen})
        bad = cmp5(imp, gen, tol)
        if bad:
            P.disagreements.append({"op": "kernel", "fn": name, "components": bad, "impl": imp, "generated_lean": gen, "tol": tol,
                                    "case": case_dump(name, c, Q, "numba")})
        # NumPy fallback vs the hand model (Model.refStats in Float)
        mdl = tuple(ctx.driver.floats(ref_line(order, cross, c, Q)))
        P.cases += 1
        bad = cmp5(imp_np, mdl, tol)
        if bad:
            P.disagreements.append({"op": "ref-vs-numpy", "fn": name + "_np", "components": bad, "impl": imp_np, "model": mdl, "tol": tol,
                                    "case": case_dump(name + "_np", c, Q, "numpy")})
        # CUDA host function (simulator) vs generated CUDA
        if cuda is not None and (i % 3 == 0 or ctx.thorough) and c["L"] * len(c["starts"]) <= 600:
            try:
                imp_cu = cuda.call(name, c, Q)
                gen_cu = tuple(ctx.driver.floats(driver_line(name + "_cuda", c, Q)))
                P.cases += 1
                P.hit("cuda")
                bad = cmp5(imp_cu, gen_cu, tol)
                if bad:
                    P.disagreements.append({"op": "kernel", "fn": name + "_cuda", "components": bad, "impl": imp_cu, "generated_lean": gen_cu,
                                            "tol": tol, "case": case_dump(name + "_cuda", c, Q, "cuda-sim")})
            except Exception as ex:
                P.notes.append(f"cuda simulator error: {ex!r}"[:200])
    if cuda:
        cuda.close()
    # (d) the NumPy fallbacks as TRANSLATED from the source (Gen/NumpyKernels.lean) vs the real `_stats_*_np`, several chunk sizes;
    #     its random choices come from a child generator seeded by ONE integer drawn here, after everything above
    np_generated_vs_real(ctx, P, np.random.default_rng(int(ctx.rng.integers(0, 2 ** 31 - 1))))
    return P


def gen_np_case(rng: np.random.Generator, i: int) -> Dict[str, Any]:
    """small structured cases for the translated NumPy kernels: L in {1,2,3,generic}, K in {1,2,several}, repeated / unsorted / extreme
    starts, omega in {0, pi, generic}"""
    L = [1, 2, 3, int(rng.integers(4, 41))][(i // 6) % 4]
    N = int(L + rng.integers(0, 60))
    K = [1, 2, int(rng.integers(3, 10))][(i // 24) % 3]
    mode = int(rng.integers(0, 4))
    if mode == 0:
        starts = rng.integers(0, N - L + 1, size=K)                    # unsorted, repeats possible
    elif mode == 1:
        starts = np.full(K, int(rng.integers(0, N - L + 1)))           # all equal
    elif mode == 2:
        starts = np.sort(rng.integers(0, N - L + 1, size=K))[::-1].copy()   # descending
    else:
        starts = rng.choice([0, N - L], size=K)                         # extremes
    w = rng.standard_normal(L) if rng.random() < 0.6 else np.hanning(L + 2)[1:-1] + 0.05
    ok = int(rng.integers(0, 3))
    omega = [0.0, float(np.pi), float(rng.uniform(0.05, 3.0))][ok]
    offs = float(rng.choice([0.0, 5.0])) * float(rng.standard_normal())
    x1 = rng.standard_normal(N) + offs + float(rng.choice([0.0, 0.05])) * np.arange(N)
    x2 = 0.5 * np.roll(x1, 1) + rng.standard_normal(N) - offs
    return {"L": L, "N": N, "starts": starts.astype(np.int64), "w": w.astype(np.float64), "omega": omega, "x1": x1, "x2": x2,
            "omega_class": ok, "start_mode": mode}


def np_driver_line(name, c, Q, chunk):
    cross = "csd" in name
    parts = ["npkernel", name, C.arr(c["x1"])] + ([C.arr(c["x2"])] if cross else []) + [C.iarr(c["starts"]), str(c["L"]), C.arr(c["w"]), C.f2h(c["omega"])]
    if "poly" in name:
        parts.append(f"{Q.shape[0]} {Q.shape[1]} " + " ".join(C.f2h(v) for v in Q.reshape(-1)))
    parts.append(str(int(chunk)))
    return " ".join(parts)


def np_generated_vs_real(ctx, P: C.Part, rng: np.random.Generator) -> None:
    from speckit import core
    n = ctx.scale(144, 1200)
    for i in range(n):
        if ctx.time_left() < 30:
            P.notes.append("time budget reached (translated NumPy kernels)")
            break
        c = gen_np_case(rng, i)
        name = NUMBA[i % 6] + "_np"
        fn = getattr(core, name)
        cross = "csd" in name
        K = len(c["starts"])
        Q = None
        if "poly" in name:
            # the equality theorems hold for ANY Q with Q.shape[0] == L: the real basis, or an arbitrary (non-orthonormal) matrix
            Q = core._build_Q(c["L"], int(rng.choice([1, 2]))) if rng.random() < 0.6 else \
                np.ascontiguousarray(rng.standard_normal((c["L"], int(rng.choice([2, 3])))) / np.sqrt(c["L"]))
        default = int((fn.__kwdefaults__ or {}).get("_chunk", 0))
        chunk = int(rng.choice([1, 1, 2, 2, 3, 3, K, K + 3, default]))
        order = order_of(name, Q)
        # the module's rounding budget (for poly kernels always with the amplification by Q, whatever its column count)
        tol = tolerances(c["L"], c["omega"], 0.0, 0.0, c["x1"], c["x2"] if cross else c["x1"], c["starts"], c["w"],
                         max(order, 1) if Q is not None else order, Q)
        args = [c["x1"]] + ([c["x2"]] if cross else []) + [c["starts"], c["L"], c["w"], c["omega"]] + ([Q] if Q is not None else [])
        snap = {k: c[k].tobytes() for k in ("x1", "x2", "w", "starts")}
        try:
            imp = tuple(float(v) for v in (fn(*args, _chunk=chunk) if chunk != default else fn(*args)))
        except Exception as ex:
            P.cases += 1
            P.disagreements.append({"op": "npkernel", "fn": name, "chunk": chunk, "error": repr(ex)[:300], "case": case_dump(name, c, Q, "numpy"),
                                    "note": "the real NumPy fallback raised on an in-range case; the translated definition is total"})
            continue
        changed = [k for k in snap if c[k].tobytes() != snap[k]]
        P.cases += 1
        if changed:
            P.disagreements.append({"op": "input-modified", "fn": name, "arrays": ",".join(changed), "case": case_dump(name, c, Q, "numpy")})
            continue
        gen = tuple(ctx.driver.floats(np_driver_line(name, c, Q, chunk)))
        if K >= 2 or c["L"] >= 3:
            P.nontrivial.add(("npgen", name, c["L"], K, c["omega_class"], chunk))
        P.hit(f"npgen:{name}")
        P.hit("npgen:chunks=1" if chunk >= K else "npgen:chunks>=2")
        P.hit(f"npgen:L={c['L']}" if c["L"] <= 3 else "npgen:L>=4")
        P.hit(f"npgen:K={K}" if K <= 2 else "npgen:K>=3")
        P.hit(f"npgen:omega_class_{c['omega_class']}")
        if i < 2:
            P.sample({"op": "npkernel", **case_summary(name, c, Q), "chunk": chunk, "impl": imp, "generated": gen})
        bad = cmp5(imp, gen, tol)
        if bad:
            P.disagreements.append({"op": "npkernel", "fn": name, "chunk": chunk, "components": bad, "impl": imp, "generated_lean": gen, "tol": tol,
                                    "case": case_dump(name, c, Q, "numpy")})
        if i % 12 == 0:      # the translated gather itself, exactly
            r = ctx.driver.ask("npgather " + C.arr(c["x1"]) + " " + C.iarr(c["starts"]) + " " + str(c["L"]))
            want = core._gather_segments(c["x1"], c["starts"], c["L"])
            head, _, cells = r.partition("|")
            got = np.array([C.h2f(t) for t in cells.split()]).reshape(want.shape) if head.split() == [str(want.shape[0]), str(want.shape[1])] else None
            P.cases += 1
            P.hit("npgen:_gather_segments")
            if got is None or not np.array_equal(got, want):
                P.disagreements.append({"op": "npgather", "shape": head.strip(), "expected_shape": list(want.shape), "case": case_dump("_gather_segments", c, None, "numpy")})


# ---------------------------------------------------------------- near-identical-segment records (seeded defect C01e and its family)
LOCK_KINDS = ["carrier+noise", "periodic-exact", "locked-sine", "carrier+noise", "const", "dc+noise", "repeated-starts"]
LOCK_K = [256, 17, 2, 3]


def locked_record(rng: np.random.Generator, kind: str, N: int, P: int, L: int):
    """two channels of length N whose segments at starts congruent mod P are (nearly) identical -> (x1, x2, omega of the carrier or None, eps).
    carrier+noise : amp * waveform of period P (tabulated over ONE period, indexed n mod P) COMMON to both channels (own gain, own phase shift) plus
                    independent white noise at 1e-10 .. 1e-6 of the carrier amplitude in each channel
    periodic-exact: the same without noise: segments whose starts differ by multiples of P are bit-identical (M2 = 0 by the definition)
    locked-sine   : sinusoids evaluated sample by sample at a frequency m/P (phase-locked to the segment grid), each channel its own phase and amplitude,
                    noise floor none or 1e-12 .. 1e-7
    const         : constant records (any order: the detrended segments are pure rounding)
    dc+noise      : a constant with a relative noise of 1e-10 .. 1e-6 (DC-dominated: with order -1 near DC the segments are nearly identical; with
                    orders 0, 1, 2 the constant is removed and what is left is far below the rounding scale of the raw record)
    repeated-starts: an ordinary noisy record (the start vector makes the segments identical)"""
    n = np.arange(N)
    amp, amp2 = float(10 ** rng.uniform(-3, 3)), float(10 ** rng.uniform(-3, 3))
    m = int(rng.integers(1, max(1, (P - 1) // 2) + 1))
    om = 2 * np.pi * m / P
    eps = 0.0
    if kind in ("carrier+noise", "periodic-exact"):
        k = np.arange(P)
        tab = np.sin(2 * np.pi * m * k / P + float(rng.uniform(0, 2 * np.pi)))
        if rng.random() < 0.4:                                          # a periodic waveform: harmonics and an offset
            tab = tab + float(rng.uniform(-1, 1)) + 0.3 * float(rng.uniform(0, 1)) * rng.standard_normal(P)
        sh = int(rng.integers(0, P))
        x1, x2 = amp * tab[n % P], amp2 * tab[(n + sh) % P]
        if kind == "carrier+noise":
            eps = float(10 ** rng.uniform(-10, -6))
            x1 = x1 + amp * eps * rng.standard_normal(N)
            x2 = x2 + amp2 * eps * float(10 ** rng.uniform(-1, 1)) * rng.standard_normal(N)
    elif kind == "locked-sine":
        x1 = amp * np.sin(2 * np.pi * m * n / P + float(rng.uniform(0, 6)))
        x2 = amp2 * np.sin(2 * np.pi * m * n / P + float(rng.uniform(0, 6)))
        if rng.random() < 0.5:
            eps = float(10 ** rng.uniform(-12, -7))
            x1 = x1 + amp * eps * rng.standard_normal(N)
            x2 = x2 + amp2 * eps * rng.standard_normal(N)
    elif kind == "const":
        x1, x2 = np.full(N, amp * float(rng.choice([-1.0, 1.0]))), np.full(N, amp2 * float(rng.uniform(-1, 1)))
        om = None
    elif kind == "dc+noise":
        eps = float(10 ** rng.uniform(-10, -6))
        x1 = amp * float(rng.choice([-1.0, 1.0])) * (1.0 + eps * rng.standard_normal(N))
        x2 = amp2 * (1.0 + eps * float(10 ** rng.uniform(-1, 1)) * rng.standard_normal(N))
        om = None
    else:
        x1 = rng.standard_normal(N) + float(rng.choice([0.0, 10.0])) * float(rng.standard_normal())
        x2 = 0.5 * np.roll(x1, 2) + rng.standard_normal(N)
        om = None
    return np.ascontiguousarray(x1, dtype=np.float64), np.ascontiguousarray(x2, dtype=np.float64), om, eps


def locked_kernel_case(rng: np.random.Generator, kind: str, K: int, small: bool) -> Dict[str, Any]:
    """a kernel-level case (record(s), L, starts, window, omega) whose K segments are (nearly) identical: the carrier's period P divides the segment
    spacing h (h < L overlapping, = L back to back, > L with gaps); starts = s0 + h * j with j a permutation (unsorted) or drawn with repetition.
    `small` keeps L*K within reach of the CUDA simulator."""
    P = int(rng.choice([4, 5, 6, 8] if small else [4, 5, 6, 8, 12, 16]))
    if small:
        L = int(rng.integers(max(3, P - 1), max(P, 2048 // K if K > 17 else 48) + 1))
    else:
        L = int(rng.choice([P * int(rng.integers(1, max(2, 64 // P) + 1)), int(rng.integers(3, 97)), 64]))
    hq_max = max(1, min(24000 // (K * P), 3 * L // P + 1))
    h = P * int(rng.integers(1, hq_max + 1))
    sm = int(rng.choice([0, 0, 1, 2, 2, 3]))
    if kind == "repeated-starts":
        sm = 3
    J = K if sm != 2 else max(2, K // 2)
    if sm == 0:
        j = rng.permutation(J)                                          # unsorted, all distinct
    elif sm == 1:
        j = np.arange(J)                                                # sorted
    elif sm == 2:
        j = rng.integers(0, J, size=K)                                  # unsorted with repeats
    else:
        j = np.full(K, int(rng.integers(0, J)))                         # one start repeated K times: identical segments whatever the record
        if kind == "repeated-starts" and K >= 3 and rng.random() < 0.5:
            j[rng.integers(0, K, size=max(1, K // 3))] = int(rng.integers(0, J))   # two distinct starts
    s0 = int(rng.integers(0, P + 3))
    starts = (s0 + h * np.asarray(j)).astype(np.int64)
    N = int(starts.max() + L + int(rng.integers(0, 7)))
    x1, x2, om_c, eps = locked_record(rng, kind, N, P, L)
    wk = int(rng.integers(0, 5))
    w = [np.hanning(L), np.hanning(L + 2)[1:-1] + 0.05, np.ones(L), rng.standard_normal(L), np.hanning(L)][wk] if L >= 3 else np.ones(L)
    oc = int(rng.integers(0, 10))
    if om_c is None:                                                    # DC-dominated: inside the main lobe, exactly DC, or anywhere
        omega = [2 * np.pi * float(rng.uniform(0.3, 2.5)) / L, 2 * np.pi * float(rng.uniform(0.3, 2.5)) / L, 0.0, float(rng.uniform(0.05, 3.0)),
                 2 * np.pi * int(rng.integers(0, L // 2 + 1)) / L][oc % 5]
        ocl = 10 + oc % 5
    elif oc < 4:
        omega, ocl = om_c, 20                                           # at the carrier
    elif oc < 7:
        omega, ocl = om_c + 2 * np.pi * float(rng.uniform(-0.6, 0.6)) / L, 21   # fractional bin next to it
    elif oc < 8:
        omega, ocl = float(rng.uniform(0.05, 3.0)), 22
    else:
        omega, ocl = [0.0, float(np.pi)][oc % 2], 23
    omega = float(min(max(omega, 0.0), np.pi))
    return {"L": L, "N": N, "starts": starts, "w": np.ascontiguousarray(w, dtype=np.float64), "omega": omega, "x1": x1, "x2": x2,
            "omega_class": ocl, "start_mode": 10 + sm, "kind": kind, "P": P, "h": h, "eps": eps}


STAT = ["mean|X|^2", "mean|Y|^2", "Re mean X conj Y", "Im mean X conj Y", "M2"]


def kclass(K: int) -> str:
    return str(K) if K in (1, 2, 3, 17, 256) else ("4..16" if K < 17 else "18+")


def tight_m2(P: C.Part, label: str, key, K: int, m2: float, ext, sx: float, zmax: float, tol, sig: Dict[str, Any], rp: Dict[str, Any]) -> None:
    """the scatter statistic against the extended-precision two-pass evaluation of the definition, budget relative to the scatter (m2_tight_tol);
    a mean of squares is never negative. Counts the case as `tight:detectable` when an error of u |mean|^2 / 4 in M2 would be seen."""
    tT = m2_tight_tol(K, tol[2], tol[3], sx, zmax)
    mu2 = ext[2] ** 2 + ext[3] ** 2
    if not (m2 >= 0.0 and np.isfinite(m2)):
        P.violations.append(C.Violation(
            what=f"{label}: M2 = {m2!r} is not a finite non-negative number (mean squared scatter of {K} segment products; definition gives {ext[4]!r})",
            signature=dict(sig, component=4, sub="M2-nonneg"), replay=dict(rp, observed_M2=m2, expected_M2=ext[4])))
    elif not abs(m2 - ext[4]) <= tT:
        P.violations.append(C.Violation(
            what=f"{label}: M2 = {m2!r} but the mean squared scatter of the {K} per-segment cross products about their mean, evaluated directly "
                 f"(two passes, extended precision), is {ext[4]!r} (tol {tT:.3g} = 2 E s + E^2 + reduction, E = {float(np.hypot(tol[2], tol[3])):.3g} per-segment "
                 f"rounding budget, s = sqrt(M2) = {sx:.3g}; |mean|^2 = {mu2:.6g}, u|mean|^2 = {U * mu2:.3g}: the error is of the size of the rounding "
                 f"of |mean|^2, not of the scatter)",
            signature=dict(sig, component=4, sub="tight-M2"), replay=dict(rp, observed_M2=m2, expected_M2=ext[4], tol_M2=tT)))
    if K >= 2 and tT < 0.25 * U * mu2:
        P.hit("tight:detectable")
        P.hit("tight:" + ("identical-segments" if sx <= 1e-6 * np.sqrt(tT) else "near-identical"))
        P.nontrivial.add(("tight",) + tuple(key) + (kclass(K),))


def reference(name: str, c, Q):
    """everything check_case needs that does not depend on the backend: (direct 5-tuple, tolerances, extended 5-tuple, sqrt(M2), max|Z_k|,
    seg_tight_tol for orders >= 0 or None)"""
    order = order_of(name, Q)
    cross = "csd" in name
    ref, S1, S2 = direct(c["x1"], c["x2"], c["starts"], c["L"], c["w"], c["omega"], order, Q, cross)
    tol = tolerances(c["L"], c["omega"], S1, S2, c["x1"], c["x2"] if cross else c["x1"], c["starts"], c["w"], order, Q)
    ext, sx, zmax = direct_ext(c["x1"], c["x2"], c["starts"], c["L"], c["w"], c["omega"], order, Q, cross)
    tt = seg_tight_tol(c["x1"], c["x2"], c["starts"], c["L"], c["w"], c["omega"], order, Q, cross) if order >= 0 else None
    return ref, tol, ext, sx, zmax, tt


def check_case(P: C.Part, name: str, backend: str, c, Q, imp, R=None) -> None:
    ref, tol, ext, sx, zmax, tt = R if R is not None else reference(name, c, Q)
    P.cases += 1
    if len(c["starts"]) >= 2 or c["L"] >= 3:
        P.nontrivial.add((name, backend, c["L"], len(c["starts"]), c["omega_class"]))
    P.hit(backend)
    bad = cmp5(imp, ref, tol)
    if bad:
        comp = STAT[bad[0]]
        P.violations.append(C.Violation(
            what=f"{backend} {name}: {comp} = {imp[bad[0]]!r} but direct windowed DFT gives {ref[bad[0]]!r} (tol {tol[bad[0]]:.3g}), L={c['L']} K={len(c['starts'])} omega={c['omega']}",
            signature={"backend": backend, "fn": name, "component": bad[0]},
            replay={"case": case_dump(name, c, Q, backend), "observed": imp, "expected": ref, "tol": tol}))
        return
    # the scatter statistic, tightly (every case of every stream; the near-identical-segment stream makes it sharp)
    K = len(c["starts"])
    kind = c.get("kind", "generic")
    nv = len(P.violations)
    tight_m2(P, f"{backend} {name} ({kind} record, L={c['L']} K={K} omega={c['omega']})", (name, backend, kind), K, float(imp[4]), ext, sx, zmax, tol,
             {"backend": backend, "fn": name}, {"case": case_dump(name, c, Q, backend), "observed": imp, "expected": ext, "tol": tol, "kind": kind})
    # orders >= 0: the rounding budget is that of the per-segment evaluation (detrended magnitude + u L max|x| of the segment), every stream
    if tt is not None and len(P.violations) == nv:
        tight_means(P, f"{backend} {name} ({kind} record, N={len(c['x1'])} L={c['L']} K={K} omega={c['omega']})", (name, backend, kind, order_of(name, Q)), K, imp, ext, sx, zmax,
                    tt, tol, {"backend": backend, "fn": name},
                    {"case": case_dump(name, c, Q, backend), "tol": tol, "kind": kind})


def locked_stream(ctx, P: C.Part, rng: np.random.Generator, cuda, intensive: bool) -> None:
    """all 12 + 6 kernels on records whose segments are (nearly) identical: there M2 is many orders below |mean|^2 and only an evaluation that
    takes the deviations about the mean BEFORE squaring resolves it (seeded defect C01e: one-pass E|z|^2 - |E z|^2 in the shared Numba/CUDA reducer)."""
    # corpus witness (C01e): a carrier of period 8 common to both channels, independent noise 1e-8 of it, 256 back-to-back unsorted segments of 64, Hann
    r0 = np.random.default_rng(20240501)
    L0, K0 = 64, 256
    N0 = L0 * K0 + 17
    n0 = np.arange(N0)
    wit = {"L": L0, "N": N0, "starts": (np.arange(K0, dtype=np.int64) * L0)[r0.permutation(K0)], "w": np.hanning(L0).astype(np.float64),
           "omega": 2 * np.pi * 8 / L0, "x1": np.cos(2 * np.pi * 8 * n0 / L0 + 0.3) + 1e-8 * r0.standard_normal(N0),
           "x2": 0.7 * np.cos(2 * np.pi * 8 * n0 / L0 + 1.1) + 1e-8 * r0.standard_normal(N0), "omega_class": 20, "start_mode": 10,
           "kind": "carrier+noise"}
    n = ctx.scale(168, 1344) * (2 if intensive else 1)              # 168 = every (kind, K) combination once for each of the six functions
    n_cuda = 0
    for i in range(-6, n):
        if ctx.time_left() < 15 or len(P.violations) >= 5:
            break
        name = NUMBA[i % 6]
        g = max(i, 0) // 6
        kind, K = LOCK_KINDS[g % len(LOCK_KINDS)], LOCK_K[g % len(LOCK_K)]
        with_cuda = cuda is not None and i >= 0 and g % (3 if intensive or ctx.thorough else 9) == 0      # the simulator costs ~0.2 s a call
        c = wit if i < 0 else locked_kernel_case(rng, kind, K, small=with_cuda)
        if i < 0 and name.endswith("auto") and "poly" not in name:
            c = dict(wit, omega=2 * np.pi * 8.37 / L0, omega_class=21)       # fractional bin as well
        Q = None
        if "poly" in name:
            from speckit.core import _build_Q
            Q = _build_Q(c["L"], 1 + (g + i) % 2)
        try:
            R = reference(name, c, Q)
            check_case(P, name, "numba", c, Q, impl_call(name, c, Q), R)
            check_case(P, name, "numpy", c, Q, impl_call(name + "_np", c, Q), R)
            if with_cuda:
                check_case(P, name, "cuda-sim", c, Q, cuda.call(name, c, Q), R)
                n_cuda += 1
        except InputModified:
            continue                                                    # reported by the generic stream
        except Exception as ex:
            P.violations.append(C.Violation(what=f"{name} raised {ex!r} on an in-range near-identical-segment case", signature={"fn": name, "raises": True},
                                            replay={"case": case_dump(name, c, Q, "?"), "error": repr(ex)}))
            continue
        P.hit(f"locked:{c['kind']}")
        P.hit(f"locked:K={len(c['starts'])}")
        P.hit(f"locked:start_mode_{c['start_mode']}")
        if i in (0, 7):
            P.sample({"op": "oracle-locked", **case_summary(name, c, Q), "kind": c["kind"], "period": c.get("P"), "spacing": c.get("h"), "rel_noise": c.get("eps")})
    if n_cuda:
        P.notes.append(f"near-identical-segment stream: {n_cuda} cases also through the CUDA host functions (simulator)")


# ---------------------------------------------------------------- long records riding on a large level / ramp (seeded defect C01h and its family)
LONG_N = [1_000_000, 100_000, 1_100_000, 300_000]
LONG_L = [64, 16, 257]
LONG_SHAPES = ["level", "ramp", "level+ramp", "level", "step"]
LONG_BINS = [0.5, 1.37, 1.0, 2.5, 0.25, 3.0]


def long_record(spec: Dict[str, Any]):
    """the two channels of a long record: a PURE FUNCTION of the small spec (so a replay stores the spec, not 10^6 samples).
    channel = fluct * (white noise + 0.5 sin(2 pi 0.0123 n + phase)) + level * shape(n / N); shape: level = 1 | ramp = n/N (the running sum reaches
    N level / 2) | level+ramp = 1 + n/(2N) | step = 0 in the first 40 % then 1;  |level| = 1e6 .. 1e10 times fluct, each channel its own level, sign and
    shape.  spikes = [[channel, index, value], ..]: single huge finite samples (the generator puts them where NO segment of the case covers them)."""
    r = np.random.default_rng(int(spec["seed"]))
    N = int(spec["N"])
    t = np.arange(N, dtype=np.float64)
    fl = float(spec["fluct"])
    out = []
    for ch, ph in ((0, 0.0), (1, 0.9)):
        v = fl * (r.standard_normal(N) + 0.5 * np.sin(2 * np.pi * 0.0123 * t + ph))
        lev, shape = float(spec["levels"][ch]), spec["shapes"][ch]
        if shape == "level":
            v += lev
        elif shape == "ramp":
            v += lev * (t / N)
        elif shape == "level+ramp":
            v += lev * (1.0 + 0.5 * t / N)
        else:
            v[int(0.4 * N):] += lev
        out.append(v)
    for ch, i, val in spec.get("spikes", []):
        out[int(ch)][int(i)] = float(val)
    return np.ascontiguousarray(out[0]), np.ascontiguousarray(out[1])


def long_spec(rng: np.random.Generator, i: int, N: int, L: int) -> Dict[str, Any]:
    """spec of record i plus the start vector (K <= 64): segments at the START ([0, 6L]), around the MIDDLE and at the END of the record (N-L itself
    always among them), unsorted, with repeats; every third record carries a huge finite sample per channel between the first and the middle
    group (index in [8L, N/4)), which no segment covers."""
    fl = float(rng.choice([1.0, 1.0, 1e-3, 1e3]))
    lv = [fl * float(10 ** rng.uniform(6, 10)) * float(rng.choice([-1.0, 1.0])) for _ in range(2)]
    shapes = [LONG_SHAPES[i % len(LONG_SHAPES)], LONG_SHAPES[(i + 1 + i // 5) % len(LONG_SHAPES)]]
    K = int([8, 24, 3, 64, 5][i % 5])
    ne = max(1, K // 2)                                                 # half of the segments at the end
    nm = max(1, (K - ne) // 2)
    n0 = K - ne - nm
    st = np.concatenate([rng.integers(0, 6 * L + 1, size=n0), N // 2 + rng.integers(-4 * L, 4 * L + 1, size=nm),
                         N - L - rng.integers(0, 5 * L + 1, size=ne)]).astype(np.int64)
    st[-1] = N - L
    if K >= 5:
        st[int(rng.integers(0, K - 1))] = st[-1]                        # a repeated start
    st = st[rng.permutation(K)] if i % 4 else np.sort(st)
    spikes = []
    if i % 3 == 2:
        for ch in (0, 1):
            val = [1e30, -1e100, 1e300, abs(lv[ch]) * 1e12][int(rng.integers(0, 4))]
            spikes.append([ch, int(rng.integers(8 * L, N // 4)), float(val)])
    return {"seed": int(rng.integers(0, 2 ** 31 - 1)), "N": int(N), "fluct": fl, "levels": lv, "shapes": shapes, "spikes": spikes,
            "starts": st.tolist()}


def long_window_omega(rng: np.random.Generator, L: int, j: int):
    """window (zero end points | non-zero end points | rectangular | random signs) and digital frequency (fractional low bin mostly, a low integer
    bin, anywhere, 0 / pi) of the j-th function on a long record"""
    wk = int(rng.integers(0, 5))
    w = [np.hanning(L), np.hanning(L + 2)[1:-1] + 0.05, np.ones(L), rng.standard_normal(L), np.hanning(L)][wk]
    oc = (j + int(rng.integers(0, 2)) * 3) % 8
    if oc < 6:
        omega, ocl = 2 * np.pi * LONG_BINS[oc] / L, 30 + (0 if LONG_BINS[oc] % 1 else 1)
    elif oc == 6:
        omega, ocl = float(rng.uniform(0.05, 3.0)), 32
    else:
        omega, ocl = [0.0, float(np.pi)][int(rng.integers(0, 2))], 33
    return np.ascontiguousarray(w, dtype=np.float64), float(omega), ocl


def long_stream(ctx, P: C.Part, rng: np.random.Generator, cuda, intensive: bool) -> None:
    """all six Numba and six NumPy kernels (and, on the 1e5-sample records with a handful of segments, the six CUDA host functions under the
    simulator) on LONG records (N = 1e5 .. 1.1e6) riding on a level / ramp / step 1e6 .. 1e10 times the fluctuation, few segments (K <= 64) at the start,
    the middle and the END of the record, L in {16, 64, 257}, fractional and low bins: every statistic against the per-segment extended-precision
    evaluation within the module's budget AND (orders >= 0) within the budget of the per-segment evaluation (seg_tight_tol) -- a kernel whose trend
    comes from a whole-record quantity (one running sum: seeded defect C01h), or that lets a sample outside the segment in, fails the latter."""
    from speckit.core import _build_Q
    n = ctx.scale(8, 36) * (2 if intensive else 1)
    n_cuda = 0
    for i in range(n):
        if ctx.time_left() < 15 or len(P.violations) >= 5:
            break
        N = LONG_N[i % 4] + (int(rng.integers(0, 977)) if i >= 4 else 0)
        L = LONG_L[i % 3]
        spec = long_spec(rng, i, N, L)
        x1, x2 = long_record(spec)
        starts = np.asarray(spec["starts"], dtype=np.int64)
        with_cuda = cuda is not None and N < 200_000 and (i < 4 or intensive or ctx.thorough)
        for j, name in enumerate(NUMBA):
            w, omega, ocl = long_window_omega(rng, L, i + j)
            c = {"L": L, "N": N, "starts": starts, "w": w, "omega": omega, "x1": x1, "x2": x2, "omega_class": ocl, "start_mode": 20 + (0 if i % 4 else 1),
                 "kind": "long:" + spec["shapes"][0] + ("+spike" if spec["spikes"] else ""), "long": {k: v for k, v in spec.items() if k != "starts"}}
            Q = _build_Q(L, 1 + (i + j // 2) % 2) if "poly" in name else None
            try:
                R = reference(name, c, Q)
                check_case(P, name, "numba", c, Q, impl_call(name, c, Q), R)
                check_case(P, name, "numpy", c, Q, impl_call(name + "_np", c, Q), R)
                if with_cuda:                                               # the simulator walks K*L samples in Python: a few segments only
                    sel = np.unique(np.concatenate([starts[:2], [starts.max(), starts.min()]]))[::-1].copy()
                    cc = dict(c, starts=sel.astype(np.int64))
                    check_case(P, name, "cuda-sim", cc, Q, cuda.call(name, cc, Q))
                    n_cuda += 1
            except InputModified as ex:
                P.violations.append(C.Violation(
                    what=f"{name} (or its NumPy fallback) modified its input array(s) {ex} in place on a long record (N={N} L={L} K={len(starts)})",
                    signature={"fn": name, "input_modified": True}, replay={"case": case_dump(name, c, Q, "numpy"), "modified": str(ex)}))
            except Exception as ex:
                P.violations.append(C.Violation(what=f"{name} raised {ex!r} on an in-range long record (N={N} L={L} K={len(starts)})",
                                                signature={"fn": name, "raises": True}, replay={"case": case_dump(name, c, Q, "?"), "error": repr(ex)}))
                continue
            P.hit(f"long:N~1e{int(np.log10(N))}")
            P.hit(f"long:L={L}")
            P.hit("long:" + spec["shapes"][0])
            if spec["spikes"]:
                P.hit("long:spike-outside-segments")
        if i < 2:
            P.sample({"op": "oracle-long", "N": N, "L": L, "K": len(starts), "levels": spec["levels"], "fluct": spec["fluct"], "shapes": spec["shapes"],
                      "spikes": spec["spikes"], "starts": spec["starts"][:8]})
    if n_cuda:
        P.notes.append(f"long-record stream: {n_cuda} cases also through the CUDA host functions (simulator, 1e5-sample records, <= 4 segments)")


AN_KINDS = ["carrier+noise", "periodic-exact", "carrier+noise", "dc+noise", "locked-sine", "const"]


def analyzer_locked_case(rng: np.random.Generator, i: int) -> Dict[str, Any]:
    """case i of the public-entry stream: SpectrumAnalyzer(data, fs, order, win, olap, backend).compute_single_bin(freq, L=L) on a record whose
    segments (hop = L (1 - olap), a multiple of the carrier's period) are (nearly) identical. cross = i % 2, backend numba / numpy = (i // 2) % 2,
    order = (i // 4) % 4 - 1; kind and K in {256, 17, 2, 3} rotate with i // 4."""
    cross = i % 2 == 1
    backend = ["numba", "numpy"][(i // 2) % 2]
    g = i // 4
    order = [-1, 0, 1, 2][g % 4]
    kind = AN_KINDS[(g + g // 4) % len(AN_KINDS)]
    K = LOCK_K[(g + g // 4) % 4]
    P = int(rng.choice([4, 5, 6, 8, 10, 12, 16]))
    q = int(rng.integers(1, max(1, (64 if K > 17 else 256) // (4 * P)) + 1))
    L = 4 * P * q
    olap = float(rng.choice([0.0, 0.5, 0.75]))
    h = int(round(L * (1 - olap)))
    N = L + (K - 1) * h
    x1, x2, om_c, eps = locked_record(rng, kind, N, P, L)
    if om_c is None:
        nu = [float(rng.uniform(0.3, 2.5)) / L, float(rng.uniform(0.3, 2.5)) / L, 0.0, float(rng.uniform(0.01, 0.49))][int(rng.integers(0, 4))]
    else:
        nu = om_c / (2 * np.pi) + (float(rng.uniform(-0.6, 0.6)) / L if rng.random() < 0.4 else 0.0)
    fs = float(rng.choice([1.0, 2.0, 64.0, 1000.0, float(rng.uniform(0.1, 1e4))]))
    win, psll = [("hann", None), ("hann", None), ("kaiser", 60.0), ("kaiser", 150.0), ("kaiser", 200.0)][int(rng.integers(0, 5))]
    opts: Dict[str, Any] = {"order": order, "win": win, "olap": olap, "backend": backend}
    if psll is not None:
        opts["psll"] = psll
    return {"x": x1, "y": x2 if cross else None, "fs": fs, "opts": opts, "freq": float(min(max(nu, 0.0), 0.5) * fs), "L": L, "kind": kind, "K": K}


def analyzer_dump(a: Dict[str, Any]) -> Dict[str, Any]:
    """the complete input of one public-entry case for a replay file; a long record is stored as its spec (long_record regenerates it)"""
    d = {"fs": float(a["fs"]), "opts": dict(a["opts"]), "freq": float(a["freq"]), "L": int(a["L"]), "kind": a["kind"], "req": a.get("req", "L"),
         "dfrac": a.get("dfrac", 0.3), "entry": a.get("entry", "method")}
    if "long" in a:
        d["long"], d["cross"] = a["long"], a["y"] is not None
    else:
        d["x"], d["y"] = np.asarray(a["x"]).tolist(), None if a["y"] is None else np.asarray(a["y"]).tolist()
    return d


def analyzer_load(d: Dict[str, Any]) -> Dict[str, Any]:
    a = {k: d[k] for k in ("fs", "opts", "freq", "L") if k in d}
    a.update(kind=d.get("kind", "?"), req=d.get("req", "L"), dfrac=d.get("dfrac", 0.3), entry=d.get("entry", "method"))
    if "long" in d:
        x1, x2 = long_record(d["long"])
        a.update(x=x1, y=x2 if d.get("cross") else None, long=d["long"])
    else:
        a.update(x=np.array(d["x"], dtype=np.float64), y=None if d["y"] is None else np.array(d["y"], dtype=np.float64))
    return a


def check_analyzer(P: C.Part, a: Dict[str, Any]) -> None:
    """XX_mean, YY_mean, XY, XY_M2 of the single bin the analyzer returns vs the definition evaluated from the bin's OWN plan (starts, L), the window built
    independently (_an.window) and the least-squares trend from an independently orthonormalised basis (_an.poly_basis)."""
    import logging
    import warnings
    from . import _an as _AN
    from speckit.analysis import SpectrumAnalyzer
    x, y, fs, opts = a["x"], a["y"], float(a["fs"]), dict(a["opts"])
    cross = y is not None
    order = int(opts["order"])
    data = np.vstack([x, y]) if cross else x
    logging.disable(logging.CRITICAL)
    try:
        with warnings.catch_warnings(), np.errstate(all="ignore"):
            warnings.simplefilter("ignore")
            # request form: by segment length, or by resolution — fres = fs/L exactly, or a resolution that does NOT divide fs (the segment
            # length is then round(fs/fres) = L while fs/fres is fractional: the statistics must still be the windowed DFT at the frequency
            # the result reports, 2*pi*f/fs — wave-6 miss C01f: omega derived from the bin number f/fres and L), through the method or
            # the module-level wrapper
            req = a.get("req", "L")
            kw = {"L": int(a["L"])} if req == "L" else {"fres": fs / (int(a["L"]) + (0.0 if req == "fres_int" else float(a.get("dfrac", 0.3))))}
            if a.get("entry", "method") == "module":
                import speckit as _sk
                res = _sk.compute_single_bin(data, fs, float(a["freq"]), **kw, **opts)
            else:
                res = SpectrumAnalyzer(data, fs, **opts).compute_single_bin(float(a["freq"]), **kw)
            obs = (float(res.XX_mean[0]), float(res.YY_mean[0]), float(np.real(res.XY[0])), float(np.imag(res.XY[0])), float(res.XY_M2[0]))
    finally:
        logging.disable(logging.NOTSET)
    L, starts = int(res.L[0]), np.asarray(res.D[0], dtype=np.int64)
    K = len(starts)
    om = 2 * np.pi * float(res.f[0]) / fs
    w = np.asarray(_AN.window(opts["win"], L, opts.get("psll")), dtype=np.float64)
    Qref = np.asarray(_AN.poly_basis(L, order), dtype=LD) if order >= 1 else None
    x2 = y if cross else x
    ext, sx, zmax = direct_ext(x, x2, starts, L, w, om, order, Qref, cross)
    tol = tolerances(L, om, 0.0, 0.0, x, x2, starts, w, order, None if Qref is None else np.asarray(Qref, dtype=np.float64))
    if order >= 1:                                                      # projector difference allowed to the library's double-precision QR basis
        ra = max(float(np.abs(x[int(st):int(st) + L] * w).sum()) for st in starts)
        rb = max(float(np.abs(x2[int(st):int(st) + L] * w).sum()) for st in starts)
        pj = 1e-12
        tol = (tol[0] + pj * ra * ra, tol[1] + pj * rb * rb, tol[2] + pj * ra * rb, tol[3] + pj * ra * rb, tol[4] + 4 * pj * (ra * rb) ** 2)
    be = str(opts.get("backend"))
    label = (f"SpectrumAnalyzer(..., order={order}, win={opts['win']}, olap={opts['olap']}, backend={be}).compute_single_bin(f={float(a['freq'])!r}, "
             f"{'L=%d' % L if a.get('req', 'L') == 'L' else 'fres=%r' % (fs / (int(a['L']) + (0.0 if a.get('req') == 'fres_int' else float(a.get('dfrac', 0.3)))))}"
             f"{', module-level wrapper' if a.get('entry') == 'module' else ''}) "
             f"{'cross' if cross else 'auto'} {a['kind']} record (fs={fs!r}, K={K})")
    sig = {"entry": "compute_single_bin", "backend": be, "mode": "cross" if cross else "auto", "order": order}
    rp = {"analyzer": analyzer_dump(a)}
    P.cases += 1
    P.hit(f"analyzer:req={a.get('req', 'L')}:{a.get('entry', 'method')}")
    P.hit(f"analyzer:{be}")
    P.hit(f"analyzer:order{order}:{'cross' if cross else 'auto'}")
    P.hit(f"analyzer:K={K}")
    if K >= 2:
        P.nontrivial.add(("analyzer", be, cross, order, a["kind"], kclass(K)))
    bad = cmp5(obs, ext, tol)
    if bad:
        k = bad[0]
        P.violations.append(C.Violation(
            what=f"{label}: {('XX_mean', 'YY_mean', 'Re XY', 'Im XY', 'XY_M2')[k]} = {obs[k]!r} but the definition evaluated on the bin's own segments gives "
                 f"{ext[k]!r} (tol {tol[k]:.3g})", signature=dict(sig, component=k), replay=dict(rp, observed=obs, expected=ext)))
        return
    nv = len(P.violations)
    tight_m2(P, label + " XY_M2", ("analyzer", be, "cross" if cross else "auto", order), K, obs[4], ext, sx, zmax, tol, sig, rp)
    # orders >= 0: the budget of the per-segment evaluation (seg_tight_tol). Orders 1, 2: against the direct evaluation with the basis the library
    # itself builds (core._build_Q, as the analyzer does) -- that this basis spans the least-squares polynomial trend is checked above and in the
    # trend stream with the projector allowance, which on a large level would swamp the segment budget.
    if order >= 0 and len(P.violations) == nv:
        if order >= 1:
            from speckit.core import _build_Q
            Ql = np.ascontiguousarray(_build_Q(L, order), dtype=np.float64)
            ext, sx, zmax = direct_ext(x, x2, starts, L, w, om, order, Ql, cross)
        else:
            Ql = None
        tt = seg_tight_tol(x, x2, starts, L, w, om, order, Ql, cross)
        tight_means(P, label, ("analyzer", be, "cross" if cross else "auto", order, a["kind"]), K, obs, ext, sx, zmax, tt, tol, sig, rp)


def analyzer_stream(ctx, P: C.Part, rng: np.random.Generator, intensive: bool) -> None:
    n = ctx.scale(96, 960) * (2 if intensive else 1)
    for i in range(n):
        if ctx.time_left() < 12 or len(P.violations) >= 5:
            break
        a = analyzer_locked_case(rng, i)
        a["req"] = ("L", "fres_frac", "fres_int", "fres_frac")[i % 4]
        a["dfrac"] = (0.3, -0.37, 0.45, 0.11, -0.2)[(i // 4) % 5]
        a["entry"] = "module" if (i // 2) % 3 == 2 else "method"
        try:
            check_analyzer(P, a)
        except Exception as ex:
            P.violations.append(C.Violation(
                what=f"compute_single_bin raised {ex!r} on an in-range {a['kind']} record (opts {a['opts']}, L={a['L']}, N={len(a['x'])})",
                signature={"entry": "compute_single_bin", "raises": True},
                replay={"analyzer": analyzer_dump(a), "error": repr(ex)}))
        if i == 0:
            P.sample({"op": "oracle-analyzer", "kind": a["kind"], "N": len(a["x"]), "fs": a["fs"], "opts": a["opts"], "freq": a["freq"], "L": a["L"]})


AN_LONG_SHAPES = ["level", "level+ramp", "level", "ramp", "level", "step", "level", "level+ramp"]                      # channel 1 of the pair
AN_LONG_MODES = [(0, False), (0, True), (1, False), (-1, True), (0, True), (2, False), (0, False), (1, True)]      # (order, cross) of a numpy / numba pair


def analyzer_long_case(rng: np.random.Generator, i: int) -> Dict[str, Any]:
    """case i of the public-entry stream on long records: SpectrumAnalyzer(data, fs, order, win, olap, backend).compute_single_bin at a fractional / low
    bin of a record of 1e5 .. 1.5e5 samples (case 0: 1.1e6 samples, L = 257, no overlap) on a level / ramp / step 1e6 .. 1e10 times the fluctuation; the
    analyzer's own plan covers the whole record (K = 400 .. 6250 segments, up to the END). backend = numpy, numba by i % 2; (order, cross) of the pair from
    AN_LONG_MODES (order 0 in half of the pairs, orders -1, 1, 2 in the others; cross flipped every 16 cases); L in {64, 16, 257}; request by L or by
    resolution, method or module-level wrapper. (The huge-sample variant is a kernel-level case only: the analyzer's segments cover every sample.)"""
    backend = ["numpy", "numba"][i % 2]
    order, cross = AN_LONG_MODES[(i // 2) % len(AN_LONG_MODES)]
    cross = cross != ((i // 16) % 2 == 1)
    L = LONG_L[(i // 2 + i // 16) % 3]
    olap = float([0.5, 0.0, 0.5, 0.75][(i + i // 3) % 4]) if L == 257 else (float([0.0, 0.5][(i // 3) % 2]) if L == 64 else 0.0)
    N = ([100_000, 150_001, 120_000][(i + i // 2) % 3] if L > 16 else 100_000) if i else 1_100_000
    if i == 0:
        L, olap = 257, 0.0
    fl = float(rng.choice([1.0, 1.0, 1e-3, 1e3]))
    spec = {"seed": int(rng.integers(0, 2 ** 31 - 1)), "N": int(N), "fluct": fl,
            "levels": [fl * float(10 ** rng.uniform(6, 10)) * float(rng.choice([-1.0, 1.0])) for _ in range(2)],
            "shapes": [AN_LONG_SHAPES[(i // 2) % len(AN_LONG_SHAPES)], LONG_SHAPES[(i + 2) % len(LONG_SHAPES)]], "spikes": []}
    x1, x2 = long_record(spec)
    fs = float(rng.choice([1.0, 2.0, 64.0, 1000.0, float(rng.uniform(0.1, 1e4))]))
    b = LONG_BINS[(i + i // 6) % len(LONG_BINS)]
    win, psll = [("hann", None), ("kaiser", 60.0), ("hann", None), ("kaiser", 150.0)][int(rng.integers(0, 4))]
    opts: Dict[str, Any] = {"order": order, "win": win, "olap": olap, "backend": backend}
    if psll is not None:
        opts["psll"] = psll
    return {"x": x1, "y": x2 if cross else None, "fs": fs, "opts": opts, "freq": b * fs / L, "L": L, "kind": "long:" + spec["shapes"][0], "long": spec,
            "req": ("L", "fres_int", "L", "fres_frac")[(i // 2) % 4], "dfrac": (0.3, -0.37, 0.45)[i % 3], "entry": "module" if i % 5 == 4 else "method"}


def analyzer_long_stream(ctx, P: C.Part, rng: np.random.Generator, intensive: bool) -> None:
    n = ctx.scale(16, 96) * (2 if intensive else 1)
    for i in range(n):
        if ctx.time_left() < 12 or len(P.violations) >= 5:
            break
        a = analyzer_long_case(rng, i)
        try:
            check_analyzer(P, a)
        except Exception as ex:
            P.violations.append(C.Violation(
                what=f"compute_single_bin raised {ex!r} on an in-range {a['kind']} record (opts {a['opts']}, L={a['L']}, N={len(a['x'])})",
                signature={"entry": "compute_single_bin", "raises": True}, replay={"analyzer": analyzer_dump(a), "error": repr(ex)}))
        P.hit("analyzer:long")
        if i == 0:
            P.sample({"op": "oracle-analyzer-long", "N": len(a["x"]), "fs": a["fs"], "opts": a["opts"], "freq": a["freq"], "L": a["L"],
                      "levels": a["long"]["levels"], "fluct": a["long"]["fluct"], "shapes": a["long"]["shapes"]})


# ---------------------------------------------------------------- structured start vectors: "the statistics are those of EXACTLY the given starts"
# (seeded defect C01i: a constant-hop shortcut that judges regularity of `starts` from its first two entries and the last one, and its family: from the
# last two and the first, from the first three, from min / max / K, from the mean hop, from a rounded k*shift grid ...)
ST_K = [3, 4, 5, 7, 16, 33]
ST_FAMS = ["regular", "perturb1", "perturb2", "perm-interior+perturb", "repeat-neighbour", "first-hop-mean", "last-hop-mean", "round-near-off-by-one",
           "round-generic-off-by-one", "round-grid", "tail-off", "head-off", "perturb+perm-all", "decreasing", "decreasing+perturb", "two-hops"]
ST_CONTROLS = ("regular", "round-grid", "decreasing")


def _delta(rng: np.random.Generator, hop: int) -> int:
    """a non-zero displacement: +-1 | within a hop | up to three hops"""
    m = int(rng.integers(0, 3))
    d = 1 if m == 0 else int(rng.integers(1, max(2, hop))) if m == 1 else int(rng.integers(1, 3 * hop + 1))
    return d if rng.random() < 0.5 else -d


def structured_starts(rng: np.random.Generator, fam: str, K: int, L: int) -> np.ndarray:
    """a start vector (all entries >= 0; the caller sizes the record so that every start is in range) built from the arithmetic progression
    s0 + k*hop, k < K, hop in 2 .. 2L (overlapping, back to back, with gaps): see ST_FAMS. `deep` = the positions 2 .. K-2 whose change leaves the first
    hop, the last hop's end point and K as they are (for K = 3 the only interior position is 1)."""
    hop = int(rng.integers(2, 2 * L + 1))
    s0 = int(rng.integers(0, 6))
    s = s0 + hop * np.arange(K, dtype=np.int64)
    interior = list(range(1, K - 1))
    deep = list(range(2, K - 1)) or interior

    def perturb(v, idxs):
        for ix in idxs:
            b = int(v[ix])
            for _ in range(20):
                nv = max(0, b + _delta(rng, hop))
                if nv != b:
                    v[ix] = nv
                    break
        return v
    if fam == "regular":
        pass
    elif fam == "perturb1":
        perturb(s, [int(rng.choice(deep if rng.random() < 0.75 else interior))])
    elif fam == "perturb2":
        pool = deep if len(deep) >= 2 else interior
        perturb(s, [int(v) for v in rng.choice(pool, size=min(2, len(pool)), replace=False)])
    elif fam == "perm-interior+perturb":      # a permuted progression alone is the same multiset (the statistics do not depend on the order): one entry moves too
        pool = deep if len(deep) >= 2 else interior
        s[pool] = s[pool][rng.permutation(len(pool))]
        perturb(s, [int(rng.choice(pool))])
    elif fam == "repeat-neighbour":           # an entry replaced by its neighbour's value (incl. the last but one by the last: [.., e, e])
        ix = int(rng.choice(deep if rng.random() < 0.75 else interior))
        s[ix] = s[ix + 1] if rng.random() < 0.5 else s[ix - 1]
    elif fam == "first-hop-mean":             # first hop = mean hop = (last - first) / (K-1), everything in between arbitrary (sorted or not)
        if K >= 4:
            mid = rng.integers(0, int(s[-1]) + hop + 1, size=K - 3)
            s[2:K - 1] = np.sort(mid) if rng.random() < 0.5 else mid
    elif fam == "last-hop-mean":              # mirrored: last hop = mean hop
        if K >= 4:
            mid = rng.integers(0, int(s[-1]) + hop + 1, size=K - 3)
            s[1:K - 2] = np.sort(mid) if rng.random() < 0.5 else mid
    elif fam in ("round-near-off-by-one", "round-generic-off-by-one", "round-grid"):
        # the built-in schedulers' grid round(k*shift): shift within 0.5/(K-1) of an integer (the rounded grid IS the progression) or generic
        frac = float(rng.uniform(0.0, 0.49 / (K - 1))) * (1 if rng.random() < 0.5 else -1) if fam == "round-near-off-by-one" else float(rng.uniform(0.05, 0.95))
        s = s0 + np.round(np.arange(K) * (hop + frac)).astype(np.int64)
        if fam != "round-grid":
            ix = int(rng.choice(deep if rng.random() < 0.75 else interior))
            s[ix] = max(0, int(s[ix]) + (1 if rng.random() < 0.5 else -1))
    elif fam == "tail-off":
        perturb(s, [K - 1])
    elif fam == "head-off":
        perturb(s, [0])
    elif fam == "perturb+perm-all":           # unsorted; min, max and K are (mostly) those of the progression
        perturb(s, [int(rng.choice(deep))])
        s = s[rng.permutation(K)]
    elif fam == "decreasing":
        s = s[::-1].copy()
    elif fam == "decreasing+perturb":
        perturb(s, [int(rng.choice(deep))])
        s = s[::-1].copy()
    elif fam == "two-hops":
        h2 = hop + _delta(rng, hop)
        h2 = h2 if h2 >= 1 and h2 != hop else hop + 1
        m = max(1, K // 2)
        s[m:] = s[m - 1] + h2 * np.arange(1, K - m + 1)
    else:
        raise ValueError(fam)
    return np.ascontiguousarray(s, dtype=np.int64)


def starts_shape(s: np.ndarray) -> Tuple[bool, bool]:
    """(is an arithmetic progression in the given order, first hop > 0 and the last entry extrapolates from the first hop although it is not one)"""
    s = np.asarray(s, dtype=np.int64)
    K = len(s)
    if K < 2:
        return True, False
    ap = bool(np.all(np.diff(s) == s[1] - s[0]))
    return ap, bool((not ap) and s[1] > s[0] and s[-1] == s[0] + (K - 1) * (s[1] - s[0]))


def starts_record(rng: np.random.Generator, N: int):
    """two correlated noise records whose level of fluctuation grows along the record (so that different segments give clearly different statistics),
    each with its own offset and drift"""
    t = np.arange(N, dtype=np.float64)
    env = 1.0 + float(rng.uniform(1.0, 4.0)) * t / max(N, 1)
    x1 = env * rng.standard_normal(N) + float(rng.choice([0.0, 3.0, -50.0])) + float(rng.choice([0.0, 0.02])) * t
    x2 = 0.6 * np.roll(x1, 1) + env[::-1] * rng.standard_normal(N) + float(rng.choice([0.0, -7.0]))
    return np.ascontiguousarray(x1), np.ascontiguousarray(x2)


def starts_kernel_case(rng: np.random.Generator, fam: str, K: int, j: int, small: bool = False) -> Dict[str, Any]:
    L = int(rng.choice([3, 4, 8, 16, int(rng.integers(5, 13 if small else 49))]))
    starts = structured_starts(rng, fam, K, L)
    N = int(starts.max()) + L + int(rng.integers(0, L + 1))
    x1, x2 = starts_record(rng, N)
    w = [np.hanning(L + 2)[1:-1] + 0.05, np.ones(L), rng.standard_normal(L), np.hanning(L) if L >= 3 else np.ones(L)][j % 4]
    ok = (j // 4) % 5
    omega = [2 * np.pi * float(rng.uniform(0.3, L / 2)) / L, 2 * np.pi * int(rng.integers(0, L // 2 + 1)) / L, float(rng.uniform(0.05, 3.0)), 0.0, float(np.pi)][ok]
    return {"L": L, "N": N, "starts": starts, "w": np.ascontiguousarray(w, dtype=np.float64), "omega": float(min(max(omega, 0.0), np.pi)), "x1": x1, "x2": x2,
            "omega_class": 30 + ok, "start_mode": 20 + ST_FAMS.index(fam), "kind": "starts:" + fam}


def parity(P: C.Part, name: str, c, Q, nb, npv, tol) -> None:
    """NumPy vs Numba on the same case: both are within `tol` of the definition, so they differ by at most 2 tol (reported only when the comparison with
    the definition has not already reported the case)"""
    P.cases += 1
    P.hit("starts:parity")
    bad = [i for i in range(5) if not (abs(nb[i] - npv[i]) <= 2.0 * tol[i])]
    if bad:
        k = bad[0]
        P.violations.append(C.Violation(
            what=f"{name}: NumPy backend gives {STAT[k]} = {npv[k]!r}, Numba backend {nb[k]!r} on the same record, window, omega={c['omega']} and starts "
                 f"{c['starts'].tolist()[:12]} (L={c['L']}): they differ by {abs(nb[k] - npv[k]):.3g}, twice the rounding budget is {2 * tol[k]:.3g}",
            signature={"fn": name, "sub": "numpy-vs-numba", "component": k},
            replay={"case": case_dump(name, c, Q, "numpy"), "numba": list(nb), "numpy": list(npv), "tol": list(tol), "kind": c.get("kind", "generic")}))


def starts_stream(ctx, P: C.Part, rng: np.random.Generator, cuda, intensive: bool) -> None:
    """every family of ST_FAMS x K in ST_K x the six Numba and six NumPy functions (a few through the CUDA simulator) against the definition evaluated on
    EXACTLY the given starts, and NumPy against Numba. Corpus first: the witnesses of seeded defect C01i."""
    from speckit.core import _build_Q
    wit = [[0, 5, 7, 15], [0, 6, 3, 18], [2, 9, 11, 30, 30], [0, 12, 13, 29, 48, 50, 72]]
    todo: List[Tuple[str, int, Any]] = [("corpus", len(s), np.array(s, dtype=np.int64)) for s in wit]
    reps = ctx.scale(1, 6) * (2 if intensive else 1)
    for r in range(reps):
        for fam in ST_FAMS:
            for K in ST_K:
                todo.append((fam, K, None))
    n_cuda = n_coinc = n_irr = 0
    for j, (fam, K, given) in enumerate(todo):
        if ctx.time_left() < 15 or len(P.violations) >= 5:
            break
        with_cuda = cuda is not None and given is None and K <= 7 and j % (7 if not (intensive or ctx.thorough) else 3) == 0 and n_cuda < ctx.scale(6, 60)
        if given is not None:
            c = starts_kernel_case(rng, "regular", K, j)
            c.update(starts=given, N=int(given.max()) + c["L"] + 3, kind="starts:corpus", start_mode=19)
            c["x1"], c["x2"] = starts_record(rng, c["N"])
        else:
            c = starts_kernel_case(rng, fam, K, j, small=with_cuda)
        ap, coinc = starts_shape(c["starts"])
        n_coinc += coinc
        n_irr += not ap
        P.hit(f"starts:{fam}")
        P.hit(f"starts:K={K}")
        P.hit("starts:" + ("progression" if ap else "first-hop/end-point coincidence" if coinc else "irregular"))
        if ap == (fam in ST_CONTROLS or K == 3 and fam in ("first-hop-mean", "last-hop-mean")):
            P.nontrivial.add(("starts", fam, K))
        # K <= 7: all six functions on the case; K = 16, 33: three of them, rotating (every function meets every family and every K)
        names = NUMBA if K <= 7 else [NUMBA[(j + t) % 6] for t in (0, 2, 5)]
        for name in names:
            Q = _build_Q(c["L"], 1 + (j + len(name)) % 2) if "poly" in name else None
            nv = len(P.violations)
            try:
                R = reference(name, c, Q)
                nb = impl_call(name, c, Q)
                npv = impl_call(name + "_np", c, Q)
                check_case(P, name, "numba", c, Q, nb, R)
                check_case(P, name, "numpy", c, Q, npv, R)
                if len(P.violations) == nv:
                    parity(P, name, c, Q, nb, npv, R[1])
                if with_cuda and name == NUMBA[j % 6]:
                    check_case(P, name, "cuda-sim", c, Q, cuda.call(name, c, Q), R)
                    n_cuda += 1
            except InputModified:
                continue                                                # reported by the generic stream
            except Exception as ex:
                P.violations.append(C.Violation(what=f"{name} raised {ex!r} on an in-range case with starts {c['starts'].tolist()[:12]}",
                                                signature={"fn": name, "raises": True, "sub": "structured-starts"},
                                                replay={"case": case_dump(name, c, Q, "?"), "error": repr(ex)}))
        if j in (4, 5):
            P.sample({"op": "oracle-starts", **case_summary(NUMBA[0], c, None), "family": fam})
    P.notes.append(f"structured start vectors: {n_irr} irregular vectors, {n_coinc} of them with first hop > 0 and the last start = first + (K-1) * first hop "
                   f"(a regularity test on the end points alone would accept them); {n_cuda} cases also through the CUDA simulator")


def plan_case(rng: np.random.Generator, i: int) -> Dict[str, Any]:
    """case i of the caller-supplied-plan stream: SpectrumAnalyzer(data, fs, order, win, backend, scheduler=<callable returning the plan>).compute() with
    five bins, each with its own L, fractional bin number and a structured start vector (families rotate with i; K from ST_K). backend numpy / numba =
    i % 2, cross = (i // 2) % 2, order = (i // 4) % 4 - 1."""
    backend = ["numpy", "numba"][i % 2]
    cross = (i // 2) % 2 == 1
    order = [-1, 0, 1, 2][(i // 4) % 4]
    nb = 5
    fams = [ST_FAMS[(5 * (i // 2) + q) % len(ST_FAMS)] for q in range(nb)]
    Ks = [ST_K[(i // 2 + q + (i // 12)) % len(ST_K)] for q in range(nb)]
    Ls = [int(rng.choice([4, 8, 16, 24, int(rng.integers(5, 41))])) for _ in range(nb)]
    D = [structured_starts(rng, fams[q], Ks[q], Ls[q]) for q in range(nb)]
    N = max(int(d.max()) + L for d, L in zip(D, Ls)) + int(rng.integers(0, 9))
    x1, x2 = starts_record(rng, N)
    fs = float(rng.choice([1.0, 2.0, 10.0, 1000.0, float(rng.uniform(0.1, 1e4))]))
    b = [float(rng.choice([rng.uniform(0.3, L / 2), float(rng.integers(0, L // 2 + 1))])) for L in Ls]
    win, psll = [("hann", None), ("kaiser", 60.0), ("hann", None), ("kaiser", 200.0)][int(rng.integers(0, 4))]
    opts: Dict[str, Any] = {"order": order, "win": win, "backend": backend}
    if psll is not None:
        opts["psll"] = psll
    return {"x": x1, "y": x2 if cross else None, "fs": fs, "opts": opts, "plan": {"L": Ls, "D": [d.tolist() for d in D], "b": b, "fams": fams}}


def check_plan(P: C.Part, a: Dict[str, Any]) -> None:
    """XX, YY, XY, M2 of every bin of compute() under a caller-supplied plan vs the definition evaluated on the plan's OWN (starts, L, f) -- what the
    scheduler handed over, not what the result reports -- window built independently (_an.window); tolerances as in check_analyzer."""
    import logging
    import warnings
    from . import _an as _AN
    from speckit.analysis import SpectrumAnalyzer
    x, y, fs, opts, plan = a["x"], a["y"], float(a["fs"]), dict(a["opts"]), a["plan"]
    cross = y is not None
    order = int(opts["order"])
    Ls = np.array(plan["L"], dtype=np.int64)
    bb = np.array(plan["b"], dtype=np.float64)
    f = bb * fs / Ls

    def sched(**kw):
        Kv = np.array([len(d) for d in plan["D"]], dtype=np.int64)
        return {"f": f.copy(), "r": fs / Ls, "b": bb.copy(), "L": Ls.copy(), "K": Kv, "navg": Kv.copy(),
                "D": [np.array(d, dtype=np.int64) for d in plan["D"]], "O": np.zeros(len(Ls))}
    data = np.vstack([x, y]) if cross else x
    logging.disable(logging.CRITICAL)
    try:
        with warnings.catch_warnings(), np.errstate(all="ignore"):
            warnings.simplefilter("ignore")
            res = SpectrumAnalyzer(data, fs, scheduler=sched, **opts).compute()
            XX, XY, M2 = np.asarray(res.XX, dtype=np.float64), np.asarray(res.XY), np.asarray(res.M2, dtype=np.float64)
            YY = np.asarray(res.YY, dtype=np.float64) if cross else XX
    finally:
        logging.disable(logging.NOTSET)
    be = str(opts.get("backend"))
    x2 = y if cross else x
    for q in range(len(Ls)):
        L, starts = int(Ls[q]), np.array(plan["D"][q], dtype=np.int64)
        K = len(starts)
        om = 2 * np.pi * float(f[q]) / fs
        w = np.asarray(_AN.window(opts["win"], L, opts.get("psll")), dtype=np.float64)
        Qref = np.asarray(_AN.poly_basis(L, order), dtype=LD) if order >= 1 else None
        ext, sx, zmax = direct_ext(x, x2, starts, L, w, om, order, Qref, cross)
        tol = tolerances(L, om, 0.0, 0.0, x, x2, starts, w, order, None if Qref is None else np.asarray(Qref, dtype=np.float64))
        if order >= 1:                                                  # projector difference allowed to the library's double-precision QR basis
            ra = max(float(np.abs(x[int(st):int(st) + L] * w).sum()) for st in starts)
            rb = max(float(np.abs(x2[int(st):int(st) + L] * w).sum()) for st in starts)
            pj = 1e-12
            tol = (tol[0] + pj * ra * ra, tol[1] + pj * rb * rb, tol[2] + pj * ra * rb, tol[3] + pj * ra * rb, tol[4] + 4 * pj * (ra * rb) ** 2)
        obs = (float(XX[q]), float(YY[q]), float(np.real(XY[q])), float(np.imag(XY[q])), float(M2[q]))
        fam = plan.get("fams", ["?"] * len(Ls))[q]
        ap, coinc = starts_shape(starts)
        P.cases += 1
        P.hit(f"plan:{be}")
        P.hit(f"plan:order{order}:{'cross' if cross else 'auto'}")
        P.hit("plan:" + ("progression" if ap else "first-hop/end-point coincidence" if coinc else "irregular"))
        P.nontrivial.add(("plan", be, cross, order, fam, K))
        bad = cmp5(obs, ext, tol)
        if bad:
            k = bad[0]
            P.violations.append(C.Violation(
                what=f"SpectrumAnalyzer(..., order={order}, win={opts['win']}, backend={be}, scheduler=<callable returning a fixed plan>).compute() "
                     f"{'cross' if cross else 'auto'} (fs={fs!r}): bin {q} (L={L}, f={float(f[q])!r}, starts {starts.tolist()[:12]}, family {fam}): "
                     f"{('XX', 'YY', 'Re XY', 'Im XY', 'M2')[k]} = {obs[k]!r} but the definition evaluated on exactly these segments gives {ext[k]!r} (tol {tol[k]:.3g})",
                signature={"entry": "compute+scheduler", "backend": be, "mode": "cross" if cross else "auto", "order": order, "component": k},
                replay={"plan_case": plan_dump(a), "bin": q, "observed": obs, "expected": ext}))
            return


def plan_dump(a: Dict[str, Any]) -> Dict[str, Any]:
    return {"x": np.asarray(a["x"]).tolist(), "y": None if a["y"] is None else np.asarray(a["y"]).tolist(), "fs": float(a["fs"]), "opts": dict(a["opts"]),
            "plan": {"L": [int(v) for v in a["plan"]["L"]], "D": [[int(v) for v in d] for d in a["plan"]["D"]], "b": [float(v) for v in a["plan"]["b"]],
                     "fams": list(a["plan"].get("fams", []))}}


def plan_load(d: Dict[str, Any]) -> Dict[str, Any]:
    a = {"x": np.array(d["x"], dtype=np.float64), "y": None if d["y"] is None else np.array(d["y"], dtype=np.float64), "fs": d["fs"], "opts": dict(d["opts"]),
         "plan": dict(d["plan"])}
    if not a["plan"].get("fams"):
        a["plan"]["fams"] = ["?"] * len(a["plan"]["L"])
    return a


def plan_stream(ctx, P: C.Part, rng: np.random.Generator, intensive: bool) -> None:
    n = ctx.scale(48, 384) * (2 if intensive else 1)
    for i in range(-1, n):
        if ctx.time_left() < 12 or len(P.violations) >= 5:
            break
        a = plan_case(rng, max(i, 0))
        if i < 0:                                                       # corpus: the plan of the C01i demonstration (numpy, cross, order 0, Hann)
            a = plan_case(rng, 2)
            a["opts"] = {"order": 0, "win": "hann", "backend": "numpy"}
            a["plan"] = {"L": [24, 24, 16, 32], "D": [[0, 8, 16, 24], [0, 5, 7, 15], [1, 7, 40, 19], [3, 9, 50, 64, 27]], "b": [3.0, 4.37, 2.5, 6.0], "fams": ["corpus"] * 4}
            a["x"], a["y"] = starts_record(rng, 120)
        try:
            check_plan(P, a)
        except Exception as ex:
            P.violations.append(C.Violation(
                what=f"SpectrumAnalyzer(..., scheduler=<callable returning an in-range plan>).compute() raised {ex!r} (opts {a['opts']}, L={a['plan']['L']}, "
                     f"N={len(a['x'])}, D={[d[:8] for d in a['plan']['D']]})",
                signature={"entry": "compute+scheduler", "raises": True}, replay={"plan_case": plan_dump(a), "error": repr(ex)}))
        if i == 0:
            P.sample({"op": "oracle-plan", "N": len(a["x"]), "fs": a["fs"], "opts": a["opts"], "L": a["plan"]["L"], "D": [d[:8] for d in a["plan"]["D"]],
                      "families": a["plan"]["fams"]})


def oracle(ctx, intensive: bool = False, hints: List[Dict[str, Any]] = ()) -> C.Part:
    """the property itself on the real implementation: every backend's 5-tuple vs the direct windowed DFT"""
    P = C.Part()
    n = ctx.scale(120, 1500) * (4 if intensive else 1)
    cuda = None
    try:
        cuda = Cuda()
    except Exception:
        pass
    # corpus: design-phase witness D1 (sign of Im for the NumPy fallbacks)
    rng0 = np.random.default_rng(0)
    N = 200
    w0 = {"L": 37, "N": N, "starts": np.array([0, 5, 17, 163, 163, 40], dtype=np.int64), "w": np.hanning(37) + 0.1, "omega": 0.7,
          "x1": rng0.standard_normal(N), "x2": rng0.standard_normal(N), "omega_class": 5, "start_mode": 0}
    cases = [w0] + [h["case"] for h in hints if isinstance(h, dict) and "case" in h and "x1" in h.get("case", {})][:0]
    for i in range(n):
        if ctx.time_left() < 20:
            P.notes.append("time budget reached")
            break
        c = cases[i] if i < len(cases) else gen_case(ctx.rng, small=(i % 2 == 0))
        for name in (NUMBA if i < len(cases) else [NUMBA[i % 6]]):
            cc = c
            if "poly" in name and cc["L"] < 1:
                continue
            Q = qfor(name, cc["L"], ctx.rng)
            try:
                R = reference(name, cc, Q)
                check_case(P, name, "numba", cc, Q, impl_call(name, cc, Q), R)
                check_case(P, name, "numpy", cc, Q, impl_call(name + "_np", cc, Q), R)
                if cuda is not None and cc["L"] * len(cc["starts"]) <= 400 and (i % 4 == 0 or intensive or i < len(cases)):
                    check_case(P, name, "cuda-sim", cc, Q, cuda.call(name, cc, Q), R)
            except InputModified as ex:
                P.violations.append(C.Violation(
                    what=f"{name} (or its NumPy fallback) modified its input array(s) {ex} in place: later bins on the same record no longer "
                         f"equal the windowed DFT of the supplied record (L={cc['L']} K={len(cc['starts'])} starts={cc['starts'].tolist()[:6]})",
                    signature={"fn": name, "input_modified": True}, replay={"case": case_dump(name, cc, Q, "numpy"), "modified": str(ex)}))
            except Exception as ex:
                P.violations.append(C.Violation(what=f"{name} raised {ex!r} on an in-range case", signature={"fn": name, "raises": True},
                                                replay={"case": case_dump(name, cc, Q, "?"), "error": repr(ex)}))
        if i < 3:
            P.sample({"op": "oracle", **case_summary(NUMBA[i % 6], c, None)})
        if len(P.violations) >= 5:
            break
    # the TREND of orders 1, 2 is the least-squares polynomial of the segment (property text: x_k[n] - trend_k[n]): the kernels are run with the
    # basis the library itself builds (core._build_Q) and compared with the direct evaluation that uses an INDEPENDENTLY orthonormalised
    # polynomial basis (_an.poly_basis, extended precision) — even and odd L, records with offsets and drifts (seeded defect C01d: a closed-form
    # basis that is not orthogonal on even-length grids). Tolerance: the usual rounding budget plus the projector difference allowed to a
    # double-precision QR (1e-12 of the raw windowed magnitude).
    from . import _an as _AN
    from speckit import core as _core
    n_tr = ctx.scale(24, 240) * (2 if intensive else 1)
    for i in range(n_tr):
        if ctx.time_left() < 10 or len(P.violations) >= 5:
            break
        order = 1 + i % 2
        L = int([2, 3, 4, 5, 8, 16, 31, 64, 255, 256][i % 10] if i % 3 else ctx.rng.integers(order + 2, 400))
        K = int(ctx.rng.integers(1, 6))
        N = L + int(ctx.rng.integers(0, 3 * L + 1))
        t = np.arange(N)
        mk = lambda: ctx.rng.standard_normal(N) + float(ctx.rng.uniform(-50, 50)) + float(ctx.rng.uniform(-0.5, 0.5)) * t
        c = {"L": L, "N": N, "starts": np.sort(ctx.rng.integers(0, N - L + 1, size=K)).astype(np.int64), "w": np.hanning(L + 2)[1:-1] + 0.05,
             "omega": float(ctx.rng.uniform(0.05, 3.0)), "x1": mk(), "x2": mk(), "omega_class": 5, "start_mode": 0}
        name = ["_stats_poly_auto", "_stats_poly_csd"][(i // 2) % 2]
        cross = "csd" in name
        try:
            Qlib = np.ascontiguousarray(_core._build_Q(L, order))
            Qref = np.asarray(_AN.poly_basis(L, order), dtype=np.longdouble)
            ref, S1, S2 = direct(c["x1"], c["x2"], c["starts"], L, c["w"], c["omega"], order, Qref, cross)
            tol = tolerances(L, c["omega"], S1, S2, c["x1"], c["x2"] if cross else c["x1"], c["starts"], c["w"], order, Qlib)
            a = max(float(np.abs(c["x1"][int(st):int(st) + L] * c["w"]).sum()) for st in c["starts"])
            b = max(float(np.abs(c["x2"][int(st):int(st) + L] * c["w"]).sum()) for st in c["starts"]) if cross else a
            pj = 1e-12
            tol = (tol[0] + pj * a * a, tol[1] + pj * b * b, tol[2] + pj * a * b, tol[3] + pj * a * b, tol[4] + 4 * pj * (a * b) ** 2)
            for be, fn in (("numba", name), ("numpy", name + "_np")):
                imp = impl_call(fn, c, Qlib)
                P.cases += 1
                P.hit(f"trend-ls:order{order}:{'even' if L % 2 == 0 else 'odd'}L")
                if L > order + 1:
                    P.nontrivial.add(("trend-ls", order, L % 2, cross, be))
                bad = cmp5(imp, ref, tol)
                if bad:
                    k = bad[0]
                    P.violations.append(C.Violation(
                        what=f"{fn} with the library's own basis _build_Q(L={L}, order={order}): {('XX','YY','Re XY','Im XY','M2')[k]} = {imp[k]!r} but the estimate with the "
                             f"least-squares polynomial trend of degree {order} removed from every segment is {ref[k]!r} (tol {tol[k]:.3g}; K={K}, "
                             f"max|QtQ-I|={float(np.abs(Qlib.T @ Qlib - np.eye(Qlib.shape[1])).max()):.3g})",
                        signature={"fn": name, "sub": "trend-is-least-squares", "order": order, "parity": L % 2},
                        replay={"case": case_dump(name, c, Qlib, be), "order": order}))
                    break
        except InputModified:
            continue
        except Exception as ex:
            P.violations.append(C.Violation(what=f"{name} / _build_Q(L={L}, order={order}) raised {ex!r}", signature={"fn": name, "raises": True, "sub": "trend-is-least-squares"},
                                            replay={"L": L, "order": order, "error": repr(ex)}))
    # structured start vectors (progressions with perturbed / permuted / repeated interior entries, rounded grids off by one, controls): kernels of all
    # backends and compute() under a caller-supplied plan. Own child generator derived from the run's seed WITHOUT drawing from ctx.rng (the streams
    # below keep the cases they had).
    srng = np.random.default_rng([int(getattr(ctx, "seed", 0)) & 0x7FFFFFFF, 0xC01, 9])
    starts_stream(ctx, P, srng, cuda, intensive)
    plan_stream(ctx, P, srng, intensive)
    # near-identical-segment records: kernels (Numba, NumPy, CUDA simulator) and the public single-bin entry on both backends. Their random choices
    # come from a child generator seeded by ONE integer drawn here, after everything above.
    lrng = np.random.default_rng(int(ctx.rng.integers(0, 2 ** 31 - 1)))
    locked_stream(ctx, P, lrng, cuda, intensive)
    analyzer_stream(ctx, P, lrng, intensive)
    # long records on a large level / ramp, few segments up to the END of the record (kernels), the analyzer's own plan (public entry): the rounding
    # budget is that of the per-segment evaluation. Own child generator, seeded after everything above.
    grng = np.random.default_rng(int(ctx.rng.integers(0, 2 ** 31 - 1)))
    long_stream(ctx, P, grng, cuda, intensive)
    analyzer_long_stream(ctx, P, grng, intensive)
    P.notes.append(f"segment-budget predicate (orders >= 0): {P.histogram.get('segtight:detectable', 0)} evaluations where the budget of the per-segment "
                   f"evaluation is below 1e-3 of the raw-magnitude budget ({len([k for k in P.nontrivial if k and k[0] == 'segtight'])} distinct "
                   f"(function/entry, backend, kind, order))")
    P.notes.append(f"near-identical-segment region: {P.histogram.get('tight:detectable', 0)} evaluations where an error of u*|mean|^2/4 in M2 would be seen "
                   f"({len([k for k in P.nontrivial if k and k[0] == 'tight'])} distinct (function/entry, backend, kind, K))")
    if cuda:
        cuda.close()
    return P


def replay(ctx, data) -> C.Part:
    P = C.Part()
    for v in data.get("violations", []):
        if "analyzer" in v["replay"]:          # public single-bin entry on a near-identical-segment record
            check_analyzer(P, analyzer_load(v["replay"]["analyzer"]))
            continue
        if "plan_case" in v["replay"]:         # compute() under a caller-supplied plan
            check_plan(P, plan_load(v["replay"]["plan_case"]))
            continue
        if "case" not in v["replay"]:
            continue
        cd = v["replay"]["case"]
        if "long" in cd:                       # long record: regenerated from its spec
            rx1, rx2 = long_record(cd["long"])
        else:
            rx1, rx2 = np.array(cd["x1"], dtype=np.float64), np.array(cd["x2"], dtype=np.float64)
        c = {"L": cd["L"], "N": len(rx1), "starts": np.array(cd["starts"], dtype=np.int64), "w": np.array(cd["w"], dtype=np.float64), "omega": cd["omega"],
             "x1": rx1, "x2": rx2, "omega_class": -1, "start_mode": -1, "kind": v["replay"].get("kind", "generic")}
        if "long" in cd:
            c["long"] = cd["long"]
        Q = None if cd["Q"] is None else np.array(cd["Q"])
        name = cd["fn"]
        be = cd["backend"]
        if be == "cuda-sim":
            cu = Cuda()
            imp = cu.call(name, c, Q)
            cu.close()
        else:
            imp = impl_call(name + ("_np" if be == "numpy" else ""), c, Q)
        if "numba" in v["replay"] and "numpy" in v["replay"]:      # NumPy vs Numba on the same case (and each against the definition)
            R = reference(name, c, Q)
            nb, npv = impl_call(name, c, Q), impl_call(name + "_np", c, Q)
            nv = len(P.violations)
            check_case(P, name, "numba", c, Q, nb, R)
            check_case(P, name, "numpy", c, Q, npv, R)
            if len(P.violations) == nv:
                parity(P, name, c, Q, nb, npv, R[1])
            continue
        if "order" in v["replay"]:          # trend-is-least-squares: the reference uses an independently built polynomial basis, not the stored Q
            from . import _an as _AN
            order = int(v["replay"]["order"])
            cross = "csd" in name
            Qref = np.asarray(_AN.poly_basis(c["L"], order), dtype=np.longdouble)
            ref, S1, S2 = direct(c["x1"], c["x2"], c["starts"], c["L"], c["w"], c["omega"], order, Qref, cross)
            tol = tolerances(c["L"], c["omega"], S1, S2, c["x1"], c["x2"] if cross else c["x1"], c["starts"], c["w"], order, Q)
            a = max(float(np.abs(c["x1"][int(st):int(st) + c["L"]] * c["w"]).sum()) for st in c["starts"])
            tol = tuple(t + 1e-12 * a * a * 4 for t in tol)
            P.cases += 1
            bad = cmp5(imp, ref, tol)
            if bad:
                P.violations.append(C.Violation(what=f"replay: {name} with its stored basis differs from the least-squares-trend estimate in field {bad[0]}: {imp[bad[0]]!r} vs {ref[bad[0]]!r}",
                                                signature={"fn": name, "sub": "trend-is-least-squares"}, replay=v["replay"]))
            continue
        check_case(P, name, be, c, Q, imp)
    return P
