"""py2lean — translate the loop/arith subset of SpecKit's Python source to Lean 4 definitions.

The output (lean/SpecKitV/Gen/*.lean) is regenerated from /repo's current source on every
check run; the theorems in Props/ are re-checked against it.  Anything outside the accepted
subset raises Unsupported: the region's Gen file then becomes a stub that fails to build
(`#exit`-free, a deliberate `example : False` is NOT used; we emit an `#eval`-free error via
an undefined identifier) and the properties depending on it take the broken-obligation path.

Kinds of values:  R real (alpha)   N nat   Z int   B bool   A Arr alpha   A2 Arr2 alpha
                  IA array of naturals (segment starts)
"""
from __future__ import annotations

import ast
import re
import hashlib
import os
import textwrap
from dataclasses import dataclass, field
from typing import Dict, List, Optional, Tuple

REPO = os.environ.get("SPECKIT_REPO", "/repo")


def re_fullmatch(pat: str, txt: str):
    import re as _re
    return _re.fullmatch(pat, txt)


class Unsupported(Exception):
    pass


def _lit_float(v: float) -> str:
    """exact decimal literal -> RealLike.ofSci mantissa sign exponent"""
    r = repr(float(v))
    if "e" in r or "E" in r:
        mant, exp = r.lower().split("e")
        exp = int(exp)
    else:
        mant, exp = r, 0
    neg = mant.startswith("-")
    if neg:
        mant = mant[1:]
    if "." in mant:
        ip, fp = mant.split(".")
    else:
        ip, fp = mant, ""
    digits = (ip + fp).lstrip("0") or "0"
    e10 = exp - len(fp)
    if e10 >= 0:
        s = f"(RealLike.ofSci {digits} false {e10})"
    else:
        s = f"(RealLike.ofSci {digits} true {-e10})"
    return f"(-{s})" if neg else s


@dataclass
class Val:
    code: str
    kind: str


@dataclass
class Env:
    kinds: Dict[str, str] = field(default_factory=dict)
    pending: Dict[str, str] = field(default_factory=dict)  # output arrays awaiting a map loop: name -> length code
    pw: bool = False            # pointwise mode: a vector name denotes its element at index `i_` (NumPy elementwise expressions)
    pw_mask: Optional[str] = None   # source text of the mask of a masked store: `X[mask]` denotes the element of X

    def copy(self) -> "Env":
        return Env(dict(self.kinds), dict(self.pending), self.pw, self.pw_mask)


VEC_ELEM = {"A": "R", "AB": "B", "AZ": "Z"}        # NumPy vectors: element kind
VEC_OF = {"R": "A", "B": "AB", "Z": "AZ", "N": "AZ"}
VEC_TY = {"A": "Arr α", "AB": "Arr Bool", "AZ": "Arr Int", "AAZ": "Arr (Arr Int)"}

UNARY_CALLS = {
    "cos": "RealLike.cos", "sin": "RealLike.sin", "sqrt": "RealLike.sqrt", "exp": "RealLike.exp",
    "log": "RealLike.log", "log10": "RealLike.log10", "arcsin": "RealLike.arcsin", "abs": "RealLike.abs",
}


class FnTranslator:
    """translate one Python function (scalar/loop subset) into one Lean definition"""

    def __init__(self, fn: ast.FunctionDef, sig: Dict[str, str], known: Dict[str, "FnInfo"], lean_name: str,
                 cuda_kernel: bool = False, out_arrays: Optional[List[str]] = None):
        self.fn = fn
        self.sig = sig
        self.known = known
        self.lean_name = lean_name
        self.cuda_kernel = cuda_kernel
        self.out_arrays = out_arrays or []
        self.tmp = 0
        self.prelude: List[str] = []
        self.uses_fuel = False
        self.stop_after_while: Optional[List[str]] = None
        self.lv: Dict[str, List[Tuple[str, str]]] = {}      # Python lists of vectors: name -> [(lean name, kind)]
        self.scalarised: set = set()  # array parameters read as ONE element (every use is elementwise along that axis: checked by construction)
        self.vector_mode = False    # whole-array NumPy statements (elementwise expressions, masked stores, np.select)

    # ---------- expressions ----------
    def expr(self, e: ast.AST, env: Env) -> Val:
        if isinstance(e, ast.Constant):
            if isinstance(e.value, bool):
                return Val("true" if e.value else "false", "B")
            if isinstance(e.value, int):
                return Val(str(e.value), "N" if e.value >= 0 else "Z")
            if isinstance(e.value, float):
                return Val(_lit_float(e.value), "R")
            if e.value is None:
                return Val("none", "NONE")
            raise Unsupported(f"constant {e.value!r}")
        if isinstance(e, ast.Name):
            if e.id not in env.kinds:
                raise Unsupported(f"line {e.lineno}: unknown variable {e.id}")
            if env.pw and env.kinds[e.id] in VEC_ELEM:
                return Val(f"({e.id}.get i_)", VEC_ELEM[env.kinds[e.id]])
            return Val(e.id, env.kinds[e.id])
        if isinstance(e, ast.UnaryOp) and isinstance(e.op, ast.Not):
            v = self.expr(e.operand, env)
            if v.kind != "B":
                raise Unsupported("not on non-bool")
            return Val(f"(!{v.code})", "B")
        if isinstance(e, ast.List) and not e.elts:
            return Val("[]", "EMPTYLIST")
        if isinstance(e, ast.UnaryOp) and isinstance(e.op, ast.USub):
            v = self.expr(e.operand, env)
            if v.kind == "R":
                return Val(f"(-{v.code})", "R")
            if v.kind in ("N", "Z"):
                return Val(f"(-({v.code} : Int))", "Z")
            raise Unsupported("unary minus on " + v.kind)
        if isinstance(e, ast.BinOp):
            return self.binop(e, env)
        if isinstance(e, ast.Compare):
            return self.compare(e, env)
        if isinstance(e, ast.BoolOp):
            vals = [self.expr(v, env) for v in e.values]
            if any(v.kind != "B" for v in vals):
                raise Unsupported("boolop on non-bool")
            op = " && " if isinstance(e.op, ast.And) else " || "
            return Val("(" + op.join(v.code for v in vals) + ")", "B")
        if isinstance(e, ast.Subscript):
            return self.subscript(e, env)
        if isinstance(e, ast.Attribute):
            return self.attribute(e, env)
        if isinstance(e, ast.Call):
            return self.call(e, env)
        if isinstance(e, ast.Tuple):
            vals = [self.expr(x, env) for x in e.elts]
            return Val("(" + ", ".join(v.code for v in vals) + ")", "T:" + ",".join(v.kind for v in vals))
        if isinstance(e, ast.IfExp):
            c, a, b = self.expr(e.test, env), self.expr(e.body, env), self.expr(e.orelse, env)
            if c.kind != "B":
                raise Unsupported("conditional expression on non-bool")
            if b.kind == "NONE" and a.kind in ("N", "Z"):
                return Val(f"(if {c.code} then some ({a.code} : Int) else none)", "OZ")
            if a.kind != b.kind:
                if {a.kind, b.kind} <= {"N", "Z"}:
                    a, b = self.coerce(a, "Z"), self.coerce(b, "Z")
                elif "R" in (a.kind, b.kind):
                    a, b = self.to_real(a), self.to_real(b)
                else:
                    raise Unsupported("conditional expression with branches of different kinds")
            return Val(f"(if {c.code} then {a.code} else {b.code})", a.kind)
        raise Unsupported(f"line {getattr(e, 'lineno', '?')}: expression {type(e).__name__}")

    LT_ALL = {"R": "α", "N": "Nat", "Z": "Int", "B": "Bool", "LR": "List α", "LZ": "List Int", "A": "Arr α", "A2": "Arr2 α", "IA": "Arr Nat",
              "AB": "Arr Bool", "AZ": "Arr Int", "FZ": "Int → Int", "OZ": "Option Int", "AAZ": "Arr (Arr Int)"}

    def coerce(self, v: Val, kind: str, lineno: int = 0) -> Val:
        if v.kind == kind:
            return v
        if kind == "R" and v.kind in ("N", "Z"):
            return self.to_real(v)
        if kind == "Z" and v.kind == "N":
            return Val(f"(({v.code} : Nat) : Int)", "Z")
        raise Unsupported(f"line {lineno}: cannot use a value of kind {v.kind} where {kind} is declared")

    def to_real(self, v: Val) -> Val:
        if v.kind == "R":
            return v
        if v.kind == "N":
            return Val(f"(RealLike.ofNat {v.code})", "R")
        if v.kind == "Z":
            return Val(f"(RealLike.ofInt {v.code})", "R")
        raise Unsupported("cannot coerce " + v.kind + " to real")

    def binop(self, e: ast.BinOp, env: Env) -> Val:
        a, b = self.expr(e.left, env), self.expr(e.right, env)
        op = e.op
        sym = {ast.Add: "+", ast.Sub: "-", ast.Mult: "*", ast.Div: "/"}.get(type(op))
        if a.kind == "A" and b.kind in ("R", "N", "Z") and isinstance(op, ast.Mult) and self.scalarised:
            return Val(f"(Arr.scale {a.code} {self.to_real(b).code})", "A")
        # array arithmetic (reducer)
        if a.kind == "A" or b.kind == "A":
            if a.kind == "A" and b.kind == "R" and isinstance(op, ast.Sub):
                return Val(f"(Arr.subS {a.code} {b.code})", "A")
            if a.kind == "A" and b.kind == "A" and isinstance(op, ast.Mult):
                return Val(f"(Arr.mul {a.code} {b.code})", "A")
            if a.kind == "A" and b.kind == "A" and isinstance(op, ast.Add):
                return Val(f"(Arr.add {a.code} {b.code})", "A")
            raise Unsupported(f"line {e.lineno}: array operation")
        if isinstance(op, ast.Mod):
            if isinstance(e.right, ast.Constant) and e.right.value == 1 and a.kind == "R":
                return Val(f"({a.code} - RealLike.ofInt (RealLike.floor {a.code}))", "R")   # Python float % 1 ∈ [0,1)
            raise Unsupported(f"line {e.lineno}: modulo other than `x % 1` on a real")
        if isinstance(op, ast.Pow) and isinstance(e.right, ast.Constant) and e.right.value == 2 and isinstance(e.right.value, int):
            a = self.to_real(a)          # NumPy evaluates x ** 2 on float arrays as x * x
            return Val(f"({a.code} * {a.code})", "R")
        if isinstance(op, ast.Pow):
            a, b = self.to_real(a), self.to_real(b)
            return Val(f"(RealLike.pow {a.code} {b.code})", "R")
        if isinstance(op, ast.FloorDiv):
            if a.kind in ("N", "Z") and b.kind in ("N", "Z"):
                return Val(f"(Int.fdiv ({a.code} : Int) ({b.code} : Int))", "Z")      # Python // on ints: floor division
            raise Unsupported(f"line {e.lineno}: floor division on reals")
        if sym is None:
            raise Unsupported(f"line {e.lineno}: operator {type(op).__name__}")
        if a.kind == "R" or b.kind == "R" or isinstance(op, ast.Div):
            a, b = self.to_real(a), self.to_real(b)
            return Val(f"({a.code} {sym} {b.code})", "R")
        if a.kind == "N" and b.kind == "N":
            if isinstance(op, ast.Sub):
                raise Unsupported(f"line {e.lineno}: natural subtraction")
            return Val(f"({a.code} {sym} {b.code})", "N")
        if a.kind in ("N", "Z") and b.kind in ("N", "Z"):
            return Val(f"(({a.code} : Int) {sym} ({b.code} : Int))", "Z")
        raise Unsupported(f"line {e.lineno}: binop kinds {a.kind},{b.kind}")

    def compare(self, e: ast.Compare, env: Env) -> Val:
        if len(e.ops) != 1:
            raise Unsupported("chained comparison")
        a, b = self.expr(e.left, env), self.expr(e.comparators[0], env)
        op = e.ops[0]
        if a.kind == "R" or b.kind == "R":
            a, b = self.to_real(a), self.to_real(b)
            f = {ast.Lt: "RealLike.lt", ast.LtE: "RealLike.le", ast.Gt: "RealLike.gt", ast.GtE: "RealLike.ge",
                 ast.Eq: "RealLike.beq", ast.NotEq: "RealLike.bne"}.get(type(op))
            if f is None:
                raise Unsupported("comparison op")
            return Val(f"({f} {a.code} {b.code})", "B")
        sym = {ast.Lt: "<", ast.LtE: "≤", ast.Gt: ">", ast.GtE: "≥", ast.Eq: "=", ast.NotEq: "≠"}.get(type(op))
        if sym is None:
            raise Unsupported("comparison op")
        if a.kind == "N" and b.kind == "N":
            return Val(f"(decide ({a.code} {sym} {b.code}))", "B")
        return Val(f"(decide (({a.code} : Int) {sym} ({b.code} : Int)))", "B")

    def subscript(self, e: ast.Subscript, env: Env) -> Val:
        if env.pw and env.pw_mask is not None and ast.unparse(e.slice) == env.pw_mask:
            return self.expr(e.value, env)          # X[mask] inside a masked store: the element of X at the stored index
        if (self.vector_mode and isinstance(e.value, ast.Name) and env.kinds.get(e.value.id) in ("A", "AZ")
                and not self.mentions_vector(e.slice, env)):
            e0 = env.copy()
            e0.pw = False
            idx = self.expr(e.slice, e0)
            if idx.kind != "N":
                raise Unsupported(f"line {e.lineno}: non-natural index")
            return Val(f"({e.value.id}.get {idx.code})", VEC_ELEM[env.kinds[e.value.id]])
        base = self.expr(e.value, env)
        if base.kind in ("A", "IA"):
            idx = self.expr(e.slice, env)
            if idx.kind != "N":
                raise Unsupported(f"line {e.lineno}: non-natural index")
            return Val(f"({base.code}.get {idx.code})", "R" if base.kind == "A" else "N")
        if base.kind == "A2":
            if not (isinstance(e.slice, ast.Tuple) and len(e.slice.elts) == 2):
                raise Unsupported("2-D index")
            i, j = (self.expr(x, env) for x in e.slice.elts)
            if i.kind != "N" or j.kind != "N":
                raise Unsupported("non-natural 2-D index")
            return Val(f"({base.code}.get {i.code} {j.code})", "R")
        if base.kind == "SHAPE":
            if isinstance(e.slice, ast.Constant) and e.slice.value in (0, 1):
                return Val(f"{base.code}.{'n' if e.slice.value == 0 else 'm'}", "N")
        raise Unsupported(f"line {e.lineno}: subscript of {base.kind}")

    def attribute(self, e: ast.Attribute, env: Env) -> Val:
        if isinstance(e.value, ast.Name) and e.value.id in ("np", "math", "_np") and e.attr == "pi":
            return Val("RealLike.pi", "R")
        if isinstance(e.value, ast.Name) and e.value.id == "self" and f"self.{e.attr}" in self.sig:
            return Val(e.attr, self.sig[f"self.{e.attr}"])
        if e.attr == "size" and isinstance(e.value, ast.Name) and e.value.id in self.scalarised:
            return Val("1", "SZ")            # the length of the broadcast axis: only legal inside np.zeros / np.ones shapes
        if e.attr == "T" and isinstance(e.value, ast.Name) and env.kinds.get(e.value.id) == "A" and self.scalarised:
            return Val(e.value.id, "A")      # (taps, shifts).T with the shift axis scalarised: the tap vector itself
        if e.attr in ("shape",):
            b = self.expr(e.value, env)
            if b.kind in ("A", "A2", "IA"):
                return Val(b.code, "SHAPE")
        if e.attr == "size":
            b = self.expr(e.value, env)
            if b.kind in ("A", "IA"):
                return Val(f"{b.code}.n", "N")
        raise Unsupported(f"line {e.lineno}: attribute .{e.attr}")

    def call(self, e: ast.Call, env: Env) -> Val:
        f = e.func
        name = None
        if isinstance(f, ast.Attribute) and isinstance(f.value, ast.Name) and f.value.id in ("np", "math", "_np"):
            name = f.attr
        elif isinstance(f, ast.Name):
            name = f.id
        if name in UNARY_CALLS and len(e.args) == 1:
            v = self.to_real(self.expr(e.args[0], env))
            return Val(f"({UNARY_CALLS[name]} {v.code})", "R")
        np_call = isinstance(f, ast.Attribute) and isinstance(f.value, ast.Name) and f.value.id in ("np", "_np")
        if np_call and name == "searchsorted" and len(e.args) == 2 and isinstance(e.args[0], ast.Name):
            kws = {k.arg: ast.unparse(k.value) for k in e.keywords}
            if kws != {"side": "'left'"} or env.kinds.get(e.args[0].id) != "A":
                raise Unsupported(f"line {e.lineno}: np.searchsorted form")
            e0 = env.copy()
            e0.pw = False
            v = self.to_real(self.expr(e.args[1], e0))
            return Val(f"(Np.searchsortedLeft {e.args[0].id} {v.code})", "N")
        if name == "len" and len(e.args) == 1 and isinstance(e.args[0], ast.Name) and env.kinds.get(e.args[0].id) in VEC_ELEM:
            return Val(f"{e.args[0].id}.n", "N")
        if env.pw and np_call and name == "arange" and len(e.args) == 1 and not e.keywords:
            return Val("i_", "N")                                   # element i of arange(k) is i
        if env.pw and np_call and name == "divide" and len(e.args) == 2:
            kws = {k.arg: k.value for k in e.keywords}
            if set(kws) != {"out", "where"} or not re_fullmatch(r"np\.zeros_like\(\w+, dtype=float\)", ast.unparse(kws["out"])):
                raise Unsupported(f"line {e.lineno}: np.divide form")
            a, b = self.to_real(self.expr(e.args[0], env)), self.to_real(self.expr(e.args[1], env))
            c = self.expr(kws["where"], env)
            if c.kind != "B":
                raise Unsupported(f"line {e.lineno}: np.divide where= kind")
            return Val(f"(if {c.code} then ({a.code} / {b.code}) else (RealLike.ofNat 0))", "R")   # untouched entries keep out's zeros
        if env.pw and np_call and name == "round" and len(e.args) == 1:
            v = self.to_real(self.expr(e.args[0], env))          # np.round keeps the float dtype
            return Val(f"((RealLike.ofInt (RealLike.roundEven {v.code})) : α)", "R")
        if env.pw and np_call and name == "clip" and len(e.args) == 3:
            x, lo, hi = (self.to_real(self.expr(a, env)) for a in e.args)   # np.clip = minimum(maximum(x, lo), hi)
            return Val(f"(RealLike.min (RealLike.max {x.code} {lo.code}) {hi.code})", "R")
        if env.pw and np_call and name in ("minimum", "maximum") and len(e.args) == 2:
            a, b = self.expr(e.args[0], env), self.expr(e.args[1], env)
            if a.kind in ("N", "Z") and b.kind in ("N", "Z"):
                op = "≤" if name == "minimum" else "≥"
                return Val(f"(if ({a.code} : Int) {op} ({b.code} : Int) then ({a.code} : Int) else ({b.code} : Int))", "Z")
            a, b = self.to_real(a), self.to_real(b)
            return Val(f"(RealLike.{'min' if name == 'minimum' else 'max'} {a.code} {b.code})", "R")
        if env.pw and np_call and name == "select" and len(e.args) == 2:
            kws = {k.arg: k.value for k in e.keywords}
            if set(kws) != {"default"} or not all(isinstance(a, ast.Name) and a.id in self.lv for a in e.args):
                raise Unsupported(f"line {e.lineno}: np.select form")
            conds, vals = self.lv[e.args[0].id], self.lv[e.args[1].id]
            if len(conds) != len(vals) or any(k != "AB" for _, k in conds) or any(k != "A" for _, k in vals):
                raise Unsupported(f"line {e.lineno}: np.select lists")
            code = self.to_real(self.expr(kws["default"], env)).code
            for (c, _), (v, _) in reversed(list(zip(conds, vals))):      # first true condition wins
                code = f"(if ({c}.get i_) then ({v}.get i_) else {code})"
            return Val(code, "R")
        if env.pw and isinstance(f, ast.Attribute) and f.attr == "astype" and len(e.args) == 1 and ast.unparse(e.args[0]) in ("np.int64", "int"):
            v = self.expr(f.value, env)
            if v.kind in ("N", "Z"):
                return v
            if v.kind == "R":
                return Val(f"(RealLike.trunc {v.code})", "Z")
            raise Unsupported(f"line {e.lineno}: astype of {v.kind}")
        if name == "int" and len(e.args) == 1:
            v = self.expr(e.args[0], env)
            if v.kind in ("N", "Z"):
                return v
            if v.kind == "R":
                return Val(f"(RealLike.trunc {v.code})", "Z")
            raise Unsupported("int() of " + v.kind)
        if name == "ceil" and len(e.args) == 1:
            v = self.to_real(self.expr(e.args[0], env))
            return Val(f"(RealLike.ceil {v.code})", "Z")
        if name == "round" and len(e.args) == 1:
            v = self.expr(e.args[0], env)
            if v.kind in ("N", "Z"):
                return v
            return Val(f"(RealLike.roundEven {v.code})", "Z")
        if name in ("min", "max") and len(e.args) == 2:
            a, b = self.expr(e.args[0], env), self.expr(e.args[1], env)
            if a.kind in ("N", "Z") and b.kind in ("N", "Z"):
                op = "≤" if name == "min" else "≥"
                return Val(f"(if ({a.code} : Int) {op} ({b.code} : Int) then ({a.code} : Int) else ({b.code} : Int))", "Z")
            raise Unsupported(f"{name} on reals")
        if name == "float" and len(e.args) == 1:
            return self.to_real(self.expr(e.args[0], env))
        if name == "mean" and len(e.args) == 1:
            v = self.expr(e.args[0], env)
            if v.kind != "A":
                raise Unsupported("np.mean of non-array")
            return Val(f"(Arr.mean {v.code})", "R")
        fu = ast.unparse(f)
        if fu in ("cuda.to_device", "np.ascontiguousarray") and e.args:
            for kw in e.keywords:
                if not (kw.arg == "dtype" and ast.unparse(kw.value) in ("np.float64", "np.int64")):
                    raise Unsupported(f"line {e.lineno}: {fu} keyword {kw.arg}")
            return self.expr(e.args[0], env)
        if isinstance(f, ast.Attribute) and f.attr in ("copy_to_host", "copy") and not e.args:
            v = self.expr(f.value, env)
            if v.kind not in ("A", "A2", "IA"):
                raise Unsupported(f"line {e.lineno}: .{f.attr}() of a non-array")
            return v          # arrays are values in the model: a copy is the same value
        if isinstance(f, ast.Name) and env.kinds.get(f.id) == "FZ" and len(e.args) == 1 and not e.keywords:
            a = self.expr(e.args[0], env)
            if a.kind not in ("N", "Z"):
                raise Unsupported(f"line {e.lineno}: argument of {f.id}")
            return Val(f"({f.id} ({a.code} : Int))", "Z")
        if name in self.known:
            info = self.known[name]
            args = [self.expr(a, env) for a in e.args]
            if len(args) != len(info.param_kinds):
                raise Unsupported(f"line {e.lineno}: arity of {name}")
            codes = []
            for a, k in zip(args, info.param_kinds):
                if k == "R":
                    a = self.to_real(a)
                if a.kind != k:
                    raise Unsupported(f"line {e.lineno}: argument kind {a.kind} for {k} in {name}")
                codes.append(a.code)
            return Val(f"({info.lean_name} " + " ".join(codes) + ")", info.ret_kind)
        raise Unsupported(f"line {e.lineno}: call {ast.unparse(e.func)}")

    # ---------- NumPy vector expressions ----------
    def mentions_vector(self, e: ast.AST, env: Env) -> bool:
        """does the expression denote / combine whole vectors (as opposed to reading single elements)?"""
        if not self.vector_mode:
            return False
        if isinstance(e, ast.ListComp):
            return True
        if isinstance(e, ast.Name):
            return env.kinds.get(e.id) in VEC_ELEM or e.id in getattr(self, "lv", {})
        if isinstance(e, ast.Subscript):
            if isinstance(e.value, ast.Name) and env.kinds.get(e.value.id) in VEC_ELEM:
                return self.mentions_vector(e.slice, env)          # X[i] is a scalar, X[mask] a vector
            return self.mentions_vector(e.value, env) or self.mentions_vector(e.slice, env)
        if isinstance(e, ast.Call):
            fu = ast.unparse(e.func)
            if fu in ("len", "np.searchsorted"):
                return False
            if fu in ("np.logspace", "np.arange"):
                return True
            if fu == "np.array" and e.args and isinstance(e.args[0], ast.List):
                return True
            parts = list(e.args) + [k.value for k in e.keywords]
            if isinstance(e.func, ast.Attribute) and not isinstance(e.func.value, ast.Name):
                parts.append(e.func.value)
            elif isinstance(e.func, ast.Attribute) and isinstance(e.func.value, ast.Name) and e.func.value.id not in ("np", "math", "_np"):
                parts.append(e.func.value)
            return any(self.mentions_vector(x, env) for x in parts)
        return any(self.mentions_vector(c, env) for c in ast.iter_child_nodes(e) if isinstance(c, ast.expr))

    def vec_len(self, e: ast.AST, env: Env) -> str:
        for n in ast.walk(e):
            if isinstance(n, ast.Call) and ast.unparse(n.func) == "np.arange" and len(n.args) == 1 and not n.keywords:
                e0 = env.copy()
                e0.pw = False
                k = self.expr(n.args[0], e0)
                if k.kind == "N":
                    return k.code
                if k.kind == "Z":
                    return f"(Int.toNat {k.code})"
                raise Unsupported(f"line {n.lineno}: np.arange bound kind")
        for n in ast.walk(e):
            if isinstance(n, ast.Name) and env.kinds.get(n.id) in VEC_ELEM:
                return f"{n.id}.n"
            if isinstance(n, ast.Name) and n.id in self.lv:
                return f"{self.lv[n.id][0][0]}.n"
        raise Unsupported(f"line {getattr(e, 'lineno', '?')}: vector expression without a vector operand")

    def vector_value(self, e: ast.AST, env: Env) -> Val:
        """whole-vector expression -> a (memoised) Arr"""
        if isinstance(e, ast.Call) and ast.unparse(e.func) == "np.logspace":
            if len(e.args) != 3 or e.keywords:
                raise Unsupported(f"line {e.lineno}: np.logspace form")
            a, b = (self.to_real(self.expr(x, env)) for x in e.args[:2])
            n = self.expr(e.args[2], env)
            if n.kind == "Z":
                n = Val(f"(Int.toNat {n.code})", "N")
            if n.kind != "N":
                raise Unsupported(f"line {e.lineno}: np.logspace count")
            return Val(f"(Arr.memo (Np.logspace {a.code} {b.code} {n.code}))", "A")
        if (isinstance(e, ast.Call) and ast.unparse(e.func) == "np.array" and len(e.args) == 1 and isinstance(e.args[0], ast.List)
                and {k.arg: ast.unparse(k.value) for k in e.keywords} == {"dtype": "np.int64"}
                and all(isinstance(x, ast.Constant) and isinstance(x.value, int) and not isinstance(x.value, bool) for x in e.args[0].elts)):
            vals = [x.value for x in e.args[0].elts]
            lit = "[" + ", ".join(f"({v} : Int)" for v in vals) + "]"
            return Val(f"(⟨{len(vals)}, fun i_ => ({lit} : List Int).getD i_ 0⟩ : Arr Int)", "AZ")
        if isinstance(e, ast.ListComp):
            # [vec_expr(k, s, …) for k, s, … in zip(K, S, …)]  ->  one vector per position j_
            if len(e.generators) != 1 or e.generators[0].ifs or e.generators[0].is_async:
                raise Unsupported(f"line {e.lineno}: list comprehension form")
            g = e.generators[0]
            it = g.iter
            if not (isinstance(it, ast.Call) and ast.unparse(it.func) == "zip" and isinstance(g.target, ast.Tuple)
                    and len(g.target.elts) == len(it.args) and all(isinstance(t, ast.Name) for t in g.target.elts)
                    and all(isinstance(a, ast.Name) and env.kinds.get(a.id) in VEC_ELEM for a in it.args)):
                raise Unsupported(f"line {e.lineno}: list comprehension must iterate zip(<vectors>) into names")
            e2 = env.copy()
            lets = ""
            for t, a in zip(g.target.elts, it.args):
                ek = VEC_ELEM[env.kinds[a.id]]
                e2.kinds[t.id] = ek
                lets += f"let {t.id} : {self.LT_ALL[ek]} := {a.id}.get j_; "
            inner = self.vector_value(e.elt, e2)
            if inner.kind != "AZ":
                raise Unsupported(f"line {e.lineno}: list comprehension element kind {inner.kind}")
            return Val(f"(⟨{it.args[0].id}.n, fun j_ => {lets}{inner.code}⟩ : Arr (Arr Int))", "AAZ")
        ln = self.vec_len(e, env)
        e2 = env.copy()
        e2.pw = True
        v = self.expr(e, e2)
        if v.kind not in VEC_OF:
            raise Unsupported(f"line {getattr(e, 'lineno', '?')}: vector element kind {v.kind}")
        code = v.code if v.kind != "N" else f"(({v.code} : Nat) : Int)"
        return Val(f"(Arr.memo ⟨{ln}, fun i_ => {code}⟩)", VEC_OF[v.kind])

    # ---------- statements ----------
    def assigned_names(self, stmts: List[ast.stmt]) -> List[str]:
        out: List[str] = []
        for s in stmts:
            for n in ast.walk(s):
                if isinstance(n, (ast.Assign, ast.AugAssign)):
                    tgts = n.targets if isinstance(n, ast.Assign) else [n.target]
                    for t in tgts:
                        for t1 in (t.elts if isinstance(t, ast.Tuple) else [t]):
                            if isinstance(t1, ast.Name) and t1.id not in out:
                                out.append(t1.id)
                # `lst.append(x)` updates lst
                if (isinstance(n, ast.Call) and isinstance(n.func, ast.Attribute) and n.func.attr == "append"
                        and isinstance(n.func.value, ast.Name) and n.func.value.id not in out):
                    out.append(n.func.value.id)
        return out

    def stores(self, stmts: List[ast.stmt]) -> List[ast.Assign]:
        out = []
        for s in stmts:
            if isinstance(s, ast.Assign) and isinstance(s.targets[0], ast.Subscript):
                out.append(s)
            elif isinstance(s, (ast.For, ast.If, ast.While)):
                for n in ast.walk(s):
                    if n is not s and isinstance(n, ast.Assign) and isinstance(n.targets[0], ast.Subscript):
                        out.append(n)
        return out

    def block(self, stmts: List[ast.stmt], env: Env, ind: str, final) -> str:
        """emit `let`s for stmts then final(env) (a string expression)."""
        if not stmts:
            return ind + final(env)
        s, rest = stmts[0], stmts[1:]
        if isinstance(s, ast.Expr) and isinstance(s.value, ast.Constant) and isinstance(s.value.value, str):
            return self.block(rest, env, ind, final)  # docstring
        if isinstance(s, ast.Pass):
            return self.block(rest, env, ind, final)
        if isinstance(s, ast.FunctionDef):
            sub = FnTranslator(s, {a.arg: "R" for a in s.args.args}, self.known, f"{self.lean_name}__{s.name}")
            s.__dict__["_file"] = self.fn.__dict__.get("_file", "")
            text, info = sub.translate()
            self.prelude.append(text)
            self.known = dict(self.known)
            self.known[s.name] = info
            return self.block(rest, env, ind, final)
        if isinstance(s, ast.Assign) and "_require_args(" in ast.unparse(s.value):
            return self.block(rest, env, ind, final)          # parameters come from the signature table
        if (isinstance(s, ast.Assign) and len(s.targets) == 1 and isinstance(s.targets[0], ast.Tuple) and isinstance(s.value, ast.Subscript)
                and isinstance(s.value.value, ast.Name) and env.kinds.get(s.value.value.id) == "A2"):
            # a0, a1 = M[i]  -> the entries of row i
            row = self.expr(s.value.slice, env)
            if row.kind != "N" or not all(isinstance(t, ast.Name) for t in s.targets[0].elts):
                raise Unsupported(f"line {s.lineno}: row unpacking")
            out = ""
            env = env.copy()
            for c, t in enumerate(s.targets[0].elts):
                out += f"{ind}let {t.id} : α := {s.value.value.id}.get {row.code} {c}\n"
                env.kinds[t.id] = "R"
            return out + self.block(rest, env, ind, final)
        if (isinstance(s, ast.Assign) and len(s.targets) == 1 and isinstance(s.targets[0], ast.Subscript)
                and isinstance(s.targets[0].value, ast.Name) and env.kinds.get(s.targets[0].value.id) in VEC_ELEM
                and s.targets[0].value.id not in env.pending and self.mentions_vector(s.targets[0].slice, env)):
            # masked store  X[mask] = value  (value may read Y[mask] with the same mask, or be a scalar)
            tgt = s.targets[0]
            name = tgt.value.id
            e2 = env.copy()
            e2.pw = True
            m = self.expr(tgt.slice, e2)
            if m.kind != "B":
                raise Unsupported(f"line {s.lineno}: store through a non-boolean index vector")
            e2.pw_mask = ast.unparse(tgt.slice)
            v = self.expr(s.value, e2)
            ek = VEC_ELEM[env.kinds[name]]
            v = self.coerce(v, ek, s.lineno)
            code = f"{ind}let {name} : {VEC_TY[env.kinds[name]]} := Arr.memo ⟨{name}.n, fun i_ => if {m.code} then {v.code} else ({name}.get i_)⟩\n"
            return code + self.block(rest, env, ind, final)
        if (isinstance(s, ast.Assign) and len(s.targets) == 1 and isinstance(s.targets[0], ast.Name) and isinstance(s.value, ast.List)
                and s.value.elts and all(self.mentions_vector(x, env) for x in s.value.elts)):
            # a Python list of vectors (np.select's conditions / choices): one named vector per element
            name = s.targets[0].id
            out = ""
            items = []
            for k, x in enumerate(s.value.elts):
                v = self.vector_value(x, env)
                out += f"{ind}let {name}__{k} : {VEC_TY[v.kind]} := {v.code}\n"
                items.append((f"{name}__{k}", v.kind))
            self.lv[name] = items
            return out + self.block(rest, env, ind, final)
        if (isinstance(s, ast.Assign) and len(s.targets) == 1 and isinstance(s.targets[0], ast.Name)
                and self.mentions_vector(s.value, env)):
            name = s.targets[0].id
            v = self.vector_value(s.value, env)
            env = env.copy()
            env.kinds[name] = v.kind
            return f"{ind}let {name} : {VEC_TY[v.kind]} := {v.code}\n" + self.block(rest, env, ind, final)
        if (isinstance(s, ast.Assign) and len(s.targets) == 1 and isinstance(s.targets[0], ast.Subscript)
                and isinstance(s.targets[0].value, ast.Name) and env.kinds.get(s.targets[0].value.id) in ("A", "A2")
                and s.targets[0].value.id not in env.pending):
            tgt = s.targets[0]
            name = tgt.value.id
            v = self.to_real(self.expr(s.value, env))
            if env.kinds[name] == "A":
                i = self.expr(tgt.slice, env)
                if i.kind == "Z":
                    i = Val(f"(Np.pyIndex {name}.n {i.code})", "N")        # Python index: negative counts from the end
                if i.kind != "N":
                    raise Unsupported(f"line {s.lineno}: store index kind")
                code = f"{ind}let {name} : Arr α := Arr.set {name} {i.code} {v.code}\n"
            else:
                if not (isinstance(tgt.slice, ast.Tuple) and len(tgt.slice.elts) == 2):
                    raise Unsupported(f"line {s.lineno}: 2-D store index")
                i, j = (self.expr(x, env) for x in tgt.slice.elts)
                if i.kind != "N" or j.kind != "N":
                    raise Unsupported(f"line {s.lineno}: store index kind")
                code = f"{ind}let {name} : Arr2 α := Arr2.set {name} {i.code} {j.code} {v.code}\n"
            return code + self.block(rest, env, ind, final)
        if isinstance(s, ast.Assign) and len(s.targets) == 1 and isinstance(s.targets[0], ast.Tuple) and isinstance(s.value, ast.Tuple):
            tg, vs = s.targets[0].elts, s.value.elts
            if len(tg) != len(vs) or not all(isinstance(t, ast.Name) for t in tg):
                raise Unsupported(f"line {s.lineno}: tuple assignment shape")
            names = {t.id for t in tg}
            for v in vs:
                for n in ast.walk(v):
                    if isinstance(n, ast.Name) and n.id in names:
                        raise Unsupported(f"line {s.lineno}: simultaneous assignment reading its own targets")
            seq = [ast.Assign(targets=[t], value=v, lineno=s.lineno) for t, v in zip(tg, vs)]
            return self.block(seq + rest, env, ind, final)
        if (isinstance(s, ast.Expr) and isinstance(s.value, ast.Call) and isinstance(s.value.func, ast.Attribute)
                and s.value.func.attr == "append" and isinstance(s.value.func.value, ast.Name) and len(s.value.args) == 1):
            lst = s.value.func.value.id
            if env.kinds.get(lst) not in ("LR", "LZ"):
                raise Unsupported(f"line {s.lineno}: append to {lst} which is not a declared list")
            v = self.coerce(self.expr(s.value.args[0], env), "R" if env.kinds[lst] == "LR" else "Z", s.lineno)
            return f"{ind}let {lst} : {self.LT_ALL[env.kinds[lst]]} := {lst} ++ [{v.code}]\n" + self.block(rest, env, ind, final)
        if isinstance(s, ast.While):
            return self.while_loop(s, rest, env, ind, final)
        if isinstance(s, ast.Return):
            if rest:
                raise Unsupported("code after return")
            v = self.expr(s.value, env)
            self.ret_kind = v.kind
            return ind + v.code
        if (isinstance(s, ast.Assign) and len(s.targets) == 1 and isinstance(s.targets[0], ast.Name)
                and "THREADS_PER_BLOCK" in ast.unparse(s.value)):
            # blocks = (K + THREADS_PER_BLOCK - 1) // THREADS_PER_BLOCK : enough blocks to cover every j < K
            m = ast.unparse(s.value)
            import re as _re
            mm = _re.fullmatch(r"\((\w+) \+ THREADS_PER_BLOCK - 1\) // THREADS_PER_BLOCK", m)
            if not mm or env.kinds.get(mm.group(1)) != "N":
                raise Unsupported(f"line {s.lineno}: grid size expression {m}")
            self.blocks = (s.targets[0].id, mm.group(1))
            return self.block(rest, env, ind, final)
        if isinstance(s, ast.Expr) and isinstance(s.value, ast.Call) and isinstance(s.value.func, ast.Subscript):
            return self.launch(s.value, rest, env, ind, final)
        if isinstance(s, ast.Assign) and len(s.targets) == 1 and isinstance(s.targets[0], ast.Name):
            name = s.targets[0].id
            if self.scalarised and isinstance(s.value, ast.Call) and ast.unparse(s.value.func) in ("np.zeros", "np.ones") and s.value.args:
                shp = s.value.args[0]
                fill = "RealLike.ofNat 0" if ast.unparse(s.value.func) == "np.zeros" else "RealLike.ofNat 1"
                dims = shp.elts if isinstance(shp, ast.Tuple) else [shp]
                kinds_ = [self.expr(d_, env) for d_ in dims]
                if [k.kind for k in kinds_[-1:]] == ["SZ"] and len(dims) == 1:
                    env = env.copy()
                    env.kinds[name] = "R"
                    return f"{ind}let {name} : α := ({fill})\n" + self.block(rest, env, ind, final)
                if len(dims) == 2 and kinds_[1].kind == "SZ" and kinds_[0].kind in ("N", "Z"):
                    n_ = kinds_[0].code if kinds_[0].kind == "N" else f"(Int.toNat {kinds_[0].code})"
                    env = env.copy()
                    env.kinds[name] = "A"
                    return f"{ind}let {name} : Arr α := ⟨{n_}, fun _ => ({fill})⟩\n" + self.block(rest, env, ind, final)
            alloc = self.allocation(s.value, env)
            if alloc is not None:
                env = env.copy()
                env.pending[name] = alloc
                return self.block(rest, env, ind, final)
            v = self.expr(s.value, env)
            if v.kind == "SHAPE":
                raise Unsupported("bare shape")
            declared = self.sig.get(name) if name not in [a.arg for a in self.fn.args.args] else None
            if v.kind == "EMPTYLIST":
                if declared not in ("LR", "LZ"):
                    raise Unsupported(f"line {s.lineno}: empty list {name} without a declared element kind")
                v = Val("[]", declared)
            elif declared is not None:
                v = self.coerce(v, declared, s.lineno)
            elif name in env.kinds and env.kinds[name] != v.kind:
                v = self.coerce(v, env.kinds[name], s.lineno)
            env = env.copy()
            env.kinds[name] = v.kind
            ty = {"R": " : α", "N": " : Nat", "Z": " : Int", "B": " : Bool", "LR": " : List α", "LZ": " : List Int"}.get(v.kind, "")
            return f"{ind}let {name}{ty} := {v.code}\n" + self.block(rest, env, ind, final)
        if isinstance(s, ast.AugAssign) and isinstance(s.target, ast.Name):
            fake = ast.Assign(targets=[s.target], value=ast.BinOp(left=ast.Name(id=s.target.id, ctx=ast.Load(), lineno=s.lineno),
                                                                  op=s.op, right=s.value, lineno=s.lineno), lineno=s.lineno)
            return self.block([fake] + rest, env, ind, final)
        if isinstance(s, ast.For):
            return self.for_loop(s, rest, env, ind, final)
        if isinstance(s, ast.If):
            return self.if_stmt(s, rest, env, ind, final)
        raise Unsupported(f"line {s.lineno}: statement {type(s).__name__}")

    def while_loop(self, s: ast.While, rest, env: Env, ind: str, final) -> str:
        """`while cond: body` -> whileFuel fuel cond body state, state = variables assigned in the body that exist before it"""
        if s.orelse:
            raise Unsupported(f"line {s.lineno}: while/else")
        brk = [i for i, st_ in enumerate(s.body) if isinstance(st_, ast.If) and len(st_.body) == 1 and isinstance(st_.body[0], ast.Break)
               and not st_.orelse]
        if brk and "brk__" not in env.kinds:
            # while C: A; if c: break; B   ==   brk = False; while (not brk) and C: A; if c: brk = True else: B
            i = brk[0]
            mk = lambda src: ast.parse(src).body[0]
            flag = mk("brk__ = True")
            new_if = ast.If(test=s.body[i].test, body=[flag], orelse=list(s.body[i + 1:]) or [ast.Pass()])
            new_test = ast.BoolOp(op=ast.And(), values=[ast.UnaryOp(op=ast.Not(), operand=ast.Name(id="brk__", ctx=ast.Load())), s.test])
            new_while = ast.While(test=new_test, body=list(s.body[:i]) + [new_if], orelse=[])
            init = mk("brk__ = False")
            for n_ in (new_while, init):
                ast.copy_location(n_, s)
                ast.fix_missing_locations(n_)
            return self.block([init, new_while] + list(rest), env, ind, final)
        for st_ in ast.walk(ast.Module(body=s.body, type_ignores=[])):
            if isinstance(st_, ast.Break):
                raise Unsupported(f"line {s.lineno}: break in an unsupported position")
        assigned = self.assigned_names(s.body)
        for st in ast.walk(ast.Module(body=s.body, type_ignores=[])):
            if (isinstance(st, ast.Call) and isinstance(st.func, ast.Attribute) and st.func.attr == "append"
                    and isinstance(st.func.value, ast.Name) and st.func.value.id not in assigned):
                assigned.append(st.func.value.id)
        carried = sorted(n for n in assigned if n in env.kinds)
        if not carried:
            raise Unsupported(f"line {s.lineno}: while loop with no effect")
        self.uses_fuel = True
        self.tmp += 1
        st = f"ws{self.tmp}"
        tys = " × ".join(self.LT_ALL[env.kinds[n]] for n in carried)
        inner = env.copy()

        def fin(e2: Env) -> str:
            for n in carried:
                if e2.kinds[n] != env.kinds[n]:
                    raise Unsupported(f"line {s.lineno}: loop variable {n} changes kind ({env.kinds[n]} -> {e2.kinds[n]})")
            return "(" + ", ".join(carried) + ")" if len(carried) > 1 else carried[0]
        cond = self.expr(s.test, inner)
        if cond.kind != "B":
            raise Unsupported("while condition kind")
        body_code = self.block(s.body, inner, ind + "    ", fin)
        init = "(" + ", ".join(carried) + ")" if len(carried) > 1 else carried[0]
        out = f"{ind}let {st} : {tys} := (whileFuel fuel\n"
        out += f"{ind}  (fun ({st} : {tys}) =>\n" + self.unpack(st, carried, ind + "    ") + f"{ind}    {cond.code})\n"
        out += f"{ind}  (fun ({st} : {tys}) =>\n" + self.unpack(st, carried, ind + "    ") + body_code + f")\n{ind}  {init}).1\n"
        out += self.unpack(st, carried, ind)
        if self.stop_after_while is not None:
            vals = [self.expr(ast.Name(id=n, ctx=ast.Load(), lineno=s.lineno), env) for n in self.stop_after_while]
            self.ret_kind = "T:" + ",".join(v.kind for v in vals)
            return out + ind + "(" + ", ".join(v.code for v in vals) + ")"
        return out + self.block(rest, env, ind, final)

    def launch(self, call: ast.Call, rest, env: Env, ind: str, final) -> str:
        """kernel[blocks, THREADS_PER_BLOCK](args…): one thread per j < K, each writing index j of the output arrays"""
        sub = call.func
        if not (isinstance(sub.value, ast.Name) and isinstance(sub.slice, ast.Tuple) and len(sub.slice.elts) == 2):
            raise Unsupported(f"line {call.lineno}: kernel launch shape")
        kname = sub.value.id
        cfg = [ast.unparse(x) for x in sub.slice.elts]
        blocks = getattr(self, "blocks", None)
        if blocks is None or cfg != [blocks[0], "THREADS_PER_BLOCK"]:
            raise Unsupported(f"line {call.lineno}: launch configuration {cfg}")
        if kname not in self.known:
            raise Unsupported(f"line {call.lineno}: unknown kernel {kname}")
        info = self.known[kname]
        ins, outs = [], []
        for a in call.args:
            if isinstance(a, ast.Name) and a.id in env.pending:
                outs.append(a.id)
            else:
                if outs:
                    raise Unsupported(f"line {call.lineno}: input after output argument")
                ins.append(self.expr(a, env))
        if len(ins) + 1 != len(info.param_kinds) or len(outs) != len(info.ret_kind[2:].split(",")):
            raise Unsupported(f"line {call.lineno}: kernel arity")
        codes = []
        for a, k in zip(ins, info.param_kinds[:-1]):
            if k == "R":
                a = self.to_real(a)
            if a.kind != k:
                raise Unsupported(f"line {call.lineno}: kernel argument kind {a.kind} for {k}")
            codes.append(a.code)
        for o in outs:
            if env.pending[o] != blocks[1]:
                raise Unsupported(f"line {call.lineno}: output array {o} length {env.pending[o]} != grid extent {blocks[1]}")
        self.tmp += 1
        bname = f"body{self.tmp}"
        out = f"{ind}let {bname} := fun (j : Nat) => {info.lean_name} " + " ".join(codes) + " j\n"
        env = env.copy()
        for i, a in enumerate(outs):
            proj = f"({bname} j)" + "".join(".2" for _ in range(i)) + (".1" if i < len(outs) - 1 else "")
            out += f"{ind}let {a} : Arr α := ⟨{env.pending[a]}, fun j => {proj}⟩\n"
            env.kinds[a] = "A"
            del env.pending[a]
        return out + self.block(rest, env, ind, final)

    def allocation(self, e: ast.AST, env: Env) -> Optional[str]:
        """np.empty(K, ..) / np.zeros(p, ..) / cuda.local.array(3, ..) -> length code"""
        if isinstance(e, ast.Call):
            fn = ast.unparse(e.func)
            if fn in ("np.empty", "np.zeros", "cuda.local.array", "cuda.device_array") and e.args:
                n = self.expr(e.args[0], env)
                if n.kind != "N":
                    raise Unsupported("allocation length")
                return n.code
        return None

    def if_stmt(self, s: ast.If, rest, env: Env, ind: str, final) -> str:
        c = self.expr(s.test, env)
        if c.kind != "B":
            raise Unsupported("if condition kind")
        # early return
        if s.body and isinstance(s.body[-1], ast.Return) and not s.orelse:
            then_code = self.block(s.body, env, ind + "  ", None)
            else_code = self.block(rest, env, ind + "  ", final)
            return f"{ind}if {c.code} then\n{then_code}\n{ind}else\n{else_code}"
        # exported names: defined before, or assigned in both branches; others are branch-local temporaries
        names = [n for n in self.assigned_names(s.body + s.orelse)
                 if n in env.kinds or (n in self.assigned_names(s.body) and n in self.assigned_names(s.orelse))]
        if not names:
            raise Unsupported(f"line {s.lineno}: if statement with no effect")
        if self.stores(s.body + s.orelse):
            raise Unsupported(f"line {s.lineno}: array store inside if")
        kinds: Dict[str, str] = {}

        def fin(e2: Env) -> str:
            for n in names:
                kinds.setdefault(n, e2.kinds[n])
                if kinds[n] != e2.kinds[n]:
                    raise Unsupported(f"line {s.lineno}: {n} has different kinds in branches")
            return "(" + ", ".join(names) + ")" if len(names) != 1 else names[0]
        then_code = self.block(s.body, env, ind + "    ", fin)
        else_code = self.block(s.orelse, env, ind + "    ", fin)
        env = env.copy()
        for n in names:
            env.kinds[n] = kinds[n]
        self.tmp += 1
        t = f"br{self.tmp}"
        out = f"{ind}let {t} :=\n{ind}  if {c.code} then\n{then_code}\n{ind}  else\n{else_code}\n"
        out += self.unpack(t, names, ind)
        return out + self.block(rest, env, ind, final)

    def unpack(self, t: str, names: List[str], ind: str) -> str:
        if len(names) == 1:
            return f"{ind}let {names[0]} := {t}\n"
        out = ""
        for i, n in enumerate(names):
            proj = t + "".join(".2" for _ in range(i)) + (".1" if i < len(names) - 1 else "")
            out += f"{ind}let {n} := {proj}\n"
        return out

    def loop_range(self, s: ast.For, env: Env) -> Tuple[str, str, bool]:
        if not (isinstance(s.target, ast.Name) and isinstance(s.iter, ast.Call)):
            raise Unsupported(f"line {s.lineno}: for target/iter")
        fn = ast.unparse(s.iter.func)
        if fn not in ("range", "_prange", "prange"):
            raise Unsupported(f"line {s.lineno}: loop over {fn}")
        if len(s.iter.args) == 2:
            # range(a, b): (b - a) iterations (none if b <= a), loop variable a + i  -- the caller binds it
            a_, b_ = self.expr(s.iter.args[0], env), self.expr(s.iter.args[1], env)
            if a_.kind not in ("N", "Z") or b_.kind not in ("N", "Z"):
                raise Unsupported(f"line {s.lineno}: range bounds kind")
            self.range_start = a_.code
            return s.target.id, f"(Int.toNat (({b_.code} : Int) - ({a_.code} : Int)))", fn != "range"
        self.range_start = None
        if len(s.iter.args) != 1:
            raise Unsupported(f"line {s.lineno}: range with start/step")
        n = self.expr(s.iter.args[0], env)
        if n.kind == "Z":
            n = Val(f"(Int.toNat {n.code})", "N")      # range(k) of a negative int is empty, as Int.toNat
        if n.kind != "N":
            raise Unsupported("range bound kind")
        return s.target.id, n.code, fn != "range"

    def for_loop(self, s: ast.For, rest, env: Env, ind: str, final) -> str:
        var, bound, parallel = self.loop_range(s, env)
        start = getattr(self, "range_start", None)
        self.range_start = None
        stores = self.stores(s.body)
        inner = env.copy()
        inner.kinds[var] = "N" if start is None else "Z"
        assigned = self.assigned_names(s.body)
        for st_ in ast.walk(ast.Module(body=s.body, type_ignores=[])):
            if (isinstance(st_, ast.Call) and isinstance(st_.func, ast.Attribute) and st_.func.attr == "append"
                    and isinstance(st_.func.value, ast.Name) and st_.func.value.id not in assigned):
                assigned.append(st_.func.value.id)
        carried = sorted(n for n in assigned if n in env.kinds)
        stored_existing = []
        for st_ in stores:
            b_ = st_.targets[0].value
            if isinstance(b_, ast.Name) and b_.id in env.kinds and b_.id not in env.pending and env.kinds[b_.id] in ("A", "A2"):
                if b_.id not in stored_existing:
                    stored_existing.append(b_.id)
        if stored_existing:
            if parallel:
                raise Unsupported(f"line {s.lineno}: prange loop updates an existing array (not a map loop: race-freedom premise)")
            if len(stored_existing) != len({st_.targets[0].value.id for st_ in stores if isinstance(st_.targets[0].value, ast.Name)}):
                raise Unsupported(f"line {s.lineno}: loop mixes stores into new and existing arrays")
            carried = sorted(set(carried) | set(stored_existing))
            stores = []
        if stores and start is not None:
            raise Unsupported(f"line {s.lineno}: map loop over range(a, b)")
        if stores:
            # MAP loop: every store is `arr[var] = e` at top level of the body into a pending array; nothing carried
            tops = [st for st in s.body if isinstance(st, ast.Assign) and isinstance(st.targets[0], ast.Subscript)]
            if len(tops) != len(stores):
                raise Unsupported(f"line {s.lineno}: nested array store")
            arrs = []
            for st in tops:
                tgt = st.targets[0]
                if not (isinstance(tgt.value, ast.Name) and isinstance(tgt.slice, ast.Name) and tgt.slice.id == var):
                    raise Unsupported(f"line {st.lineno}: store not at the loop index (race-freedom premise)")
                if tgt.value.id not in env.pending:
                    raise Unsupported(f"line {st.lineno}: store into an array that is read or already defined")
                arrs.append(tgt.value.id)
            if len(set(arrs)) != len(arrs):
                raise Unsupported(f"line {s.lineno}: two stores to one array in a map loop")
            if carried:
                raise Unsupported(f"line {s.lineno}: scalar {carried} carried across iterations of a map loop (race)")
            # reads of pending arrays inside the body are forbidden
            store_bases = {id(st.targets[0].value) for st in tops}
            for n in ast.walk(ast.Module(body=s.body, type_ignores=[])):
                if isinstance(n, ast.Name) and n.id in env.pending and id(n) not in store_bases:
                    raise Unsupported(f"line {s.lineno}: loop reads array {n.id} it writes")
            body_stmts = [st for st in s.body if st not in tops]
            # values must be computed after all scalar statements: require stores to be last
            last_scalar = max([s.body.index(st) for st in body_stmts], default=-1)
            first_store = min(s.body.index(st) for st in tops)
            if first_store < last_scalar:
                raise Unsupported(f"line {s.lineno}: store before end of body")
            self.tmp += 1
            bname = f"body{self.tmp}"

            def fin(e2: Env) -> str:
                vals = [self.to_real(self.expr(st.value, e2)).code for st in tops]
                return "(" + ", ".join(vals) + ")" if len(vals) > 1 else vals[0]
            body_code = self.block(body_stmts, inner, ind + "    ", fin)
            out = f"{ind}let {bname} := fun ({var} : Nat) =>\n{body_code}\n"
            env = env.copy()
            for i, a in enumerate(arrs):
                proj = f"{bname} {var}"
                if len(arrs) > 1:
                    proj = f"({bname} {var})" + "".join(".2" for _ in range(i)) + (".1" if i < len(arrs) - 1 else "")
                out += f"{ind}let {a} : Arr α := ⟨{env.pending[a]}, fun {var} => {proj}⟩\n"
                env.kinds[a] = "A"
                del env.pending[a]
            return out + self.block(rest, env, ind, final)
        if parallel:
            raise Unsupported(f"line {s.lineno}: prange loop without per-index stores")
        # FOLD loop
        if not carried:
            raise Unsupported(f"line {s.lineno}: loop with no effect")
        for n in carried:
            if env.kinds[n] not in ("R", "N", "Z", "A", "A2", "LR", "LZ"):
                raise Unsupported(f"line {s.lineno}: carried {n} of kind {env.kinds[n]}")
        self.tmp += 1
        st = f"st{self.tmp}"
        tys = " × ".join(self.LT_ALL[env.kinds[n]] for n in carried)
        inner2 = inner.copy()

        def fin(e2: Env) -> str:
            for n in carried:
                if e2.kinds[n] != env.kinds[n]:
                    raise Unsupported(f"line {s.lineno}: carried {n} changes kind")
            return "(" + ", ".join(carried) + ")" if len(carried) > 1 else carried[0]
        body_code = self.block(s.body, inner2, ind + "    ", fin)
        init = "(" + ", ".join(carried) + ")" if len(carried) > 1 else carried[0]
        lam = var if start is None else f"{var}__i"
        out = f"{ind}let {st} : {tys} := forRange {bound} {init} (fun ({lam} : Nat) ({st} : {tys}) =>\n"
        if start is not None:
            out += f"{ind}    let {var} : Int := ({start} : Int) + (({lam} : Nat) : Int)\n"
        out += self.unpack(st, carried, ind + "    ")
        out += body_code + ")\n"
        out += self.unpack(st, carried, ind)
        return out + self.block(rest, env, ind, final)

    # ---------- whole function ----------
    def translate(self) -> Tuple[str, "FnInfo"]:
        fn = self.fn
        params = [a.arg for a in fn.args.args]
        if fn.args.kwarg is not None and not params:
            params = list(getattr(self, "param_order", []))
        env = Env()
        decl = []
        pk = []
        LT = self.LT_ALL
        body = list(fn.body)
        if self.cuda_kernel:
            # j = cuda.grid(1); if j < starts.shape[0]: <body with stores at [j]>
            body = [b for b in body if not (isinstance(b, ast.Expr) and isinstance(b.value, ast.Constant))]
            if not (len(body) == 2 and isinstance(body[0], ast.Assign) and ast.unparse(body[0].value) == "cuda.grid(1)"
                    and isinstance(body[1], ast.If) and not body[1].orelse):
                raise Unsupported("CUDA kernel shape")
            jvar = body[0].targets[0].id
            guard = ast.unparse(body[1].test)
            if guard != f"{jvar} < starts.shape[0]":
                raise Unsupported("CUDA kernel guard " + guard)
            inner = body[1].body
            params = [p for p in params if p not in self.out_arrays] + [jvar]
            sig = dict(self.sig)
            sig[jvar] = "N"
        else:
            sig = self.sig
            inner = body
        # kinds are tabulated by parameter NAME; a renamed parameter (harmless refactor) falls back to its POSITION in the table when the arity
        # is unchanged (a rename combined with a reordering then yields ill-kinded Lean, which fails to build: never a silent mistranslation)
        table = [(k, v) for k, v in sig.items() if not k.startswith("self.")]
        if any(p not in sig for p in params) and len(table) == len(params) and not self.cuda_kernel:
            sig = dict(sig)
            for p, (_k, v) in zip(params, table):
                sig.setdefault(p, v)
        for p in params:
            if p not in sig:
                raise Unsupported(f"{fn.name}: no kind for parameter {p}")
            env.kinds[p] = sig[p]
            decl.append(f"({p} : {LT[sig[p]]})")
            pk.append(sig[p])
        self.ret_kind = None
        if self.cuda_kernel:
            tops = [st for st in inner if isinstance(st, ast.Assign) and isinstance(st.targets[0], ast.Subscript)]
            names = [st.targets[0].value.id for st in tops]
            if names != self.out_arrays:
                raise Unsupported(f"CUDA kernel stores {names}, expected {self.out_arrays}")
            for st in tops:
                if not (isinstance(st.targets[0].slice, ast.Name) and st.targets[0].slice.id == jvar):
                    raise Unsupported("CUDA kernel store not at the thread index")
            scal = [st for st in inner if st not in tops]
            if scal and tops and inner.index(tops[0]) < inner.index(scal[-1]):
                raise Unsupported("CUDA kernel store before end of body")

            def fin(e2: Env) -> str:
                vals = [self.to_real(self.expr(st.value, e2)).code for st in tops]
                self.ret_kind = "T:" + ",".join("R" for _ in vals)
                return "(" + ", ".join(vals) + ")"
            code = self.block(scal, env, "  ", fin)
        else:
            code = self.block(inner, env, "  ", None)
        if self.ret_kind is None:
            raise Unsupported(f"{fn.name}: no return")
        rk = self.ret_kind
        if rk.startswith("T:"):
            rty = " × ".join(("(" + LT[k] + ")" if " " in LT[k] else LT[k]) for k in rk[2:].split(","))
        else:
            rty = LT[rk]
        src = f"/-- {os.path.basename(self.fn.__dict__.get('_file', ''))}:{fn.lineno}-{fn.end_lineno} `{fn.name}` -/\n"
        if self.uses_fuel:
            decl.append("(fuel : Nat)")
        text = "".join(t + "\n" for t in self.prelude) + src + f"def {self.lean_name} " + " ".join(decl) + f" : {rty} :=\n" + code + "\n"
        return text, FnInfo(self.lean_name, pk, rk)


@dataclass
class FnInfo:
    lean_name: str
    param_kinds: List[str]
    ret_kind: str


def parse_functions(path: str) -> Dict[str, ast.FunctionDef]:
    src = open(path).read()
    tree = ast.parse(src)
    out = {}
    for n in ast.walk(tree):
        if isinstance(n, ast.FunctionDef):
            n.__dict__["_file"] = path
            out.setdefault(n.name, n)
    return out


def inline_temps(fn: ast.FunctionDef, only_line: Optional[int] = None) -> Optional[ast.FunctionDef]:
    """Normalisation used as a FALLBACK by pattern-based region plug-ins when the source as written is outside their accepted subset: a copy of `fn`
    in which every single-use temporary of straight-line code is substituted into its use (`t = e; ... use(t)`  ->  `... use(e)`).  A maintainer who
    splits an expression into named temporaries (the same floating-point operations in the same order) then yields the SAME translation as before.
    Conservative side conditions (otherwise the statement is left alone, and the plug-in rejects the source as before — never a silent change of
    meaning): `t` is a plain local assigned exactly once in the whole function and read exactly once, in a simple statement (assignment, augmented
    assignment, return, expression statement) of the SAME statement list, later than its definition; the defining expression contains no call with an
    `out=` / `copy=False` keyword and no in-place method; no statement between definition and use assigns, augments, deletes or passes by `out=` any
    name occurring in the defining expression."""
    import copy as _copy
    fn = _copy.deepcopy(fn)
    params = {a.arg for a in fn.args.args + fn.args.kwonlyargs} | ({fn.args.vararg.arg} if fn.args.vararg else set()) | ({fn.args.kwarg.arg} if fn.args.kwarg else set())

    def stores(node) -> set:
        out = set()
        for n in ast.walk(node):
            if isinstance(n, ast.Name) and isinstance(n.ctx, (ast.Store, ast.Del)):
                out.add(n.id)
            elif isinstance(n, ast.AugAssign):
                for m in ast.walk(n.target):
                    if isinstance(m, ast.Name):
                        out.add(m.id)
            elif isinstance(n, (ast.Subscript, ast.Attribute)) and isinstance(n.ctx, (ast.Store, ast.Del)):
                for m in ast.walk(n.value):
                    if isinstance(m, ast.Name):
                        out.add(m.id)
            elif isinstance(n, ast.Call):
                for kw in n.keywords:
                    if kw.arg == "out" or (kw.arg == "copy" and isinstance(kw.value, ast.Constant) and kw.value.value is False):
                        for a in n.args[:1] + [kw.value]:
                            for m in ast.walk(a):
                                if isinstance(m, ast.Name):
                                    out.add(m.id)
        return out

    def impure(e) -> bool:
        for n in ast.walk(e):
            if isinstance(n, ast.Call):
                if any(kw.arg == "out" or (kw.arg == "copy" and isinstance(kw.value, ast.Constant) and kw.value.value is False) for kw in n.keywords):
                    return True
                if isinstance(n.func, ast.Attribute) and n.func.attr in ("sort", "fill", "append", "extend", "pop", "update", "resize", "setdefault", "normal",
                                                                          "standard_normal", "random", "integers"):
                    return True
            if isinstance(n, (ast.Yield, ast.YieldFrom, ast.Await, ast.NamedExpr)):
                return True
        return False

    def count(name: str, ctx_type) -> int:
        return sum(1 for n in ast.walk(fn) if isinstance(n, ast.Name) and n.id == name and isinstance(n.ctx, ctx_type))

    class Sub(ast.NodeTransformer):
        def __init__(self, name, expr):
            self.name, self.expr = name, expr

        def visit_Name(self, node):
            if node.id == self.name and isinstance(node.ctx, ast.Load):
                return _copy.deepcopy(self.expr)
            return node

    def pass_list(stmts: List[ast.stmt]) -> bool:
        for i, st in enumerate(stmts):
            if not (isinstance(st, ast.Assign) and len(st.targets) == 1 and isinstance(st.targets[0], ast.Name)):
                continue
            if only_line is not None and getattr(st, "lineno", None) != only_line:
                continue
            t = st.targets[0].id
            if t in params or count(t, ast.Store) != 1 or count(t, ast.Load) != 1 or impure(st.value):
                continue
            if any(isinstance(n, ast.AugAssign) and isinstance(n.target, ast.Name) and n.target.id == t for n in ast.walk(fn)):
                continue
            free = {n.id for n in ast.walk(st.value) if isinstance(n, ast.Name)}
            for j in range(i + 1, len(stmts)):
                u = stmts[j]
                uses = any(isinstance(n, ast.Name) and n.id == t and isinstance(n.ctx, ast.Load) for n in ast.walk(u))
                if uses:
                    if isinstance(u, (ast.Assign, ast.AugAssign, ast.Return, ast.Expr, ast.AnnAssign)):
                        # the using statement itself must not overwrite a free name BEFORE reading t (augmented target / out= of a free name)
                        if isinstance(u, ast.AugAssign) and any(isinstance(m, ast.Name) and m.id in free for m in ast.walk(u.target)):
                            break
                        stmts[j] = ast.fix_missing_locations(Sub(t, st.value).visit(u))
                        del stmts[i]
                        return True
                    break
                if stores(u) & (free | {t}):
                    break
        for st in stmts:
            for fld in ("body", "orelse", "finalbody"):
                sub = getattr(st, fld, None)
                if isinstance(sub, list) and sub and isinstance(sub[0], ast.stmt) and pass_list(sub):
                    return True
        return False

    if only_line is not None:
        return fn if pass_list(fn.body) else None
    for _ in range(200):
        if not pass_list(fn.body):
            break
    return fn


def with_inlining(fn: ast.FunctionDef, attempt, max_steps: int = 12):
    """`attempt(fn)` (a plug-in's translation of one function); when it raises Unsupported at `line N` and line N is the definition of a single-use
    temporary (see inline_temps), that ONE temporary is substituted into its use and the translation is tried again — so a source in which an
    expression was split into named temporaries translates to what it did before the split.  Anything else is re-raised unchanged."""
    cur = fn
    for _ in range(max_steps):
        try:
            return attempt(cur)
        except Unsupported as ex:
            m = re.search(r"line (\d+)", str(ex))
            nxt = inline_temps(cur, only_line=int(m.group(1))) if m else None
            if nxt is None:
                raise
            nxt.__dict__["_file"] = fn.__dict__.get("_file")
            cur = nxt
    return attempt(cur)


HEADER = """/-
  GENERATED by /verif/vk/translate.py from {src} (sha256 {sha}).
  Do not edit: regenerated from /repo's current source on every check run.
-/
import SpecKitV.Num

namespace Gen
variable {{α : Type}} [RealLike α]
set_option linter.unusedVariables false

"""


def sha_of(path: str) -> str:
    return hashlib.sha256(open(path, "rb").read()).hexdigest()[:16]


# ------------------------------------------------------------------------------------------
# region: core.py kernels + reducer
# ------------------------------------------------------------------------------------------
K_AUTO = {"x": "A", "starts": "IA", "L": "N", "w": "A", "omega": "R"}
K_CSD = {"x1": "A", "x2": "A", "starts": "IA", "L": "N", "w": "A", "omega": "R"}
CORE_SIGS = {
    "_reduce_stats_nb": {"xx": "A", "yy": "A", "xyr": "A", "xyi": "A"},
    "_apply_detrend0_inplace_nb_mean": {"x": "A", "s": "N", "L": "N"},
    "_apply_detrend0_inplace_nb_val": {"xn": "R", "m": "R"},
    "_apply_poly_detrend_inplace_nb_alpha": {"x": "A", "Q": "A2", "s": "N", "L": "N"},
    "_apply_poly_detrend_inplace_nb_rowdot": {"Q": "A2", "n": "N", "alpha": "A"},
    "_goertzel_real_imag": {"y": "A", "cosw": "R", "sinw": "R", "coeff": "R"},
    "_stats_win_only_auto": K_AUTO,
    "_stats_win_only_csd": K_CSD,
    "_stats_detrend0_auto": K_AUTO,
    "_stats_detrend0_csd": K_CSD,
    "_stats_poly_auto": dict(K_AUTO, Q="A2"),
    "_stats_poly_csd": dict(K_CSD, Q="A2"),
}
CORE_ORDER = list(CORE_SIGS.keys())


def translate_region(path: str, order: List[str], sigs: Dict[str, Dict[str, str]], known: Dict[str, FnInfo],
                     cuda: bool = False) -> Tuple[str, Dict[str, FnInfo], List[str]]:
    fns = parse_functions(path)
    out = HEADER.format(src=os.path.relpath(path, REPO), sha=sha_of(path))
    errors = []
    known = dict(known)
    for name in order:
        if name not in fns:
            errors.append(f"{name}: not found in {path}")
            out += f"-- MISSING {name}\ndef {name}_MISSING : Nat := translation_failed_{name}\n\n"
            continue
        try:
            if cuda and name.endswith("_kernel"):
                tr = FnTranslator(fns[name], sigs[name], known, name, cuda_kernel=True,
                                  out_arrays=["xx", "yy", "xyr", "xyi"])
            else:
                tr = FnTranslator(fns[name], sigs[name], known, name)
            text, info = tr.translate()
            out += text + "\n"
            known[name] = info
        except Unsupported as ex:
            errors.append(f"{name}: {ex}")
            msg = str(ex).replace("-/", "- /")
            out += f"/- UNSUPPORTED {name}: {msg} -/\ndef {name}_UNSUPPORTED : Nat := translation_failed_{name}\n\n"
    out += "end Gen\n"
    return out, known, errors


def gen_core(repo: str = REPO) -> Tuple[str, Dict[str, FnInfo], List[str]]:
    return translate_region(os.path.join(repo, "speckit/core.py"), CORE_ORDER, CORE_SIGS, {})


CUDA_NAMES = ["win_only_auto", "win_only_csd", "detrend0_auto", "detrend0_csd", "poly_auto", "poly_csd"]


def gen_cuda(known: Dict[str, FnInfo], repo: str = REPO) -> Tuple[str, Dict[str, FnInfo], List[str]]:
    sigs, order = {}, []
    for n in CUDA_NAMES:
        base = CORE_SIGS["_stats_" + n]
        sigs[f"_stats_{n}_cuda_kernel"] = dict(base)
        sigs[f"_stats_{n}_cuda"] = dict(base)
        order += [f"_stats_{n}_cuda_kernel", f"_stats_{n}_cuda"]
    text, known, errs = translate_region(os.path.join(repo, "speckit/core_cuda.py"), order, sigs, known, cuda=True)
    text = text.replace("import SpecKitV.Num\n", "import SpecKitV.Num\nimport SpecKitV.Gen.CoreKernels\n")
    return text, known, errs


SCHED_PARAMS = ["N", "fs", "olap", "bmin", "Lmin", "Jdes", "Kdes"]
SCHED_BASE = {"N": "Z", "fs": "R", "olap": "R", "bmin": "R", "Lmin": "Z", "Jdes": "Z", "Kdes": "Z"}
SCHED_SIGS = {
    "ltf_plan": dict(SCHED_BASE, f_arr="LR", fres_arr="LR", b_arr="LR", L_arr="LZ", K_arr="LZ", O_arr="LR", D_arr="LZ", navg_arr="LZ"),
    "new_ltf_plan": dict(SCHED_BASE, f="LR", r="LR", b="LR", L="LZ", K="LZ", alpha="R", j="Z", k_stage2="Z", dftlen_crossover="Z"),
}
SCHED_SIGS["vectorized_ltf_plan"] = dict(SCHED_BASE, f_out="LR", r_out="LR", L_out="LZ", K_out="LZ")
SCHED_RETURNS = {"ltf_plan": ["f_arr", "fres_arr", "b_arr", "L_arr", "K_arr"], "new_ltf_plan": ["f", "r", "b", "L", "K"],
                 "vectorized_ltf_plan": ["f_out", "r_out", "L_out", "K_out"]}


def _starts_function(fn: ast.FunctionDef) -> ast.FunctionDef:
    """the per-bin start-position computation of ltf_plan as a function of (N, L_j, averages):
    the body of the `for j in range(nf)` loop that contains `D_arr.append([])`, with the per-bin bookkeeping
    (reading L_j / averages from the plan lists, recording navg) replaced by parameters and `D_arr[j]` by a local list.
    Every statement that is not recognised bookkeeping is translated; an unrecognised shape is Unsupported."""
    loop = None
    for st in fn.body:
        if isinstance(st, ast.For) and any(ast.unparse(b).strip() == "D_arr.append([])" for b in st.body):
            loop = st
    if loop is None or ast.unparse(loop.iter) != "range(nf)" or not isinstance(loop.target, ast.Name):
        raise Unsupported("ltf_plan: start-position loop `for j in range(nf)` with D_arr.append([]) not found")
    j = loop.target.id
    bookkeeping = {f"L_j = int(L_arr[{j}])": None, f"L_arr[{j}] = L_j": None, f"averages = int(K_arr[{j}])": None,
                   "navg_arr.append(averages)": None}
    seen = set()
    body: List[ast.stmt] = []
    for st in loop.body:
        txt = ast.unparse(st).strip()
        if txt in bookkeeping:
            seen.add(txt)
            continue
        if txt == "D_arr.append([])":
            body.append(ast.parse("D = []").body[0])
            continue
        body.append(st)
    if seen != set(bookkeeping):
        raise Unsupported("ltf_plan: per-bin bookkeeping of the start-position loop changed: " + repr(sorted(set(bookkeeping) - seen)))

    class Rw(ast.NodeTransformer):
        def visit_Subscript(self, n):
            if ast.unparse(n) == f"D_arr[{j}]":
                return ast.copy_location(ast.Name(id="D", ctx=ast.Load()), n)
            return self.generic_visit(n)

        def visit_Name(self, n):
            if n.id in ("D_arr", "L_arr", "K_arr", "navg_arr", j):
                raise Unsupported(f"ltf_plan: start-position loop uses {n.id} outside the recognised bookkeeping (line {n.lineno})")
            return n
    body = [Rw().visit(b) for b in body]
    body.append(ast.parse("return D").body[0])
    new = ast.FunctionDef(name="ltf_plan_starts", args=ast.arguments(posonlyargs=[], args=[ast.arg(arg="N"), ast.arg(arg="L_j"), ast.arg(arg="averages")],
                          kwonlyargs=[], kw_defaults=[], defaults=[]), body=body, decorator_list=[], lineno=loop.lineno)
    ast.fix_missing_locations(new)
    new.__dict__["_file"] = fn.__dict__.get("_file", "")
    return new


def _post_function(fn: ast.FunctionDef, name: str) -> ast.FunctionDef:
    """the closed-form post-processing of vectorized_ltf_plan / new_ltf_plan (segment shift, start positions D, overlap O)
    as a function of (N, L, K): the three top-level assignments to `shift`, `D`, `O` after the walk, translated as they stand."""
    got = {}
    for st in fn.body:
        if isinstance(st, ast.Assign) and len(st.targets) == 1 and isinstance(st.targets[0], ast.Name) and st.targets[0].id in ("shift", "D", "O"):
            if st.targets[0].id in got:
                raise Unsupported(f"{fn.name}: {st.targets[0].id} assigned twice")
            got[st.targets[0].id] = st
    if list(got) != ["shift", "D", "O"]:
        raise Unsupported(f"{fn.name}: post-processing assignments found: {list(got)} (expected shift, D, O in this order)")
    body = [got["shift"], got["D"], got["O"], ast.parse("return (shift, D, O)").body[0]]
    new = ast.FunctionDef(name=name, args=ast.arguments(posonlyargs=[], args=[ast.arg(arg="N"), ast.arg(arg="L"), ast.arg(arg="K")],
                          kwonlyargs=[], kw_defaults=[], defaults=[]), body=body, decorator_list=[], lineno=got["shift"].lineno)
    ast.fix_missing_locations(new)
    new.lineno, new.end_lineno = got["shift"].lineno, got["O"].end_lineno
    new.__dict__["_file"] = fn.__dict__.get("_file", "")
    return new


def gen_sched(repo: str = REPO) -> Tuple[str, List[str]]:
    """the main `while fi < fmax` walk of ltf_plan and new_ltf_plan (statements up to and including the loop),
    returning the five per-bin lists (f, r, b, L, K); the start positions / overlaps are hand-modelled."""
    path = os.path.join(repo, "speckit/schedulers.py")
    fns = parse_functions(path)
    out = HEADER.format(src="speckit/schedulers.py", sha=sha_of(path))
    errors: List[str] = []
    for name in ("ltf_plan", "new_ltf_plan", "vectorized_ltf_plan"):
        try:
            if name not in fns:
                raise Unsupported("function not found")
            tr = FnTranslator(fns[name], SCHED_SIGS[name], {}, name + "_walk")
            tr.param_order = SCHED_PARAMS
            tr.stop_after_while = SCHED_RETURNS[name]
            tr.vector_mode = name == "vectorized_ltf_plan"
            text, _ = tr.translate()
            out += text + "\n"
        except Unsupported as ex:
            errors.append(f"{name}: {ex}")
            msg = str(ex).replace("-/", "- /")
            out += f"/- UNSUPPORTED {name}: {msg} -/\ndef {name}_UNSUPPORTED : Nat := translation_failed_{name}\n\n"
    for name in ("vectorized_ltf_plan", "new_ltf_plan"):
        try:
            if name not in fns:
                raise Unsupported("function not found")
            tr = FnTranslator(_post_function(fns[name], name + "_post"), {"N": "Z", "L": "AZ", "K": "AZ"}, {}, name + "_post")
            tr.vector_mode = True
            text, _ = tr.translate()
            out += text + "\n"
        except Unsupported as ex:
            errors.append(f"{name}_post: {ex}")
            msg = str(ex).replace("-/", "- /")
            out += f"/- UNSUPPORTED {name}_post: {msg} -/\ndef {name}_post_UNSUPPORTED : Nat := translation_failed_{name}_post\n\n"
    # the start positions of ltf_plan (the per-bin body of its second loop)
    try:
        if "ltf_plan" not in fns:
            raise Unsupported("function not found")
        sf = _starts_function(fns["ltf_plan"])
        tr = FnTranslator(sf, {"N": "Z", "L_j": "Z", "averages": "Z", "D": "LZ"}, {}, "ltf_plan_starts")
        text, _ = tr.translate()
        out += text + "\n"
    except Unsupported as ex:
        errors.append(f"ltf_plan_starts: {ex}")
        msg = str(ex).replace("-/", "- /")
        out += f"/- UNSUPPORTED ltf_plan_starts: {msg} -/\ndef ltf_plan_starts_UNSUPPORTED : Nat := translation_failed_ltf_plan_starts\n\n"
    out += "end Gen\n"
    return out, errors


NOISE_SIGS = {
    "_numba_lfilter_cascade": {"samples": "A", "a_coeffs": "A2", "b_coeffs": "A2", "zi_states": "A2"},
    "_calc_filter_coeffs": {"f_min": "R", "f_max": "R", "self.fs": "R"},
}


def gen_noise(repo: str = REPO) -> Tuple[str, List[str]]:
    path = os.path.join(repo, "speckit/noise.py")
    fns = parse_functions(path)
    out = HEADER.format(src="speckit/noise.py", sha=sha_of(path))
    errors: List[str] = []
    for name in ("_numba_lfilter_cascade", "_calc_filter_coeffs"):
        try:
            if name not in fns:
                raise Unsupported("function not found")
            tr = FnTranslator(fns[name], NOISE_SIGS[name], {}, name)
            if name == "_calc_filter_coeffs":
                fn = fns[name]
                fn.args.args = [a for a in fn.args.args if a.arg != "self"] + [ast.arg(arg="fs")]
                tr.sig = dict(NOISE_SIGS[name], fs="R")
            text, _ = tr.translate()
            out += text + "\n"
        except Unsupported as ex:
            errors.append(f"{name}: {ex}")
            msg = str(ex).replace("-/", "- /")
            out += f"/- UNSUPPORTED {name}: {msg} -/\ndef {name}_UNSUPPORTED : Nat := translation_failed_{name}\n\n"
    out += "end Gen\n"
    return out, errors


UTILS_SIGS = {"kaiser_alpha": {"psll": "R"}, "kaiser_rov": {"alpha": "R"}, "round_half_up": {"val": "R"}}


FIND_JDES_CALL = ["call_kwargs = dict(args)", "call_kwargs['Jdes'] = int(Jdes)", "output = scheduler(**call_kwargs)",
                  "nf = output.get('nf') if isinstance(output, dict) else None",
                  "if nf is None:\n    raise ValueError(\"Scheduler did not return 'nf' in output.\")"]


def _find_jdes_function(fn: ast.FunctionDef, consts: Dict[str, int]) -> ast.FunctionDef:
    """`find_Jdes_binary_search` as a function of (nf_of, target_nf): the five statements that call the scheduler with the
    candidate Jdes and read its 'nf' are the external-call contract `nf = nf_of(Jdes)` (recognised textually, anything else is
    Unsupported); module constants are inlined; `return Jdes` inside the loop becomes a carried (found, result) pair."""
    body = [b for b in fn.body if not (isinstance(b, ast.Expr) and isinstance(b.value, ast.Constant))]
    if not (len(body) == 4 and isinstance(body[2], ast.While) and ast.unparse(body[3]) == "return None"):
        raise Unsupported("find_Jdes_binary_search: shape (two initialisations, one while, return None) changed")
    wh = body[2]
    wb = [b for b in wh.body if not (isinstance(b, ast.Expr) and isinstance(b.value, ast.Constant))]
    if len(wb) != 1 + len(FIND_JDES_CALL) + 1:
        raise Unsupported("find_Jdes_binary_search: loop body has %d statements" % len(wb))
    got = [ast.unparse(b) for b in wb[1:1 + len(FIND_JDES_CALL)]]
    if got != FIND_JDES_CALL:
        raise Unsupported("find_Jdes_binary_search: the scheduler call sequence changed: " + repr(got))
    last = wb[-1]
    if not (isinstance(last, ast.If) and len(last.body) == 1 and ast.unparse(last.body[0]) == "return Jdes"):
        raise Unsupported("find_Jdes_binary_search: decision statement changed")
    mk = lambda src: ast.parse(src).body
    hit = mk("found__ = True\nres__ = Jdes")
    new_last = ast.If(test=last.test, body=hit, orelse=last.orelse)
    new_while = ast.While(test=ast.BoolOp(op=ast.And(), values=[mk("(not found__)")[0].value, wh.test]),
                          body=[wb[0]] + mk("nf = nf_of(Jdes)") + [new_last], orelse=[])
    new_body = body[:2] + mk("found__ = False\nres__ = 0") + [new_while] + mk("return (res__ if found__ else None)")

    class Inline(ast.NodeTransformer):
        def visit_Name(self, n):
            if isinstance(n.ctx, ast.Load) and n.id in consts:
                return ast.copy_location(ast.Constant(value=consts[n.id]), n)
            return n
    new = ast.FunctionDef(name="find_Jdes_binary_search", args=ast.arguments(posonlyargs=[], args=[ast.arg(arg="nf_of"), ast.arg(arg="target_nf")],
                          kwonlyargs=[], kw_defaults=[], defaults=[]), body=[Inline().visit(b) for b in new_body], decorator_list=[], lineno=fn.lineno,
                          end_lineno=fn.end_lineno)
    ast.fix_missing_locations(new)
    new.lineno, new.end_lineno = fn.lineno, fn.end_lineno
    new.__dict__["_file"] = fn.__dict__.get("_file", "")
    return new


def gen_utils(repo: str = REPO) -> Tuple[str, Dict[str, FnInfo], List[str]]:
    path = os.path.join(repo, "speckit/utils.py")
    out, known, errors = translate_region(path, list(UTILS_SIGS.keys()), UTILS_SIGS, {})
    out = out[:out.rindex("end Gen")]
    try:
        tree = ast.parse(open(path).read())
        consts = {t.targets[0].id: t.value.value for t in tree.body
                  if isinstance(t, ast.Assign) and len(t.targets) == 1 and isinstance(t.targets[0], ast.Name)
                  and isinstance(t.value, ast.Constant) and isinstance(t.value.value, int)}
        fns = parse_functions(path)
        if "find_Jdes_binary_search" not in fns:
            raise Unsupported("function not found")
        for c_ in ("MIN_JDES", "MAX_JDES"):
            if c_ not in consts:
                raise Unsupported(f"module constant {c_} not an integer literal")
        tr = FnTranslator(_find_jdes_function(fns["find_Jdes_binary_search"], consts), {"nf_of": "FZ", "target_nf": "Z", "lower": "Z", "upper": "Z", "res__": "Z", "Jdes": "Z", "nf": "Z"}, {}, "find_Jdes_binary_search")
        text, _ = tr.translate()
        out += text + "\n"
    except Unsupported as ex:
        errors.append(f"find_Jdes_binary_search: {ex}")
        msg = str(ex).replace("-/", "- /")
        out += f"/- UNSUPPORTED find_Jdes_binary_search: {msg} -/\ndef find_Jdes_binary_search_UNSUPPORTED : Nat := translation_failed_find_Jdes_binary_search\n\n"
    out += "end Gen\n"
    return out, known, errors


GEN_DIR = os.path.join(os.path.dirname(os.path.abspath(__file__)), "..", "lean", "SpecKitV", "Gen")


def write_if_changed(path: str, text: str) -> bool:
    if os.path.exists(path) and open(path).read() == text:
        return False
    os.makedirs(os.path.dirname(path), exist_ok=True)
    with open(path, "w") as f:
        f.write(text)
    return True


def gen_dsp(repo: str = REPO) -> Tuple[str, List[str]]:
    """dsp.lagrange_taps for ONE fractional shift: the function is elementwise along the shift axis (every statement combines
    `shift_fracs` pointwise, stores whole rows `taps[k] = …` or scales the whole table), so the array parameter is read as one
    element and `taps` as the vector of its 2*halfp taps; `taps.T` is then that vector."""
    path = os.path.join(repo, "speckit/dsp.py")
    fns = parse_functions(path)
    out = HEADER.format(src="speckit/dsp.py", sha=sha_of(path))
    errors: List[str] = []
    name = "lagrange_taps"
    try:
        if name not in fns:
            raise Unsupported("function not found")
        tr = FnTranslator(fns[name], {"shift_fracs": "R", "halfp": "Z", "num_taps": "Z"}, {}, name)
        tr.scalarised = {"shift_fracs"}
        text, _ = tr.translate()
        out += text + "\n"
    except Unsupported as ex:
        errors.append(f"{name}: {ex}")
        msg = str(ex).replace("-/", "- /")
        out += f"/- UNSUPPORTED {name}: {msg} -/\ndef {name}_UNSUPPORTED : Nat := translation_failed_{name}\n\n"
    out += "end Gen\n"
    return out, errors


def gen_analysis(known: Dict[str, FnInfo], repo: str = REPO) -> Tuple[str, List[str]]:
    """the request arithmetic of SpectrumAnalyzer.compute_single_bin: the segmentation statement (`if self.nx == segL: … else: …`,
    giving navg and the segment starts) as a function of (nx, segL, final_olap), and the digital frequency `omega` as a function of
    (freq, fs). `self.nx`, `self.fs`, `self.config['final_olap']` become parameters, `_np` is NumPy."""
    path = os.path.join(repo, "speckit/analysis.py")
    out = HEADER.format(src="speckit/analysis.py", sha=sha_of(path)).replace("import SpecKitV.Num\n", "import SpecKitV.Num\nimport SpecKitV.Gen.Utils\n")
    errors: List[str] = []
    try:
        tree = ast.parse(open(path).read())
        meth = None
        for c in tree.body:
            if isinstance(c, ast.ClassDef) and c.name == "SpectrumAnalyzer":
                for m in c.body:
                    if isinstance(m, ast.FunctionDef) and m.name == "compute_single_bin":
                        meth = m
        if meth is None:
            raise Unsupported("SpectrumAnalyzer.compute_single_bin not found")
        seg = [st for st in meth.body if isinstance(st, ast.If) and ast.unparse(st.test) == "self.nx == segL"]
        om = [st for st in meth.body if isinstance(st, ast.Assign) and len(st.targets) == 1 and ast.unparse(st.targets[0]) == "omega"]
        if len(seg) != 1 or len(om) != 1:
            raise Unsupported(f"compute_single_bin: segmentation statements found {len(seg)}, omega assignments {len(om)} (expected 1 and 1)")

        class Rw(ast.NodeTransformer):
            def visit_Attribute(self, n):
                self.generic_visit(n)
                if isinstance(n.value, ast.Name) and n.value.id == "self" and n.attr in ("nx", "fs"):
                    return ast.copy_location(ast.Name(id=n.attr, ctx=ast.Load()), n)
                return n

            def visit_Subscript(self, n):
                if ast.unparse(n) == "self.config['final_olap']":
                    return ast.copy_location(ast.Name(id="final_olap", ctx=ast.Load()), n)
                return self.generic_visit(n)

            def visit_Name(self, n):
                if n.id == "_np":
                    return ast.copy_location(ast.Name(id="np", ctx=n.ctx), n)
                return n
        mkargs = lambda names: ast.arguments(posonlyargs=[], args=[ast.arg(arg=a) for a in names], kwonlyargs=[], kw_defaults=[], defaults=[])
        f1 = ast.FunctionDef(name="single_bin_segmentation", args=mkargs(["nx", "segL", "final_olap"]),
                             body=[Rw().visit(seg[0]), ast.parse("return (navg, starts)").body[0]], decorator_list=[], lineno=seg[0].lineno)
        f2 = ast.FunctionDef(name="single_bin_omega", args=mkargs(["freq", "fs"]),
                             body=[ast.Return(value=Rw().visit(om[0].value))], decorator_list=[], lineno=om[0].lineno)
        for fnew, (a, b) in ((f1, (seg[0].lineno, seg[0].end_lineno)), (f2, (om[0].lineno, om[0].end_lineno))):
            ast.fix_missing_locations(fnew)
            fnew.lineno, fnew.end_lineno = a, b
            fnew.__dict__["_file"] = path
        tr = FnTranslator(f1, {"nx": "Z", "segL": "Z", "final_olap": "R", "navg": "Z", "olap": "R"}, known, "single_bin_segmentation")
        tr.vector_mode = True
        text, _ = tr.translate()
        out += text + "\n"
        tr = FnTranslator(f2, {"freq": "R", "fs": "R"}, known, "single_bin_omega")
        text, _ = tr.translate()
        out += text + "\n"
    except Unsupported as ex:
        errors.append(f"compute_single_bin: {ex}")
        msg = str(ex).replace("-/", "- /")
        out += f"/- UNSUPPORTED compute_single_bin: {msg} -/\ndef compute_single_bin_UNSUPPORTED : Nat := translation_failed_compute_single_bin\n\n"
    out += "end Gen\n"
    return out, errors


def regenerate(repo: str = REPO) -> Dict[str, List[str]]:
    """regenerate every Gen file from the current source; returns {region: [errors]}"""
    report: Dict[str, List[str]] = {}
    text, known, errs = gen_core(repo)
    write_if_changed(os.path.join(GEN_DIR, "CoreKernels.lean"), text)
    report["CoreKernels"] = errs
    text, known2, errs = gen_cuda(known, repo)
    write_if_changed(os.path.join(GEN_DIR, "CudaKernels.lean"), text)
    report["CudaKernels"] = errs
    text, table, errs = gen_attrs(repo)
    write_if_changed(os.path.join(GEN_DIR, "Attrs.lean"), text)
    report["Attrs"] = errs
    report["_attr_table"] = table  # type: ignore
    text, _k, errs = gen_utils(repo)
    write_if_changed(os.path.join(GEN_DIR, "Utils.lean"), text)
    report["Utils"] = errs
    text, errs = gen_analysis(_k, repo)
    write_if_changed(os.path.join(GEN_DIR, "Analysis.lean"), text)
    report["Analysis"] = errs
    text, errs = gen_noise(repo)
    write_if_changed(os.path.join(GEN_DIR, "Noise.lean"), text)
    report["Noise"] = errs
    text, errs = gen_sched(repo)
    write_if_changed(os.path.join(GEN_DIR, "Sched.lean"), text)
    report["Sched"] = errs
    text, errs = gen_ctor(repo)
    write_if_changed(os.path.join(GEN_DIR, "Ctor.lean"), text)
    report["Ctor"] = errs
    text, errs = gen_dsp(repo)
    write_if_changed(os.path.join(GEN_DIR, "Dsp.lean"), text)
    report["Dsp"] = errs
    # region plug-ins (vk/regions/*.py): one generated file each
    from . import regions as _regions
    for mod in _regions.modules():
        try:
            text, errs = mod.generate(repo)
        except Exception as ex:   # a crashing plug-in must not look like a clean translation
            text, errs = (f"/- region {mod.REGION}: generator crashed: {str(ex).replace('-/', '- /')} -/\n"
                          f"def region_{mod.REGION}_UNSUPPORTED : Nat := translation_failed_{mod.REGION}\n"), [f"generator crashed: {ex!r}"]
        write_if_changed(os.path.join(GEN_DIR, f"{mod.REGION}.lean"), text)
        report[mod.REGION] = errs
    return report


# ------------------------------------------------------------------------------------------
# region: SpectrumResult.__getattr__ — partial evaluation w.r.t. (name, iscsd)
# ------------------------------------------------------------------------------------------
ATTR_DATA_KEYS = {"f", "r", "b", "L", "K", "navg", "D", "O", "i", "XX", "YY", "XY", "S12", "S2", "M2", "compute_t", "m", "nf"}
ATTR_DATA_KIND = {"XX": "R", "YY": "R", "XY": "C", "S12": "R", "S2": "R", "M2": "R", "navg": "R"}
ATTR_EXTRA_NAMES = ["G"]   # served by __getattr__ but missing from __dir__'s list
ATTR_SEQUENCE_LEVEL = {"cf_rad_unwrapped", "cf_deg_unwrapped"}  # np.unwrap couples bins: modelled separately


class _NoneVal(Exception):
    pass


class AttrPE:
    def __init__(self, fn: ast.FunctionDef, mode_cross: bool, names: List[str]):
        self.fn = fn
        self.cross = mode_cross
        self.names = names
        self.ns = "Cross" if mode_cross else "Auto"
        self.done: Dict[str, Optional[Tuple[str, str]]] = {}   # name -> (kind, lean text) or None (Python None)
        self.order: List[str] = []
        self.errors: List[str] = []
        self.stack: List[str] = []

    # ---- static evaluation of tests on `name` / `self.iscsd`
    def static(self, t: ast.AST, name: str):
        if isinstance(t, ast.Compare) and len(t.ops) == 1 and isinstance(t.left, ast.Name) and t.left.id == "name":
            rhs = t.comparators[0]
            if isinstance(t.ops[0], ast.Eq) and isinstance(rhs, ast.Constant):
                return name == rhs.value
            if isinstance(t.ops[0], ast.In):
                if isinstance(rhs, (ast.List, ast.Tuple)) and all(isinstance(x, ast.Constant) for x in rhs.elts):
                    return name in [x.value for x in rhs.elts]
                u = ast.unparse(rhs)
                if u == "self._cache":
                    return False          # cache layer is modelled separately (C14)
                if u == "self._data":
                    return name in ATTR_DATA_KEYS
        if isinstance(t, ast.Call) and ast.unparse(t.func) == "name.endswith" and len(t.args) == 1:
            a = t.args[0]
            suf = [x.value for x in a.elts] if isinstance(a, ast.Tuple) else [a.value]
            return name.endswith(tuple(suf))
        if isinstance(t, ast.Call) and ast.unparse(t.func) == "name.startswith" and len(t.args) == 1:
            return name.startswith(t.args[0].value)
        if isinstance(t, ast.Attribute) and ast.unparse(t) == "self.iscsd":
            return self.cross
        if isinstance(t, ast.UnaryOp) and isinstance(t.op, ast.Not):
            return not self.static(t.operand, name)
        raise Unsupported(f"line {getattr(t, 'lineno', '?')}: test {ast.unparse(t)} is not static in (name, iscsd)")

    # ---- expressions
    def ex(self, e: ast.AST, loc: Dict[str, Val]) -> Val:
        if isinstance(e, ast.Constant):
            if e.value is None:
                raise _NoneVal()
            if isinstance(e.value, (int, float)) and not isinstance(e.value, bool):
                if isinstance(e.value, int):
                    return Val(f"(RealLike.ofNat {e.value})" if e.value >= 0 else f"(RealLike.ofInt ({e.value}))", "R")
                return Val(_lit_float(e.value), "R")
        if isinstance(e, ast.Name) and e.id in loc:
            return loc[e.id]
        if isinstance(e, ast.IfExp):
            return self.ex(e.body if self.static(e.test, "") else e.orelse, loc)
        if isinstance(e, ast.Subscript) and ast.unparse(e.value) == "self._data" and isinstance(e.slice, ast.Constant):
            k = e.slice.value
            if k not in ATTR_DATA_KIND:
                raise Unsupported(f"data key {k}")
            return Val(f"d.{k}", ATTR_DATA_KIND[k])
        if isinstance(e, ast.Attribute) and isinstance(e.value, ast.Name) and e.value.id == "self":
            if e.attr == "fs":
                return Val("d.fs", "R")
            r = self.attr(e.attr)
            if r is None:
                raise Unsupported(f"line {e.lineno}: self.{e.attr} is None in {self.ns} mode but used in arithmetic")
            return Val(f"({self.ns}.{e.attr} d)", r[0])
        if isinstance(e, ast.UnaryOp) and isinstance(e.op, ast.USub):
            v = self.ex(e.operand, loc)
            return Val(f"(-{v.code})", v.kind) if v.kind == "R" else Val(f"(Cx.smul (RealLike.ofInt (-1)) {v.code})", "C")
        if isinstance(e, ast.BinOp):
            a, b = self.ex(e.left, loc), self.ex(e.right, loc)
            return self.arith(e, a, b)
        if isinstance(e, ast.Compare) and len(e.ops) == 1:
            a, b = self.ex(e.left, loc), self.ex(e.comparators[0], loc)
            if a.kind != "R" or b.kind != "R":
                raise Unsupported("comparison on complex")
            f = {ast.NotEq: "RealLike.bne", ast.Gt: "RealLike.gt", ast.Lt: "RealLike.lt", ast.GtE: "RealLike.ge",
                 ast.LtE: "RealLike.le", ast.Eq: "RealLike.beq"}[type(e.ops[0])]
            return Val(f"({f} {a.code} {b.code})", "B")
        if isinstance(e, ast.BinOp) or isinstance(e, ast.BoolOp):
            raise Unsupported("boolop")
        if isinstance(e, ast.Call):
            return self.call(e, loc)
        raise Unsupported(f"line {getattr(e, 'lineno', '?')}: expression {ast.unparse(e)}")

    def arith(self, e: ast.BinOp, a: Val, b: Val) -> Val:
        op = e.op
        if isinstance(op, ast.BitAnd) and a.kind == "B" and b.kind == "B":
            return Val(f"({a.code} && {b.code})", "B")
        if isinstance(op, ast.Pow):
            if isinstance(e.right, ast.Constant) and e.right.value == 2 and a.kind == "R":
                return Val(f"({a.code} * {a.code})", "R")
            raise Unsupported(f"line {e.lineno}: power")
        sym = {ast.Add: "+", ast.Sub: "-", ast.Mult: "*", ast.Div: "/"}.get(type(op))
        if sym is None:
            raise Unsupported(f"line {e.lineno}: operator")
        if a.kind == "R" and b.kind == "R":
            return Val(f"({a.code} {sym} {b.code})", "R")
        if a.kind == "C" and b.kind == "C" and sym in "+-*":
            return Val(f"({a.code} {sym} {b.code})", "C")
        if sym == "*" and a.kind == "R" and b.kind == "C":
            return Val(f"(Cx.smul {a.code} {b.code})", "C")
        if sym == "*" and a.kind == "C" and b.kind == "R":
            return Val(f"(Cx.smul {b.code} {a.code})", "C")
        if sym == "/" and a.kind == "C" and b.kind == "R":
            return Val(f"(Cx.divReal {a.code} {b.code})", "C")
        if sym in "+-" and a.kind == "R" and b.kind == "C":
            return Val(f"(Cx.ofReal {a.code} {sym} {b.code})", "C")
        if sym in "+-" and a.kind == "C" and b.kind == "R":
            return Val(f"({a.code} {sym} Cx.ofReal {b.code})", "C")
        raise Unsupported(f"line {e.lineno}: arithmetic {a.kind}{sym}{b.kind}")

    def call(self, e: ast.Call, loc: Dict[str, Val]) -> Val:
        fn = ast.unparse(e.func)
        kw = {k.arg: k.value for k in e.keywords}
        if fn == "np.divide":
            a, b = self.ex(e.args[0], loc), self.ex(e.args[1], loc)
            c = self.ex(kw["where"], loc)
            out = ast.unparse(kw["out"])
            if not out.startswith("np.zeros_like("):
                raise Unsupported("np.divide out= is not zeros_like")
            if b.kind != "R" or c.kind != "B":
                raise Unsupported("np.divide kinds")
            if a.kind == "C" or "dtype=complex" in out:
                if a.kind == "R":
                    a = Val(f"(Cx.ofReal {a.code})", "C")
                return Val(f"(if {c.code} then Cx.divReal {a.code} {b.code} else Cx.ofReal RealLike.zero)", "C")
            return Val(f"(if {c.code} then {a.code} / {b.code} else RealLike.zero)", "R")
        if fn == "np.nan_to_num":
            for k in kw:
                if k not in ("nan", "posinf", "neginf"):
                    raise Unsupported("nan_to_num keyword")
            return self.ex(e.args[0], loc)        # identity on finite values (stated assumption)
        if fn == "np.ones_like":
            return Val("RealLike.one", "R")
        if fn == "np.zeros_like":
            return Val("RealLike.zero", "R")
        args = [self.ex(a, loc) for a in e.args]
        one = args[0] if args else None
        if fn == "np.conj" and one.kind == "C":
            return Val(f"(Cx.conj {one.code})", "C")
        if fn == "np.abs":
            return Val(f"(Cx.abs {one.code})", "R") if one.kind == "C" else Val(f"(RealLike.abs {one.code})", "R")
        if fn == "np.sqrt" and one.kind == "R":
            return Val(f"(RealLike.sqrt {one.code})", "R")
        if fn == "np.arcsin" and one.kind == "R":
            return Val(f"(RealLike.arcsin {one.code})", "R")
        if fn == "np.real" and one.kind == "C":
            return Val(f"{one.code}.re", "R")
        if fn == "np.imag" and one.kind == "C":
            return Val(f"{one.code}.im", "R")
        if fn == "np.angle" and one.kind == "C":
            base = f"(RealLike.atan2 {one.code}.im {one.code}.re)"
            if "deg" in kw:
                if ast.unparse(kw["deg"]) != "True":
                    raise Unsupported("np.angle deg")
                return Val(f"({base} * ((RealLike.ofNat 180) / RealLike.pi))", "R")
            return Val(base, "R")
        if fn == "np.rad2deg" and one.kind == "R":
            return Val(f"({one.code} * ((RealLike.ofNat 180) / RealLike.pi))", "R")
        if fn == "ct.mag2db" and one.kind == "R":
            return Val(f"((RealLike.ofSci 200 true 1) * RealLike.log10 {one.code})", "R")
        raise Unsupported(f"line {e.lineno}: call {fn}")

    # ---- symbolic execution of the body for one name
    def run(self, stmts: List[ast.stmt], name: str, loc: Dict[str, Val], lets: List[str]):
        """returns Val of `val` or raises _NoneVal; None if no assignment to val happened"""
        val = None
        for s in stmts:
            if isinstance(s, ast.Expr) and isinstance(s.value, ast.Constant):
                continue
            if isinstance(s, ast.If):
                branch = s.body if self.static(s.test, name) else s.orelse
                r = self.run(branch, name, loc, lets)
                if r is not None:
                    val = r
                continue
            if isinstance(s, ast.AnnAssign) and isinstance(s.target, ast.Name) and s.target.id == "val":
                val = "NONE"
                continue
            if isinstance(s, ast.Raise):
                raise Unsupported(f"{name}: reaches raise at line {s.lineno}")
            if isinstance(s, ast.Return):
                if ast.unparse(s.value) in ("val",):
                    continue
                raise Unsupported(f"{name}: return at line {s.lineno}")
            if isinstance(s, ast.Assign) and len(s.targets) == 1:
                t = s.targets[0]
                if ast.unparse(t) == "self._cache[name]":
                    continue
                if isinstance(t, ast.Tuple) and isinstance(s.value, ast.Tuple):
                    for tn, tv in zip(t.elts, s.value.elts):
                        self.bind(tn.id, tv, loc, lets)
                    continue
                if isinstance(t, ast.Name):
                    if t.id == "val":
                        try:
                            self.bind("val", s.value, loc, lets)
                            val = loc["val"]
                        except _NoneVal:
                            val = "NONE"
                    else:
                        self.bind(t.id, s.value, loc, lets)
                    continue
            raise Unsupported(f"{name}: statement at line {s.lineno}: {ast.unparse(s)[:60]}")
        return val

    def bind(self, n: str, v: ast.AST, loc: Dict[str, Val], lets: List[str]):
        x = self.ex(v, loc)
        ln = n + "_"
        ty = {"R": "α", "C": "Cx α", "B": "Bool"}[x.kind]
        lets.append(f"  let {ln} : {ty} := {x.code}")
        loc[n] = Val(ln, x.kind)

    def attr(self, name: str) -> Optional[Tuple[str, str]]:
        if name in self.done:
            return self.done[name]
        if name in self.stack:
            raise Unsupported(f"cyclic attribute reference through {name}")
        self.stack.append(name)
        try:
            lets: List[str] = []
            v = self.run(self.fn.body, name, {}, lets)
            if v is None:
                raise Unsupported(f"{name}: no value assigned")
            if v == "NONE":
                self.done[name] = None
            else:
                ty = {"R": "α", "C": "Cx α"}[v.kind]
                text = f"def {self.ns}.{name} (d : BinData α) : {ty} :=\n" + "".join(l + "\n" for l in lets) + f"  {v.code}\n"
                self.done[name] = (v.kind, text)
                self.order.append(name)
        finally:
            self.stack.pop()
        return self.done[name]


ATTR_HEADER = """/-
  GENERATED by /verif/vk/translate.py from {src} (sha256 {sha}).
  `SpectrumResult.__getattr__` partially evaluated with respect to the attribute name and the
  analysis type (Auto / Cross): one straight-line definition per attribute over the per-bin
  scalars.  `np.nan_to_num` is the identity on finite values and is translated as such.
  Do not edit: regenerated from /repo's current source on every check run.
-/
import SpecKitV.Num

namespace Gen
variable {{α : Type}} [RealLike α]
set_option linter.unusedVariables false

/-- per-bin base estimates and constants an attribute is computed from -/
structure BinData (α : Type) where
  XX : α
  YY : α
  XY : Cx α
  S12 : α
  S2 : α
  M2 : α
  navg : α
  fs : α

"""


def attr_names(repo: str = REPO) -> List[str]:
    """the dynamic attribute list of SpectrumResult.__dir__"""
    fns = parse_functions(os.path.join(repo, "speckit/analysis.py"))
    d = fns["__dir__"]
    for n in ast.walk(d):
        if isinstance(n, ast.Assign) and ast.unparse(n.targets[0]) == "dynamic_attrs":
            return [x.value for x in n.value.elts]
    raise Unsupported("__dir__: dynamic_attrs list not found")


def gen_attrs(repo: str = REPO) -> Tuple[str, Dict[str, Dict[str, Optional[str]]], List[str]]:
    path = os.path.join(repo, "speckit/analysis.py")
    out = ATTR_HEADER.format(src="speckit/analysis.py", sha=sha_of(path))
    errors: List[str] = []
    table: Dict[str, Dict[str, Optional[str]]] = {"Auto": {}, "Cross": {}}
    try:
        fns = parse_functions(path)
        ga = fns["__getattr__"]
        names = [n for n in attr_names(repo) if n not in ATTR_SEQUENCE_LEVEL]
        names += [n for n in ATTR_EXTRA_NAMES if n not in names]
    except Exception as ex:  # noqa
        return out + f"def attrs_UNSUPPORTED : Nat := translation_failed_attrs\nend Gen\n", table, [str(ex)]
    for cross in (False, True):
        pe = AttrPE(ga, cross, names)
        for n in names:
            try:
                r = pe.attr(n)
                table[pe.ns][n] = None if r is None else r[0]
            except Unsupported as ex:
                errors.append(f"{pe.ns}.{n}: {ex}")
                table[pe.ns][n] = "ERR"
        for n in pe.order:
            out += pe.done[n][1] + "\n"
        for n in names:
            if table[pe.ns].get(n) == "ERR":
                msg = [e for e in errors if e.startswith(f"{pe.ns}.{n}:")][0].replace("-/", "- /")
                out += f"/- UNSUPPORTED {msg} -/\ndef {pe.ns}.{n}_UNSUPPORTED : Nat := translation_failed_{n}\n\n"
        nones = sorted(n for n in names if table[pe.ns][n] is None)
        out += f"/-- attributes that are Python `None` for {pe.ns.lower()} results -/\n"
        out += f"def {pe.ns}.noneNames : List String := [" + ", ".join(f'"{n}"' for n in nones) + "]\n\n"
    out += "end Gen\n"
    return out, table, errors


# ------------------------------------------------------------------------------------------
# region: SpectrumAnalyzer.__init__ — the buffer operations applied to the caller's data
# ------------------------------------------------------------------------------------------
CTOR_HEADER = """/-
  GENERATED by /verif/vk/translate.py from {src} (sha256 {sha}).
  The sequence of array operations `SpectrumAnalyzer.__init__` applies to the caller's data, per input rank,
  as `Model.HeapOp`s (aliasing semantics in Model/Analyzer.lean).  Do not edit.
-/
import SpecKitV.Model.Analyzer

namespace Gen
open Model

"""


def _ctor_ops(stmts: List[ast.stmt]) -> List[str]:
    ops: List[str] = []
    for st in stmts:
        for n in ast.walk(st):
            if isinstance(n, ast.Call):
                fn = ast.unparse(n.func)
                if fn == "np.ascontiguousarray":
                    if not any(k.arg == "dtype" and ast.unparse(k.value) == "np.float64" for k in n.keywords):
                        raise Unsupported(f"line {n.lineno}: ascontiguousarray without dtype=np.float64")
                    ops.append((n.lineno, "ascontig64"))
                elif fn == "np.nan_to_num":
                    copy = [ast.unparse(k.value) for k in n.keywords if k.arg == "copy"]
                    if ast.unparse(n.args[0]) != "self.data":
                        raise Unsupported(f"line {n.lineno}: nan_to_num of {ast.unparse(n.args[0])}")
                    if copy not in ([], ["True"], ["False"]):
                        raise Unsupported(f"line {n.lineno}: nan_to_num copy= is not a literal ({copy[0]})")
                    inplace = (copy == ["False"])
                    ops.append((n.lineno, "nanToNumInPlace" if inplace else "nanToNumCopy"))
                elif fn in ("np.copy", "np.array") or fn.endswith(".copy"):
                    ops.append((n.lineno, "nanToNumCopy"))   # a fresh buffer: same aliasing effect as a copying sanitiser
            if isinstance(n, ast.Subscript) and isinstance(n.ctx, ast.Store) and ast.unparse(n.value) in ("self.data", "x", "data", "data_2n"):
                ops.append((n.lineno, "nanToNumInPlace"))       # any element store into the (possibly aliased) buffer
    return [o for _, o in sorted(set(ops))]


def gen_ctor(repo: str = REPO) -> Tuple[str, List[str]]:
    path = os.path.join(repo, "speckit/analysis.py")
    out = CTOR_HEADER.format(src="speckit/analysis.py", sha=sha_of(path))
    try:
        tree = ast.parse(open(path).read())
        init = None
        for c in ast.walk(tree):
            if isinstance(c, ast.ClassDef) and c.name == "SpectrumAnalyzer":
                for f in c.body:
                    if isinstance(f, ast.FunctionDef) and f.name == "__init__":
                        init = f
        if init is None:
            raise Unsupported("SpectrumAnalyzer.__init__ not found")
        branch2d = branch1d = None
        pre: List[ast.stmt] = []
        for st in init.body:
            if isinstance(st, ast.If) and "x.ndim == 2" in ast.unparse(st.test):
                branch2d = st.body
                for el in st.orelse:
                    if isinstance(el, ast.If) and "x.ndim == 1" in ast.unparse(el.test):
                        branch1d = el.body
                break
            pre.append(st)
        if branch2d is None or branch1d is None:
            raise Unsupported("constructor: rank dispatch not recognised")
        if not any(isinstance(st, ast.Assign) and ast.unparse(st.value) == "np.asarray(data)" for st in pre):
            raise Unsupported("constructor: x = np.asarray(data) not found")
        ops1 = ["asarray"] + _ctor_ops(branch1d)
        ops2 = _ctor_ops(branch2d)
        uses_T = any(isinstance(n, ast.Attribute) and n.attr == "T" for st in branch2d for n in ast.walk(st))
        ops2r = ["asarray"] + ops2
        ops2t = ["asarray"] + (["transposeView"] if uses_T else []) + ops2
        fmt = lambda l: "[" + ", ".join("HeapOp." + o for o in l) + "]"
        out += f"/-- 1-D input -/\ndef ctorOps1D : List HeapOp := {fmt(ops1)}\n\n"
        out += f"/-- 2×N input (rows are channels) -/\ndef ctorOps2DRows : List HeapOp := {fmt(ops2r)}\n\n"
        out += f"/-- N×2 input (transposed view first) -/\ndef ctorOps2DCols : List HeapOp := {fmt(ops2t)}\n\n"
        out += "end Gen\n"
        return out, []
    except Unsupported as ex:
        msg = str(ex).replace("-/", "- /")
        return out + f"/- UNSUPPORTED ctor: {msg} -/\ndef ctor_UNSUPPORTED : Nat := translation_failed_ctor\nend Gen\n", [str(ex)]


if __name__ == "__main__":
    import sys
    if "--write" in sys.argv:
        print(regenerate())
        sys.exit(0)
    text, known, errs = gen_core()
    print(text)
    print("ERRORS", errs)
