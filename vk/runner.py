"""check runner: regenerate -> build -> audit -> corpus/correspondence -> oracle -> decide (DESIGN §2.7)"""
from __future__ import annotations

import importlib
import json
import os
import sys
import time
import traceback
from dataclasses import dataclass
from typing import Any, Dict, List

import numpy as np

from . import common as C
from . import translate as T

TRUSTED_BASE = [
    "Lean 4.33.0 kernel (thorough tier: leanchecker replay of the property modules)",
    "axioms: propext, Classical.choice, Quot.sound only (audited per theorem with #print axioms); no native_decide, no sorry",
    "Mathlib v4.33.0 definitions of ℝ, ℂ, Real.sin/cos/exp/arcsin/sqrt/rpow, Finset sums, Lagrange.basis",
    "py2lean translator (vk/translate.py + region plug-ins vk/regions/*.py): validated each run by executing the generated code in Float against the "
    "Python it came from; TRANSLATED from /repo each run (Gen/*.lean), each proved EQUAL to the hand model / specification the property theorems "
    "are about (Props/*Gen.lean): the 6 Numba kernels + helpers + reducer, the 6 CUDA kernels + host wrappers, the 6 NumPy fallback kernels + "
    "_gather_segments (whole-array semantics, chunk loop literal) and their buffer operations (KernelHeap: no kernel writes a caller buffer); the whole "
    "SpectrumResult.__getattr__ formula table and its cache protocol, __dir__, get_measurement, to_dataframe's column selection, get_rms, compute()'s "
    "assembly of the per-bin rows; _lpsd_core's per-bin loop with its window and basis caches and the 18-way kernel dispatch, the same dispatch in "
    "compute_single_bin, its request resolution, segmentation and omega, plan()'s cache / force_target_nf / keyword logic, validation and band "
    "restriction, _process_window_config, _process_scheduler_config, __init__'s buffer operations; kaiser_alpha / kaiser_rov / round_half_up / "
    "find_Jdes_binary_search; the walks of ltf_plan / new_ltf_plan / vectorized_ltf_plan, their start positions, closed-form shift/D/O, overlap loop, "
    "argument unpacking, output dictionaries, lpsd_plan's forwarding; lagrange_taps, timeshift (both paths), df_timeshift's arithmetic; crop_data, "
    "integral_rms, polynomial_detrend; the noise generator classes as state machines, the IIR cascade and coefficient design, alpha_noise's corner "
    "placement, fftnoise's spectrum assembly, band_limited_noise's mask; the assembly of T / S / S00, the solver call and the residual formulas of "
    "the SISO / MISO functions. External routines enter the translated code as stated CONTRACTS (Lean definitions in SpecKitV/Np/*.lean, one sealed "
    "`opaque` for scipy.lfilter's state on an empty block; never axioms), listed per property in `assumptions`/CONTRACTS. Added in the fourth session: "
    "core._build_Q (the reduced QR enters as ONE contract, a Gram-Schmidt definition equal to NumPy's Q up to column signs; the library's own basis is "
    "PROVED to satisfy the basis contract of every detrending theorem), SpectrumAnalyzer.__init__ whole (defaults, validation, config table, shape "
    "dispatch, sanitising), SpectrumResult.__init__, the module-level wrappers lpsd / compute_spectrum / compute_single_bin, core._select_backend, "
    "core._check_starts_bounds, dsp.df_timeshift and dsp.df_detrend whole (frame value model); two reasoning-only scans of the current source: "
    "GlobalState (module- and class-level state and every decorator of every library file = the audited lists) and ResultPurity (buffer effects of "
    "every SpectrumResult method: no in-place write on an object that may alias a cache entry). A downstream property's check carries the equality "
    "theorems of the properties it is downstream of (coverage.upstream). HAND-MODELLED and tied by correspondence only: copy / pickle object "
    "protocol, the file loaders, plotting, the CUDA launch machinery",
    "correspondence harness (vk/props/*.py) and Lean driver (lean/Driver.lean)",
    "modelled, not verified: CPython/Numba/LLVM/NVVM semantics, IEEE rounding and fastmath, GPU execution (CUDA simulator only), "
    "LAPACK QR / np.polyfit / np.linalg.solve,pinv / sympy.solve / scipy.signal.lfilter / np.fft / np.interp / numpy Generator (stated contracts)",
]


@dataclass
class Ctx:
    prop: str
    tier: str
    seed: int
    rng: np.random.Generator
    driver: Any
    t0: float
    budget_s: float

    @property
    def thorough(self) -> bool:
        return self.tier == "thorough"

    def scale(self, quick: int, thorough: int) -> int:
        return thorough if self.thorough else quick

    def time_left(self) -> float:
        return self.budget_s - (time.time() - self.t0)


def excerpt(log: str, n: int = 40) -> str:
    lines = [l for l in log.splitlines() if "error" in l.lower() or "unknown" in l.lower() or "✖" in l]
    return "\n".join((lines or log.splitlines())[-n:])


def collect_obligations(prop: str):
    """the property's own generated regions / theorems / contracts merged with those of the properties it is DOWNSTREAM of (module attribute
    UPSTREAM = [ids], transitively): a statement about an analysis-level quantity (a transfer function, a residual, a leakage level) is a theorem
    about the CODE only through the chain  kernels = reference estimator (C01)  ->  pipeline = reference estimator on its own plan (C05)  ->  this
    property's corollaries; an edit that breaks a link upstream leaves the property no longer shown to hold for the code, so the upstream equality
    theorems are obligations of the downstream check as well (wave-5 misses C12e, C15e: edits in core.py / _lpsd_core that the downstream checks
    did not depend on)."""
    regions: List[str] = []
    theorems: Dict[str, List[str]] = {}
    contracts: List[str] = []
    via: Dict[str, str] = {}
    seen: List[str] = []

    def visit(pid: str, origin: str):
        if pid in seen:
            return
        seen.append(pid)
        m = importlib.import_module(f"vk.props.{pid}")
        for r in getattr(m, "GEN_REGIONS", []):
            if r not in regions:
                regions.append(r)
        for mname, ths in m.THEOREMS.items():
            lst = theorems.setdefault(mname, [])
            for t in ths:
                if t not in lst:
                    lst.append(t)
                    if pid != prop:
                        via[t] = pid
        for c in getattr(m, "CONTRACTS", []):
            if c not in contracts:
                contracts.append(c)
        for up in getattr(m, "UPSTREAM", []):
            visit(up, pid)

    visit(prop, prop)
    return regions, theorems, contracts, via, [p for p in seen if p != prop]


class _Merged:
    """view of a property module with the merged (own + upstream) obligations; everything else is the module's own"""

    def __init__(self, mod, regions, theorems, contracts):
        self._mod = mod
        self.GEN_REGIONS = regions
        self.THEOREMS = theorems
        self.CONTRACTS = contracts

    def __getattr__(self, name):
        return getattr(self._mod, name)


def run_check(prop: str, tier: str, seed: int, replay_path: str = "") -> int:
    t0 = time.time()
    own = importlib.import_module(f"vk.props.{prop}")
    regions, theorems_all, contracts, via, upstream = collect_obligations(prop)
    mod = _Merged(own, regions, theorems_all, contracts)
    broken: List[Dict[str, Any]] = []
    cov: Dict[str, Any] = {}

    # 1. regenerate the generated Lean from /repo's current source
    try:
        rep = T.regenerate(C.REPO)
    except Exception as ex:  # translator crash = every region broken
        rep = {r: [f"translator crashed: {ex!r}"] for r in getattr(mod, "GEN_REGIONS", [])}
    cov["upstream"] = upstream
    cov["translator"] = {"regions": getattr(mod, "GEN_REGIONS", []),
                         "errors": {r: rep.get(r, []) for r in getattr(mod, "GEN_REGIONS", [])},
                         "source_sha": {f: T.sha_of(os.path.join(C.REPO, "speckit", f)) for f in
                                        ("core.py", "core_cuda.py", "analysis.py", "schedulers.py", "noise.py", "dsp.py", "utils.py", "systems.py")}}
    for r in getattr(mod, "GEN_REGIONS", []):
        if rep.get(r):
            broken.append({"kind": "translator", "region": r, "errors": rep[r]})

    # 2. build the driver and the property's theorem modules against the regenerated code
    modules = list(mod.THEOREMS.keys())
    ok_drv, out_drv = C.lake_build(["skdriver"])
    my_regions = list(getattr(mod, "GEN_REGIONS", []))
    drv_exe = None
    if ok_drv:
        C.remember_good_driver()
    else:
        # The driver links EVERY generated region. If it no longer builds because of a region this property does not depend on (say dsp.py was
        # rewritten and the property is about the schedulers), that is not a broken obligation of THIS property: the last driver that did build is
        # used instead, provided the generated files of this property's own regions (and of the kernel/attribute regions every analysis-level
        # correspondence runs through) are byte-identical to the ones that driver was built from.
        drv_exe, why = C.good_driver_for(sorted((set(my_regions) | set(getattr(mod, "DRIVER_REGIONS", C.CORE_DRIVER_REGIONS))) - C.NO_DRIVER_OPS))
        if drv_exe is None:
            broken.append({"kind": "build", "target": "skdriver (generated code does not compile)", "log": excerpt(out_drv), "fallback": why})
        else:
            cov["driver_fallback"] = ("current generated code of an unrelated region does not compile; using the last good driver, whose generated "
                                      "sources for this property's regions are identical to the current ones")
            ok_drv = True
    ok_props, out_props = C.lake_build(modules) if modules else (True, "")
    built_ok = list(modules)
    if not ok_props:
        # which theorem modules no longer build? (the others are still audited and counted)
        built_ok, failed = [], []
        for m in modules:
            okm, outm = C.lake_build([m])
            (built_ok if okm else failed).append(m)
            if not okm:
                broken.append({"kind": "build", "target": [m], "log": excerpt(outm, 12),
                               **({"upstream_of": sorted({via[t] for t in mod.THEOREMS[m] if t in via})} if any(t in via for t in mod.THEOREMS[m]) else {})})
        if not failed:
            broken.append({"kind": "build", "target": modules, "log": excerpt(out_props)})

    # 3. audit
    obligations = sum(len(v) for v in mod.THEOREMS.values())
    discharged = 0
    theorems = []
    if built_ok:
        audited = {m: ths for m, ths in mod.THEOREMS.items() if m in built_ok}
        ax, out_ax = C.audit_axioms(audited, prop)
        for m, ths in audited.items():
            for t in ths:
                a = ax.get(t)
                good = a is not None and set(a) <= C.ALLOWED_AXIOMS
                discharged += 1 if good else 0
                theorems.append({"name": t, "module": m, "axioms": a, **({"upstream_of": via[t]} if t in via else {})})
                if not good:
                    broken.append({"kind": "audit", "theorem": t, "axioms": a})
    scan = C.lean_source_scan()
    if scan:
        broken.append({"kind": "forbidden-construct", "hits": scan})
    cov.update({"obligations": obligations, "discharged": discharged, "theorems": theorems,
                "checker_cmd": "lake build " + " ".join(modules) + f" && lake env lean SpecKitV/Audit/{prop}.lean   (cwd=/verif/lean)",
                "trusted_base": TRUSTED_BASE + list(getattr(mod, "CONTRACTS", []))})
    if tier == "thorough" and ok_props and modules:
        with C.LakeLock():
            rc, out_lc = C.run(["lake", "env", "leanchecker"] + modules, cwd=C.LEAN_DIR, timeout=3600)
        cov["leanchecker"] = {"rc": rc, "tail": out_lc[-400:]}
        if rc != 0:
            broken.append({"kind": "leanchecker", "log": out_lc[-2000:]})

    # 4./5. correspondence and oracle
    drv = None
    try:
        drv = C.Driver(drv_exe) if ok_drv else None
    except Exception as ex:
        broken.append({"kind": "driver", "error": repr(ex)})
    budget = float(os.environ.get("VERIF_BUDGET_S", "1000" if tier == "thorough" else "240"))
    ctx = Ctx(prop, tier, seed, np.random.default_rng(seed), drv, time.time(), budget)
    corr = C.Part()
    orc = C.Part()
    try:
        if replay_path:
            data = json.load(open(replay_path))
            orc = mod.replay(ctx, data)
        else:
            if drv is not None:
                corr = mod.correspondence(ctx)
            else:
                corr.notes.append("driver unavailable: correspondence not run")
            for dsg in corr.disagreements:
                broken.append({"kind": "correspondence", "case": dsg})
            ctx.t0 = time.time()
            orc = mod.oracle(ctx, intensive=bool(broken), hints=[d for d in corr.disagreements])
    except KeyboardInterrupt:
        raise
    except BaseException as ex:  # noqa  (the library may call sys.exit(): SystemExit is not an Exception)
        C.log(traceback.format_exc())
        if broken and not replay_path:
            # an obligation is already broken and the failing-input search itself was stopped by an exception escaping the library
            # (e.g. sys.exit() inside a scheduler): decided as "no failing input found", with the exception recorded
            broken.append({"kind": "search-aborted", "error": repr(ex)})
            orc.notes.append(f"failing-input search aborted by {ex!r}")
        else:
            print(f"INFRA-ERROR property={prop} {ex!r}")
            if drv:
                drv.close()
            return 2
    if drv:
        drv.close()

    # decide
    findings = C.load_findings()
    known, fresh = [], []
    for v in orc.violations:
        fm = [f for f in findings if C.finding_matches(f, prop, v.signature)]
        (known if fm else fresh).append((v, fm))
    rc = 0
    lines = []
    seen_known = set()
    for v, fm in known:
        if fm[0]["id"] not in seen_known:
            seen_known.add(fm[0]["id"])
            lines.append(f"KNOWN-FINDING: property={prop} {fm[0]['text']}")
    replay_file = ""
    if fresh:
        rc = 1
        replay_file = os.path.join(C.REPLAY_DIR, f"{prop}-{seed}.json")
        C.write_json(replay_file, {"property": prop, "seed": seed, "tier": tier,
                                   "violations": [{"what": v.what, "signature": v.signature, "replay": v.replay} for v, _ in fresh[:5]],
                                   "broken_obligations": broken,
                                   "replay_cmd": f"./check {prop} --replay {replay_file}"})
        lines.append(f"VIOLATION property={prop} replay={replay_file}")
        for v, _ in fresh[:3]:
            C.log("  violation:", v.what)
    elif broken and not replay_path:
        rc = 1
        replay_file = os.path.join(C.REPLAY_DIR, f"{prop}-{seed}.json")
        C.write_json(replay_file, {"property": prop, "seed": seed, "tier": tier, "violations": [],
                                   "broken_obligations": broken,
                                   "note": "a proof obligation or the model/code correspondence no longer checks; the failing-input search on the "
                                           "real implementation found no input on which the property fails"})
        lines.append(f"VIOLATION property={prop} replay={replay_file} no-failing-input-found")
        for b in broken[:4]:
            C.log("  broken:", json.dumps(C.jsonable(b))[:600])

    # evidence
    nontriv = len(corr.nontrivial) + len(orc.nontrivial)
    cov.update({
        "correspondence": {"cases": corr.cases, "disagreements": len(corr.disagreements), "unstable_boundary": corr.unstable,
                           "branch_histogram": corr.histogram, "notes": corr.notes},
        "oracle": {"evaluations": orc.cases, "distinct_nontrivial": len(orc.nontrivial), "histogram": orc.histogram,
                   "unstable_boundary": orc.unstable, "notes": orc.notes, "intensive": bool(broken)},
        "evaluations": corr.cases + orc.cases,
        "distinct_nontrivial": nontriv,
        "rule": getattr(mod, "RULE", "generated cases; distinct by input hash; non-trivial per the property module"),
        "samples": (corr.samples + orc.samples)[:10] or [{"theorems": [t["name"] for t in theorems[:5]]}],
        "broken_obligations": broken,
        "known_findings_reported": sorted(seen_known),
        "driver_requests": drv.n if drv else 0,
    })
    ev = {"property_id": prop, "tier": tier, "seed": seed, "level": "proof", "coverage": cov,
          "assumptions": list(getattr(mod, "ASSUMPTIONS", [])) + ["see coverage.trusted_base"],
          "wall_s": round(time.time() - t0, 2), "violations": len(fresh) if fresh else (1 if rc == 1 else 0)}
    if not replay_path:
        C.write_json(os.path.join(C.EVIDENCE_DIR, f"{prop}.json"), ev)
    for l in lines:
        print(l)
    print(f"{prop} {tier} seed={seed}: obligations {discharged}/{obligations}, correspondence {corr.cases} cases "
          f"({len(corr.disagreements)} disagreements, {corr.unstable} unstable), oracle {orc.cases} evaluations "
          f"({len(orc.violations)} violations), {time.time() - t0:.1f}s -> exit {rc}")
    return rc


def main(argv: List[str]) -> int:
    import argparse
    ap = argparse.ArgumentParser()
    ap.add_argument("prop")
    ap.add_argument("--tier", default=os.environ.get("VERIF_TIER", "quick"))
    ap.add_argument("--replay", default="")
    a = ap.parse_args(argv)
    seed = int(os.environ.get("VERIF_SEED", "0"))
    try:
        return run_check(a.prop, a.tier, seed, a.replay)
    except Exception:
        C.log(traceback.format_exc())
        print(f"INFRA-ERROR property={a.prop}")
        return 2


if __name__ == "__main__":
    sys.exit(main(sys.argv[1:]))
