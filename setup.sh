#!/bin/bash
# setup_cmd: build the Lean library (models, generated code, lemmas, property theorems) and the driver, warm numba.
set -e
cd "$(dirname "$0")"
export PYTHONPATH="$PWD:$PYTHONPATH"
export NUMBA_CACHE_DIR="${NUMBA_CACHE_DIR:-$PWD/.cache/numba}"
/venv/bin/python -W ignore -c "from vk import translate as T; r=T.regenerate(); print({k:v for k,v in r.items() if not k.startswith('_')})"
cd lean
lake build skdriver
# the whole library (every theorem file) is pre-built so that the checks only re-check what a source edit touches; a module that does not build
# here is not fatal for setup: the property that owns it reports it as a broken obligation with its own failing-input search
lake build SpecKitV || echo "setup: some theorem modules did not build (reported by the checks that own them)"
cd ..
/venv/bin/python -W ignore -c "
import numpy as np, warnings
warnings.filterwarnings('ignore')
from speckit import compute_spectrum
x=np.random.default_rng(0).standard_normal((2,600))
for o in (-1,0,1,2):
    compute_spectrum(x,1.0,order=o,Jdes=10,Kdes=4); compute_spectrum(x[0],1.0,order=o,Jdes=10,Kdes=4)
print('numba warm')
"
