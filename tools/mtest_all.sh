#!/bin/bash
# run each seeded mutant (worktrees under /tmp/mut) against its own property's check; summary lines only
for id in "$@"; do
  echo "=== mutant $id vs check $id"
  TAILN=3 /verif/tools/mtest.sh /tmp/mut/$id $id 2>&1 | grep -E "VIOLATION|exit [012]|INFRA" 
done
