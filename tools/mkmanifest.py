#!/usr/bin/env python3
"""Regenerate /verif/MANIFEST.json from the property modules that exist (vk/props/Cxx.py)."""
import importlib
import json
import os
import sys

ROOT = os.path.dirname(os.path.dirname(os.path.abspath(__file__)))
sys.path.insert(0, ROOT)

PARTIAL = {
    "C02": "PARTIAL: the full statement is proved over the real numbers for all four schedulers; NumPy's float-to-int64 cast is modelled as exact rounding, "
           "so its overflow is outside the model (known finding D14: vectorized_ltf_plan at olap = 1-2^-53 leaves a bin without segments; overlaps up to 1-2^-30 are probed clean on every scheduler)",
    "C04": "PARTIAL: sub-claim 'vectorised bin count within 10% of the iterative one' is probed on the real schedulers only (known finding D10 for Jdes<10); "
           "L/K monotonicity is proved for the iterative LTF/LPSD plans and checked by the oracle for the other two schedulers "
           "(known finding D14: vectorized_ltf_plan at olap = 1-2^-53, int64 cast overflow in float arithmetic the model does not carry)",
    "C06": "PARTIAL: the calibration bound is proved in closed form for every detrend order (-1, 0, and 1-2 for any basis Q: r = rho + 2 sum_k rho_k); "
           "how small the leakage terms rho, rho_k are for the Kaiser window is C12's numeric residual (measured, not proved)",
    "C10": "PARTIAL: every functional form, inequality and limit is proved; the sentence 'match the observed spread for Gaussian data' is proved under an explicit statistical model "
           "(Props/StatModel: K pairwise independent periodogram values of mean mu and variance mu^2, the chi^2_2 law, satisfiable: the generated reducer's estimate is unbiased and the generated Gxx_dev "
           "IS its standard deviation, Gxx_error its relative one); for overlapping segments the independence hypothesis fails and the sentence is only probed (thorough tier, cannot alarm)",
    "C11": "PARTIAL: all formulas proved; 'agree with the analytic deviations for Gaussian noise' is proved under an explicit model (Props/StatModel: pairwise uncorrelated per-segment products with common mean and "
           "variance sigma^2: E[XY_emp_var] = (K-1)/K * Var(mean), i.e. the variance of the mean up to the stated bias factor); for overlapping segments the hypothesis fails and the sentence is only probed",
    "C12": "PARTIAL: leakage is reduced by theorem to a bound on the window transform (exact sinusoid response, DFT-even non-negative window, Goertzel at fractional bins); "
           "the numeric side-lobe bound of the sampled Kaiser window itself is NOT a theorem and is measured on the real single-bin path",
    "C18": "PARTIAL: section/cascade closed form, Hermitian synthesis, band mask proved; the '~1 dB' ripple sentence is an approximation-theory bound that is measured, not proved",
    "C19": "PARTIAL: RMS spec/monotone/(super)additive and order-0 detrending proved on the translated functions; df_detrend translated whole over a frame value model (each selected numeric column = polynomial_detrend of the input column, input untouched); orders>=1 rest on the np.polyfit least-squares contract plus the projection lemmas; Parseval 'within a few percent' is statistical and only probed",
    "C20": "PARTIAL: attribute identities, None tables, interpolation, the export column rule and what the result object stores (D always one start vector per bin, every field value-preserved) proved on translated code; copy and pickle are Python object-protocol facts decided by the oracle on the real objects",
    "C13": "PARTIAL: the constructor is translated whole and proved equal to its specification (layout independence, 2x2 convention, rejection iff, stored record = zero-filled record, config table); it writes no caller buffer (generated op list + heap model); finiteness of every guarded attribute proved; NumPy aliasing rules are validated by correspondence; overflow near 1e154 is outside the model (known finding D11)",
    "C14": "PARTIAL: any-schedule lemma for map loops (map-ness certified by the translator), history- and access-order independence of the state-machine models proved; LLVM/hardware memory model not modelled",
    "C05": "PARTIAL (glue): cached per-bin loop = plain map, band restriction commutes, single-bin segmentation in range, Kaiser window shape proved on hand models tied by correspondence; np.kaiser's I0 accuracy is compared numerically",
    "C15": "full given the stated solver contract (a solution of the normal equations is returned)",
}

TECH = "Lean 4 theorems (Mathlib) over code regenerated from /repo by a translator and over hand models tied by a differential correspondence check; failing-input search on the real code when an obligation breaks"


def main():
    props = [json.loads(l) for l in open(os.path.join(ROOT, "properties.jsonl"))]
    have = sorted(f[:-3] for f in os.listdir(os.path.join(ROOT, "vk", "props")) if f.startswith("C") and f.endswith(".py"))
    only = set(sys.argv[1:]) if len(sys.argv) > 1 else None
    m = json.load(open(os.path.join(ROOT, "MANIFEST.json")))
    checks, na = [], []
    for p in props:
        pid = p["id"]
        if pid in have and (only is None or pid in only):
            mod = importlib.import_module(f"vk.props.{pid}")
            nth = sum(len(v) for v in mod.THEOREMS.values())
            from vk.runner import collect_obligations
            regs_all, ths_all, _contracts, _via, upstream = collect_obligations(pid)
            nall = sum(len(v) for v in ths_all.values())
            up_txt = (f" plus the {nall - nth} equality theorems of the properties it is downstream of ({', '.join(upstream)}: kernels = reference estimator, pipeline = reference "
                      f"estimator on its own plan; regions {', '.join(r for r in regs_all if r not in mod.GEN_REGIONS)}), which are obligations of this check too;") if upstream else ""
            text = (f"Machine-checked proof: {nth} Lean theorems (modules {', '.join(m_.split('.')[-1] for m_ in mod.THEOREMS)}) state the property over "
                    f"{'code regenerated from /repo (regions ' + ', '.join(mod.GEN_REGIONS) + ') and ' if mod.GEN_REGIONS else ''}executable hand models;" + up_txt + " "
                    "the models are run against the real implementation on every check (correspondence) and the property's predicate is searched for a failing input on the real code. "
                    + PARTIAL.get(pid, "Full statement proved over the real numbers; floating-point rounding is covered by sound tolerances in the correspondence/oracle, not by theorem."))
            checks.append({
                "property_id": pid,
                "quick_cmd": f"./check {pid} --tier quick",
                "thorough_cmd": f"./check {pid} --tier thorough",
                "evidence_file": f"evidence/{pid}.json",
                "replay_cmd_template": f"./check {pid} --replay {{path}}",
                "engine": "lean-proofs",
                "level_claimed": {"category": "proof", "text": text, "design_ref": f"DESIGN.md §4 {pid}, §5"},
                "level_note": "Trusted base: Lean 4.33 kernel (+leanchecker in thorough), axioms propext/Classical.choice/Quot.sound only (audited per theorem), Mathlib; "
                              "py2lean translator and correspondence harness (validated differentially each run); modelled not verified: CPython/Numba/LLVM/NVVM semantics, IEEE rounding/fastmath, "
                              "external routines under stated contracts: " + "; ".join(getattr(mod, "CONTRACTS", []) or ["none beyond NumPy elementwise arithmetic"]),
                "technique": TECH,
            })
        else:
            na.append({"property_id": pid, "reason": "check module still under construction in this session; not claimed until its check is registered"})
    m["checks"] = checks
    m["not_applicable"] = na
    m["notes"] = ("All 20 properties are decided by Lean 4 proof + translator/correspondence tie (see DESIGN.md). 'PARTIAL' in a level text names the sub-claim that is "
                  "measured rather than proved. Known findings: KNOWN_FINDINGS.txt. Seeded defects used to validate the checks: seeded/.")
    json.dump(m, open(os.path.join(ROOT, "MANIFEST.json"), "w"), indent=1)
    print("checks:", [c["property_id"] for c in checks], "not yet:", [n["property_id"] for n in na])


if __name__ == "__main__":
    main()
