#!/bin/bash
# tools/merge_ext.sh <task> — bring the commits a region-extension sub-agent made in its scratch copy /tmp/ext/<task>/verif into /verif:
# fetch its HEAD, cherry-pick every commit that is not an ancestor of ours (evidence/ and replays/ changes dropped), regenerate the Gen files
# from /repo, and rebuild. Conflicts are left for manual resolution.
t="$1"; src=/tmp/ext/$t/verif
cd /verif || exit 2
git fetch -q $src HEAD:refs/ext/$t || exit 2
base=$(git merge-base HEAD refs/ext/$t)
commits=$(git rev-list --reverse $base..refs/ext/$t)
echo "$t: base $base, commits: $(echo $commits | wc -w)"
for c in $commits; do
  git cherry-pick -n $c > /tmp/ext/$t/cp.log 2>&1 || { echo "CONFLICT in $c:"; git status --short | grep -E "^(UU|AA|DU|UD)"; }
done
# never take the agent's evidence / audit scratch / replay files
git reset -q HEAD -- evidence replays lean/SpecKitV/Audit 2>/dev/null; git checkout -- evidence lean/SpecKitV/Audit 2>/dev/null
git status --short | grep -v "^ M evidence" | head -40
