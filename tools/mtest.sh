#!/bin/bash
# tools/mtest.sh <mutant-worktree> <prop> [<prop>…] — run checks of a COPY of /verif against a mutated copy of the library
# (development aid: leaves /repo and /verif untouched so that other runs are not disturbed)
W="$1"; shift
rsync -a --delete --exclude .git --exclude evidence --exclude replays /verif/ /tmp/vtest/
cd /tmp/vtest
for p in "$@"; do
  SPECKIT_REPO="$W" PYTHONPATH="$W" NUMBA_CACHE_DIR=/tmp/vtest/.cache/numba-$(basename $W) ./check "$p" 2>&1 | grep -v "^WARNING conda" | tail -${TAILN:-6}
done
