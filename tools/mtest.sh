#!/bin/bash
# tools/mtest.sh <mutant-worktree> <prop> [<prop>…] — run checks of a COPY of /verif against a mutated copy of the library
# (development aid: leaves /repo and /verif untouched so that other runs are not disturbed; one scratch copy per first property,
# so that several invocations for different properties can run concurrently)
W="$1"; shift
VT=/tmp/vtest_$1
rsync -a --delete --exclude .git --exclude evidence --exclude replays /verif/ $VT/
cd $VT
for p in "$@"; do
  SPECKIT_REPO="$W" PYTHONPATH="$W" NUMBA_CACHE_DIR=$VT/.cache/numba-$(basename $W) ./check "$p" 2>&1 | grep -v "^WARNING conda" | tail -${TAILN:-6}
done
