#!/bin/bash
# tools/mtest_matrix.sh [ids…] — run every stored seeded defect (/verif/seeded/<id>/patch.diff, applied to a fresh scratch worktree of
# /repo, removed afterwards) against its own property's quick check; rewrites seeded/RESULTS.tsv:
# seeded-id, property, exit, discharged/obligations, correspondence cases, disagreements, oracle evaluations, violations, verdict line
out=${OUT:-/verif/seeded/RESULTS.tsv}
ids="$@"; [ -z "$ids" ] && ids=$(ls /verif/seeded | grep -E '^C[0-9][0-9][a-z]?$')
[ $# -eq 0 -o ! -f $out ] && echo -e "seeded\tproperty\texit\tobligations\tcorr_cases\tcorr_disagreements\toracle_evals\toracle_violations\tverdict" > $out
for id in $ids; do
  p=${id:0:3}
  log=$(TAILN=400 /verif/tools/mtest_patch.sh $id $p 2>&1)
  line=$(echo "$log" | grep -E "^$p quick seed" | tail -1)
  verdict=$(echo "$log" | grep -E "^VIOLATION" | tail -1 | sed 's/replay=[^ ]*//')
  ex=$(echo "$line" | sed -n 's/.*-> exit \([0-9]\).*/\1/p')
  ob=$(echo "$line" | sed -n 's/.*obligations \([0-9]*\/[0-9]*\).*/\1/p')
  cc=$(echo "$line" | sed -n 's/.*correspondence \([0-9]*\) cases.*/\1/p')
  cd_=$(echo "$line" | sed -n 's/.*cases (\([0-9]*\) disagreements.*/\1/p')
  oe=$(echo "$line" | sed -n 's/.*oracle \([0-9]*\) evaluations.*/\1/p')
  ov=$(echo "$line" | sed -n 's/.*evaluations (\([0-9]*\) violations.*/\1/p')
  grep -v "^$id	" $out > $out.tmp; mv $out.tmp $out
  echo -e "$id\t$p\t$ex\t$ob\t$cc\t$cd_\t$oe\t$ov\t$verdict" >> $out
  echo "$id exit=$ex ob=$ob corr=$cc/$cd_ oracle=$oe/$ov $verdict"
done
