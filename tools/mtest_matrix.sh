#!/bin/bash
# run every seeded defect (worktrees /tmp/mut/Cxx = first wave, /tmp/mut2/Cxx = second wave 'b') against its own property's quick check;
# writes seeded/RESULTS.tsv: seeded-id, property, exit, discharged/obligations, correspondence cases, disagreements, oracle evaluations, violations, verdict line
out=/verif/seeded/RESULTS.tsv
echo -e "seeded\tproperty\texit\tobligations\tcorr_cases\tcorr_disagreements\toracle_evals\toracle_violations\tverdict" > $out
for w in /tmp/mut /tmp/mut2; do
  for d in $w/C??; do
    [ -f $d/patch.diff ] || continue
    p=$(basename $d); id=$p; [ $w = /tmp/mut2 ] && id=${p}b
    log=$(TAILN=400 /verif/tools/mtest.sh $d $p 2>&1)
    line=$(echo "$log" | grep -E "^$p quick seed" | tail -1)
    verdict=$(echo "$log" | grep -E "^VIOLATION" | tail -1 | sed 's/replay=[^ ]*//')
    ex=$(echo "$line" | sed -n 's/.*-> exit \([0-9]\).*/\1/p')
    ob=$(echo "$line" | sed -n 's/.*obligations \([0-9]*\/[0-9]*\).*/\1/p')
    cc=$(echo "$line" | sed -n 's/.*correspondence \([0-9]*\) cases.*/\1/p')
    cd_=$(echo "$line" | sed -n 's/.*cases (\([0-9]*\) disagreements.*/\1/p')
    oe=$(echo "$line" | sed -n 's/.*oracle \([0-9]*\) evaluations.*/\1/p')
    ov=$(echo "$line" | sed -n 's/.*evaluations (\([0-9]*\) violations.*/\1/p')
    echo -e "$id\t$p\t$ex\t$ob\t$cc\t$cd_\t$oe\t$ov\t$verdict" >> $out
  done
done
