#!/bin/bash
# tools/mtest_patch.sh <seeded-id> [<prop>] — apply /verif/seeded/<id>/patch.diff to a fresh scratch worktree of /repo, run the
# property's quick check of a scratch copy of /verif against it (tools/mtest.sh), remove the worktree.
id="$1"; p="${2:-${id:0:3}}"; W=/tmp/mw_$id
git -C /repo worktree remove --force $W 2>/dev/null; rm -rf $W
git -C /repo worktree add -q --detach $W HEAD || exit 2
git -C $W apply /verif/seeded/$id/patch.diff || { echo "$id: PATCH DOES NOT APPLY"; git -C /repo worktree remove --force $W; exit 2; }
TAILN=${TAILN:-3} /verif/tools/mtest.sh $W $p
git -C /repo worktree remove --force $W; rm -rf $W
