#!/bin/bash
# tools/adopt_seeded.sh <Cxx> <suffix> — take a finished seeded change from the sub-agent's scratch worktree /tmp/mut4/<Cxx> into
# /verif/seeded/<Cxx><suffix>/ (patch.diff regenerated from the worktree's diff, demo.py, meta.json), confirm it in a FRESH worktree
# (tools/confirm_seeded.sh), run the property's quick check against it (tools/mtest_patch.sh), and remove the agent's worktree.
p="$1"; suf="$2"; id="$p$suf"; W=${MUTDIR:-/tmp/mut4}/$p
[ -f $W/demo.py ] && [ -f $W/meta.json ] || { echo "$id: worktree incomplete"; exit 2; }
mkdir -p /verif/seeded/$id
git -C $W diff -- speckit > /verif/seeded/$id/patch.diff
[ -s /verif/seeded/$id/patch.diff ] || cp $W/patch.diff /verif/seeded/$id/patch.diff
cp $W/demo.py $W/meta.json /verif/seeded/$id/
/verif/tools/confirm_seeded.sh $id 2>&1 | tail -1
TAILN=3 /verif/tools/mtest_patch.sh $id $p 2>&1 | grep -E "^VIOLATION|quick seed|INFRA" | sed 's/replay=[^ ]*//'
git -C /repo worktree remove --force $W 2>/dev/null; rm -rf $W
