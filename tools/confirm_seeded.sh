#!/bin/bash
# tools/confirm_seeded.sh <Cxx> — confirm a seeded defect in a fresh scratch worktree of /repo:
# demo passes without the patch, fails with it, and the unedited test-suite still passes with it. Removes the worktree afterwards.
id="$1"; W=/tmp/confirm_$id
git -C /repo worktree remove --force $W 2>/dev/null; rm -rf $W
git -C /repo worktree add -q --detach $W HEAD || exit 2
run() { (cd $W && PYTHONPATH=$W NUMBA_CACHE_DIR=$W/.nbcache NUMBA_NUM_THREADS=2 MPLBACKEND=Agg timeout 1800 /venv/bin/python -W ignore "$@"); }
cp /verif/seeded/$id/demo.py $W/demo.py
run demo.py > $W/demo_clean.log 2>&1; rc_clean=$?
git -C $W apply /verif/seeded/$id/patch.diff || { echo "$id: PATCH DOES NOT APPLY"; exit 2; }
run demo.py > $W/demo_mut.log 2>&1; rc_mut=$?
run -m pytest -q -p no:cacheprovider --timeout=900 tests > $W/suite.log 2>&1; rc_suite=$?
summary=$(tail -1 $W/suite.log)
echo "$id: demo clean rc=$rc_clean, demo with patch rc=$rc_mut, suite rc=$rc_suite ($summary)"
python3 - "$id" "$rc_clean" "$rc_mut" "$rc_suite" "$summary" <<'PY'
import json,sys
id_,rc_clean,rc_mut,rc_suite,summary=sys.argv[1:6]
p=f"/verif/seeded/{id_}/meta.json"
m=json.load(open(p))
m["confirmed"]={"demo_without_patch_exit":int(rc_clean),"demo_with_patch_exit":int(rc_mut),"suite_with_patch_exit":int(rc_suite),"suite_summary":summary,
                "how":"tools/confirm_seeded.sh in a fresh scratch worktree of /repo (removed afterwards)"}
json.dump(m,open(p,"w"),indent=1)
PY
git -C /repo worktree remove --force $W; rm -rf $W
