#!/bin/bash
for id in "$@"; do
  echo "=== mutant2 $id vs check $id"
  TAILN=3 /verif/tools/mtest.sh /tmp/mut2/$id $id 2>&1 | grep -E "VIOLATION|exit [012]|INFRA" 
done
