#!/bin/bash
# tools/refac_test.sh <Rk> <j> [props…] — apply the behaviour-preserving refactor /tmp/refac/<Rk>/refactor<j>.diff to a fresh scratch worktree of /repo
# and run the quick checks of a scratch copy of /verif against it (all 20 by default). Expected: every check exits 0 (the property still holds).
# Prints one line per check that does NOT exit 0. Removes the worktree and the scratch copy afterwards.
R="$1"; j="$2"; shift 2; props="$@"; [ -z "$props" ] && props=$(for i in $(seq -w 1 20); do echo C$i; done)
W=/tmp/rw_${R}_$j; VT=/tmp/vtest_${R}_$j
git -C /repo worktree remove --force $W 2>/dev/null; rm -rf $W $VT
git -C /repo worktree add -q --detach $W HEAD || exit 2
git -C $W apply /tmp/refac/$R/refactor$j.diff || { echo "$R/$j: PATCH DOES NOT APPLY"; git -C /repo worktree remove --force $W; exit 2; }
rsync -a --delete --exclude .git --exclude evidence --exclude replays /verif/ $VT/
cd $VT
bad=0
for p in $props; do
  out=$(SPECKIT_REPO="$W" PYTHONPATH="$W" NUMBA_CACHE_DIR=$VT/.cache/numba-refac ./check "$p" 2>&1 | grep -E "quick seed|^VIOLATION|INFRA" | tr '\n' ' ')
  case "$out" in *"exit 0"*) ;; *) bad=$((bad+1)); echo "$R/$j $p: $(echo $out | sed 's/replay=[^ ]*//' | cut -c1-260)";; esac
done
echo "$R/$j: $bad check(s) not green of $(echo $props | wc -w)"
git -C /repo worktree remove --force $W; rm -rf $W $VT
