#!/usr/bin/env python3
"""Regenerate lean/SpecKitV.lean (the library's root import list) from the files present under lean/SpecKitV (Audit/ excluded)."""
import os
root = os.path.join(os.path.dirname(os.path.dirname(os.path.abspath(__file__))), "lean")
mods = []
for d, _, fs in os.walk(os.path.join(root, "SpecKitV")):
    if os.sep + "Audit" in d:
        continue
    for f in fs:
        if f.endswith(".lean"):
            rel = os.path.relpath(os.path.join(d, f), root)[:-5].replace(os.sep, ".")
            mods.append(rel)
open(os.path.join(root, "SpecKitV.lean"), "w").write("".join(f"import {m}\n" for m in sorted(mods)))
print(len(mods), "modules")
