#!/bin/bash
# tools/mtest_wave.sh <worktree-root> <suffix> [ids…] — run seeded defects living in <root>/Cxx against their property's quick check;
# appends to seeded/RESULTS.tsv (same columns as mtest_matrix.sh)
root="$1"; suf="$2"; shift 2
out=/verif/seeded/RESULTS.tsv
for p in "$@"; do
  d=$root/$p
  [ -d $d/speckit ] || continue
  id=${p}${suf}
  log=$(TAILN=400 /verif/tools/mtest.sh $d $p 2>&1)
  line=$(echo "$log" | grep -E "^$p quick seed" | tail -1)
  verdict=$(echo "$log" | grep -E "^VIOLATION" | tail -1 | sed 's/replay=[^ ]*//')
  ex=$(echo "$line" | sed -n 's/.*-> exit \([0-9]\).*/\1/p')
  ob=$(echo "$line" | sed -n 's/.*obligations \([0-9]*\/[0-9]*\).*/\1/p')
  cc=$(echo "$line" | sed -n 's/.*correspondence \([0-9]*\) cases.*/\1/p')
  cd_=$(echo "$line" | sed -n 's/.*cases (\([0-9]*\) disagreements.*/\1/p')
  oe=$(echo "$line" | sed -n 's/.*oracle \([0-9]*\) evaluations.*/\1/p')
  ov=$(echo "$line" | sed -n 's/.*evaluations (\([0-9]*\) violations.*/\1/p')
  grep -v "^$id	" $out > $out.tmp; mv $out.tmp $out
  echo -e "$id\t$p\t$ex\t$ob\t$cc\t$cd_\t$oe\t$ov\t$verdict" >> $out
  echo "$id exit=$ex ob=$ob corr=$cc/$cd_ oracle=$oe/$ov $verdict"
done
