/-
  Driver — line-protocol front end that runs the executable (`Float`) reading of the models and
  of the generated code, for the correspondence checks.  One request per line, one reply per line.
  Floats travel as 16 hex digits of their IEEE bit pattern; integers in decimal.
  Mathlib-free so it can be compiled (`lake build skdriver`) or run with `lean --run`.
-/
import SpecKitV.Num
import SpecKitV.Model.Sched
import SpecKitV.Model.TimeShift
import SpecKitV.Model.Noise
import SpecKitV.Model.Dsp
import SpecKitV.Model.Ref
import SpecKitV.Model.Miso
import SpecKitV.Model.Analyzer
import SpecKitV.Gen.CoreKernels
import SpecKitV.Gen.CudaKernels
import SpecKitV.Gen.Attrs
import SpecKitV.Gen.Sched
import SpecKitV.Gen.Utils
import SpecKitV.Gen.Noise
import SpecKitV.Gen.Dsp
import SpecKitV.Gen.Analysis
import SpecKitV.Drv.Base
import SpecKitV.Drv.ExtNumpyKernels
import SpecKitV.Drv.ExtRms
import SpecKitV.Drv.ExtTimeShift
import SpecKitV.Drv.ExtMiso
import SpecKitV.Drv.ExtNoiseGens
import SpecKitV.Drv.ExtFftNoise
import SpecKitV.Drv.ExtLpsdCore
import SpecKitV.Drv.ExtResultQueries
import SpecKitV.Drv.ExtSchedGlue
import SpecKitV.Drv.ExtConfigGlue
import SpecKitV.Drv.ExtBuildQ
import SpecKitV.Drv.ExtEntryPoints
import SpecKitV.Drv.ExtCtorShape
import SpecKitV.Drv.ExtDfWrappers

namespace Drv

/-- generated kernels (Numba and CUDA host functions) -/
def opKernel : M String := do
  let name ← tok
  let cross := (name.splitOn "csd").length > 1
  let poly := (name.splitOn "poly").length > 1
  let x1 := arrF (← fltArr)
  let x2 ← if cross then (do let a ← fltArr; pure (arrF a)) else pure x1
  let starts := arrN (← natArr)
  let L ← nat
  let w := arrF (← fltArr)
  let omega ← flt
  let Q ← if poly then arr2 else pure ⟨0, 0, fun _ _ => nan⟩
  let r ← match name with
    | "_stats_win_only_auto" => pure (Gen._stats_win_only_auto x1 starts L w omega)
    | "_stats_win_only_csd" => pure (Gen._stats_win_only_csd x1 x2 starts L w omega)
    | "_stats_detrend0_auto" => pure (Gen._stats_detrend0_auto x1 starts L w omega)
    | "_stats_detrend0_csd" => pure (Gen._stats_detrend0_csd x1 x2 starts L w omega)
    | "_stats_poly_auto" => pure (Gen._stats_poly_auto x1 starts L w omega Q)
    | "_stats_poly_csd" => pure (Gen._stats_poly_csd x1 x2 starts L w omega Q)
    | "_stats_win_only_auto_cuda" => pure (Gen._stats_win_only_auto_cuda x1 starts L w omega)
    | "_stats_win_only_csd_cuda" => pure (Gen._stats_win_only_csd_cuda x1 x2 starts L w omega)
    | "_stats_detrend0_auto_cuda" => pure (Gen._stats_detrend0_auto_cuda x1 starts L w omega)
    | "_stats_detrend0_csd_cuda" => pure (Gen._stats_detrend0_csd_cuda x1 x2 starts L w omega)
    | "_stats_poly_auto_cuda" => pure (Gen._stats_poly_auto_cuda x1 starts L w omega Q)
    | "_stats_poly_csd_cuda" => pure (Gen._stats_poly_csd_cuda x1 x2 starts L w omega Q)
    | _ => throw s!"kernel:{name}"
  return fmt5 r

/-- reference estimator: `ref <order> <cross 0|1> x1 [x2] starts L w omega [Q]` -/
def opRef : M String := do
  let order ← int
  let cross ← nat
  let x1 := fnF (← fltArr)
  let x2 ← if cross == 1 then (do let a ← fltArr; pure (fnF a)) else pure x1
  let st ← natArr
  let L ← nat
  let w := fnF (← fltArr)
  let omega ← flt
  let Q ← if order ≥ 1 then arr2 else pure ⟨0, 0, fun _ _ => nan⟩
  let starts := fun j => st.getD j 0
  if cross == 1 then
    return fmt5 (Model.refStats order Q.get x1 x2 starts st.size L w omega)
  else
    return fmt5 (Model.refStatsAuto order Q.get x1 starts st.size L w omega)

def opReduce : M String := do
  let xx := arrF (← fltArr)
  let yy := arrF (← fltArr)
  let xyr := arrF (← fltArr)
  let xyi := arrF (← fltArr)
  return fmt5 (Gen._reduce_stats_nb xx yy xyr xyi)

def cfg : M (Model.Cfg Float) := do
  let N ← nat
  let fs ← flt
  let olap ← flt
  let bmin ← flt
  let Lmin ← nat
  let Jdes ← nat
  let Kdes ← nat
  return { N := N, fs := fs, olap := olap, bmin := bmin, Lmin := Lmin, Jdes := Jdes, Kdes := Kdes }

def fmtBin (b : Model.Bin Float) : String :=
  s!"{fmt b.f} {fmt b.r} {fmt b.b} {b.L} {b.K} {b.navg} {fmt b.O} {b.D.length} " ++ " ".intercalate (b.D.map toString)

/-- `plan <ltf|lpsd|vec|new> cfg` → `nf | bin | bin …` -/
def opPlan : M String := do
  let which ← tok
  let c ← cfg
  let fuel := c.N + 8
  let bins ← match which with
    | "ltf" => pure (Model.ltfPlan c fuel)
    | "lpsd" => pure (Model.lpsdPlan c fuel)
    | "new" => pure (Model.newPlan c fuel)
    | "vec" =>
      let n := 10 * c.Jdes
      let g := Model.vecGrid c
      let memo : Array Float := (Array.range n).map g
      pure (Model.vecPlanCore c fuel n (fun i => memo.getD i nan))
    | _ => throw s!"plan:{which}"
  return s!"{bins.length} | " ++ " | ".intercalate (bins.map fmtBin)

/-- per-bin functions: `starts <even|accum> N L K`, `nseg N xov L`, `rhu v` -/
def opStarts : M String := do
  let which ← tok
  let N ← nat
  let L ← nat
  let K ← int
  if which == "genvec" || which == "gennew" then
    -- translated closed-form post-processing (shift, D, O) of vectorized_ltf_plan / new_ltf_plan for one bin
    let La : Arr Int := ⟨1, fun _ => (L : Int)⟩
    let Ka : Arr Int := ⟨1, fun _ => K⟩
    let g := if which == "genvec" then Gen.vectorized_ltf_plan_post (α := Float) (N : Int) La Ka
             else Gen.new_ltf_plan_post (α := Float) (N : Int) La Ka
    let d := g.2.1.get 0
    return " ".intercalate ((List.range d.n).map (fun i => toString (d.get i))) ++ " | " ++ fmt (g.2.2.get 0)
  let D := if which == "even" then Model.startsEven (α := Float) N L K
    else if which == "gen" then Gen.ltf_plan_starts (α := Float) (N : Int) (L : Int) K     -- translated from ltf_plan each run
    else Model.startsAccum (α := Float) N L K
  return " ".intercalate (D.map toString)

def opAttr : M String := do
  let mode ← tok
  let name ← tok
  let XX ← flt
  let YY ← flt
  let xr ← flt
  let xi ← flt
  let S12 ← flt
  let S2 ← flt
  let M2 ← flt
  let navg ← flt
  let fs ← flt
  let d : Gen.BinData Float := { XX := XX, YY := YY, XY := ⟨xr, xi⟩, S12 := S12, S2 := S2, M2 := M2, navg := navg, fs := fs }
  let R (x : Float) : M String := pure s!"R {fmt x}"
  let C (z : Cx Float) : M String := pure s!"C {fmt z.re} {fmt z.im}"
  if mode == "auto" then
    if Gen.Auto.noneNames.contains name then return "NONE"
    match name with
    | "Gxx" => R (Gen.Auto.Gxx d) | "Gyy" => R (Gen.Auto.Gyy d) | "Gxy" => R (Gen.Auto.Gxy d)
    | "ENBW" => R (Gen.Auto.ENBW d) | "psd" => R (Gen.Auto.psd d) | "G" => R (Gen.Auto.G d)
    | "asd" => R (Gen.Auto.asd d) | "ps" => R (Gen.Auto.ps d)
    | "Gxx_dev" => R (Gen.Auto.Gxx_dev d) | "Gyy_dev" => R (Gen.Auto.Gyy_dev d)
    | "Gxx_error" => R (Gen.Auto.Gxx_error d) | "Gyy_error" => R (Gen.Auto.Gyy_error d)
    | "XX_mean" => R (Gen.Auto.XX_mean d) | "YY_mean" => R (Gen.Auto.YY_mean d) | "XY_M2" => R (Gen.Auto.XY_M2 d)
    | "XY_emp_var" => R (Gen.Auto.XY_emp_var d) | "XY_emp_dev" => R (Gen.Auto.XY_emp_dev d)
    | "Gxx_emp_dev" => R (Gen.Auto.Gxx_emp_dev d)
    | _ => throw s!"attr:{name}"
  else
    if Gen.Cross.noneNames.contains name then return "NONE"
    match name with
    | "Gxx" => R (Gen.Cross.Gxx d) | "Gyy" => R (Gen.Cross.Gyy d) | "Gxy" => C (Gen.Cross.Gxy d)
    | "ENBW" => R (Gen.Cross.ENBW d) | "csd" => C (Gen.Cross.csd d) | "Gyx" => C (Gen.Cross.Gyx d)
    | "Hxy" => C (Gen.Cross.Hxy d) | "Hyx" => C (Gen.Cross.Hyx d) | "coh" => R (Gen.Cross.coh d)
    | "ccoh" => C (Gen.Cross.ccoh d) | "cs" => C (Gen.Cross.cs d) | "tf" => C (Gen.Cross.tf d)
    | "cf" => R (Gen.Cross.cf d) | "cf_db" => R (Gen.Cross.cf_db d) | "cf_rad" => R (Gen.Cross.cf_rad d)
    | "cf_deg" => R (Gen.Cross.cf_deg d) | "GyyCx" => R (Gen.Cross.GyyCx d) | "GyyRx" => R (Gen.Cross.GyyRx d)
    | "GyySx" => R (Gen.Cross.GyySx d) | "Gxx_dev" => R (Gen.Cross.Gxx_dev d) | "Gyy_dev" => R (Gen.Cross.Gyy_dev d)
    | "Gxy_dev" => R (Gen.Cross.Gxy_dev d) | "Hxy_dev" => R (Gen.Cross.Hxy_dev d) | "coh_dev" => R (Gen.Cross.coh_dev d)
    | "Gxx_error" => R (Gen.Cross.Gxx_error d) | "Gyy_error" => R (Gen.Cross.Gyy_error d)
    | "Gxy_error" => R (Gen.Cross.Gxy_error d) | "Hxy_mag_error" => R (Gen.Cross.Hxy_mag_error d)
    | "Hxy_rad_error" => R (Gen.Cross.Hxy_rad_error d) | "Hxy_deg_error" => R (Gen.Cross.Hxy_deg_error d)
    | "coh_error" => R (Gen.Cross.coh_error d) | "XX_mean" => R (Gen.Cross.XX_mean d)
    | "YY_mean" => R (Gen.Cross.YY_mean d) | "XY_M2" => R (Gen.Cross.XY_M2 d)
    | "XY_emp_var" => R (Gen.Cross.XY_emp_var d) | "XY_emp_dev" => R (Gen.Cross.XY_emp_dev d)
    | "Gxy_emp_dev" => R (Gen.Cross.Gxy_emp_dev d)
    | _ => throw s!"attr:{name}"

def opTaps : M String := do
  let h ← nat
  let d ← flt
  return joinF ((List.range (2 * h)).map (fun k => Model.tap h d k))

/-- the taps as TRANSLATED from dsp.lagrange_taps each run (one fractional shift) -/
def opGenTaps : M String := do
  let h ← nat
  let d ← flt
  let t := Gen.lagrange_taps d (h : Int)
  return joinF ((List.range t.n).map t.get)

/-- `tshift <const|var> h data (sInt d)…` : const takes one (sInt, d); var takes one per sample -/
def opTshift : M String := do
  let which ← tok
  let h ← nat
  let data ← fltArr
  let size := data.size
  let f := fnF data
  if which == "const" then
    let sInt ← int
    let d ← flt
    return joinF ((List.range size).map (fun n => Model.shiftConst f size h sInt d n))
  else
    let mut out : List Float := []
    for n in [0:size] do
      let sInt ← int
      let d ← flt
      out := out ++ [Model.shiftVar f size h sInt d n]
    return joinF out

def sections : M (List (Model.Section Float)) := do
  let n ← nat
  let mut l : List (Model.Section Float) := []
  for _ in [0:n] do
    let a0 ← flt
    let a1 ← flt
    let b1 ← flt
    let z ← flt
    l := l ++ [{ a0 := a0, a1 := a1, b1 := b1, z := z }]
  return l

def opCascade : M String := do
  let secs ← sections
  let xs ← fltArr
  let (ys, s') := Model.cascadeRun secs xs.toList
  return joinF ys ++ " | " ++ joinF (s'.map (·.z))

/-- `gen white rms xi reqs` / `gen red rms c e scaling zi xi reqs` / `gen alpha rms scaling secs xi reqs`
    → concatenated output of the request sequence, then the final filter state -/
def opGen : M String := do
  let which ← tok
  match which with
  | "white" =>
    let rms ← flt
    let xi := fnF (← fltArr)
    let reqs ← natArr
    let (ys, s) := Model.runRequests (Model.whiteSeries xi rms) ⟨0⟩ reqs.toList
    return joinF ys ++ s!" | {s.cur}"
  | "red" =>
    let rms ← flt
    let c ← flt
    let e ← flt
    let scaling ← flt
    let zi ← flt
    let xi := fnF (← fltArr)
    let reqs ← natArr
    let (ys, s) := Model.runRequests (Model.redSeries xi rms c e scaling) ⟨⟨0⟩, zi⟩ reqs.toList
    return joinF ys ++ s!" | {s.w.cur} {fmt s.zi}"
  | "alpha" =>
    let rms ← flt
    let scaling ← flt
    let secs ← sections
    let xi := fnF (← fltArr)
    let reqs ← natArr
    let (ys, s) := Model.runRequests (Model.alphaSeries xi rms scaling) ⟨⟨0⟩, secs⟩ reqs.toList
    return joinF ys ++ s!" | {s.w.cur} " ++ joinF (s.secs.map (·.z))
  | _ => throw s!"gen:{which}"

def opCoeffs : M String := do
  let fs ← flt
  let fmin ← flt
  let fmax ← flt
  let (a0, a1, b1) := Model.filterCoeffs fs fmin fmax
  return s!"{fmt a0} {fmt a1} {fmt b1}"

def opCorners : M String := do
  let fmin ← flt
  let fmax ← flt
  let alpha ← flt
  let num := (Model.numSections fmin fmax).toNat
  let l := (List.range num).map (fun i => Model.sectionCorners fmin fmax alpha num i)
  return s!"{num} " ++ joinF (l.map (·.1)) ++ " | " ++ joinF (l.map (·.2))

def pts : M (List (Float × Float)) := do
  let f ← fltArr
  let y ← fltArr
  return (f.toList.zip y.toList)

def opRms : M String := do
  let p ← pts
  let hasBand ← nat
  if hasBand == 1 then
    let a ← flt
    let b ← flt
    match Model.integralRms p (some (a, b)) with
    | some v => return fmt v
    | none => return "RAISE"
  else
    match Model.integralRms p none with
    | some v => return fmt v
    | none => return "RAISE"

def opInterp : M String := do
  let xp ← fltArr
  let fp ← fltArr
  let xs ← fltArr
  return joinF (xs.toList.map (fun x => Model.interp xp.toList fp.toList x))

def opDetrend0 : M String := do
  let xs ← fltArr
  return joinF (Model.detrend0 xs.toList)

def cxArr : M (Array (Cx Float)) := do
  let n ← nat
  let mut a := Array.mkEmpty n
  for _ in [0:n] do
    let re ← flt
    let im ← flt
    a := a.push ⟨re, im⟩
  return a

def opMiso : M String := do
  let q ← nat
  let s00 ← flt
  let S ← cxArr
  let T ← cxArr
  let H ← cxArr
  let z : Cx Float := ⟨nan, nan⟩
  let r := Model.misoResidual q s00 (fun i => S.getD i z) (fun i j => T.getD (i * q + j) z) (fun i => H.getD i z)
  return s!"{fmt r.re} {fmt r.im}"

def opFftSpec : M String := do
  let f ← cxArr
  let rot ← cxArr
  let N := f.size
  let z : Cx Float := ⟨nan, nan⟩
  let l := (List.range N).map (fun k => Model.fftnoiseSpectrum (fun i => f.getD i z) (fun i => rot.getD i z) N k)
  return " ".intercalate (l.map (fun c => s!"{fmt c.re} {fmt c.im}"))

def opBandMask : M String := do
  let N ← nat
  let fs ← flt
  let lo ← flt
  let hi ← flt
  return " ".intercalate ((List.range N).map (fun k => if Model.bandMask N fs lo hi k then "1" else "0"))

def opRhu : M String := do
  let v ← flt
  return toString (Model.roundHalfUp v)

def opReven : M String := do
  let v ← flt
  return toString (RealLike.roundEven v)

def opKaiser : M String := do
  let L ← nat
  let beta ← flt
  return joinF ((List.range L).map (fun n => Model.kaiserWin L beta n))

/-- generated scheduler walks: `genwalk <ltf|new> cfg` → `n | f… | r… | b… | L… | K…` -/
def opGenWalk : M String := do
  let which ← tok
  let c ← cfg
  let fuel := c.N + 8
  let r := if which == "ltf" then
      Gen.ltf_plan_walk (c.N : Int) c.fs c.olap c.bmin (c.Lmin : Int) (c.Jdes : Int) (c.Kdes : Int) fuel
    else Gen.new_ltf_plan_walk (c.N : Int) c.fs c.olap c.bmin (c.Lmin : Int) (c.Jdes : Int) (c.Kdes : Int) fuel
  if which == "vec" then
    -- translated from vectorized_ltf_plan each run (returns f, r, L, K; b = f / r is formed afterwards in the source)
    let (f, rr, L, K) := Gen.vectorized_ltf_plan_walk (c.N : Int) c.fs c.olap c.bmin (c.Lmin : Int) (c.Jdes : Int) (c.Kdes : Int) fuel
    let b := (f.zip rr).map (fun (x, y) => x / y)
    return s!"{f.length} | " ++ joinF f ++ " | " ++ joinF rr ++ " | " ++ joinF b ++ " | " ++ " ".intercalate (L.map toString) ++ " | " ++ " ".intercalate (K.map toString)
  let (f, rr, b, L, K) := r
  return s!"{f.length} | " ++ joinF f ++ " | " ++ joinF rr ++ " | " ++ joinF b ++ " | " ++ " ".intercalate (L.map toString) ++ " | " ++ " ".intercalate (K.map toString)

/-- generated binary search over Jdes, the scheduler being the generated walk: `genjdes <ltf|new|vec> cfg target` -/
def opGenJdes : M String := do
  let which ← tok
  let c ← cfg
  let target ← int
  let fuel := c.N + 8
  let nfOf : Int → Int := fun J =>
    if which == "ltf" then ((Gen.ltf_plan_walk (c.N : Int) c.fs c.olap c.bmin (c.Lmin : Int) J (c.Kdes : Int) fuel).1.length : Int)
    else if which == "new" then ((Gen.new_ltf_plan_walk (c.N : Int) c.fs c.olap c.bmin (c.Lmin : Int) J (c.Kdes : Int) fuel).1.length : Int)
    else ((Gen.vectorized_ltf_plan_walk (c.N : Int) c.fs c.olap c.bmin (c.Lmin : Int) J (c.Kdes : Int) fuel).1.length : Int)
  match Gen.find_Jdes_binary_search nfOf target 64 with
  | some J => return s!"some {J}"
  | none => return "none"

def opGenUtil : M String := do
  let which ← tok
  let v ← flt
  match which with
  | "round_half_up" => return toString (Gen.round_half_up v)
  | "kaiser_alpha" => return fmt (Gen.kaiser_alpha v)
  | "kaiser_rov" => return fmt (Gen.kaiser_rov v)
  | _ => throw s!"genutil:{which}"

/-- generated cascade: `gencascade <a Arr2> <b Arr2> <zi Arr2> <xs arr>` → `ys… | final zi[:,0]…` -/
def opGenCascade : M String := do
  let a ← arr2
  let b ← arr2
  let zi ← arr2
  let xs := arrF (← fltArr)
  let (ys, z) := Gen._numba_lfilter_cascade xs a b zi
  return joinF ((List.range ys.n).map ys.get) ++ " | " ++ joinF ((List.range z.n).map (fun i => z.get i 0))

def opGenCoeffs : M String := do
  let fmin ← flt
  let fmax ← flt
  let fs ← flt
  let (a0, a1, b1) := Gen._calc_filter_coeffs fmin fmax fs
  return s!"{fmt a0} {fmt a1} {fmt b1}"

def opSingleBin : M String := do
  let N ← nat
  let L ← nat
  let olap ← flt
  let D := Model.singleBinStarts (α := Float) N L olap
  return " ".intercalate (D.map toString)

/-- the single-bin segmentation as TRANSLATED from SpectrumAnalyzer.compute_single_bin each run: `genseg N L olap` → `navg | starts…` -/
def opGenSeg : M String := do
  let N ← nat
  let L ← nat
  let olap ← flt
  let g := Gen.single_bin_segmentation (α := Float) (N : Int) (L : Int) olap
  return s!"{g.1} | " ++ " ".intercalate ((List.range g.2.n).map (fun i => toString (g.2.get i)))

def dispatch : M String := do
  let op ← tok
  match op with
  | "kernel" => opKernel
  | "ref" => opRef
  | "reduce" => opReduce
  | "plan" => opPlan
  | "starts" => opStarts
  | "attr" => opAttr
  | "taps" => opTaps
  | "gentaps" => opGenTaps
  | "genseg" => opGenSeg
  | "tshift" => opTshift
  | "cascade" => opCascade
  | "gen" => opGen
  | "coeffs" => opCoeffs
  | "corners" => opCorners
  | "rms" => opRms
  | "interp" => opInterp
  | "detrend0" => opDetrend0
  | "miso" => opMiso
  | "fftspec" => opFftSpec
  | "bandmask" => opBandMask
  | "rhu" => opRhu
  | "reven" => opReven
  | "kaiser" => opKaiser
  | "singlebin" => opSingleBin
  | "genwalk" => opGenWalk
  | "genjdes" => opGenJdes
  | "gencascade" => opGenCascade
  | "gencoeffs" => opGenCoeffs
  | "genutil" => opGenUtil
  | "ping" => pure "pong"
  | _ =>
    match (ExtNumpyKernels.dispatch op <|> ExtRms.dispatch op <|> ExtTimeShift.dispatch op <|> ExtMiso.dispatch op <|> ExtNoiseGens.dispatch op <|> ExtFftNoise.dispatch op <|> ExtLpsdCore.dispatch op <|> ExtResultQueries.dispatch op <|> ExtSchedGlue.dispatch op <|> ExtConfigGlue.dispatch op <|> ExtBuildQ.dispatch op <|> ExtEntryPoints.dispatch op <|> ExtCtorShape.dispatch op <|> ExtDfWrappers.dispatch op) with
    | some h => h
    | none => throw s!"op:{op}"

def handle (line : String) : String :=
  let toks := (line.trimAscii.toString.splitOn " ").filter (· ≠ "") |>.toArray
  match (dispatch.run { toks := toks }) with
  | .ok (s, _) => s
  | .error e => s!"ERR {e}"

end Drv

partial def loop (h : IO.FS.Stream) (out : IO.FS.Stream) : IO Unit := do
  let line ← h.getLine
  if line.isEmpty then return ()
  out.putStrLn (Drv.handle line)
  out.flush
  loop h out

def main : IO Unit := do
  loop (← IO.getStdin) (← IO.getStdout)
