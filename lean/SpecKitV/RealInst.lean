/-
  SpecKitV.RealInst — the `ℝ` reading of the numeric interface (noncomputable; Mathlib).
  All theorems about model/generated code are stated at this instance.
-/
import SpecKitV.Num
import Mathlib.Analysis.SpecialFunctions.Trigonometric.Inverse
import Mathlib.Analysis.SpecialFunctions.Pow.Real
import Mathlib.Analysis.SpecialFunctions.Log.Base
import Mathlib.Algebra.Order.Floor.Ring
import Mathlib.Analysis.SpecialFunctions.Complex.Arg

open Classical in
noncomputable instance instRealLikeReal : RealLike ℝ where
  ofNat n := (n : ℝ)
  ofInt z := (z : ℝ)
  ofSci m s e := if s then (m : ℝ) / 10 ^ e else (m : ℝ) * 10 ^ e
  lt a b := decide (a < b)
  le a b := decide (a ≤ b)
  beq a b := decide (a = b)
  floor x := ⌊x⌋
  ceil x := ⌈x⌉
  roundEven x :=
    let f := ⌊x⌋
    let d := x - f
    if d < 1 / 2 then f else if 1 / 2 < d then f + 1 else if f % 2 = 0 then f else f + 1
  trunc x := if 0 ≤ x then ⌊x⌋ else ⌈x⌉
  sqrt := Real.sqrt
  exp := Real.exp
  log := Real.log
  log10 x := Real.logb 10 x
  sin := Real.sin
  cos := Real.cos
  arcsin := Real.arcsin
  atan2 y x := Complex.arg ⟨x, y⟩
  abs x := |x|
  pow := fun a b => a ^ b
  pi := Real.pi

namespace RL
/-! simp-normal forms: every interface operation at `ℝ` rewrites to the Mathlib one. -/
@[simp] theorem ofNat_eq (n : ℕ) : (RealLike.ofNat n : ℝ) = (n : ℝ) := rfl
@[simp] theorem ofInt_eq (z : ℤ) : (RealLike.ofInt z : ℝ) = (z : ℝ) := rfl
@[simp] theorem ofSci_eq (m : ℕ) (s : Bool) (e : ℕ) :
    (RealLike.ofSci m s e : ℝ) = if s then (m : ℝ) / 10 ^ e else (m : ℝ) * 10 ^ e := rfl
@[simp] theorem zero_eq : (RealLike.zero : ℝ) = 0 := by simp [RealLike.zero]
@[simp] theorem one_eq : (RealLike.one : ℝ) = 1 := by simp [RealLike.one]
@[simp] theorem two_eq : (RealLike.two : ℝ) = 2 := by simp [RealLike.two]
@[simp] theorem lt_eq (a b : ℝ) : RealLike.lt a b = decide (a < b) := rfl
@[simp] theorem le_eq (a b : ℝ) : RealLike.le a b = decide (a ≤ b) := rfl
@[simp] theorem beq_eq (a b : ℝ) : RealLike.beq a b = decide (a = b) := rfl
@[simp] theorem gt_eq (a b : ℝ) : RealLike.gt a b = decide (b < a) := rfl
@[simp] theorem ge_eq (a b : ℝ) : RealLike.ge a b = decide (b ≤ a) := rfl
@[simp] theorem bne_eq (a b : ℝ) : RealLike.bne a b = !decide (a = b) := rfl
@[simp] theorem floor_eq (a : ℝ) : RealLike.floor a = ⌊a⌋ := rfl
@[simp] theorem ceil_eq (a : ℝ) : RealLike.ceil a = ⌈a⌉ := rfl
@[simp] theorem sqrt_eq (a : ℝ) : RealLike.sqrt a = Real.sqrt a := rfl
@[simp] theorem exp_eq (a : ℝ) : RealLike.exp a = Real.exp a := rfl
@[simp] theorem log_eq (a : ℝ) : RealLike.log a = Real.log a := rfl
@[simp] theorem log10_eq (a : ℝ) : RealLike.log10 a = Real.logb 10 a := rfl
@[simp] theorem sin_eq (a : ℝ) : RealLike.sin a = Real.sin a := rfl
@[simp] theorem cos_eq (a : ℝ) : RealLike.cos a = Real.cos a := rfl
@[simp] theorem arcsin_eq (a : ℝ) : RealLike.arcsin a = Real.arcsin a := rfl
@[simp] theorem atan2_eq (y x : ℝ) : RealLike.atan2 y x = Complex.arg ⟨x, y⟩ := rfl
@[simp] theorem abs_eq (a : ℝ) : RealLike.abs a = |a| := rfl
@[simp] theorem pow_eq (a b : ℝ) : RealLike.pow a b = a ^ b := rfl
@[simp] theorem pi_eq : (RealLike.pi : ℝ) = Real.pi := rfl
theorem trunc_eq (a : ℝ) : RealLike.trunc a = if 0 ≤ a then ⌊a⌋ else ⌈a⌉ := rfl
theorem roundEven_eq (x : ℝ) : RealLike.roundEven x =
    (let f := ⌊x⌋
     let d := x - f
     if d < 1 / 2 then f else if 1 / 2 < d then f + 1 else if f % 2 = 0 then f else f + 1) := rfl
end RL

/-! ### loop rules -/

theorem forRange_zero {σ : Type} (init : σ) (f : Nat → σ → σ) : forRange 0 init f = init := by
  simp [forRange]

theorem forRange_succ {σ : Type} (n : Nat) (init : σ) (f : Nat → σ → σ) :
    forRange (n+1) init f = f n (forRange n init f) := by
  simp [forRange, Nat.fold_succ]

/-- loop-invariant rule; the step obligation is about the body as a function, so it does not
    depend on how the generated body is spelled. -/
theorem forRange_inv {σ : Type} (P : Nat → σ → Prop) (n : Nat) (init : σ) (f : Nat → σ → σ)
    (h0 : P 0 init) (hs : ∀ i s, i < n → P i s → P (i+1) (f i s)) : P n (forRange n init f) := by
  induction n with
  | zero => simpa [forRange_zero] using h0
  | succ k ih =>
    rw [forRange_succ]
    exact hs k _ (Nat.lt_succ_self k) (ih (fun i s hi hp => hs i s (Nat.lt_succ_of_lt hi) hp))

theorem sumRange_eq_sum (n : ℕ) (f : ℕ → ℝ) : sumRange n f = ∑ i ∈ Finset.range n, f i := by
  unfold sumRange
  induction n with
  | zero => simp [forRange_zero]
  | succ k ih => rw [forRange_succ, ih, Finset.sum_range_succ]
