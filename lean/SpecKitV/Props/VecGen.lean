/-
  Props/VecGen — the machine-translated vectorised scheduler (`Gen.vectorized_ltf_plan_walk`, from
  speckit/schedulers.py `vectorized_ltf_plan`, NumPy whole-array code) IS the hand model
  (`Model.vecWalk` over `Model.vecGrid` / `Model.vecGridPoint`), for every configuration and fuel,
  with no side condition.  Hence Props/C02, C03, C04Vec are theorems about the code as translated.

  Structure: `Arr.memo_eq` erases the eager-evaluation wrappers; `Np.logspace` / `Np.searchsortedLeft`
  are definitionally the model's `logGrid` / `searchLeft`; `VecGen.point_eq` shows that the per-element
  computation of the generated vectors (L kept as a REAL vector, clipped with real min/max, `K == 1`
  compared on reals, `trunc` at the end, cap on integers) is `Model.vecGridPoint` (integers throughout);
  `VecGen.whileFuel_vecWalk` is the simulation lemma for the loop with the carried `brk__` flag.
-/
import SpecKitV.RealInst
import SpecKitV.Gen.Sched
import SpecKitV.Model.Sched

set_option linter.unusedVariables false

/-- `Arr.memo` (eager evaluation of a vector expression) is extensionally the identity -/
theorem Arr.memo_eq {β : Type} (a : Arr β) : Arr.memo a = a := by
  obtain ⟨n, get⟩ := a
  unfold Arr.memo
  simp only [Arr.mk.injEq, true_and]
  funext i
  split
  · rename_i h
    simp only [Array.getElem_map, Array.getElem_range]
  · rfl

theorem Np.logspace_get (a b : ℝ) (n : ℕ) :
    (Np.logspace a b n).get = Model.logGrid a b n ∧ (Np.logspace a b n).n = n := ⟨rfl, rfl⟩

theorem Np.searchsortedLeft_eq (g : Arr ℝ) (v : ℝ) :
    Np.searchsortedLeft g v = Model.searchLeft g.get g.n v := rfl

namespace VecGen

/-- loop state of the generated walk: `(K_out, L_out, brk__, current_f, f_out, r_out)` -/
abbrev St := List ℤ × List ℤ × Bool × ℝ × List ℝ × List ℝ

/-- once `brk__` is set the loop is over -/
theorem whileFuel_brk (fmax : ℝ) (cond : St → Bool) (body : St → St)
    (hc : ∀ Ka La b fi fa ra, cond (Ka, La, b, fi, fa, ra) = ((!b) && RealLike.lt fi fmax))
    (fuel : ℕ) (Ka La : List ℤ) (fi : ℝ) (fa ra : List ℝ) :
    (whileFuel fuel cond body (Ka, La, true, fi, fa, ra)).1 = (Ka, La, true, fi, fa, ra) := by
  cases fuel with
  | zero => rfl
  | succ k => unfold whileFuel; rw [hc]; rfl

theorem whileFuel_vecWalk (fmax : ℝ) (grid : ℕ → ℝ) (n : ℕ) (map : ℕ → ℝ × ℕ × ℤ)
    (cond : St → Bool) (body : St → St)
    (hc : ∀ Ka La b fi fa ra, cond (Ka, La, b, fi, fa, ra) = ((!b) && RealLike.lt fi fmax))
    (hb1 : ∀ Ka La b fi fa ra, n ≤ Model.searchLeft grid n fi →
      body (Ka, La, b, fi, fa, ra) = (Ka, La, true, fi, fa, ra))
    (hb2 : ∀ Ka La b fi fa ra, Model.searchLeft grid n fi < n →
      body (Ka, La, b, fi, fa, ra) =
        (Ka ++ [(map (Model.searchLeft grid n fi)).2.2], La ++ [((map (Model.searchLeft grid n fi)).2.1 : ℤ)],
         b, fi + (map (Model.searchLeft grid n fi)).1, fa ++ [fi],
         ra ++ [(map (Model.searchLeft grid n fi)).1])) :
    ∀ (fuel : ℕ) Ka La fi fa ra, ∃ (b' : Bool) (fi' : ℝ),
      (whileFuel fuel cond body (Ka, La, false, fi, fa, ra)).1 =
        (Ka ++ (Model.vecWalk fuel fmax grid n map fi).map (·.2.2.2),
         La ++ (Model.vecWalk fuel fmax grid n map fi).map (fun e => ((e.2.2.1 : ℕ) : ℤ)),
         b', fi',
         fa ++ (Model.vecWalk fuel fmax grid n map fi).map (·.1),
         ra ++ (Model.vecWalk fuel fmax grid n map fi).map (·.2.1)) := by
  intro fuel
  induction fuel with
  | zero => intro Ka La fi fa ra; exact ⟨false, fi, by simp [whileFuel, Model.vecWalk]⟩
  | succ k ih =>
    intro Ka La fi fa ra
    unfold whileFuel Model.vecWalk
    rw [hc]
    by_cases h : RealLike.lt fi fmax = true
    · rw [if_pos h]
      simp only [Bool.not_false, Bool.true_and, h, if_true]
      by_cases hi : n ≤ Model.searchLeft grid n fi
      · rw [hb1 _ _ _ _ _ _ hi, whileFuel_brk fmax cond body hc]
        exact ⟨true, fi, by simp [hi]⟩
      · have hi' : Model.searchLeft grid n fi < n := Nat.lt_of_not_le hi
        rw [hb2 _ _ _ _ _ _ hi']
        obtain ⟨b', fi', h'⟩ := ih (Ka ++ [(map (Model.searchLeft grid n fi)).2.2])
          (La ++ [((map (Model.searchLeft grid n fi)).2.1 : ℤ)])
          (fi + (map (Model.searchLeft grid n fi)).1) (fa ++ [fi])
          (ra ++ [(map (Model.searchLeft grid n fi)).1])
        refine ⟨b', fi', ?_⟩
        rw [h']
        simp [hi]
    · rw [if_neg h]
      refine ⟨false, fi, ?_⟩
      simp [h]

theorem vec_core (fmax : ℝ) (grid : ℕ → ℝ) (n : ℕ) (map : ℕ → ℝ × ℕ × ℤ)
    (cond : St → Bool) (body : St → St)
    (hc : ∀ Ka La b fi fa ra, cond (Ka, La, b, fi, fa, ra) = ((!b) && RealLike.lt fi fmax))
    (hb1 : ∀ Ka La b fi fa ra, n ≤ Model.searchLeft grid n fi →
      body (Ka, La, b, fi, fa, ra) = (Ka, La, true, fi, fa, ra))
    (hb2 : ∀ Ka La b fi fa ra, Model.searchLeft grid n fi < n →
      body (Ka, La, b, fi, fa, ra) =
        (Ka ++ [(map (Model.searchLeft grid n fi)).2.2], La ++ [((map (Model.searchLeft grid n fi)).2.1 : ℤ)],
         b, fi + (map (Model.searchLeft grid n fi)).1, fa ++ [fi],
         ra ++ [(map (Model.searchLeft grid n fi)).1]))
    (fuel : ℕ) (fi : ℝ) :
    ((whileFuel fuel cond body ([], [], false, fi, [], [])).1.2.2.2.2.1,
     (whileFuel fuel cond body ([], [], false, fi, [], [])).1.2.2.2.2.2,
     (whileFuel fuel cond body ([], [], false, fi, [], [])).1.2.1,
     (whileFuel fuel cond body ([], [], false, fi, [], [])).1.1) =
    ((Model.vecWalk fuel fmax grid n map fi).map (·.1),
     (Model.vecWalk fuel fmax grid n map fi).map (·.2.1),
     (Model.vecWalk fuel fmax grid n map fi).map (fun e => ((e.2.2.1 : ℕ) : ℤ)),
     (Model.vecWalk fuel fmax grid n map fi).map (·.2.2.2)) := by
  obtain ⟨b', fi', h⟩ := whileFuel_vecWalk fmax grid n map cond body hc hb1 hb2 fuel [] [] fi [] []
  rw [h]
  simp

/-! ### one grid point: the real-vector computation of the generated code vs the integer model -/

theorem max_ofInt (a b : ℤ) :
    RealLike.max (RealLike.ofInt a : ℝ) (RealLike.ofInt b) = RealLike.ofInt (max a b) := by
  unfold RealLike.max
  simp only [RL.le_eq, RL.ofInt_eq, decide_eq_true_eq, Int.cast_le]
  split_ifs with h
  · rw [max_eq_right h]
  · rw [max_eq_left (le_of_not_ge h)]

theorem min_ofInt (a b : ℤ) :
    RealLike.min (RealLike.ofInt a : ℝ) (RealLike.ofInt b) = RealLike.ofInt (min a b) := by
  unfold RealLike.min
  simp only [RL.le_eq, RL.ofInt_eq, decide_eq_true_eq, Int.cast_le]
  split_ifs with h
  · rw [min_eq_left h]
  · rw [min_eq_right (le_of_not_ge h)]

theorem trunc_ofInt (z : ℤ) : RealLike.trunc (RealLike.ofInt z : ℝ) = z := by
  rw [RL.trunc_eq, RL.ofInt_eq]
  split_ifs
  · exact Int.floor_intCast z
  · exact Int.ceil_intCast z

theorem trunc_natCast (n : ℕ) : RealLike.trunc ((n : ℝ)) = (n : ℤ) := by
  have := trunc_ofInt (n : ℤ)
  simpa using this

theorem clampClip_cast (N Lmin : ℕ) (z : ℤ) :
    ((Model.vecGridPoint.clampClip N Lmin z : ℕ) : ℤ) = min (max z (Lmin : ℤ)) (N : ℤ) := by
  unfold Model.vecGridPoint.clampClip
  simp only [gt_iff_lt]
  split_ifs <;> omega

/-- `np.clip` on the real vector of rounded lengths is the model's integer clip -/
theorem clip_real (N Lmin : ℕ) (z : ℤ) :
    RealLike.min (RealLike.max (RealLike.ofInt z : ℝ) (RealLike.ofInt (Lmin : ℤ))) (RealLike.ofInt (N : ℤ))
      = ((Model.vecGridPoint.clampClip N Lmin z : ℕ) : ℝ) := by
  rw [max_ofInt, min_ofInt, ← clampClip_cast, RL.ofInt_eq, Int.cast_natCast]

theorem point_eq (c : Model.Cfg ℝ) (xov rmin ravg clog fg : ℝ) :
    let rp := fg * clog
    let rpp := if RealLike.ge rp ravg = true then rp
      else if RealLike.gt (RealLike.sqrt (ravg * rp)) rmin = true then RealLike.sqrt (ravg * rp) else rmin
    let rpp2 := if RealLike.lt (fg / rpp) c.bmin = true then fg / c.bmin else rpp
    let L1 : ℝ := RealLike.min (RealLike.max (RealLike.ofInt (RealLike.roundEven (c.fs / rpp2)))
      (RealLike.ofInt (c.Lmin : ℤ))) (RealLike.ofInt (c.N : ℤ))
    let Kg : ℝ := RealLike.ofInt (RealLike.roundEven
      ((RealLike.ofInt (c.N : ℤ) - L1) / (xov * L1) + RealLike.ofNat 1))
    let L2 : ℝ := if RealLike.beq Kg (RealLike.ofNat 1) = true then RealLike.ofInt (c.N : ℤ) else L1
    let Km : ℤ := RealLike.trunc (RealLike.ofInt (RealLike.roundEven
      ((RealLike.ofInt (c.N : ℤ) - L2) / (xov * L2) + RealLike.ofNat 1)) : ℝ)
    let Lm : ℤ := RealLike.trunc L2
    (c.fs / L2, Lm, if Km ≤ (c.N : ℤ) - Lm + 1 then Km else (c.N : ℤ) - Lm + 1) =
      ((Model.vecGridPoint c xov rmin ravg clog fg).1,
       (((Model.vecGridPoint c xov rmin ravg clog fg).2.1 : ℕ) : ℤ),
       (Model.vecGridPoint c xov rmin ravg clog fg).2.2) := by
  intro rp rpp rpp2 L1 Kg L2 Km Lm
  have hL1 : L1 = ((Model.vecGridPoint.clampClip c.N c.Lmin (RealLike.roundEven (c.fs / rpp2)) : ℕ) : ℝ) :=
    clip_real _ _ _
  set Lg : ℕ := Model.vecGridPoint.clampClip c.N c.Lmin (RealLike.roundEven (c.fs / rpp2)) with hLg
  have hKg : Kg = ((RealLike.roundEven
      (RealLike.ofInt ((c.N : ℤ) - (Lg : ℤ)) / (xov * RealLike.ofNat Lg) + RealLike.one : ℝ) : ℤ) : ℝ) := by
    simp only [Kg, hL1, RL.ofInt_eq, RL.ofNat_eq, RL.one_eq]
    push_cast
    rfl
  set Kz : ℤ := RealLike.roundEven
      (RealLike.ofInt ((c.N : ℤ) - (Lg : ℤ)) / (xov * RealLike.ofNat Lg) + RealLike.one : ℝ) with hKz
  have hL2 : L2 = (((if Kz == 1 then c.N else Lg : ℕ)) : ℝ) := by
    simp only [L2, hKg, hL1, RL.beq_eq, RL.ofNat_eq, RL.ofInt_eq, Nat.cast_one, Int.cast_eq_one,
      decide_eq_true_eq, beq_iff_eq, Nat.cast_ite, Int.cast_natCast]
  set Lf : ℕ := (if Kz == 1 then c.N else Lg) with hLf
  have hLm : Lm = (Lf : ℤ) := by simp only [Lm, hL2, trunc_natCast]
  have hKm : Km = RealLike.roundEven
      (RealLike.ofInt ((c.N : ℤ) - (Lf : ℤ)) / (xov * RealLike.ofNat Lf) + RealLike.one : ℝ) := by
    simp only [Km, trunc_ofInt, hL2, RL.ofInt_eq, RL.ofNat_eq, RL.one_eq]
    push_cast
    rfl
  rw [hL2, hLm, hKm]
  simp only [Model.vecGridPoint, Model.capK]
  rfl

end VecGen
open VecGen

theorem gen_vec_walk_eq_model (c : Model.Cfg ℝ) (fuel : ℕ) :
    let xov : ℝ := 1 - c.olap
    let rmin : ℝ := c.fs / c.N
    let ravg : ℝ := rmin * (1 + xov * ((c.Kdes : ℝ) - 1))
    let clog : ℝ := ((c.N : ℝ) / 2) ^ ((1 : ℝ) / (c.Jdes : ℝ)) - 1
    let w := Model.vecWalk fuel (c.fs / 2) (Model.vecGrid c) (10 * c.Jdes)
               (fun i => Model.vecGridPoint c xov rmin ravg clog (Model.vecGrid c i)) (c.bmin * c.fs / c.N)
    Gen.vectorized_ltf_plan_walk (c.N : ℤ) c.fs c.olap c.bmin (c.Lmin : ℤ) (c.Jdes : ℤ) (c.Kdes : ℤ) fuel
      = (w.map (·.1), w.map (·.2.1), w.map (fun e => ((e.2.2.1 : ℕ) : ℤ)), w.map (·.2.2.2)) := by
  intro xov rmin ravg clog w
  unfold Gen.vectorized_ltf_plan_walk
  extract_lets -underBinder -merge xov' fmin fmax rmin' ravg' clog' ngp f_grid rpg c0 c1 ch0 ch1 rpp mask rpp2 L0 L1 Kg L2 r_map K_map L_map K_map2 f_out r_out L_out K_out
  have hxov : xov' = xov := by simp only [xov', xov, RL.ofNat_eq, Nat.cast_one]
  have hrmin : rmin' = rmin := by simp only [rmin', rmin, RL.ofInt_eq, Int.cast_natCast]
  have hravg : ravg' = ravg := by
    simp only [ravg', ravg, hxov, hrmin, RL.ofNat_eq, RL.ofInt_eq, Nat.cast_one, Int.cast_sub,
      Int.cast_natCast, Int.cast_one]
  have hclog : clog' = clog := by
    simp only [clog', clog, RL.pow_eq, RL.ofNat_eq, RL.ofInt_eq, Nat.cast_one, Int.cast_natCast,
      Nat.cast_ofNat]
  have hfmin : fmin = c.bmin * c.fs / c.N := by simp only [fmin, RL.ofInt_eq, Int.cast_natCast]
  have hfmax : fmax = c.fs / 2 := by simp only [fmax, RL.ofNat_eq, Nat.cast_ofNat]
  have hn : ngp.toNat = 10 * c.Jdes := by simp only [ngp]; omega
  have hf : f_grid = ⟨10 * c.Jdes, Model.vecGrid c⟩ := by
    simp only [f_grid, Arr.memo_eq, hn, hfmin, hfmax]
    have hg : Model.vecGrid c = Model.logGrid (RealLike.log10 (c.bmin * c.fs / (c.N : ℝ)))
        (RealLike.log10 (c.fs / 2)) (10 * c.Jdes) := by
      simp only [Model.vecGrid, RL.ofNat_eq, RL.two_eq]
    rw [hg]
    rfl
  have hpt : ∀ i, _ = _ := fun i => point_eq c xov rmin ravg clog (Model.vecGrid c i)
  have hr : r_map = ⟨10 * c.Jdes, fun i => (Model.vecGridPoint c xov rmin ravg clog (Model.vecGrid c i)).1⟩ := by
    simp only [r_map, L2, Kg, L1, L0, rpp2, mask, rpp, ch1, ch0, c1, c0, rpg, Arr.memo_eq, hf, hxov, hrmin, hravg, hclog]
    simp only [Arr.mk.injEq, true_and]
    funext i
    exact congrArg Prod.fst (hpt i)
  have hL : L_map = ⟨10 * c.Jdes, fun i => (((Model.vecGridPoint c xov rmin ravg clog (Model.vecGrid c i)).2.1 : ℕ) : ℤ)⟩ := by
    simp only [L_map, L2, Kg, L1, L0, rpp2, mask, rpp, ch1, ch0, c1, c0, rpg, Arr.memo_eq, hf, hxov, hrmin, hravg, hclog]
    simp only [Arr.mk.injEq, true_and]
    funext i
    exact congrArg (fun p => p.2.1) (hpt i)
  have hK : K_map2 = ⟨10 * c.Jdes, fun i => (Model.vecGridPoint c xov rmin ravg clog (Model.vecGrid c i)).2.2⟩ := by
    simp only [K_map2, K_map, L_map, L2, Kg, L1, L0, rpp2, mask, rpp, ch1, ch0, c1, c0, rpg, Arr.memo_eq, hf, hxov, hrmin, hravg, hclog]
    simp only [Arr.mk.injEq, true_and]
    funext i
    exact congrArg (fun p => p.2.2) (hpt i)
  clear_value f_grid r_map L_map K_map2 fmin fmax
  subst hf hr hL hK hfmin hfmax
  refine vec_core (c.fs / 2) (Model.vecGrid c) (10 * c.Jdes)
    (fun i => Model.vecGridPoint c xov rmin ravg clog (Model.vecGrid c i)) _ _ ?_ ?_ ?_ fuel _
  · intro Ka La b fi fa ra; rfl
  · intro Ka La b fi fa ra hi
    dsimp only
    rw [Np.searchsortedLeft_eq]
    simp only [ge_iff_le, decide_eq_true_eq, hi, if_true]
  · intro Ka La b fi fa ra hi
    dsimp only
    rw [Np.searchsortedLeft_eq]
    simp only [ge_iff_le, decide_eq_true_eq, Nat.not_le.mpr hi, if_false]

/-- hence the generated walk yields exactly the bins of `Model.vecPlan` -/
theorem gen_vec_walk_eq_plan (c : Model.Cfg ℝ) (fuel : ℕ) :
    let g := Gen.vectorized_ltf_plan_walk (c.N : ℤ) c.fs c.olap c.bmin (c.Lmin : ℤ) (c.Jdes : ℤ) (c.Kdes : ℤ) fuel
    g.1 = (Model.vecPlan c fuel).map (·.f) ∧ g.2.1 = (Model.vecPlan c fuel).map (·.r) ∧
    g.2.2.1 = (Model.vecPlan c fuel).map (fun b => (b.L : ℤ)) ∧ g.2.2.2 = (Model.vecPlan c fuel).map (·.K) := by
  intro g
  have h := gen_vec_walk_eq_model c fuel
  simp only [g, h, Model.vecPlan, Model.vecPlanCore, List.map_map, RL.one_eq, RL.ofNat_eq, RL.two_eq,
    RL.pow_eq]
  refine ⟨?_, ?_, ?_, ?_⟩ <;> rfl

#print axioms Arr.memo_eq
#print axioms Np.logspace_get
#print axioms Np.searchsortedLeft_eq
#print axioms gen_vec_walk_eq_model
#print axioms gen_vec_walk_eq_plan
