/-
  SpecKitV.Props.StatModel — the statistical meaning of the GENERATED error attributes
  (`Gen.Auto/Cross.Gxx_dev`, `Gxx_error`, `XY_emp_var`; `SpecKitV/Gen/Attrs.lean`, regenerated from
  `SpectrumResult.__getattr__`) and of the GENERATED reducer (`Gen._reduce_stats_nb`,
  `SpecKitV/Gen/CoreKernels.lean`, regenerated from `core._reduce_stats_nb`) under the standard
  statistical model of `SpecKitV.Lemmas.StatModel`.  This reduces the "not decidable here" part of
  C10 ("the analytic error bars predict the scatter") and C11 ("the empirical deviations agree with
  the analytic ones for Gaussian noise") to explicit, satisfiable hypotheses on the per-segment
  values; what remains undecided is only whether a given noise record fulfils those hypotheses.

  Setting.  (Ω, P) a probability space; K ≥ 1 segments; per-segment values are random:
    `p k ω` = |X_k|² (real),  `z k ω` = X_k·conj Y_k (complex; = |X_k|² in auto mode).
  The arrays handed to the reducer are `StatModel.arr (p · ω)` etc. (length K).  The random estimate
  is the generated attribute applied to the per-bin record whose statistic field is the generated
  reducer's output — nothing is re-stated by hand, every theorem below unfolds the generated
  definitions (so it breaks when `Gxx_dev`, `XY_emp_var`, `Gxx`, or the reducer change).

  HYPOTHESES (explicit in every statement; satisfiable: `StatModel.hypotheses_satisfiable`,
  `StatModel.vector_hypotheses_satisfiable` — the product of exponential = χ²₂ laws):
    C10: `p k` square integrable, PAIRWISE independent, mean μ, variance μ²  (coefficient of
         variation 1 = the χ²₂/exponential law, `periodogram_exp_law_cv_one`).
    C11: `z k` square integrable, pairwise UNCORRELATED about m (implied by pairwise independence
         with common mean m: `StatModel.uncorrelated_of_indep`, used in `emp_var_vs_true_of_indep`),
         common second moment σ² = 𝔼|z_k − m|².
  The independence/uncorrelatedness hypothesis holds for NON-overlapping segments of white Gaussian
  noise.  It does NOT hold for overlapping segments: there the per-segment values are positively
  correlated, the true variance of the averaged estimate is LARGER than μ²/K, and the theorems of
  this file do not apply (they say nothing about an "effective" number of averages).
-/
import SpecKitV.RealInst
import SpecKitV.Gen.Attrs
import SpecKitV.Props.C01
import SpecKitV.Lemmas.StatModel
open Gen MeasureTheory ProbabilityTheory Finset

set_option linter.unusedVariables false
set_option linter.unnecessarySeqFocus false
set_option linter.unusedSectionVars false

namespace StatModel

/-- K per-segment values as the length-K array the reducer receives -/
def arr {K : ℕ} (p : Fin K → ℝ) : Arr ℝ := ⟨K, fun j => if h : j < K then p ⟨j, h⟩ else 0⟩

@[simp] theorem arr_n {K : ℕ} (p : Fin K → ℝ) : (arr p).n = K := rfl

theorem arr_get {K : ℕ} (p : Fin K → ℝ) (k : Fin K) : (arr p).get k = p k := by
  simp [arr, k.is_lt]

/-- the generated reducer on these arrays is the model reducer (C01 `reduce_spec`) -/
theorem reduce_eq {K : ℕ} (hK : 0 < K) (xx yy xr xi : Fin K → ℝ) :
    Gen._reduce_stats_nb (arr xx) (arr yy) (arr xr) (arr xi)
      = Model.reduceStats K (arr xx).get (arr yy).get (arr xr).get (arr xi).get :=
  reduce_spec (arr xx) (arr yy) (arr xr) (arr xi) hK rfl rfl rfl

/-- first output of the generated reducer = sample mean of the first array -/
theorem reduce_MXX {K : ℕ} (hK : 0 < K) (xx yy xr xi : Fin K → ℝ) :
    (Gen._reduce_stats_nb (arr xx) (arr yy) (arr xr) (arr xi)).1 = (1 / (K : ℝ)) * ∑ k, xx k := by
  rw [reduce_eq hK]
  simp only [Model.reduceStats, sumRange_eq_sum, RL.ofNat_eq]
  rw [Finset.sum_range, div_eq_mul_one_div, mul_comm]
  simp only [arr_get]

/-- third/fourth outputs = sample mean of the complex per-segment products -/
theorem reduce_mu {K : ℕ} (hK : 0 < K) (xx yy : Fin K → ℝ) (z : Fin K → ℂ) :
    let R := Gen._reduce_stats_nb (arr xx) (arr yy) (arr fun k => (z k).re) (arr fun k => (z k).im)
    (⟨R.2.2.1, R.2.2.2.1⟩ : ℂ) = (K : ℝ)⁻¹ • ∑ k, z k := by
  intro R
  simp only [R, reduce_eq hK]
  simp only [Model.reduceStats, sumRange_eq_sum, RL.ofNat_eq]
  rw [Finset.sum_range, Finset.sum_range]
  simp only [arr_get]
  apply Complex.ext
  · simp only [Complex.real_smul, Complex.mul_re, Complex.ofReal_re, Complex.ofReal_im, zero_mul,
      sub_zero, Complex.re_sum]
    rw [div_eq_inv_mul]
  · simp only [Complex.real_smul, Complex.mul_im, Complex.ofReal_re, Complex.ofReal_im, zero_mul,
      add_zero, Complex.im_sum]
    rw [div_eq_inv_mul]

/-- fifth output (M2) = population scatter of the complex products about their SAMPLE mean -/
theorem reduce_M2 {K : ℕ} (hK : 0 < K) (xx yy : Fin K → ℝ) (z : Fin K → ℂ) :
    (Gen._reduce_stats_nb (arr xx) (arr yy) (arr fun k => (z k).re) (arr fun k => (z k).im)).2.2.2.2
      = (1 / (K : ℝ)) * ∑ k, ‖z k - (K : ℝ)⁻¹ • ∑ j, z j‖ ^ 2 := by
  rw [reduce_eq hK, reduce_M2_all_K K hK, Finset.sum_range, div_eq_mul_one_div, mul_comm]
  congr 1
  apply Finset.sum_congr rfl
  intro k _
  rw [Finset.sum_range, Finset.sum_range]
  simp only [arr_get]
  rw [Complex.sq_norm, Complex.normSq_apply]
  simp only [Complex.sub_re, Complex.sub_im, Complex.real_smul, Complex.mul_re, Complex.mul_im,
    Complex.ofReal_re, Complex.ofReal_im, zero_mul, sub_zero, add_zero, Complex.re_sum,
    Complex.im_sum]
  rw [div_eq_inv_mul, div_eq_inv_mul]
  ring

/-- closed forms of the generated one-sided density (guard absorbed by x/0 = 0) -/
theorem aGxx (d : BinData ℝ) : Auto.Gxx d = 2 / (d.fs * d.S2) * d.XX := by
  by_cases h : d.S2 = 0 <;> simp [Auto.Gxx, h] <;> norm_num <;> ring

theorem cGxx (d : BinData ℝ) : Cross.Gxx d = 2 / (d.fs * d.S2) * d.XX := by
  by_cases h : d.S2 = 0 <;> simp [Cross.Gxx, h] <;> norm_num <;> ring

end StatModel

section Main
open StatModel

variable {Ω : Type*} [MeasurableSpace Ω] {P : Measure Ω} [IsProbabilityMeasure P] {K : ℕ}

/-! ## C10 — items 1–3, 5 -/

/-- item 1: the first output of the GENERATED reducer (the statistic stored as `XX`) is an unbiased
    estimator of the common mean μ of the per-segment periodogram values -/
theorem mean_estimator_unbiased (hK : 0 < K) (p yy xr xi : Fin K → Ω → ℝ) (μ : ℝ)
    (hint : ∀ k, Integrable (p k) P) (hmean : ∀ k, ∫ ω, p k ω ∂P = μ) :
    ∫ ω, (Gen._reduce_stats_nb (arr (p · ω)) (arr (yy · ω)) (arr (xr · ω)) (arr (xi · ω))).1 ∂P
      = μ := by
  simp only [reduce_MXX hK]
  exact StatModel.mean_estimator_unbiased hK hint hmean

/-- item 2: for pairwise independent segments with variance μ² (coefficient of variation 1) the
    statistic has variance μ²/K and standard deviation μ/√K -/
theorem mean_estimator_variance (hK : 0 < K) (p yy xr xi : Fin K → Ω → ℝ) (μ : ℝ) (hμ : 0 ≤ μ)
    (hL2 : ∀ k, MemLp (p k) 2 P) (hind : Pairwise fun i j => p i ⟂ᵢ[P] p j)
    (hvar : ∀ k, Var[p k; P] = μ ^ 2) :
    let MXX : Ω → ℝ := fun ω =>
      (Gen._reduce_stats_nb (arr (p · ω)) (arr (yy · ω)) (arr (xr · ω)) (arr (xi · ω))).1
    Var[MXX; P] = μ ^ 2 / K ∧ Real.sqrt (Var[MXX; P]) = μ / Real.sqrt K := by
  intro MXX
  have e : MXX = fun ω => (1 / (K : ℝ)) * ∑ k, p k ω := by
    funext ω; exact reduce_MXX hK _ _ _ _
  rw [e]
  exact ⟨StatModel.mean_estimator_variance hK hL2 hind hvar,
    StatModel.mean_estimator_sd hK hμ hL2 hind hvar⟩

/-- item 3: the generated `Gxx_dev`, evaluated at the expected statistic (`XX = μ`, `navg = K`),
    IS the standard deviation of the generated estimate `Gxx` applied to the random statistic
    (generated reducer on K pairwise independent periodogram values of mean μ, variance μ²);
    explicitly it is c·μ/√K with the generated normalisation c = 2/(fs·S2); and the estimate is
    unbiased for `Gxx` at the truth.  Auto and cross tables. -/
theorem Gxx_dev_is_sd_at_truth (hK : 0 < K) (p yy xr xi : Fin K → Ω → ℝ) (μ : ℝ) (hμ : 0 ≤ μ)
    (hL2 : ∀ k, MemLp (p k) 2 P) (hind : Pairwise fun i j => p i ⟂ᵢ[P] p j)
    (hmean : ∀ k, ∫ ω, p k ω ∂P = μ) (hvar : ∀ k, Var[p k; P] = μ ^ 2)
    (d : BinData ℝ) (hfs : 0 < d.fs) (hS2 : 0 < d.S2) (hXX : d.XX = μ) (hn : d.navg = K) :
    let MXX : Ω → ℝ := fun ω =>
      (Gen._reduce_stats_nb (arr (p · ω)) (arr (yy · ω)) (arr (xr · ω)) (arr (xi · ω))).1
    let estA : Ω → ℝ := fun ω => Auto.Gxx { d with XX := MXX ω }
    let estC : Ω → ℝ := fun ω => Cross.Gxx { d with XX := MXX ω }
    (Auto.Gxx_dev d = Real.sqrt (Var[estA; P]) ∧ Cross.Gxx_dev d = Real.sqrt (Var[estC; P])) ∧
    (Auto.Gxx_dev d = 2 / (d.fs * d.S2) * μ / Real.sqrt K ∧
      Cross.Gxx_dev d = 2 / (d.fs * d.S2) * μ / Real.sqrt K) ∧
    (∫ ω, estA ω ∂P = Auto.Gxx d ∧ ∫ ω, estC ω ∂P = Cross.Gxx d) := by
  intro MXX estA estC
  have hc : 0 ≤ 2 / (d.fs * d.S2) := by positivity
  have eA : estA = fun ω => 2 / (d.fs * d.S2) * ((1 / (K : ℝ)) * ∑ k, p k ω) := by
    funext ω; simp only [estA, MXX, aGxx, reduce_MXX hK]
  have eC : estC = fun ω => 2 / (d.fs * d.S2) * ((1 / (K : ℝ)) * ∑ k, p k ω) := by
    funext ω; simp only [estC, MXX, cGxx, reduce_MXX hK]
  have hsd := scaled_mean_estimator_sd (2 / (d.fs * d.S2)) hc hK hμ hL2 hind hvar
  have hun := scaled_mean_estimator_unbiased (2 / (d.fs * d.S2)) hK
    (fun k => (hL2 k).integrable (by norm_num)) hmean
  have dA : Auto.Gxx_dev d = 2 / (d.fs * d.S2) * μ / Real.sqrt K := by
    simp only [Auto.Gxx_dev, RL.sqrt_eq, aGxx, hXX, hn]
  have dC : Cross.Gxx_dev d = 2 / (d.fs * d.S2) * μ / Real.sqrt K := by
    simp only [Cross.Gxx_dev, RL.sqrt_eq, cGxx, hXX, hn]
  refine ⟨⟨?_, ?_⟩, ⟨dA, dC⟩, ?_, ?_⟩
  · rw [eA, hsd, dA]
  · rw [eC, hsd, dC]
  · rw [eA, hun, aGxx, hXX]
  · rw [eC, hun, cGxx, hXX]

/-- item 5a: the generated normalised error `Gxx_error` (= 1/√navg) is the RELATIVE standard
    deviation (sd / mean) of the generated estimate under the same model (μ > 0) -/
theorem Gxx_error_is_relative_sd (hK : 0 < K) (p yy xr xi : Fin K → Ω → ℝ) (μ : ℝ) (hμ : 0 < μ)
    (hL2 : ∀ k, MemLp (p k) 2 P) (hind : Pairwise fun i j => p i ⟂ᵢ[P] p j)
    (hmean : ∀ k, ∫ ω, p k ω ∂P = μ) (hvar : ∀ k, Var[p k; P] = μ ^ 2)
    (d : BinData ℝ) (hfs : 0 < d.fs) (hS2 : 0 < d.S2) (hn : d.navg = K) :
    let MXX : Ω → ℝ := fun ω =>
      (Gen._reduce_stats_nb (arr (p · ω)) (arr (yy · ω)) (arr (xr · ω)) (arr (xi · ω))).1
    let estA : Ω → ℝ := fun ω => Auto.Gxx { d with XX := MXX ω }
    let estC : Ω → ℝ := fun ω => Cross.Gxx { d with XX := MXX ω }
    Auto.Gxx_error d = Real.sqrt (Var[estA; P]) / ∫ ω, estA ω ∂P ∧
    Cross.Gxx_error d = Real.sqrt (Var[estC; P]) / ∫ ω, estC ω ∂P := by
  intro MXX estA estC
  have hc : 0 < 2 / (d.fs * d.S2) := by positivity
  have eA : estA = fun ω => 2 / (d.fs * d.S2) * ((1 / (K : ℝ)) * ∑ k, p k ω) := by
    funext ω; simp only [estA, MXX, aGxx, reduce_MXX hK]
  have eC : estC = fun ω => 2 / (d.fs * d.S2) * ((1 / (K : ℝ)) * ∑ k, p k ω) := by
    funext ω; simp only [estC, MXX, cGxx, reduce_MXX hK]
  have hsd := scaled_mean_estimator_sd (2 / (d.fs * d.S2)) hc.le hK hμ.le hL2 hind hvar
  have hun := scaled_mean_estimator_unbiased (2 / (d.fs * d.S2)) hK
    (fun k => (hL2 k).integrable (by norm_num)) hmean
  have hsK : 0 < Real.sqrt K := Real.sqrt_pos.2 (Nat.cast_pos.2 hK)
  have key : (1 : ℝ) / Real.sqrt K
      = 2 / (d.fs * d.S2) * μ / Real.sqrt K / (2 / (d.fs * d.S2) * μ) := by
    have : 2 / (d.fs * d.S2) * μ ≠ 0 := (mul_pos hc hμ).ne'
    field_simp
  constructor
  · rw [eA, hsd, hun]
    simp only [Auto.Gxx_error, RL.sqrt_eq, RL.ofNat_eq, Nat.cast_one, hn]
    exact key
  · rw [eC, hsd, hun]
    simp only [Cross.Gxx_error, RL.sqrt_eq, RL.ofNat_eq, Nat.cast_one, hn]
    exact key

/-- item 5b: the hypothesis "variance = mean²" of items 1–3 is the χ²₂ case: the exponential law
    of mean μ > 0 (the law of |X|² for a circular complex Gaussian X with 𝔼|X|² = μ) has mean μ
    and variance μ²; more generally 𝔼 xⁿ = n!·μⁿ -/
theorem periodogram_exp_law_cv_one {μ : ℝ} (hμ : 0 < μ) :
    ∫ x, x ∂(expMeasure (1 / μ)) = μ ∧ Var[id; expMeasure (1 / μ)] = μ ^ 2 :=
  StatModel.exp_law_mean_var hμ

/-! ## C11 — item 4 -/

/-- the generated reducer's M2 (population scatter about the SAMPLE mean) has expectation
    (K−1)/K·σ² for pairwise uncorrelated per-segment products with 𝔼|z_k − m|² = σ² -/
theorem emp_var_expectation (hK : 0 < K) (xx yy : Fin K → Ω → ℝ) (z : Fin K → Ω → ℂ) (m : ℂ)
    (σ2 : ℝ) (hL2 : ∀ k, MemLp (z k) 2 P)
    (hunc : ∀ i j, i ≠ j → ∫ ω, inner ℝ (z i ω - m) (z j ω - m) ∂P = 0)
    (hvar : ∀ k, ∫ ω, ‖z k ω - m‖ ^ 2 ∂P = σ2) :
    ∫ ω, (Gen._reduce_stats_nb (arr (xx · ω)) (arr (yy · ω)) (arr fun k => (z k ω).re)
        (arr fun k => (z k ω).im)).2.2.2.2 ∂P = ((K : ℝ) - 1) / K * σ2 := by
  simp only [reduce_M2 hK]
  exact StatModel.emp_var_expectation hK hL2 hunc hvar

/-- the generated reducer's mean product z̄ = (mu_r, mu_i) has second moment σ²/K about m -/
theorem mean_z_variance (hK : 0 < K) (xx yy : Fin K → Ω → ℝ) (z : Fin K → Ω → ℂ) (m : ℂ)
    (σ2 : ℝ) (hL2 : ∀ k, MemLp (z k) 2 P)
    (hunc : ∀ i j, i ≠ j → ∫ ω, inner ℝ (z i ω - m) (z j ω - m) ∂P = 0)
    (hvar : ∀ k, ∫ ω, ‖z k ω - m‖ ^ 2 ∂P = σ2) :
    let R := fun ω => Gen._reduce_stats_nb (arr (xx · ω)) (arr (yy · ω))
      (arr fun k => (z k ω).re) (arr fun k => (z k ω).im)
    ∫ ω, ‖(⟨(R ω).2.2.1, (R ω).2.2.2.1⟩ : ℂ) - m‖ ^ 2 ∂P = σ2 / K := by
  intro R
  have e : ∀ ω, (⟨(R ω).2.2.1, (R ω).2.2.2.1⟩ : ℂ) = (K : ℝ)⁻¹ • ∑ k, z k ω :=
    fun ω => reduce_mu hK (xx · ω) (yy · ω) (z · ω)
  simp only [e]
  exact StatModel.mean_z_variance hK hL2 hunc hvar

/-- `emp_var_vs_true`: the GENERATED `XY_emp_var` (= M2/navg, navg = K) of the random bin has
    expectation (K−1)/K · 𝔼|z̄ − m|² = (K−1)/K · σ²/K: the library's empirical variance is the
    variance of the mean product up to the factor (K−1)/K, i.e. it is biased LOW by the fraction
    1/K (it divides the population scatter, not the sample scatter, by K).  Auto and cross. -/
theorem emp_var_vs_true (hK : 0 < K) (xx yy : Fin K → Ω → ℝ) (z : Fin K → Ω → ℂ) (m : ℂ)
    (σ2 : ℝ) (hL2 : ∀ k, MemLp (z k) 2 P)
    (hunc : ∀ i j, i ≠ j → ∫ ω, inner ℝ (z i ω - m) (z j ω - m) ∂P = 0)
    (hvar : ∀ k, ∫ ω, ‖z k ω - m‖ ^ 2 ∂P = σ2) (d : BinData ℝ) (hn : d.navg = K) :
    let R := fun ω => Gen._reduce_stats_nb (arr (xx · ω)) (arr (yy · ω))
      (arr fun k => (z k ω).re) (arr fun k => (z k ω).im)
    let D : Ω → BinData ℝ := fun ω => { d with M2 := (R ω).2.2.2.2 }
    let zbar : Ω → ℂ := fun ω => ⟨(R ω).2.2.1, (R ω).2.2.2.1⟩
    (∫ ω, Auto.XY_emp_var (D ω) ∂P = ((K : ℝ) - 1) / K * ∫ ω, ‖zbar ω - m‖ ^ 2 ∂P ∧
      ∫ ω, Cross.XY_emp_var (D ω) ∂P = ((K : ℝ) - 1) / K * ∫ ω, ‖zbar ω - m‖ ^ 2 ∂P) ∧
    (∫ ω, Auto.XY_emp_var (D ω) ∂P = ((K : ℝ) - 1) / K * (σ2 / K) ∧
      ∫ ω, Cross.XY_emp_var (D ω) ∂P = ((K : ℝ) - 1) / K * (σ2 / K)) := by
  intro R D zbar
  have hKr : (0 : ℝ) < K := Nat.cast_pos.2 hK
  have hz : ∫ ω, ‖zbar ω - m‖ ^ 2 ∂P = σ2 / K := mean_z_variance hK xx yy z m σ2 hL2 hunc hvar
  have hM : ∫ ω, (R ω).2.2.2.2 ∂P = ((K : ℝ) - 1) / K * σ2 :=
    emp_var_expectation hK xx yy z m σ2 hL2 hunc hvar
  have eA : ∀ ω, Auto.XY_emp_var (D ω) = (R ω).2.2.2.2 / K := by
    intro ω
    simp only [Auto.XY_emp_var, D, hn, RL.gt_eq, RL.ofNat_eq, Nat.cast_zero, hKr, decide_true,
      if_true]
  have eC : ∀ ω, Cross.XY_emp_var (D ω) = (R ω).2.2.2.2 / K := by
    intro ω
    simp only [Cross.XY_emp_var, D, hn, RL.gt_eq, RL.ofNat_eq, Nat.cast_zero, hKr, decide_true,
      if_true]
  have hA : ∫ ω, Auto.XY_emp_var (D ω) ∂P = ((K : ℝ) - 1) / K * (σ2 / K) := by
    simp only [eA]; rw [integral_div, hM]; ring
  have hC : ∫ ω, Cross.XY_emp_var (D ω) ∂P = ((K : ℝ) - 1) / K * (σ2 / K) := by
    simp only [eC]; rw [integral_div, hM]; ring
  exact ⟨⟨by rw [hA, hz], by rw [hC, hz]⟩, hA, hC⟩

/-- … and for K = 1 the generated empirical variance is identically 0 (no scatter information),
    whatever the data -/
theorem emp_var_K1_zero (xx yy : Fin 1 → ℝ) (z : Fin 1 → ℂ) (d : BinData ℝ) :
    let R := Gen._reduce_stats_nb (arr xx) (arr yy) (arr fun k => (z k).re) (arr fun k => (z k).im)
    Auto.XY_emp_var { d with M2 := R.2.2.2.2 } = 0 ∧
    Cross.XY_emp_var { d with M2 := R.2.2.2.2 } = 0 := by
  intro R
  have h0 : R.2.2.2.2 = 0 := by
    simp only [R, reduce_M2 Nat.one_pos]
    simp
  constructor <;>
    simp only [Auto.XY_emp_var, Cross.XY_emp_var, h0, zero_div, RL.zero_eq, ite_self]

/-- the same under the textbook hypothesis: pairwise INDEPENDENT products with common mean m -/
theorem emp_var_vs_true_of_indep (hK : 0 < K) (xx yy : Fin K → Ω → ℝ) (z : Fin K → Ω → ℂ)
    (m : ℂ) (σ2 : ℝ) (hL2 : ∀ k, MemLp (z k) 2 P) (hind : Pairwise fun i j => z i ⟂ᵢ[P] z j)
    (hmean : ∀ k, ∫ ω, z k ω ∂P = m) (hvar : ∀ k, ∫ ω, ‖z k ω - m‖ ^ 2 ∂P = σ2)
    (d : BinData ℝ) (hn : d.navg = K) :
    let R := fun ω => Gen._reduce_stats_nb (arr (xx · ω)) (arr (yy · ω))
      (arr fun k => (z k ω).re) (arr fun k => (z k ω).im)
    let D : Ω → BinData ℝ := fun ω => { d with M2 := (R ω).2.2.2.2 }
    let zbar : Ω → ℂ := fun ω => ⟨(R ω).2.2.1, (R ω).2.2.2.1⟩
    ∫ ω, Auto.XY_emp_var (D ω) ∂P = ((K : ℝ) - 1) / K * ∫ ω, ‖zbar ω - m‖ ^ 2 ∂P ∧
    ∫ ω, Cross.XY_emp_var (D ω) ∂P = ((K : ℝ) - 1) / K * ∫ ω, ‖zbar ω - m‖ ^ 2 ∂P ∧
    ∫ ω, ‖zbar ω - m‖ ^ 2 ∂P = σ2 / K := by
  intro R D zbar
  have hunc := StatModel.uncorrelated_of_indep hL2 hind hmean
  have h := emp_var_vs_true hK xx yy z m σ2 hL2 hunc hvar d hn
  exact ⟨h.1.1, h.1.2, mean_z_variance hK xx yy z m σ2 hL2 hunc hvar⟩

/-- non-vacuity of `Gxx_dev_is_sd_at_truth` / `emp_var_vs_true`: in the product-of-exponentials
    model (auto mode: the reducer receives `xx = yy = xyr = p`, `xyi = 0`) all hypotheses hold, so
    the generated `Gxx_dev` at the truth is the standard deviation of the generated estimate there -/
example (hK : 0 < K) {μ : ℝ} (hμ : 0 < μ) (d : BinData ℝ) (hfs : 0 < d.fs) (hS2 : 0 < d.S2)
    (hXX : d.XX = μ) (hn : d.navg = K) :
    ∃ (P : Measure (Fin K → ℝ)) (_ : IsProbabilityMeasure P) (p : Fin K → (Fin K → ℝ) → ℝ),
      Auto.Gxx_dev d = Real.sqrt (Var[fun ω => Auto.Gxx { d with XX :=
        (Gen._reduce_stats_nb (arr (p · ω)) (arr (p · ω)) (arr (p · ω)) (arr fun _ : Fin K => 0)).1 }; P]) := by
  obtain ⟨P, hP, p, hL2, hind, _, hmean, hvar⟩ := StatModel.hypotheses_satisfiable K hμ
  exact ⟨P, hP, p, (Gxx_dev_is_sd_at_truth hK p p p (fun _ _ => 0) μ hμ.le hL2 hind hmean hvar d
    hfs hS2 hXX hn).1.1⟩

end Main

#print axioms mean_estimator_unbiased
#print axioms mean_estimator_variance
#print axioms Gxx_dev_is_sd_at_truth
#print axioms Gxx_error_is_relative_sd
#print axioms periodogram_exp_law_cv_one
#print axioms emp_var_expectation
#print axioms mean_z_variance
#print axioms emp_var_vs_true
#print axioms emp_var_K1_zero
#print axioms emp_var_vs_true_of_indep
#print axioms StatModel.hypotheses_satisfiable
#print axioms StatModel.vector_hypotheses_satisfiable
